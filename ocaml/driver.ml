(* driver.ml — trusted glue: reads cases (property name + hex numbers per line), calls the
   extracted model, prints result lines (hex numbers).  No logic lives here. *)
module M = Lace_model

let rec pos_of_int (i : int) : M.positive =
  if i = 1 then M.XH
  else if i land 1 = 0 then M.XO (pos_of_int (i lsr 1))
  else M.XI (pos_of_int (i lsr 1))

let n_of_int (i : int) : M.n = if i = 0 then M.N0 else M.Npos (pos_of_int i)

let rec int_of_pos (p : M.positive) : int =
  match p with M.XH -> 1 | M.XO q -> 2 * int_of_pos q | M.XI q -> 2 * int_of_pos q + 1

let int_of_n (x : M.n) : int = match x with M.N0 -> 0 | M.Npos p -> int_of_pos p

let parse_nums (toks : string list) : M.n list =
  List.map (fun t -> n_of_int (int_of_string ("0x" ^ t))) toks

let print_line oc (l : M.n list) =
  let b = Buffer.create 128 in
  List.iteri (fun i x ->
    if i > 0 then Buffer.add_char b ' ';
    Buffer.add_string b (Printf.sprintf "%x" (int_of_n x))) l;
  Buffer.add_char b '\n';
  Buffer.output_buffer oc b

let dispatch (name : string) (args : M.n list) : M.n list list =
  match name with
  | "C02" -> M.run_c02 false args
  | "C02S" -> M.run_c02 true args
  | "C03" -> M.run_c03 false args
  | "C03S" -> M.run_c03 true args
  | "ASM" -> M.run_asm args
  | "OBJ" -> M.run_obj args
  | "OBJB" -> M.run_objb args
  | "WRITE" -> M.run_write args
  | "LC3" -> M.run_lc3 args
  | "SRC" -> M.run_src args
  | "DBG" -> M.run_dbg args
  | "C20" -> M.run_c20 args
  | "C14" -> M.run_c14 args
  | "DBGT" -> M.run_dbgt args
  | "DBGS" -> M.run_dbgs args
  | "WATCH" -> M.run_watch args
  | "FEAT" -> M.run_feat args
  | "FEAT2" -> M.run_feat2 args
  | _ -> failwith ("unknown case kind " ^ name)

let () =
  let ic = open_in Sys.argv.(1) in
  let oc = open_out Sys.argv.(2) in
  (try
    while true do
      let line = input_line ic in
      let toks = List.filter (fun s -> s <> "") (String.split_on_char ' ' line) in
      match toks with
      | [] -> ()
      | name :: rest ->
          let out = dispatch name (parse_nums rest) in
          output_string oc ("# " ^ name ^ "\n");
          List.iter (print_line oc) out;
          flush oc   (* one flush per case: the orchestrator's watchdog reads progress off the file's size *)
    done
  with End_of_file -> ());
  close_out oc
