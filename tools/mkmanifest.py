#!/usr/bin/env python3
"""Regenerates /verif/MANIFEST.json from the table below (kept in one place so it stays valid)."""
import json, subprocess, os
ROOT = os.path.dirname(os.path.dirname(os.path.abspath(__file__)))
TECH = "Coq 8.16 theorems about a hand-written model (SPEC/MODEL refinement, induction, exhaustive 16-bit sweeps lifted by lemma) + differential correspondence check model-vs-code"
NOTE = ("trusted: Coq kernel + vm_compute; no axioms (Print Assumptions must say 'Closed under the global context'); ExtrOcamlBasic extraction; "
        "ocaml/driver.ml and harness/ glue; lace_verif hooks (add-only); the hand-written MODEL is tied to the Rust code only by the correspondence runs. ")
CLAIMED = {
 "C02": dict(ref="6/C02", text="Theorem C02_exec (axiom-free): the transcription of RunState::execute equals the ISA step of the decoded instruction for ALL 65,536 words, both feature settings and ALL well-formed states (registers, PC, CC, 65,536 memory words, console); plus C02_no_panic, C02_wf, C02_unsupported. Tie: RunState::execute vs the extracted model on every instruction word for a set of structured states, complete machine state compared.",
             note="Correspondence is exhaustive in instruction words, sampled in states. RTI is outside the claim."),
 "C03": dict(ref="6/C03", text="Theorems C03_load/_load_shape/_load_accepts (loader = SPEC loader, initial machine as the property describes, accept iff words+HALT fit), C03_run (run loop = reference run for every fuel: same fetch trace, final state, output, stop reason), C03_fetch_bounds (no fetch outside [origin,xFE00), invariant over the trace), C03_finished_pc. Tie: from_raw+run under a fetch budget vs the extracted model on structured and random images, comparing stop kind, exit code, full state, output, input consumption and fetch-trace hash.",
             note="Partial: real stdin/stdout/TTY behaviour (is_terminal, flushing, raw mode) is outside the model and observed only through the hook buffers."),
 "C01": dict(ref="6/C01", text="Theorems C01_emit_decode (every word emitted for a statement decodes, by the ISA decoder of Isa.v, to exactly the written instruction: opcode, register fields, sign-truncated immediates, trap vector; proved by exhaustive sweeps over every operand combination of every form), C01_pcrel_target (PC after fetch + SEXT(field) = address of the referenced statement, for every origin/line/label line), C01_field (field = distance mod 2^n, produced iff it fits). Layout independence (C01_layout) is NOT yet a theorem: it is carried by the correspondence, which assembles every generated program in many layouts/spellings through lace's public API and the extracted char-level model (lexer, preprocessor, parser, symbol table, backpatch, emit) and compares origin, every word, breakpoints and statement spans.",
             note="Partial: the lexer-level layout theorem is missing (stated in DESIGN.md); whole-program induction (image = map encode) is covered only through per-statement theorems plus correspondence."),
 "C04": dict(ref="6/C04", text="Theorems C04_signed_iff / C04_unsigned_iff (a literal is accepted iff its value lies in the field's range), C04_expect_lit (accepted values are handed on unchanged), C04_offset_iff (a label reference is accepted iff its distance fits the 9/10/11-bit field), C04_no_spill (accepted operands never spill into a neighbouring field), C04_dup_label, C04_undefined_label. Tie: exhaustive boundary grid (every literal-taking form x boundary values x spellings, all trap vectors, label distances at/inside/beyond the range via .blkw, label/orig errors) through the public API vs the extracted model.",
             note="The whole-program 'iff' is assembled from operand-level theorems; the induction over the statement list is not mechanised yet."),
 "C05": dict(ref="6/C05", text="Theorem C05_total (axiom-free): for EVERY source text (any list of Unicode scalar values), feature setting and inherited symbol table, the char-level model of the assembler (lexer, preprocessor, parser, backpatch, emission) ends in an image or a diagnostic, never in Bad — the model's rendering of unreachable!/assert!/unfilled-label panics and of a loop outliving its input (fuel is derived from the input length and proved sufficient); C05_total_check for the check/watch path; C05_lexer_progress (every token consumes input). Tie: 20k+ mutated/adversarial sources per run (multi-byte characters at and abutting every token position, NUL, unterminated strings, size extremes) through the public API under catch_unwind vs the extracted model; every rejection is rendered with miette and its labelled spans are checked to lie inside the source.",
             note="Partial: 'diagnostic points inside the source' is checked on the implementation for every generated rejection but is not yet a theorem about the model's spans; arithmetic-overflow freedom is modelled where the code uses plain operators (line counter) and by wrapping where the fixed code wraps; miette rendering and allocation limits are outside the model."),
 "C18": dict(ref="6/C18", text="Theorems C18_asm_flag (for every source and symbol table: the flag-off result is exactly the flag-on result or the diagnostic naming the stack feature), C18_asm_off (an identifier spelled push/pop/call/rets in any letter case yields that diagnostic), C18_vm_off (opcode 0xD with the flag off exits 1 executing nothing, for every word and state), C18_vm_irrelevant (a run that never fetches an opcode-0xD word is identical under both flag values, by induction over the run). Tie: assembler and VM correspondence under both flag values (mnemonics in every position and letter case, raw 0xD words reached / not reached / as data).",
             note="clap's parsing of -f and Features::from_str are not modelled (exercised by the CLI checks of C06/C07)."),
 "C19": dict(ref="6/C19", text="Theorem C19_pure: in the model the symbol table is the only state that survives an assembly; after the documented reset, assembling B equals assembling B from scratch whatever A was (C19_needs_reset shows the hypothesis is not vacuous). What a theorem about the model cannot show — that the real process has no OTHER leaking state — is carried by the correspondence: sequences of sources in one process (pairs with and without reset, triples, repetitions) through the public API vs the model, plus a direct comparison of the implementation's answer for B in a sequence with its answer for B alone.",
             note="Partial by nature: the theorem is about the model's explicit state; hidden state in the Rust process (thread-locals, manual StaticSource::reclaim) is covered only by the runs."),
 "C06": dict(ref="6/C06", text="Theorems C06_bytes (compile writes origin-or-x3000 then the words, big-endian, 2(n+1) bytes), C06_roundtrip (loading the object file yields exactly the machine `run` builds from the source, hence the same run for every input and budget by C03_run), C06_loader_iff (accepted iff even length, at least one word, image+HALT fits below 2^16), C06_loader_rejects (everything else is an error exit, status 1 or xEE, never a panic). Tie: the real binary — `lace compile` bytes vs the model's bytes; `lace run x.lc3` vs `lace run x.asm` vs the model (exit status, program output, with stdin); the loader fed byte strings of every small length, odd lengths, boundary and random images.",
             note="C06_roundtrip assumes 16-bit words in the image (true of every image the assembler model emits; checked on every generated program, not yet a theorem). File-system and process behaviour are the OS's."),
 "C07": dict(ref="6/C07", text="Theorem C07_agree: in the model of main.rs the three subcommands share one assembling function that includes the emission of every statement, so `check` succeeds iff `compile` succeeds iff `run` gets past assembly, for every source and feature setting (trivial once the code is repaired — the substance is the tie). Tie: exit status of the real `lace check` / `lace compile` / `lace run` on the same file under each feature setting vs each other and vs the model's verdict, on sources whose only error surfaces at emission (every statement position x every PC-relative instruction), sources using the stack mnemonics, the C04 boundary corpus and mutated programs; thorough: one real `lace watch` process driven through file rewrites.",
             note="clap and hotwatch are not modelled; `watch` is exercised for real only in the thorough tier."),
 "C08": dict(ref="6/C08", text="Theorem C08_atomic over an abstract file system and a write oracle: exit 0 implies the destination holds the complete object file; a non-zero exit leaves every path as it was (for every oracle outcome except a truncated regular file, which is named and excluded); no other path is ever touched; C08_failure_untouched: an assembly failure at any statement never touches the file system. Tie: fault enumeration on the real binary — an out-of-range label reference injected at EVERY statement position 0..n (n up to 40), parse/lex/label errors, x destination absent / pre-existing / /dev/full / missing directory / a directory in place of the file; exit status and destination bytes before/after.",
             note="Partial: real short writes to a regular file after `File::create` truncated it are represented only by the oracle outcome WWriteFailTruncated (outside the property's quantifier; see DESIGN.md)."),
}
PENDING_REASON = "not claimed yet: its model/theorem/correspondence check is not built at this commit (work in progress, see DESIGN.md section 11)"
NOT_APPLICABLE = {}

def main():
    log = subprocess.check_output(['git', '-C', '/repo', 'log', '--format=%H %s']).decode().split('\n')
    hook_commits = [l.split()[0] for l in log if l.split()[1:2] == ['verif'] and 'hooks' in l]
    m = {"version": 1, "setup_cmd": "./lv setup",
         "hooks": {"guard": "lace_verif", "enable": "RUSTFLAGS=\"--cfg lace_verif\" (set by ./lv for every harness/lace build)",
                   "baseline_off_cmd": "cd /repo && cargo test --workspace --no-fail-fast --offline",
                   "source_commits": hook_commits, "add_only": True},
         "engines": [{"name": "lv", "path": "/verif/lv", "serves_properties": sorted(CLAIMED),
                      "kind_free_text": "Coq 8.16 development (coq/) + extracted OCaml model driver (ocaml/) + Rust correspondence harness (harness/) + python orchestrator (lvlib/)"}],
         "checks": [], "not_applicable": [],
         "notes": "See DESIGN.md. Known findings and repaired defects: KNOWN_FINDINGS.json."}
    for i in range(1, 21):
        pid = f"C{i:02d}"
        if pid in CLAIMED:
            c = CLAIMED[pid]
            m["checks"].append({"property_id": pid, "quick_cmd": f"./lv check {pid} --tier quick",
                                "thorough_cmd": f"./lv check {pid} --tier thorough",
                                "evidence_file": f"/verif/evidence/{pid}.json",
                                "replay_cmd_template": f"./lv replay {pid} {{path}}", "engine": "lv",
                                "level_claimed": {"category": "proof", "text": c["text"], "design_ref": c["ref"]},
                                "level_note": NOTE + c["note"], "technique": c.get("technique", TECH)})
        else:
            m["not_applicable"].append({"property_id": pid, "reason": NOT_APPLICABLE.get(pid, PENDING_REASON)})
    with open(os.path.join(ROOT, "MANIFEST.json"), "w") as f:
        json.dump(m, f, indent=1); f.write("\n")

if __name__ == "__main__":
    main()
