#!/usr/bin/env python3
"""trymutant.py <outdir> <ID> [<ID>...] — confirm a seeded change and run checks against it.

Applies <outdir>/patch.diff to /repo (git apply), confirms that the 72 tests still pass and that
the demonstration (<outdir>/demo.sh <lace>) fails with it, runs `./lv check <ID>` for the given
properties, then ALWAYS undoes the change (git checkout -- .) and confirms the demonstration
passes on the clean tree.  Prints a JSON summary."""
import json, os, subprocess, sys, re
ROOT = os.path.dirname(os.path.dirname(os.path.abspath(__file__)))

def sh(cmd, cwd=None, timeout=3600):
    p = subprocess.run(cmd, shell=True, cwd=cwd, stdout=subprocess.PIPE, stderr=subprocess.STDOUT, text=True, timeout=timeout,
                       env=dict(os.environ, CARGO_NET_OFFLINE="true", RUST_BACKTRACE="0"))
    return p.returncode, p.stdout

def demo(out, binary):
    if os.path.exists(os.path.join(out, "demo.sh")):
        rc, o = sh(f"bash demo.sh {binary}", cwd=out, timeout=600)
        return rc, o[-600:]
    return None, "no demo.sh"

def main():
    out = os.path.abspath(sys.argv[1]); pids = sys.argv[2:]
    res = {"outdir": out, "checks": {}}
    rc, o = sh("git status --porcelain", cwd="/repo")
    if o.strip():
        print("refusing: /repo has uncommitted changes"); return 2
    rc, o = sh(f"git apply {out}/patch.diff", cwd="/repo")
    if rc != 0:
        print("patch does not apply:", o); return 2
    try:
        rc, o = sh("cargo test --workspace --no-fail-fast --offline 2>&1 | grep -E '^test result'", cwd="/repo")
        passed = sum(int(x) for x in re.findall(r"(\d+) passed", o)); failed = sum(int(x) for x in re.findall(r"(\d+) failed", o))
        res["tests"] = {"passed": passed, "failed": failed}
        rc, o = sh("cargo build --offline 2>&1 | tail -1", cwd="/repo")
        res["demo_with_change"] = demo(out, "/repo/target/debug/lace")
        for pid in pids:
            rc, o = sh(f"./lv check {pid}", cwd=ROOT, timeout=3600)
            viol = [l for l in o.split("\n") if l.startswith("VIOLATION")]
            detail = []
            for v in viol[:3]:
                m = re.search(r"replay=(\S+)", v)
                if m and os.path.exists(m.group(1)):
                    d = json.load(open(m.group(1)))
                    detail.append({k: (str(d[k])[:300]) for k in ("kind", "why", "tag", "case", "sources", "implementation", "model", "source", "class") if k in d})
            res["checks"][pid] = {"exit": rc, "violations": len(viol), "lines": viol[:4], "detail": detail, "tail": o.strip().split("\n")[-2:]}
    finally:
        sh("git checkout -- .", cwd="/repo")
    rc, o = sh("cargo build --offline 2>&1 | tail -1", cwd="/repo")
    res["demo_clean"] = demo(out, "/repo/target/debug/lace")
    print(json.dumps(res, indent=1, ensure_ascii=False))
    return 0

if __name__ == "__main__":
    sys.exit(main())
