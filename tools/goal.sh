#!/bin/bash
# usage: goal.sh theories/X.v LINE   -- show the goals after line LINE of the file
f=$1; n=$2
tmp=/var/tmp/goal_$$.v
head -n "$n" "$f" > $tmp
echo "Show. " >> $tmp
cd /verif/coq && timeout 300 coqc -noglob -Q theories Lace $tmp 2>&1 | grep -v "^Error: There are pending proofs\|pending proofs" | head -${3:-80}
rm -f $tmp /var/tmp/goal_$$.vo* /var/tmp/.goal_$$.aux
