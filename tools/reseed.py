#!/usr/bin/env python3
"""reseed.py [<dir> ...] — regression over the confirmed seeded changes in seeded/.

For every seeded/<id>/ (or the ones named): apply patch.diff to /repo (git apply), run the quick check of
the property it breaks, ALWAYS undo (git checkout -- .), and require that the check exited 1 with at
least one VIOLATION line that does NOT end in no-failing-input-found (a concrete failing input).
Nothing else may touch /repo while this runs.  Prints one line per change and a summary; exit 1 if a
change is no longer caught."""
import json, os, subprocess, sys, time
ROOT = os.path.dirname(os.path.dirname(os.path.abspath(__file__)))
REPO = os.environ.get("LACE_REPO", "/repo")      # a snapshot of /repo when run from `vp run --with-repo`


def sh(cmd, cwd=None, timeout=3600):
    p = subprocess.run(cmd, shell=True, cwd=cwd, stdout=subprocess.PIPE, stderr=subprocess.STDOUT, text=True,
                       timeout=timeout, env=dict(os.environ, CARGO_NET_OFFLINE="true", RUST_BACKTRACE="0"))
    return p.returncode, p.stdout


def main():
    names = sys.argv[1:] or sorted(n for n in os.listdir(os.path.join(ROOT, "seeded")) if os.path.isfile(os.path.join(ROOT, "seeded", n, "meta.json")))
    rc, o = sh("git status --porcelain", cwd=REPO)
    if o.strip():
        print(f"refusing: {REPO} has uncommitted changes")
        return 2
    missed = []
    for name in names:
        d = os.path.join(ROOT, "seeded", name)
        meta = json.load(open(os.path.join(d, "meta.json")))
        if meta.get("superseded"):
            print(f"{name}: superseded (not run): {meta['superseded'][:90]}...")
            continue
        pid = meta["breaks_property"]
        t0 = time.time()
        rc, o = sh(f"git apply {d}/patch.diff", cwd=REPO)
        if rc != 0:
            print(f"{name}: patch does not apply any more ({o.strip()[:120]})")
            missed.append(name)
            continue
        try:
            rc, o = sh(f"./lv check {pid}", cwd=ROOT)
        finally:
            sh("git checkout -- .", cwd=REPO)
        viol = [l for l in o.split("\n") if l.startswith("VIOLATION")]
        real = [l for l in viol if not l.rstrip().endswith("no-failing-input-found")]
        ok = rc == 1 and bool(real)
        print(f"{name}: {'caught' if ok else 'MISSED'} by {pid} (exit {rc}, {len(real)} failing input(s), "
              f"{len(viol) - len(real)} without, {time.time() - t0:.0f}s)", flush=True)
        if not ok:
            missed.append(name)
    rc, o = sh("git status --porcelain", cwd=REPO)
    print(f"summary: {len(names) - len(missed)}/{len(names)} caught; missed: {missed}; /repo clean: {not o.strip()}")
    return 1 if missed else 0


if __name__ == "__main__":
    sys.exit(main())
