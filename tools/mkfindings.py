#!/usr/bin/env python3
"""Regenerates KNOWN_FINDINGS.json from the table below, looking up each fix commit in /repo by its subject."""
import json, subprocess, os
ROOT = os.path.dirname(os.path.dirname(os.path.abspath(__file__)))
LOG = subprocess.check_output(['git', '-C', '/repo', 'log', '--format=%h %s']).decode().split('\n')

def rev(part):
    for l in LOG:
        if part in l:
            return l.split()[0]
    raise SystemExit("no commit matching " + part)

FIXED = [
 ("C02", "F22-jsrr-r7", "JSRR reads its base", "JSRR R7 jumped to the return address (R7 written before the base register was read); witness word x41C0 with R7=0, PC=x3000"),
 ("C02", "F1-stack-overflow", "stack pointer arithmetic", "PUSH/CALL with R7=0 and POP/RETS with R7=xFFFF panicked (debug overflow); witness words xD400, xDC00 with R7=0"),
 ("C03", "F2-puts-wrap", "walk memory with wrapping", "PUTS/PUTSP with a string reaching xFFFF panicked in the range iterator; witness words xF022, xF024 with R0=xFFFF"),
 ("C03", "F23-putsp-order", "PUTSP prints bits", "PUTSP printed bits [15:8] before [7:0]; witness xF024 on words x4241 x1B43 x00C9: printed BAC, ISA: ABC\\xC9"),
 ("C04", "F3-unsigned-range", "unsigned literal range check", "`.orig x8000`..xFFFF and `trap x80`..xFF were rejected (Bits::Unsigned(n) tested < 2^(n-1))"),
 ("C05", "F4-literal-offset-overflow", "negative literal PC offsets", "`br #-2` panicked in debug builds (u16 `line + 1 + val`)"),
 ("C05", "F6-display-unreachable", "diagnostics can name a data directive", "`add r0 .fill x1` and `add .break` reached unreachable! in Display for TokenKind"),
 ("C05", "F5-hex-ident-slice", "label starting with `x`", "source `x\\u00e9` panicked: hex() fell through to ident(), which sliced inside the multi-byte character"),
 ("C05", "F8-distance-overflow", "label distances around 0x8000", "a label reference 0x8000/0x8001 lines away overflowed i16 in bit_offs (debug panic; release accepted a wrong word)"),
 ("C01", "F24-offset6-spill", "negative LDR/STR offsets", "`ldr r0 r1 #-1` assembled to x60FF instead of x607F (offset6 not masked, spilled into BaseR)"),
 ("C05", "F7-line-counter", "programs with more than 65,534 statements", "the 16-bit line counter overflowed on programs beyond the address space (debug panic, release wrong offsets)"),
 ("C01", "F21-comment-abutting", "a comment may directly follow", "`add r0 r0 r1;c` was rejected while `add r0 r0 r1 ;c` was accepted"),
 ("C17", "F19-span-at-offset-0", "an operand-less statement at the very start", "source `halt\\n`: the statement at byte offset 0 got an empty span, `assembly` showed an empty line"),
 ("C07", "F9b-check-features", "`check` and `watch` initialise the feature flags", "`lace check` on any source with push/pop/call/rets panicked (features not initialised)"),
 ("C07", "F9a-check-emission", "`check` and `watch` report label references", "`a .blkw x200` / `br a`: check exit 0, compile exit 1"),
 ("C08", "F10-compile-atomic", "`compile` writes the object file only after", "an emission error left a truncated object file; `lace compile w.asm /dev/full` exited 0; an uncreatable destination panicked"),
 ("C13", "F13-F26-address-offset", "label and PC offsets are added without", "labels/PC above x7FFF never resolved; `goto xFDFF; goto ^x7FFF` was accepted and set PC=x7DFE (i16 wrap in add_address_offset)"),
 ("C16", "F18-pc-ffff-livelock", "the debugger pauses instead of spinning", "`continue` on `ld r0 x; jmp r0; x .fill xFFFF` never returned; `step` at PC=xFFFF overflowed pc+1"),
 ("C11", "F12-stale-current-breakpoint", "a breakpoint fires on every arrival", "`break add x3002; continue; goto x3001; continue` ran through x3002; a one-instruction loop paused every second arrival"),
 ("C10", "F25-finish-stale-instr", "`step out` looks at the instruction", "`goto <address of a RET>; step out` ran past that RET (instruction classified before the commands of the pause)"),
 ("C10", "F11-step-over-branch", "`step` executes exactly one instruction unless", "`step` on a taken `brp loop` ran the whole loop (StepOver awaited pc+1 for non-calls)"),
 ("C14", "F14-integer-overflow", "debugger integer arguments above i32::MAX", "`print 2147483648`, `move r1 2147483649` panicked in debug builds and wrapped negative in release builds (guard `integer > MAX / radix` passes 214748364)"),
 ("C14", "F28-print-default", "`print` without an argument shows", "`print` / `p` alone answered 'Missing argument' although help.txt documents `print(p) LOCATION?` (default: PC)"),
 ("C15", "F16-eval-label-offset", "`eval` resolves label operands relative", "after `step into 2`, `eval ld r3 v` loaded from v+2 (AsmLine::new(0, ..))"),
 ("C15", "F17-eval-surplus-operands", "`eval` refuses an instruction followed by surplus", "`eval add r1 r1 r1 r1` panicked in debug builds / executed in release builds"),
 ("C20", "F20-ctrl-right-byte-index", "Ctrl+Right returns a character index", "keys e-acute, Ctrl+Right, a tripped assert!(char_index <= char_count) (byte index used as char index)"),
 ("C08", "F30-nonutf8-destination-name", "a destination name that is not valid UTF-8", "`lace compile t.asm $'a\\377.lc3'` wrote the complete object file and then panicked (exit 101) in file_message's `to_str().unwrap()`: non-zero exit with the destination changed"),
 ("C06", "F31-huge-object-file", "an object file far longer than the address space", "`truncate -s 200G big.lc3; lace run big.lc3` aborted (SIGABRT, status 134: `Vec::with_capacity(file size)` before any check) instead of the 'too long' error exit; a 4 GiB file was read whole before being rejected"),
 ("C18", "F32-flag-before-subcommand", "written before the sub-command takes effect", "`lace -f stack run s.asm` (also check / compile / debug, and `run img.lc3`) parsed and validated the flag, then ignored it: the extension source was rejected naming the feature although the flag was given"),
 ("C20", "F33-blank-history-line", "blank lines in the debugger", "history file `reg`, `   `, ``, `print r1` (hand-edited), keys Up Enter Up Up Enter ...: Enter on a recalled blank line submitted it - read_line's debug_assert panicked (status 101) in debug builds, release builds handed an empty command to the parser"),
 ("C09", "F34-instruction-counter", "count of instructions since the last prompt is 64 bits", "a terminating program that executes 2^32 instructions under one `continue` (nested countdown, outer count x8001) ended with a panic (`attempt to add with overflow`, status 101, after 8.5 min) under `lace debug` in the debug profile; plain `lace run` exits 0"),
 ("C06", "F35-extension-not-utf8", "extension is not valid UTF-8", "`lace run $'prog.lc3\\377'` (also `prog.\\377`, through `run`, the bare form and `debug`) panicked at `ext.to_str().unwrap()` (status 101) instead of the 'unknown extension' error exit"),
 ("C08", "F36-stdout-closes", "a progress message that cannot be written", "`lace compile p.asm out.lc3 | head -n 1` (the reader of stdout gone after the first line; made deterministic with a FIFO source): the object file was written completely and then `println!` panicked on EPIPE - exit 101 with the destination replaced / created"),
 ("C09", "F37-prompt-newline-on-stdout", "interactive prompt ends its line on stderr", "`lace debug p.asm > out` with the commands typed on a terminal (step / registers / continue / quit): every entered line - a blank Enter too - added a line break to the program's stdout (`\\n\\n\\nAB\\n\\n Halted` against `AB\\n Halted` of the plain run): Terminal::read_line_raw ended the edited line with println!()"),
 ("C20", "F38-cursor-column-overflow", "cursor beyond column 65,528", "history file with a line of 65,529 characters, key Up (or 65,530 characters and Up, Left; or 65,528 and Up, a character): print_prompt computed `(PROMPT.len() + cursor) as u16` = 65,535 and crossterm's MoveToColumn added 1 - panic `attempt to add with overflow`, status 101, terminal left in raw mode"),
 ("C08", "F39-short-write-truncates", "writes a regular or new destination next to itself", "file-size limit of 1 KiB (`ulimit -f 1`, SIGXFSZ ignored; a full disk or quota behaves alike) and a 2,004-byte image: `lace compile` exited 1 with the previous contents of the destination replaced by the first 1,024 bytes of the new image (`File::create` truncates before `write_all` fails); an absent destination was left behind as a 1,024-byte file"),
 ("C08", "F41-link-or-long-name-truncated", "replaces the file the link names", "file-size limit of 1 KiB (SIGXFSZ ignored) and a 2,004-byte image, destination a symbolic link to a regular file, or a (new or existing) file whose 249-byte name left no room for the temporary file's name `.NAME.PID.tmp`: `lace compile` exited 1 with the file behind the link / the destination holding the first 1,024 bytes of the new image - both fell back to the direct, truncating write"),
 ("C08", "F42-dangling-link-partial-file", "dangling symbolic link writes the file", "file-size limit of 1 KiB (SIGXFSZ ignored), a 2,004-byte image and a destination `out/latest.lc3` that is a symbolic link to a file that does not exist yet: `lace compile` exited 1 and left the first 1,024 bytes of the image in a new file behind the link (the dangling link was written through directly)"),
 ("C14", "F40-stdin-not-utf8", "bytes on the debugger's piped stdin which are not UTF-8", "`printf 'move r1 1\\n\\377\\nmove r2 2\\nregisters\\nexit\\n' | lace debug --minimal p.asm` (also `echo caf\\351`, a character truncated by the line end or by end of input, an encoded surrogate): Stdin::read_char panicked (`uh oh: ()`, stdin.rs:23, status 101) - the line was neither parsed nor rejected, the session and the program's run were lost (C09: `echo` + `quit` no longer equal the plain run)"),
 ("C20", "F27-ctrl-right-trailing-spaces", "Ctrl+Right from a word followed only by spaces", "keys a, space, space, Ctrl+Left, Ctrl+Right, +, Enter submitted `a+  ` instead of `a  +` (cursor stopped after the word instead of the end of line)"),
]
KNOWN = [
 {"status": "known", "property": "C14", "key": "F15-sudo-exit", "match": {"first_word": "sudo", "implementation": "3 0"},
  "entry": "sudo exits the debugger process (easter egg in name.rs)",
  "detail": "a command line whose first word is exactly `sudo` (case-sensitive) prints a joke and calls std::process::exit(0): the line is neither parsed to a command nor rejected without effect. Not repaired: the repair would remove deliberate behaviour rather than correct it. Any other line that exits or panics is still a violation."},
]

def main():
    findings = []
    for prop, key, subject, what in FIXED:
        findings.append({"status": "fixed", "property": prop, "key": key,
                         "entry": f"fixed: property={prop} {rev(subject)} {what}"})
    findings += KNOWN
    out = {"comment": "Committed list of genuine defects of rozukke/lace found by these checks. 'known' entries are printed as KNOWN-FINDING and do not fail a run; 'fixed' entries suppress nothing (their witnesses stay in the corpora and must pass). Never written at run time.",
           "findings": findings}
    with open(os.path.join(ROOT, "KNOWN_FINDINGS.json"), "w") as f:
        json.dump(out, f, indent=1); f.write("\n")

if __name__ == "__main__":
    main()
