//! C02 (one instruction) and C03 (whole runs) on the real `RunEnvironment`.

use crate::util::*;
use lace::RunEnvironment;

/// Encode the machine after a case, mirroring `Driver.enc_state`.
pub fn enc_state(env: &mut RunEnvironment, pristine: &[u16], out: &str, inp_left: u64) -> Vec<u64> {
    let mut v = Vec::with_capacity(32);
    v.push(*env.verif_pc() as u64);
    v.push(env.verif_flag() as u64);
    for r in env.verif_reg().iter() {
        v.push(*r as u64);
    }
    let out = canonical_out(out);
    v.push(out.len() as u64);
    v.extend(out);
    v.push(inp_left);
    let mem = env.verif_mem();
    let mut diffs = Vec::new();
    if mem[..] != pristine[..] {
        for a in 0..65536usize {
            if mem[a] != pristine[a] {
                diffs.push(a as u64);
                diffs.push(mem[a] as u64);
            }
        }
    }
    v.push((diffs.len() / 2) as u64);
    v.extend(diffs);
    v
}

pub fn run_c02(args: &[u64]) -> Vec<Vec<u64>> {
    let mut c = Cur::new(args);
    let feat = c.next() != 0;
    let seed = c.next();
    let pc = c.next() as u16;
    let cc = c.next() as u8;
    let regs = c.take(8);
    let orig = c.next() as u16;
    let wlo = c.next();
    let whi = c.next();
    let nov = c.next() as usize;
    let ovs = c.take(2 * nov);
    let ninp = c.next() as usize;
    let inp: Vec<u8> = c.take(ninp).iter().map(|b| *b as u8).collect();

    set_features(feat);
    let mut pristine: Vec<u16> = (0..65536u64).map(|a| mem_hash(seed, a)).collect();
    for p in ovs.chunks(2) {
        pristine[p[0] as usize] = p[1] as u16;
    }
    let mut env = RunEnvironment::from_raw(&[0x3000, 0]).expect("from_raw");
    env.verif_mem().copy_from_slice(&pristine);

    let mut lines = Vec::new();
    for w in wlo..=whi {
        // restore
        if env.verif_mem()[..] != pristine[..] {
            env.verif_mem().copy_from_slice(&pristine);
        }
        for i in 0..8 {
            env.verif_reg()[i] = regs[i] as u16;
        }
        *env.verif_pc() = pc;
        *env.verif_orig() = orig;
        env.verif_set_flag(cc);
        lace::verif::arm(&inp, u64::MAX, u64::MAX, false);
        let (kind, code) = guarded(|| env.verif_execute(w as u16));
        let out = lace::verif::take_out();
        let left = ninp as u64 - lace::verif::consumed();
        lace::verif::disarm();
        let mut l = vec![w, kind, code];
        l.extend(enc_state(&mut env, &pristine, &out, left));
        lines.push(l);
    }
    lines
}

pub fn trace_hash(tr: &[(u16, u16)]) -> u64 {
    let mut h: u64 = 7;
    for (a, w) in tr {
        h = (h * 31 + (*a as u64) * 65536 + *w as u64) % 2147483647;
    }
    h
}

/// case = feat fuel nraw raw.. ninp inp..
pub fn run_c03(args: &[u64]) -> Vec<Vec<u64>> {
    let mut c = Cur::new(args);
    let feat = c.next() != 0;
    let fuel = c.next();
    let nraw = c.next() as usize;
    let raw: Vec<u16> = c.take(nraw).iter().map(|x| *x as u16).collect();
    let ninp = c.next() as usize;
    let inp: Vec<u8> = c.take(ninp).iter().map(|b| *b as u8).collect();

    set_features(feat);
    lace::verif::arm(&inp, fuel, u64::MAX, true);
    let mut env_slot: Option<RunEnvironment> = None;
    let (k0, c0) = guarded(|| {
        env_slot = Some(RunEnvironment::from_raw(&raw).expect("from_raw"));
    });
    if k0 != 0 {
        lace::verif::disarm();
        return vec![vec![if k0 == 1 { 5 } else { 6 }, c0]];
    }
    let mut env = env_slot.unwrap();
    let (kind, code) = guarded(|| env.run());
    let out = lace::verif::take_out();
    let left = ninp as u64 - lace::verif::consumed();
    let trace = lace::verif::take_trace();
    lace::verif::disarm();
    let zero = vec![0u16; 65536];
    let mut l = vec![kind, code];
    l.extend(enc_state(&mut env, &zero, &out, left));
    l.push(trace.len() as u64);
    l.push(trace_hash(&trace));
    vec![l]
}
