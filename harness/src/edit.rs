//! C20: the debugger's interactive line editor (`reader/terminal.rs`) under scripted keys.
//!
//! case  = mode dbg draw nhist (len char*len)*nhist nkeys key*nkeys      (mode 0/1: a session;
//!                                        dbg is for the model: this build's profile decides here)
//!         2 cp*                                                          (mode 2: character classes)
//! key   = 0 Enter 1 Backspace 2 Delete 3 Left 4 Right 5 Up 6 Down 7 Ctrl+Left 8 Ctrl+Right,
//!         0x10 + c = the character with code point c
//! lines = one for the initial state and one after EACH key:
//!           0 cursor focus histlen nsub (len char*)*nsub  len current*  len buffer*
//!         or `2` (panic; nothing follows), then `9 nhist (len char*)*` (final history).
//! Mirrors `DriverEdit.run_c20`.  The keys go through the real `Terminal::read` (`term::read_key`
//! is scripted by the lace_verif hook); the state is what the prompt is about to draw.

use crate::util::*;
use lace::debugger::VerifTerminal;
use lace::verif::{self, Key};
use std::panic::{catch_unwind, AssertUnwindSafe};

fn text(c: &mut Cur) -> String {
    let n = c.next() as usize;
    c.take(n)
        .iter()
        .map(|x| char::from_u32(*x as u32).unwrap_or('\u{FFFD}'))
        .collect()
}

fn push_text(v: &mut Vec<u64>, s: &str) {
    v.push(s.chars().count() as u64);
    v.extend(s.chars().map(|ch| ch as u64));
}

fn key_of(k: u64) -> Key {
    match k {
        0 => Key::Enter,
        1 => Key::Backspace,
        2 => Key::Delete,
        3 => Key::Left,
        4 => Key::Right,
        5 => Key::Up,
        6 => Key::Down,
        7 => Key::CtrlLeft,
        8 => Key::CtrlRight,
        k => Key::Char(char::from_u32((k.saturating_sub(0x10)) as u32).unwrap_or('\u{FFFD}')),
    }
}

pub fn run_c20(args: &[u64]) -> Vec<Vec<u64>> {
    let mut c = Cur::new(args);
    let mode = c.next();
    if mode == 2 {
        return c
            .rest()
            .iter()
            .map(|cp| match char::from_u32(*cp as u32) {
                Some(ch) => vec![*cp, ch.is_whitespace() as u64, ch.is_alphanumeric() as u64, ch.len_utf8() as u64],
                None => vec![*cp, 0, 0, 0],
            })
            .collect();
    }
    let _dbg = c.next();
    let draw = c.next() != 0;
    let nhist = c.next() as usize;
    let history: Vec<String> = (0..nhist).map(|_| text(&mut c)).collect();
    let nkeys = c.next() as usize;
    let keys: Vec<Key> = c.take(nkeys).into_iter().map(key_of).collect();

    verif::arm(&[], u64::MAX, u64::MAX, false); // the editor's own `println!()`s go to a buffer
    verif::script_keys(keys, draw);
    let mut term = VerifTerminal::verif_new(history);
    // (number of observations made before the command was handed out, command)
    let mut commands: Vec<(usize, String)> = Vec::new();
    let mut panicked = false;
    loop {
        match catch_unwind(AssertUnwindSafe(|| term.verif_read())) {
            Ok(Some(cmd)) => commands.push((verif::edit_observation_count(), cmd)),
            Ok(None) => break,
            Err(payload) => {
                panicked = payload.downcast_ref::<verif::VerifKeysEnd>().is_none();
                break;
            }
        }
    }
    let obs = verif::take_edit_observations();
    verif::unscript_keys();
    verif::disarm();
    let _ = verif::take_out();

    // Observation i is the state after i keys; a command handed out when i observations existed
    // was submitted by key i.
    let mut lines = Vec::with_capacity(obs.len() + 2);
    for (i, o) in obs.iter().enumerate() {
        let mut v = vec![0, o.cursor as u64, o.index as u64, o.history_len as u64];
        let subs: Vec<&String> = commands.iter().filter(|(n, _)| *n == i).map(|(_, s)| s).collect();
        v.push(subs.len() as u64);
        for s in subs {
            push_text(&mut v, s);
        }
        push_text(&mut v, &o.current);
        push_text(&mut v, &o.buffer);
        lines.push(v);
    }
    if panicked {
        lines.push(vec![2]);
    }
    let mut v = vec![9, term.verif_history().len() as u64];
    for h in term.verif_history() {
        push_text(&mut v, h);
    }
    lines.push(v);
    lines
}
