//! Correspondence harness: runs the implementation (lace, built with `--cfg lace_verif`) on the
//! same case lines the extracted Coq model runs on and prints the same canonical result lines.
//!
//! usage: lace-verif-harness <cases-file> <results-file>
//! A case line is `<KIND> <hex> <hex> ...`; for every case a header line `# <KIND>` and then the
//! result lines (hex numbers) are written.

mod asm;
mod cmd;
mod dbg;
mod edit;
mod util;
mod vm;

use std::fmt::Write as _;
use std::io::{BufRead, BufWriter, Write};

/// FEAT nchars char* -> 0 (accepted, extension off) | 1 (accepted, extension on) | 2 (refused):
/// `Features::from_str`, the value parser behind `-f` / `--features` (public API, no hook involved).
fn run_feat(args: &[u64]) -> Vec<Vec<u64>> {
    let n = args[0] as usize;
    let text: String = args[1..1 + n]
        .iter()
        .map(|x| char::from_u32(*x as u32).unwrap_or('\u{FFFD}'))
        .collect();
    let r = std::panic::catch_unwind(|| text.parse::<lace::features::Features>());
    vec![vec![match r {
        Ok(Ok(f)) => (f.to_string() == "stack") as u64,
        Ok(Err(_)) => 2,
        Err(_) => 101,
    }]]
}

fn main() {
    let args: Vec<String> = std::env::args().collect();
    if args.len() != 3 {
        eprintln!("usage: {} <cases> <results>", args[0]);
        std::process::exit(2);
    }
    // Panics are outcomes here, not noise.
    std::panic::set_hook(Box::new(|_| {}));
    lace::set_minimal(true);

    let input = std::io::BufReader::new(std::fs::File::open(&args[1]).expect("open cases"));
    let mut output = BufWriter::new(std::fs::File::create(&args[2]).expect("create results"));
    for line in input.lines() {
        let line = line.expect("read line");
        let mut toks = line.split_ascii_whitespace();
        let Some(kind) = toks.next() else { continue };
        let nums: Vec<u64> = toks
            .map(|t| u64::from_str_radix(t, 16).expect("hex number"))
            .collect();
        let lines: Vec<Vec<u64>> = match kind {
            "C02" => vm::run_c02(&nums),
            "C03" => vm::run_c03(&nums),
            "ASM" => asm::run_asm(&nums),
            "ASMW" => asm::run_asmw(&nums),
            "DBG" => dbg::run_dbg(&nums),
            "DBGT" => dbg::run_dbgt(&nums),
            "DBGS" => dbg::run_dbgs(&nums),
            "C20" => edit::run_c20(&nums),
            "C14" => cmd::run_c14(&nums),
            "FEAT" => run_feat(&nums),
            other => panic!("unknown case kind {other}"),
        };
        writeln!(output, "# {kind}").unwrap();
        let mut buf = String::new();
        for l in lines {
            buf.clear();
            for (i, x) in l.iter().enumerate() {
                if i > 0 {
                    buf.push(' ');
                }
                write!(buf, "{:x}", x).unwrap();
            }
            buf.push('\n');
            output.write_all(buf.as_bytes()).unwrap();
        }
        // one flush per case: the orchestrator's watchdog reads progress off the file's size
        output.flush().unwrap();
    }
    output.flush().unwrap();
}
