//! DBG cases: a whole debugger session in-process (RunEnvironment::try_from with a --command
//! script, then run()), observed through the lace_verif hooks.

use crate::util::*;
use crate::vm::enc_state;
use lace::RunEnvironment;

fn help_text() -> String {
    lace::verif::arm(&[], u64::MAX, u64::MAX, false);
    lace::debugger::print_help_message();
    let h = lace::verif::take_err();
    lace::verif::disarm();
    h
}

/// Debugger stderr as lines: rendered diagnostics between \x02..\x03 dropped, the help text
/// replaced by `<help>`, empty lines dropped.
fn canonical_err(err: &str, help: &str) -> Vec<Vec<u64>> {
    let mut s = String::new();
    let mut skipping = false;
    for c in err.chars() {
        match c {
            '\x02' => skipping = true,
            '\x03' => skipping = false,
            _ if skipping => (),
            _ => s.push(c),
        }
    }
    let s = if help.is_empty() { s } else { s.replace(help, "<help>\n") };
    // messages of the VM itself (runtime.rs), not of the debugger
    const VM_MESSAGES: [&str; 5] = [
        "exception: ",
        "unexpected end of input file stream.",
        "You called a reserved instruction.",
        "Note: Run with `-f stack`",
        "Halting...",
    ];
    s.split('\n')
        .filter(|l| !l.is_empty() && !VM_MESSAGES.iter().any(|m| l.starts_with(m)))
        .map(|l| {
            let mut v = vec![0x7e];
            v.extend(l.chars().map(|c| c as u64));
            v
        })
        .collect()
}

pub fn run_dbg(args: &[u64]) -> Vec<Vec<u64>> {
    let mut c = Cur::new(args);
    let feat = c.next() != 0;
    let fuel = c.next();
    let nsrc = c.next() as usize;
    let src: String = c.take(nsrc).iter().map(|x| char::from_u32(*x as u32).unwrap_or('\u{FFFD}')).collect();
    let ninp = c.next() as usize;
    let inp: Vec<u8> = c.take(ninp).iter().map(|b| *b as u8).collect();
    let ntext = c.next() as usize;
    let script: String = c.take(ntext).iter().map(|x| char::from_u32(*x as u32).unwrap_or('\u{FFFD}')).collect();
    run_session(feat, fuel, src, inp, ninp, Some(script))
}

/// `DBGT feat fuel nsrc src* ninp inp* has_arg narg arg* nstdin stdin*`: the script as text, in the
/// `--command` argument and/or at the front of the console input stream.
pub fn run_dbgt(args: &[u64]) -> Vec<Vec<u64>> {
    let mut c = Cur::new(args);
    let feat = c.next() != 0;
    let fuel = c.next();
    let nsrc = c.next() as usize;
    let src: String = c.take(nsrc).iter().map(|x| char::from_u32(*x as u32).unwrap_or('\u{FFFD}')).collect();
    let ninp = c.next() as usize;
    let inp: Vec<u8> = c.take(ninp).iter().map(|b| *b as u8).collect();
    let has_arg = c.next() != 0;
    let narg = c.next() as usize;
    let arg: String = c.take(narg).iter().map(|x| char::from_u32(*x as u32).unwrap_or('\u{FFFD}')).collect();
    let nstdin = c.next() as usize;
    let stdin: String = c.take(nstdin).iter().map(|x| char::from_u32(*x as u32).unwrap_or('\u{FFFD}')).collect();
    let mut queue = stdin.into_bytes();
    queue.extend_from_slice(&inp);
    run_session(feat, fuel, src, queue, ninp, if has_arg { Some(arg) } else { None })
}

/// `DBGS feat fuel nsrc src* has_arg narg arg* nstream stream*`: one console stream, bytes as given.
pub fn run_dbgs(args: &[u64]) -> Vec<Vec<u64>> {
    let mut c = Cur::new(args);
    let feat = c.next() != 0;
    let fuel = c.next();
    let nsrc = c.next() as usize;
    let src: String = c.take(nsrc).iter().map(|x| char::from_u32(*x as u32).unwrap_or('\u{FFFD}')).collect();
    let has_arg = c.next() != 0;
    let narg = c.next() as usize;
    let arg: String = c.take(narg).iter().map(|x| char::from_u32(*x as u32).unwrap_or('\u{FFFD}')).collect();
    let nstream = c.next() as usize;
    let stream: Vec<u8> = c.take(nstream).iter().map(|b| *b as u8).collect();
    run_session(feat, fuel, src, stream, nstream, if has_arg { Some(arg) } else { None })
}

/// `inp`: the console input stream (shared by the debugger's stdin reader and the program);
/// `ninp`: how many of its trailing bytes are meant for the program (reported input left is capped by it).
fn run_session(feat: bool, fuel: u64, src: String, inp: Vec<u8>, ninp: usize, command: Option<String>) -> Vec<Vec<u64>> {
    set_features(feat);
    lace::reset_state();
    lace::set_minimal(true);
    let help = help_text();
    let holder = lace::StaticSource::new(src);
    let text = holder.src();

    lace::verif::arm(&inp, u64::MAX, fuel, false);
    let mut env_slot: Option<RunEnvironment> = None;
    let (k0, _c0) = guarded(|| {
        let built = (|| -> miette::Result<RunEnvironment> {
            let parser = lace::AsmParser::new(text)?;
            let mut air = parser.parse()?;
            air.backpatch()?;
            RunEnvironment::try_from(air, Some(lace::debugger::Options { command: command.clone() }))
        })();
        if let Ok(env) = built {
            env_slot = Some(env);
        }
    });
    let Some(mut env) = env_slot else {
        lace::verif::disarm();
        let _ = k0;
        return vec![vec![9]];
    };
    let (kind, code) = guarded(|| env.run());
    let out = lace::verif::take_out();
    let err = lace::verif::take_err();
    let left = (inp.len() as u64 - lace::verif::consumed()).min(ninp as u64);
    let (ticks, execs, cmds) = (lace::verif::ticks(), lace::verif::fetches(), lace::verif::commands());
    lace::verif::disarm();
    let attached = env.verif_has_debugger();
    let kind = if kind == 0 && attached { 7 } else { kind };
    let zero = vec![0u16; 65536];
    let mut l = vec![kind, code];
    l.extend(enc_state(&mut env, &zero, &out, left));
    l.extend([ticks, execs, cmds, attached as u64]);
    let bps = if kind == 7 || attached { env.verif_breakpoints().unwrap_or_default() } else { Vec::new() };
    l.push(bps.len() as u64);
    for (a, p) in bps {
        l.push(a as u64);
        l.push(p as u64);
    }
    let mut lines = vec![l];
    lines.extend(canonical_err(&err, &help));
    lines
}
