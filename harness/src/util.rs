//! Shared helpers: number cursor, hook arming, outcome classification, output canonicalisation.

use std::panic::{catch_unwind, AssertUnwindSafe};

pub struct Cur<'a> {
    pub v: &'a [u64],
    pub i: usize,
}
impl<'a> Cur<'a> {
    pub fn new(v: &'a [u64]) -> Self {
        Self { v, i: 0 }
    }
    pub fn next(&mut self) -> u64 {
        let x = self.v.get(self.i).copied().unwrap_or(0);
        self.i += 1;
        x
    }
    pub fn take(&mut self, n: usize) -> Vec<u64> {
        (0..n).map(|_| self.next()).collect()
    }
    pub fn rest(&mut self) -> Vec<u64> {
        let r = self.v[self.i.min(self.v.len())..].to_vec();
        self.i = self.v.len();
        r
    }
}

/// 0 = returned normally, 1 = process exit (code), 2 = panic, 4 = budget exhausted.
pub fn guarded<F: FnOnce()>(f: F) -> (u64, u64) {
    match catch_unwind(AssertUnwindSafe(f)) {
        Ok(()) => (0, 0),
        Err(payload) => {
            if let Some(lace::verif::VerifExit(code)) = payload.downcast_ref() {
                (1, (*code as u32 & 0xFF) as u64)
            } else if payload.downcast_ref::<lace::verif::VerifFuel>().is_some() {
                (4, 0)
            } else {
                (2, 0)
            }
        }
    }
}

pub fn set_features(stack: bool) {
    let f: lace::features::Features = if stack { "stack" } else { "" }.parse().unwrap();
    lace::features::verif_force(f);
}

/// Captured program output as code points, with `ESC [ ... m` sequences removed (only the HALT
/// banner can contain them: everything else passes lace's own `--minimal` filter).
pub fn canonical_out(s: &str) -> Vec<u64> {
    let mut out = Vec::new();
    let mut chars = s.chars().peekable();
    while let Some(c) = chars.next() {
        if c == '\x1b' && chars.peek() == Some(&'[') {
            for d in chars.by_ref() {
                if d == 'm' {
                    break;
                }
            }
            continue;
        }
        out.push(c as u64);
    }
    out
}

/// Same address-dependent memory contents as `Driver.mem_hash`.
pub fn mem_hash(seed: u64, a: u64) -> u16 {
    let h = ((a + seed) * 25173 + 13849) % 65536;
    (h ^ (h / 256)) as u16
}
