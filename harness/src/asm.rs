//! ASM cases: assemble a sequence of sources through lace's public API, as `main.rs` does
//! (AsmParser::new -> parse -> backpatch -> emit of every statement).

use crate::util::*;
use miette::Diagnostic;

fn diag_code(report: &miette::Report) -> u64 {
    let code = report.code().map(|c| c.to_string()).unwrap_or_default();
    let msg = report.to_string();
    match code.as_str() {
        "lex::dir" => 0,
        "lex::str_lit" => 1,
        "lex::bad_lit" => 2,
        "lex::unknown" => 3,
        "lex::stack_extension_not_enabled" => 4,
        "preproc::bad_lit" => 5,
        "preproc::stringz" => 6,
        "parse::duplicate_label" => 7,
        "parse::unexpected_token" => 8,
        "parse::unexpected_eof" => 9,
        "parse::too_long" => 11,
        _ => {
            if msg.starts_with("Origin set twice") {
                12
            } else if msg.starts_with("Label not found") {
                13
            } else if msg.starts_with("Difference between label") {
                14
            } else {
                99
            }
        }
    }
}

/// The diagnostic must render, and every labelled span must lie inside the source.
fn diag_inside(report: &miette::Report, src_len: usize) -> bool {
    let _rendered = format!("{:?}", report);
    if let Some(labels) = report.labels() {
        for l in labels {
            if l.offset() + l.len() > src_len.max(1) {
                return false;
            }
        }
    }
    true
}

fn assemble_one(src: &'static str) -> Vec<u64> {
    let mut line: Vec<u64> = Vec::new();
    let result = std::panic::catch_unwind(|| -> Result<Vec<u64>, (u64, u64, u64, bool)> {
        let fail = |r: miette::Report| {
            let (a, n) = r
                .labels()
                .and_then(|mut ls| ls.next())
                .map(|l| (l.offset() as u64, l.len() as u64))
                .unwrap_or((0, 0));
            (diag_code(&r), a, n, diag_inside(&r, src.len()))
        };
        let parser = lace::AsmParser::new(src).map_err(fail)?;
        let mut air = parser.parse().map_err(fail)?;
        air.backpatch().map_err(fail)?;
        let mut v = vec![0u64];
        match air.orig() {
            Some(o) => {
                v.push(1);
                v.push(o as u64)
            }
            None => {
                v.push(0);
                v.push(0)
            }
        }
        let mut words = Vec::new();
        for stmt in &air {
            words.push(stmt.emit().map_err(fail)? as u64);
        }
        v.push(words.len() as u64);
        v.extend(words);
        let bps: Vec<(u64, u64)> = air
            .breakpoints
            .iter()
            .map(|b| (b.address as u64, b.is_predefined as u64))
            .collect();
        v.push(bps.len() as u64);
        for (a, p) in bps {
            v.push(a);
            v.push(p);
        }
        v.push(air.ast.len() as u64);
        for l in &air.ast {
            v.push(l.span.offs() as u64);
            v.push(l.span.len() as u64);
        }
        Ok(v)
    });
    match result {
        Ok(Ok(v)) => line = v,
        Ok(Err((code, a, n, inside))) => {
            line.push(1);
            line.push(code);
            line.push(a);
            line.push(n);
            if !inside {
                line.push(0xBAD);
            }
        }
        Err(_) => {
            line.push(2);
            line.push(0);
        }
    }
    line
}

/// case = feat nsrc (reset nchars char*)*
pub fn run_asm(args: &[u64]) -> Vec<Vec<u64>> {
    let mut c = Cur::new(args);
    let feat = c.next() != 0;
    let nsrc = c.next() as usize;
    set_features(feat);
    lace::reset_state();
    let mut lines = Vec::new();
    for _ in 0..nsrc {
        let reset = c.next() != 0;
        let n = c.next() as usize;
        let text: String = c
            .take(n)
            .iter()
            .map(|x| char::from_u32(*x as u32).unwrap_or('\u{FFFD}'))
            .collect();
        if reset {
            lace::reset_state();
        }
        let mut holder = lace::StaticSource::new(text);
        let src = holder.src();
        // `.blkw #-k` prints its warning through the println hook: keep it out of the way
        lace::verif::arm(&[], u64::MAX, u64::MAX, false);
        lines.push(assemble_one(src));
        let _ = lace::verif::take_out();
        lace::verif::disarm();
        holder.reclaim();
    }
    lines
}

fn fnv(s: &str) -> u64 {
    let mut h: u64 = 0xcbf29ce484222325;
    for b in s.bytes() {
        h ^= b as u64;
        h = h.wrapping_mul(0x100000001b3);
    }
    h & 0xFFFF_FFFF_FFFF
}

/// Like `run_asm`, but every result line also carries what the assembly printed on the console
/// (warnings such as the negative `.blkw` size): `... c0de <hash of stdout+stderr> <length>`.
/// Used for implementation-vs-implementation comparisons only (the model does not print).
pub fn run_asmw(args: &[u64]) -> Vec<Vec<u64>> {
    let mut c = Cur::new(args);
    let feat = c.next() != 0;
    let nsrc = c.next() as usize;
    set_features(feat);
    lace::reset_state();
    let mut lines = Vec::new();
    for _ in 0..nsrc {
        let reset = c.next() != 0;
        let n = c.next() as usize;
        let text: String = c
            .take(n)
            .iter()
            .map(|x| char::from_u32(*x as u32).unwrap_or('\u{FFFD}'))
            .collect();
        if reset {
            lace::reset_state();
        }
        let mut holder = lace::StaticSource::new(text);
        let src = holder.src();
        lace::verif::arm(&[], u64::MAX, u64::MAX, false);
        let mut line = assemble_one(src);
        let out = lace::verif::take_out();
        let err = lace::verif::take_err();
        lace::verif::disarm();
        holder.reclaim();
        let all = format!("{out}\u{1}{err}");
        line.push(0xC0DE);
        line.push(fnv(&all));
        line.push((out.len() + err.len()) as u64);
        lines.push(line);
    }
    lines
}
