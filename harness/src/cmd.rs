//! C14 cases: the debugger's command parser and command readers, through
//! `lace::debugger::verif_command` (the verdict encoding is defined there and in DriverCmd.v).
//!
//! case  = 0 n (len char*len)*n                     -> one verdict line per command line
//! case  = 1 has_arg alen char*alen blen char*blen  -> one line per event of the session, then `5`

use crate::util::*;
use lace::debugger::verif_command;

fn text(c: &mut Cur) -> String {
    let n = c.next() as usize;
    c.take(n)
        .iter()
        .map(|x| char::from_u32(*x as u32).unwrap_or('\u{FFFD}'))
        .collect()
}

fn close(kind: u64, code: u64, lines: &mut Vec<Vec<u64>>) {
    match kind {
        0 => {}
        1 => lines.push(vec![3, code]),
        _ => lines.push(vec![2]),
    }
}

pub fn run_c14(args: &[u64]) -> Vec<Vec<u64>> {
    let mut c = Cur::new(args);
    let mut lines: Vec<Vec<u64>> = Vec::new();
    match c.next() {
        0 => {
            let n = c.next() as usize;
            for _ in 0..n {
                let line = text(&mut c);
                lace::verif::arm(&[], u64::MAX, u64::MAX, false);
                let mut verdict = Vec::new();
                let (kind, code) = guarded(|| verdict = verif_command::parse_line(&line));
                lace::verif::disarm();
                if kind == 0 {
                    lines.push(verdict);
                } else {
                    close(kind, code, &mut lines);
                }
            }
        }
        1 => {
            let has_arg = c.next() != 0;
            let a = text(&mut c);
            let b = text(&mut c);
            lace::verif::arm(b.as_bytes(), u64::MAX, u64::MAX, false);
            let (kind, code) = guarded(|| {
                verif_command::read_all(if has_arg { Some(a) } else { None }, &mut lines)
            });
            lace::verif::disarm();
            close(kind, code, &mut lines);
            lines.push(vec![5]);
        }
        _ => lines.push(vec![7]),
    }
    lines
}
