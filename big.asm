.orig x3000
HALT
.blkw 3000
.end
