From Lace Require Import Word Asm AsmFeat Properties.C19.
Check (C19_pure : forall feat (symA : symtab) (srcA srcB : list N),
  let after_A := snd (assemble feat symA srcA) in
  assemble feat (reset_state after_A) srcB = assemble feat [] srcB).
Check (C19_needs_reset :
  let a := [97; 32; 104; 97; 108; 116; 10] in
  fst (assemble false (snd (assemble false [] a)) a) <> fst (assemble false [] a)).
Print Assumptions C19_pure.
Print Assumptions C19_needs_reset.
