From Coq Require Import ZArith.
From Lace Require Import Word Machine Isa Asm AsmProofs Properties.C04.
Open Scope N_scope.
Check (C04_signed_iff : forall n v, 1 <= n -> n <= 16 -> v < 65536 ->
  check_range (Signed n) v = true <-> (- 2 ^ (Z.of_N n - 1) <= signed16 v < 2 ^ (Z.of_N n - 1))%Z).
Check (C04_unsigned_iff : forall n v, check_range (Unsigned n) v = true <-> v < 2 ^ n).
Check (C04_expect_lit : forall b t r te srclen v,
  (tk t = KLit (LHex v) \/ tk t = KLit (LDec v)) ->
  (check_range b v = true -> expect_lit b (t :: r, te) srclen = Ok (v, (r, tend t))) /\
  (check_range b v = false -> expect_lit b (t :: r, te) srclen = Err E_lit_range (toffs t) (tlen t))).
Check (C04_offset_iff : forall line r nbits, 1 <= nbits -> nbits <= 15 ->
  let d := distance line r in
  let p := (2 ^ (Z.of_N nbits - 1))%Z in
  (forall o, bit_offs line (LRef r) nbits = Ok o ->
     (- p <= d < p)%Z /\ o = Z.to_N (d mod 2 ^ Z.of_N nbits)) /\
  ((- p <= d < p)%Z -> exists o, bit_offs line (LRef r) nbits = Ok o)).
Check (C04_no_spill : forall (ln : asm_line) (w : N),
  stmt_ok (al_stmt ln) -> emit ln = Ok w -> exists o, decode w = instr_of (al_stmt ln) o).
Check (C04_dup_label : forall fuel srclen ps t r v,
  p_toks ps = t :: r -> tk t = KLabel -> sym_get (p_sym ps) (ttext t) = Some v ->
  fst (parse (S fuel) srclen ps) = Err E_dup_label (toffs t) (tlen t)).
Check (C04_undefined_label : forall sym name,
  sym_get sym name = None -> fill sym (LUnfilled name) = Err E_label_not_found 0 0).
Print Assumptions C04_signed_iff.
Print Assumptions C04_unsigned_iff.
Print Assumptions C04_expect_lit.
Print Assumptions C04_offset_iff.
Print Assumptions C04_no_spill.
Print Assumptions C04_dup_label.
Print Assumptions C04_undefined_label.
