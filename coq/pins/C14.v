From Coq Require Import List NArith ZArith Bool String.
From Lace Require Import CmdSpec Cmd CmdProofs Properties.C14.
Import ListNotations.
Open Scope N_scope.
Check (C14_int_sound : forall s v, parse_integer s false = Ok (Some v) -> IntSyn s v).
Check (C14_int_complete : forall s v, IntSyn s v -> parse_integer s false = Ok (Some v)).
Check (C14_unambiguous : forall s v v', IntSyn s v -> IntSyn s v' -> v = v').
Check (C14_total : forall raw, forallb (fun c => negb (is_delim c)) raw = true ->
  forall w, parse_line raw <> Some (Panic w)).
Check (C14_session_total : forall arg stdin e, In e (session arg stdin) ->
  (forall w, e <> EvPanic w) /\ e <> EvOutOfFuel).
Check (C14_transport :
  (forall arg stdin,
     session arg stdin = events (script_lines (arg_text arg) ++ script_lines stdin)) /\
  (forall s, session (Some s) [] = session None s) /\
  (forall a d b, is_delim d = true ->
     session (Some a) b = session None (a ++ d :: b) /\
     session (Some a) b = session (Some (a ++ d :: b)) [] /\
     session (Some (a ++ [d])) b = session (Some a) b) /\
  (forall f,
     ((forall c, is_delim c = true -> is_delim (f c) = true) /\ (forall c, is_delim c = false -> f c = c)) ->
     forall arg stdin, session (option_map (map f) arg) (map f stdin) = session arg stdin)).
Check (C14_no_effect : forall ls1 l e ls2, try_from l = Err e ->
  commands_of (events (ls1 ++ l :: ls2)) = commands_of (events (ls1 ++ ls2))).
Print Assumptions C14_int_sound.
Print Assumptions C14_int_complete.
Print Assumptions C14_unambiguous.
Print Assumptions C14_total.
Print Assumptions C14_session_total.
Print Assumptions C14_transport.
Print Assumptions C14_no_effect.
