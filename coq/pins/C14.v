From Coq Require Import ZArith.
From Lace Require Import CmdSpec Cmd.
