From Coq Require Import List NArith ZArith Bool String.
From Lace Require Import CmdSpec Cmd CmdProofs Properties.C14.
Import ListNotations.
Open Scope N_scope.
Check (C14_int_sound : forall s v, parse_integer s false = Ok (Some v) -> IntSyn s v).
Check (C14_int_complete : forall s v, IntSyn s v -> parse_integer s false = Ok (Some v)).
Check (C14_unambiguous : forall s v v', IntSyn s v -> IntSyn s v' -> v = v').
Check (C14_total : forall raw, forallb (fun c => negb (is_delim c)) raw = true ->
  forall w, parse_line raw <> Some (Panic w)).
Check (C14_session_total : forall arg stdin e, In e (session arg stdin) ->
  (forall w, e <> EvPanic w) /\ e <> EvOutOfFuel).
Check (C14_transport :
  (forall arg stdin,
     session arg stdin = events (script_lines (arg_text arg) ++ script_lines stdin)) /\
  (forall s, session (Some s) [] = session None s) /\
  (forall a d b, is_delim d = true ->
     session (Some a) b = session None (a ++ d :: b) /\
     session (Some a) b = session (Some (a ++ d :: b)) [] /\
     session (Some (a ++ [d])) b = session (Some a) b) /\
  (forall f,
     ((forall c, is_delim c = true -> is_delim (f c) = true) /\ (forall c, is_delim c = false -> f c = c)) ->
     forall arg stdin, session (option_map (map f) arg) (map f stdin) = session arg stdin)).
Check (C14_no_effect : forall ls1 l e ls2, try_from l = Err e ->
  commands_of (events (ls1 ++ l :: ls2)) = commands_of (events (ls1 ++ ls2))).
Check (C14_register : forall s r, register_try_parse s = Ok (Some r) <-> RegSyn s r).
Check (C14_pc_offset : forall s v, pcoffset_try_parse s = Ok (Some v) <-> PcOffSyn s v).
Check (C14_label : forall s name off, label_try_parse s = Ok (Some (name, off)) <-> LabelSyn s name off).
Check (C14_value : forall s v,
  (check_naive_type [NInteger] s = Ok tt /\
   exists x, parse_integer s false = Ok (Some x) /\ as_u16_cast x = Ok v) <-> ValueSyn s v).
Check (C14_memory_location : forall s m,
  (check_naive_type [NInteger; NLabel; NPCOffset] s = Ok tt /\
   memory_location_try_parse s = Ok (Some m)) <-> MemLocSyn s m).
Check (C14_location : forall s l, location_try_parse s = Ok (Some l) <-> LocSyn s l).
Check (C14_line : forall raw, forallb (fun c => negb (is_delim c)) raw = true ->
  match parse_line raw with
  | None => trim raw = []
  | Some (Ok cmd) => LineSyn (trim raw) cmd
  | Some (Err _) => forall cmd, ~ LineSyn (trim raw) cmd
  | Some (ExitP code) => code = 0 /\ (exists ws, words (trim raw) = str "sudo" :: ws) /\
                         forall cmd, ~ LineSyn (trim raw) cmd
  | Some (Panic _) => False
  end).
Check (C14_line_iff : forall line cmd, forallb (fun c => negb (is_delim c)) line = true ->
  (try_from line = Ok cmd <-> LineSyn line cmd)).
Check (C14_one_command : forall line cmd cmd', forallb (fun c => negb (is_delim c)) line = true ->
  LineSyn line cmd -> LineSyn line cmd' -> cmd = cmd').
Print Assumptions C14_int_sound.
Print Assumptions C14_int_complete.
Print Assumptions C14_unambiguous.
Print Assumptions C14_total.
Print Assumptions C14_session_total.
Print Assumptions C14_transport.
Print Assumptions C14_no_effect.
Print Assumptions C14_register.
Print Assumptions C14_pc_offset.
Print Assumptions C14_label.
Print Assumptions C14_value.
Print Assumptions C14_memory_location.
Print Assumptions C14_location.
Print Assumptions C14_line.
Print Assumptions C14_line_iff.
Print Assumptions C14_one_command.
