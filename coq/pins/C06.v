From Coq Require Import Arith.
From Lace Require Import Word Machine Isa Vm Asm Cli CliProofs Properties.C06.
Open Scope N_scope.
Check (C06_bytes : forall im,
  compile_bytes im = be16 (image_orig im) ++ flat_map be16 (i_words im) /\
  length (compile_bytes im) = (2 * (length (i_words im) + 1))%nat /\
  (i_orig im = None -> image_orig im = 12288)).
Check (C06_roundtrip : forall im inp,
  image_orig im < W -> Forall (fun w => w < W) (i_words im) ->
  load_file (compile_bytes im) inp = from_raw (raw_of_image im) inp).
Check (C06_loader_iff : forall bytes inp,
  (exists st, load_file bytes inp = Loaded st) <->
  (Nat.even (length bytes) = true /\ (2 <= length bytes)%nat /\
   exists hi lo rest, bytes = hi :: lo :: rest /\
     hi * 256 + lo + N.of_nat (Nat.div (length rest) 2) + 1 <= W)).
Check (C06_loader_rejects : forall bytes inp, exists r, load_file bytes inp = r /\
  (match r with Loaded _ => True | LoadExit c => c = 1 \/ c = 238 end)).
Print Assumptions C06_bytes.
Print Assumptions C06_roundtrip.
Print Assumptions C06_loader_iff.
Print Assumptions C06_loader_rejects.
