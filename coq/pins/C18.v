From Lace Require Import Word Machine Isa Vm VmProofs Asm AsmFeat Properties.C18.
Open Scope N_scope.
Check (C18_asm_flag : forall (sym0 : symtab) (src : list N),
  assemble false sym0 src = assemble true sym0 src \/
  exists a n, fst (assemble false sym0 src) = Err E_lex_stack a n).
Check (C18_asm_off : forall pre rest,
  is_stack_word (List.map to_lower (last pre 0 :: fst (take_while is_id rest))) = true ->
  exists c, ident false pre rest = LexErr E_lex_stack 0 c).
Check (C18_vm_off : forall (w : N) (st : state), wf st -> w < W -> w / 4096 = 13 ->
  execute false w st = Exited 1 st).
Check (C18_vm_irrelevant : forall fuel st tr,
  Forall (fun aw => snd aw / 4096 <> 13) (snd (run true fuel st tr)) ->
  run false fuel st tr = run true fuel st tr).
Print Assumptions C18_asm_flag.
Print Assumptions C18_asm_off.
Print Assumptions C18_vm_off.
Print Assumptions C18_vm_irrelevant.
