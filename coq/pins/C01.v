From Coq Require Import ZArith.
From Lace Require Import Word Machine Isa Asm AsmProofs Properties.C01.
Open Scope N_scope.
Check (C01_emit_decode : forall (ln : asm_line) (w : N),
  stmt_ok (al_stmt ln) -> emit ln = Ok w ->
  exists o, field_bound (al_stmt ln) o /\ w = encode_with (al_stmt ln) o /\
            decode w = instr_of (al_stmt ln) o /\
            match pcrel_of (al_stmt ln) with
            | Some (l, k) => bit_offs (al_line ln) l k = Ok o
            | None => True
            end).
Check (C01_pcrel_target : forall orig line r nbits o,
  1 <= nbits -> nbits <= 15 -> 1 <= line -> line < 65536 -> 1 <= r -> r < 65536 -> orig < 65536 ->
  bit_offs line (LRef r) nbits = Ok o ->
  addw (wrap (orig + line)) (sext nbits o) = wrap (orig + r - 1)).
Check (C01_field : forall line r nbits, 1 <= nbits -> nbits <= 15 ->
  let d := distance line r in
  let p := (2 ^ (Z.of_N nbits - 1))%Z in
  (forall o, bit_offs line (LRef r) nbits = Ok o ->
     (- p <= d < p)%Z /\ o = Z.to_N (d mod 2 ^ Z.of_N nbits)) /\
  ((- p <= d < p)%Z -> exists o, bit_offs line (LRef r) nbits = Ok o)).
Print Assumptions C01_emit_decode.
Print Assumptions C01_pcrel_target.
Print Assumptions C01_field.
