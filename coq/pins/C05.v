From Lace Require Import Word Asm AsmTotal Properties.C05.
Check (C05_total : forall (feat : bool) (sym0 : symtab) (src : list N) (why : N),
  fst (assemble feat sym0 src) <> Bad why).
Check (C05_total_check : forall (feat : bool) (sym0 : symtab) (src : list N) (why : N),
  fst (assemble_air feat sym0 src) <> Bad why).
Check (C05_lexer_progress : forall feat l pos t rest pos',
  advance_real feat l pos = StepTok t rest pos' ->
  (tk t = KEof /\ rest = []) \/ (lexer_kind (tk t) /\ (length rest < length l)%nat)).
Print Assumptions C05_total.
Print Assumptions C05_total_check.
Print Assumptions C05_lexer_progress.
