From Lace Require Import Word Asm Cli CliProofs Properties.C08.
Open Scope N_scope.
Check (C08_atomic : forall feat src dest f o,
  let '(e, f') := compile_cmd feat src dest f o in
  (e = 0 -> exists im, assembles feat src = Ok im /\ f' dest = Some (compile_bytes im)) /\
  (e <> 0 -> preserving o -> forall p, f' p = f p) /\
  (forall p, p <> dest -> f' p = f p)).
Check (C08_failure_untouched : forall feat src dest f o d a n,
  assembles feat src = Err d a n -> compile_cmd feat src dest f o = (1, f)).
Print Assumptions C08_atomic.
Print Assumptions C08_failure_untouched.
