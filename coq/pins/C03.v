From Lace Require Import Word Machine Isa Vm RunProofs Properties.C03.
Check (C03_load : forall (raw inp : list N),
  from_raw raw inp = match load raw inp with Some st => Loaded st | None => LoadExit 238 end).
Check (C03_load_shape : forall origin words inp st,
  load (origin :: words) inp = Some st ->
  s_pc st = origin /\ s_orig st = origin /\ s_cc st = CC_U /\
  s_regs st = mkRegs 0 0 0 0 0 0 0 65023 /\ s_inp st = inp /\ s_out st = [] /\
  (forall i, (i < length words)%nat -> M st (origin + N.of_nat i) = nth i words 0) /\
  M st (origin + N.of_nat (length words)) = 61477 /\
  (forall a, a < origin \/ origin + N.of_nat (length words) < a -> M st a = 0)).
Check (C03_load_accepts : forall raw inp,
  (exists st, load raw inp = Some st) <->
  (exists origin words, raw = origin :: words /\ origin + N.of_nat (length words) + 1 <= W)).
Check (C03_run : forall (feat : bool) (fuel : nat) (st : state) (tr : list (N * N)),
  wf st ->
  vm_run feat fuel st tr = (to_vm (fst (run feat fuel st tr)), snd (run feat fuel st tr))).
Check (C03_fetch_bounds : forall (feat : bool) (fuel : nat) (st : state),
  Forall (fun aw => s_orig st <= fst aw /\ fst aw < 65024) (snd (run feat fuel st []))).
Check (C03_finished_pc : forall feat fuel st tr st',
  fst (run feat fuel st tr) = Finished st' -> s_pc st' = 65535).
Check (C03_load_wf : forall raw inp st,
  Forall (fun w => w < W) raw -> load raw inp = Some st -> wf st).
Print Assumptions C03_load.
Print Assumptions C03_load_shape.
Print Assumptions C03_load_accepts.
Print Assumptions C03_run.
Print Assumptions C03_fetch_bounds.
Print Assumptions C03_finished_pc.
Print Assumptions C03_load_wf.
