From Lace Require Import Word Asm Cli CliProofs Properties.C07.
Open Scope N_scope.
Check (C07_agree : forall feat src,
  (check_exit feat src = 0 <-> compile_exit feat src = 0) /\
  (compile_exit feat src = 0 <-> run_assembles feat src = true)).
Print Assumptions C07_agree.
