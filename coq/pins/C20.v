From Lace Require Import EditSpec Edit EditProofs Properties.C20.
