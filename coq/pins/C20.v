From Coq Require Import NArith List Bool Arith.
From Lace Require Import EditSpec Edit EditProofs Properties.C20.
Import ListNotations.
Check (C20_inv : forall (is_ws is_alnum : N -> bool) (dbg : bool) (h : list (list N)) (ks : list key)
                        (t : term) (subs : list (list (list N))),
  run_keys is_ws is_alnum dbg (term_start h) ks = Ok (t, subs) ->
  t_vc t <= length (current t) /\ t_idx t <= length (t_hist t)).
Check (C20_total : forall (is_ws is_alnum : N -> bool) (dbg : bool) (h : list (list N)) (ks : list key),
  (dbg = true -> Forall (fun l => forallb is_ws l = false) h) ->
  exists t subs, run_keys is_ws is_alnum dbg (term_start h) ks = Ok (t, subs)).
Check (C20_submit : forall (is_ws is_alnum : N -> bool) (dbg : bool) (h : list (list N)) (ks : list key),
  (dbg = true -> Forall (fun l => forallb is_ws l = false) h) ->
  run_keys is_ws is_alnum dbg (term_start h) ks =
  Ok (term_of_ed (fst (spec_run is_ws is_alnum (spec_start h) ks)),
      snd (spec_run is_ws is_alnum (spec_start h) ks))).
Check (C20_spec_inv : forall (blank letter : N -> bool) (h : list (list N)) (ks : list key),
  let e := fst (spec_run blank letter (spec_start h) ks) in
  cur e <= length (shown e) /\ focus e <= length (hist e)).
Check (C20_word_next : forall (is_ws is_alnum : N -> bool) (s : list N) (c : nat),
  find_word_next is_ws is_alnum s c false = word_next is_ws is_alnum s c).
Check (C20_word_back : forall (is_ws is_alnum : N -> bool) (s : list N) (c : nat),
  c <= length s ->
  find_word_back is_ws is_alnum s c false = Ok (word_back is_ws is_alnum s c)).
Check (C20_nonvacuous :
  run_keys ex_ws ex_alnum true (term_start []) [KChar 233; KCtrlRight; KChar 97; KEnter]
  = Ok (mkTerm [] 0 0 [[233; 97]%N] 1, [[[233; 97]%N]]) /\
  Forall (fun l => forallb ex_ws l = false) [[97; 98]; [99; 59; 100]]%N /\
  run_keys ex_ws ex_alnum true (term_start [[97; 98]; [99; 59; 100]]%N) [KUp; KEnter]
  = Ok (mkTerm [] 0 0 [[97; 98]; [99; 59; 100]]%N 2, [[[99]; [100]]%N])).
Check (C20_pinned_refuted :
  find_word_next_pinned ex_ws ex_alnum [233%N] 0 false = 2 /\
  length [233%N] = 1 /\
  insert_char_index [233%N] (find_word_next_pinned ex_ws ex_alnum [233%N] 0 false) 97 = Panic /\
  find_word_next ex_ws ex_alnum [233%N] 0 false = 1).
Print Assumptions C20_inv.
Print Assumptions C20_total.
Print Assumptions C20_submit.
Print Assumptions C20_spec_inv.
Print Assumptions C20_word_next.
Print Assumptions C20_word_back.
Print Assumptions C20_nonvacuous.
Print Assumptions C20_pinned_refuted.
