(* pins/C02.v — compiled on every check: the property theorems exist with exactly these
   statements, and their assumptions are printed for the allowlist comparison. *)
From Lace Require Import Word Machine Isa Vm Properties.C02.
Check (C02_exec : forall (feat : bool) (w : N) (st : state),
  wf st -> w < W -> execute feat w st = step feat (decode w) st).
Check (C02_no_panic : forall (feat : bool) (w : N) (st st' : state),
  wf st -> w < W -> w / 4096 <> 8 -> execute feat w st <> Panicked st').
Check (C02_wf : forall (feat : bool) (w : N) (st st' : state),
  wf st -> w < W -> execute feat w st = Running st' -> wf st').
Check (C02_unsupported : forall (w : N) (st : state), wf st -> w < W ->
  (w / 4096 = 13 -> execute false w st = Exited 1 st) /\
  (w / 4096 = 15 -> (w mod 256 < 32 \/ 39 < w mod 256) -> forall feat, execute feat w st = Exited 238 st)).
Print Assumptions C02_exec.
Print Assumptions C02_no_panic.
Print Assumptions C02_wf.
Print Assumptions C02_unsupported.
