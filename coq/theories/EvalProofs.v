(* EvalProofs.v — C15 (eval executes the instruction it is given, here and now) and C17 (the
   debugger's view of source and symbols). *)
From Coq Require Import ZArith Lia.
From Lace Require Import Word Machine Isa Vm VmProofs Asm AsmProofs Dbg.
Open Scope N_scope.

(** The line number eval gives the statement makes "origin + line" the current PC. *)
Lemma eval_line_is_pc st : s_pc st < W -> s_orig st < W ->
  wrap (s_orig st + wrap (s_pc st + 65536 - s_orig st)) = s_pc st.
Proof.
  intros Hp Ho. unfold wrap, W in *.
  destruct (N.le_gt_cases (s_orig st) (s_pc st)) as [Hle|Hgt].
  - replace (s_pc st + 65536 - s_orig st) with ((s_pc st - s_orig st) + 1 * 65536) by lia.
    rewrite N.mod_add by discriminate. rewrite (N.mod_small (s_pc st - s_orig st)) by lia.
    replace (s_orig st + (s_pc st - s_orig st)) with (s_pc st) by lia. apply N.mod_small. lia.
  - rewrite (N.mod_small (s_pc st + 65536 - s_orig st)) by lia.
    replace (s_orig st + (s_pc st + 65536 - s_orig st)) with (s_pc st + 1 * 65536) by lia.
    rewrite N.mod_add by discriminate. apply N.mod_small. lia.
Qed.

(** What [eval] does with a statement that is not off-limits: resolve its label, emit it with the
    line that corresponds to the current PC, execute the word on the current state. *)
Definition allowed (s : stmt) : Prop :=
  match s with
  | SBranch _ _ | SInterrupt | SRawWord _ => False
  | STrap v => 32 <= v /\ v <= 39 /\ v <> 37
  | _ => True
  end.

Lemma eval_unfold env st text toks s s' w :
  lex_simple (e_feat env) (S (length text)) text 0 [] = Ok toks ->
  parse_simple (e_sym env) toks (bytes text) = Ok s ->
  allowed s ->
  backpatch_stmt (e_sym env) s = Ok s' ->
  emit (mkLine (wrap (s_pc st + 65536 - s_orig st)) s' 0 0) = Ok w ->
  eval env st text = match execute (e_feat env) w st with Running st' => EvalDone st' | r => EvalStop r end.
Proof.
  intros Hl Hp Ha Hb He. unfold eval. rewrite Hl, Hp.
  destruct s; cbn [allowed] in Ha; try contradiction; try (rewrite Hb, He; reflexivity).
  (* traps 0x20..0x27 except HALT *)
  destruct Ha as (H1 & H2 & H3).
  assert (E1 : (v =? 37) = false) by (apply N.eqb_neq; exact H3).
  assert (E2 : (v <? 32) || (39 <? v) = false).
  { apply orb_false_iff. split; [apply N.ltb_ge; exact H1|apply N.ltb_ge; exact H2]. }
  rewrite E1, E2. cbn in Hb. inversion Hb; subst s'. cbn in He. inversion He; subst w. reflexivity.
Qed.

(** A label operand denotes the label's address wherever the PC currently is: the word eval
    executes decodes to the written instruction whose PC-relative field, added to the CURRENT PC,
    gives origin + (label's line) - 1 — the address the assembler gave the labelled statement. *)
Theorem eval_label_target st s' w l r k :
  wf st -> 1 <= r -> r < 65536 ->
  stmt_ok s' -> pcrel_of s' = Some (l, k) -> l = LRef r ->
  emit (mkLine (wrap (s_pc st + 65536 - s_orig st)) s' 0 0) = Ok w ->
  exists o, decode w = instr_of s' o /\
            addw (s_pc st) (sext k o) = wrap (s_orig st + r - 1).
Proof.
  intros Hwf Hr Hr' Hok Hpc Hl He. subst l.
  destruct (emit_decode (mkLine (wrap (s_pc st + 65536 - s_orig st)) s' 0 0) w Hok He) as (o & Hb & Hw & Hd & Hf).
  cbn [al_stmt al_line] in *.
  rewrite Hpc in Hf. exists o. split; [exact Hd|].
  assert (Hk : 1 <= k /\ k <= 15).
  { destruct s'; cbn in Hpc; inversion Hpc; subst; lia. }
  destruct Hwf as (_ & Hp & Ho & _).
  pose proof (pcrel_target0 (s_orig st) (wrap (s_pc st + 65536 - s_orig st)) r k o
                (proj1 Hk) (proj2 Hk) (wrap_lt _) Hr Hr' Ho Hf) as T.
  rewrite eval_line_is_pc in T by assumption. exact T.
Qed.

(** Off-limits instructions are refused: no effect on the machine, the session goes on. *)
Theorem eval_refuses env st text toks s :
  lex_simple (e_feat env) (S (length text)) text 0 [] = Ok toks ->
  parse_simple (e_sym env) toks (bytes text) = Ok s ->
  match s with
  | SBranch _ _ | SInterrupt => True
  | STrap v => v = 37 \/ v < 32 \/ 39 < v
  | _ => False
  end ->
  exists line, eval env st text = EvalRefused line.
Proof.
  intros Hl Hp Hs. unfold eval. rewrite Hl, Hp.
  destruct s; try contradiction; try (eexists; reflexivity).
  destruct Hs as [->|[H|H]].
  - eexists; reflexivity.
  - destruct (N.eqb_spec v 37); [eexists; reflexivity|].
    assert (E : (v <? 32) = true) by (apply N.ltb_lt; exact H). rewrite E. eexists; reflexivity.
  - destruct (N.eqb_spec v 37); [eexists; reflexivity|].
    assert (E : (39 <? v) = true) by (apply N.ltb_lt; exact H). rewrite E, orb_true_r. eexists; reflexivity.
Qed.

(** Text that is not exactly one well-formed instruction is refused with no effect; in every
    refusal case the command loop continues with the machine untouched. *)
Theorem eval_command_no_effect env d st text :
  (exists line, eval env st text = EvalRefused line) \/ eval env st text = EvalError ->
  exists d', run_command env (CEval text) d st = CmdNone d' st /\ d_bps d' = d_bps d /\ d_status d' = d_status d.
Proof.
  intros [[line H]|H]; cbn [run_command]; rewrite H; eexists; repeat split.
Qed.

Lemma parse_simple_surplus sym t r extra srclen s toks2 te :
  match tk t with
  | KInstr k => parse_instr sym 1 k (r, 0) srclen = Ok (s, (extra :: toks2, te))
  | KTrap k => parse_trap k (r, 0) srclen = Ok (s, (extra :: toks2, te))
  | _ => False
  end ->
  parse_simple sym (t :: r) srclen = Err E_unexpected (toffs extra) (tlen extra).
Proof.
  unfold parse_simple. destruct (tk t); try contradiction; intros ->; reflexivity.
Qed.

(* ------------------------------------------------------------------ *)
(** * C17 *)

(** `assembly <address>` shows the source slice of the statement that produced the word at that
    address, and nothing for addresses that hold no statement. *)
Theorem source_statement_spec env orig a :
  (a < orig \/ orig + N.of_nat (length (e_spans env)) <= a -> source_statement env orig a = None) /\
  (forall i o l, a = orig + N.of_nat i -> nth_error (e_spans env) i = Some (o, l) ->
                 source_statement env orig a = Some (slice_src (e_src env) o l)).
Proof.
  split.
  - intros [H|H]; unfold source_statement.
    + assert (E : (a <? orig) = true) by (apply N.ltb_lt; exact H). rewrite E. reflexivity.
    + destruct (a <? orig); [reflexivity|].
      assert (E : (N.of_nat (length (e_spans env)) <=? a - orig) = true) by (apply N.leb_le; lia).
      rewrite E. reflexivity.
  - intros i o l -> Hn. unfold source_statement.
    assert (Hi : (i < length (e_spans env))%nat) by (apply nth_error_Some; congruence).
    assert (E1 : (orig + N.of_nat i <? orig) = false) by (apply N.ltb_ge; lia). rewrite E1.
    replace (orig + N.of_nat i - orig) with (N.of_nat i) by lia.
    assert (E2 : (N.of_nat (length (e_spans env)) <=? N.of_nat i) = false) by (apply N.leb_gt; lia).
    rewrite E2. cbn [orb]. rewrite Nat2N.id. rewrite Hn. reflexivity.
Qed.

(** A label used as a location resolves to origin + (its line) - 1 plus the offset, when that lies
    in user space — the address the assembler gave the statement it marks (statement of line L sits
    at origin + L - 1). *)
Theorem label_resolves env d st name off line a :
  sym_get (e_sym env) name = Some line -> 1 <= line -> line + s_orig st <= 65536 ->
  (Z.of_N a = Z.of_N (s_orig st + line - 1) + signed16 off)%Z -> in_userspace st a = true ->
  resolve_location env d st (MLabel name off) = (Some a, d).
Proof.
  intros Hs Hl Hfit Ha Hu. unfold resolve_location. rewrite Hs.
  assert (Hw : wrap (line - 1 + s_orig st) = s_orig st + line - 1).
  { unfold wrap. rewrite N.mod_small by (unfold W; lia). lia. }
  rewrite Hw. unfold add_address_offset. rewrite <- Ha.
  unfold in_userspace in Hu. apply andb_true_iff in Hu. destruct Hu as [H1 H2].
  apply N.leb_le in H1. apply N.ltb_lt in H2.
  assert (E1 : (Z.of_N (s_orig st) <=? Z.of_N a)%Z = true) by (apply Z.leb_le; lia).
  assert (E2 : (Z.of_N a <? 65024)%Z = true) by (apply Z.ltb_lt; lia).
  rewrite E1, E2. cbn [andb]. rewrite N2Z.id. reflexivity.
Qed.

(** The span the parser records for a statement runs from its first token to the end of the last
    operand consumed; a statement without operands spans its own token. *)
Lemma expect_reg_tok_end p srclen r p' : expect_reg p srclen = Ok (r, p') ->
  exists t rest, fst p = t :: rest /\ p' = (rest, tend t).
Proof.
  unfold expect_reg. destruct (fst p) as [|t rest]; [discriminate|]. destruct (tk t); try discriminate.
  intros H; inversion H; subst. eauto.
Qed.
