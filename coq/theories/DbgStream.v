(* DbgStream.v — MODEL of `lace debug` with ONE console input stream, as in the real process:
   when the `--command` argument is used up the debugger reads its next command from standard
   input — the very stream GETC / IN read from.  [s_inp] of the machine state IS that stream:
   the debugger's reader ([fetch]: Stdin::read + Command::read_from of Cmd.v) and the program take
   their bytes from its front in the order in which they ask.

   Dbg.v keeps the two apart (a script for the debugger, an input for the program); this file says
   what the process really does, and DbgStreamProofs.v when the two coincide.

   The stream is a stream of BYTES.  The program takes bytes; the debugger's reader decodes UTF-8
   (Utf8.v: `read_char_from_bytes`) — the separators newline and `;` are ASCII and never part of a
   multi-byte character, so cutting the bytes at them and decoding the line is what the reader does
   character by character.

   Bytes that are not UTF-8 reach the parser as U+FFFD ([Utf8.decode_lossy]: the byte that breaks a
   sequence is read again, so cutting at the separators first and decoding the line afterwards is still
   what the reader does).

   Domain: no line leaves the process (`sudo`); otherwise the result is [None]. *)
From Coq Require Import List NArith ZArith Bool.
From Lace Require Import Word Machine Isa Vm Asm Dbg DebugText.
From Lace Require Utf8.
From Lace Require CmdSpec Cmd.
Import ListNotations.
Open Scope N_scope.

Inductive fetched :=
| FCmd (c : cmd) (rest : list N)      (* a command (or a rejected line) and what is left of the stream *)
| FEof (rest : list N)                (* end of input: the debugger detaches *)
| FLeave.                             (* outside the domain *)

(** The next command from the stream: blank lines are skipped inside the same call. *)
Fixpoint fetch (fuel : nat) (inp : list N) : fetched :=
  match fuel with
  | O => FLeave
  | S fuel' =>
      match Cmd.stdin_read inp with
      | (None, rest) => FEof rest
      | (Some raw, rest) =>
          match Cmd.parse_line (Utf8.decode_lossy raw) with
          | None => fetch fuel' rest
          | Some (Cmd.Ok c) => FCmd (conv_cmd c) rest
          | Some (Cmd.Err _) => FCmd CBad rest
          | Some _ => FLeave
          end
      end
  end.

Definition fetch_from (st : state) : fetched := fetch (S (length (s_inp st))) (s_inp st).

Inductive sna_result :=
| SnaAction (a : action) (d : dbg) (st : state) (rest : list cmd) (ncmds : N)
| SnaStop (r : result) (d : dbg) (rest : list cmd) (ncmds : N)
| SnaLeave.

(** Reading commands from the stream until one raises an action. *)
Fixpoint wait_stream (env : dbg_env) (sf : nat) (d : dbg) (st : state) (n : N) : sna_result :=
  match sf with
  | O => SnaLeave
  | S sf' =>
      match fetch_from st with
      | FLeave => SnaLeave
      | FEof rest => SnaAction StopDebugger (set_icount d 0) (set_inp st rest) [] (n + 1)
      | FCmd c rest =>
          let st0 := set_inp st rest in
          match run_command env c d st0 with
          | CmdAction a d1 st1 => SnaAction a d1 st1 [] (n + cmd_cost c)
          | CmdStop r d1 => SnaStop r d1 [] (n + cmd_cost c)
          | CmdNone d1 st1 =>
              match dispatch_status d1 st1 with
              | (Some a, d2) => SnaAction a d2 st1 [] (n + cmd_cost c)
              | (None, d2) => wait_stream env sf' d2 st1 (n + cmd_cost c)
              end
          end
      end
  end.

(** [wait_loop] of Dbg.v, with the stream behind the argument's commands. *)
Fixpoint swait_loop (env : dbg_env) (script : list cmd) (d : dbg) (st : state) (n : N) : sna_result :=
  match script with
  | [] => wait_stream env (S (length (s_inp st))) d st n
  | c :: rest =>
      match run_command env c d st with
      | CmdAction a d1 st1 => SnaAction a d1 st1 rest (n + cmd_cost c)
      | CmdStop r d1 => SnaStop r d1 rest (n + cmd_cost c)
      | CmdNone d1 st1 =>
          match dispatch_status d1 st1 with
          | (Some a, d2) => SnaAction a d2 st1 rest (n + cmd_cost c)
          | (None, d2) => swait_loop env rest d2 st1 (n + cmd_cost c)
          end
      end
  end.

Definition snext_action (env : dbg_env) (script : list cmd) (d : dbg) (st : state) : sna_result :=
  let d1 :=
    if (s_pc st <? s_orig st) || (65024 <=? s_pc st)
    then set_status (say d L_OOB_PC) WaitForAction else d in
  let d2 := check_interrupts d1 st in
  match dispatch_status d2 st with
  | (Some a, d3) => SnaAction a d3 st script 0
  | (None, d3) => swait_loop env script d3 st 0
  end.

Inductive stick_result :=
| STStop (kind code : N) (st : state) (d : dbg) (execd : N) (n : N)
| STDetach (d : dbg) (st : state) (n : N)
| STNext (rest : list cmd) (d : dbg) (st : state) (execd : N) (n : N)
| STLeave.

Definition stick (env : dbg_env) (script : list cmd) (d : dbg) (st : state) : stick_result :=
  match snext_action env script d st with
  | SnaLeave => STLeave
  | SnaStop r d1 rest n =>
      match r with
      | Exited c st' => STStop 1 c st' d1 0 n
      | Panicked st' => STStop 2 0 st' d1 0 n
      | _ => STStop 3 0 st d1 0 n
      end
  | SnaAction ExitProgram d1 st1 rest n => STStop 7 0 st1 d1 0 n
  | SnaAction StopDebugger d1 st1 rest n => STDetach d1 st1 n
  | SnaAction Proceed d1 st1 rest n =>
      if at_halt st1 then STNext rest d1 st1 0 n
      else if (s_pc st1 <? s_orig st1) || (65024 <=? s_pc st1) then STNext rest d1 st1 0 n
      else
        let d2 := set_icount d1 (d_icount d1 + 1) in
        let instr := M st1 (s_pc st1) in
        if W <=? s_pc st1 + 1 then STStop 2 0 st1 d2 0 n
        else
          match execute (e_feat env) instr (set_pc st1 (s_pc st1 + 1)) with
          | Running st2 => STNext rest d2 st2 1 n
          | Exited c st2 => STStop 1 c st2 d2 1 n
          | Panicked st2 => STStop 2 0 st2 d2 1 n
          | Diverged => STStop 3 0 st1 d2 1 n
          end
  end.

Fixpoint ssession (env : dbg_env) (fuel : nat) (script : list cmd) (d : dbg) (st : state)
                  (ticks execs cmds : N) : option session_result :=
  match fuel with
  | O => Some (mkSres 4 0 st (Some d) (lrev (d_err d)) ticks execs cmds)
  | S fuel' =>
      match stick env script d st with
      | STLeave => None
      | STStop kind code st' d1 e n =>
          Some (mkSres kind code st' (Some d1) (lrev (d_err d1)) (ticks + 1) (execs + e) (cmds + n))
      | STDetach d1 st1 n =>
          Some (of_vm (vm_run (e_feat env) fuel' st1 []) st1 (lrev (d_err d1)) (ticks + 1) execs (cmds + n))
      | STNext rest d1 st1 e n => ssession env fuel' rest d1 st1 (ticks + 1) (execs + e) (cmds + n)
      end
  end.

(** `lace debug FILE [--command ARG] < STREAM`: [stream] is everything that standard input will
    deliver — commands, program input, in whatever order the two readers ask for it. *)
Definition debug_stream (feat : bool) (src : list N) (arg : option (list N)) (stream : list N) (fuel : nat)
  : option session_result :=
  if negb (forallb event_in_domain (Cmd.session arg [])) then None
  else
    match assemble feat [] src with
    | (Ok im, sym) =>
        let raw := (match i_orig im with Some o => o | None => 12288 end) :: i_words im in
        match from_raw raw stream with
        | LoadExit c => None
        | Loaded st =>
            let env := mkEnv feat sym (i_spans im) src in
            let d := mkDbg WaitForAction (with_orig (i_bps im) (s_pc st)) st [] 0 in
            ssession env fuel (script_of_events (Cmd.session arg [])) d st 0 0 0
        end
    | _ => None
    end.
