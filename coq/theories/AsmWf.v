(* AsmWf.v — every statement the parser produces has well-formed operands (3-bit registers and
   flags, range-checked literals), so the per-statement theorems of AsmProofs.v apply to EVERY
   program the assembler accepts; every emitted word is a 16-bit value. *)
From Coq Require Import ZArith Lia.
From Lace Require Import Word Machine Isa Asm AsmProofs AsmTotal.
Open Scope N_scope.

(* ------------------------------------------------------------------ *)
(** * Tokens carry 16-bit literals and 3-bit registers *)

Definition kind_wf (k : tkind) : Prop :=
  match k with
  | KLit (LHex v) | KLit (LDec v) | KByte v => v < 65536
  | KReg r => r < 8
  | KTrap (TNamed v) => v < 256
  | KInstr (IBr f) => f < 8
  | _ => True
  end.

Definition tok_wf (t : token) : Prop := kind_wf (tk t).

Lemma acc_digits_bound radix max ds : forall acc v, acc <= max -> acc_digits radix max ds acc = POk v -> v <= max.
Proof.
  induction ds as [|c r IH]; intros acc v Ha H; cbn in H.
  - inversion H; subst; exact Ha.
  - destruct (to_digit radix c) as [x|]; [|discriminate].
    destruct (N.ltb_spec max (acc * radix + x)); [discriminate|]. eapply IH; [|exact H]. assumption.
Qed.

Lemma parse_u16_bound radix s v : parse_u16 radix s = POk v -> v < 65536.
Proof.
  unfold parse_u16. intros H.
  assert (K : forall ds, acc_digits radix 65535 ds 0 = POk v -> v < 65536).
  { intros ds Hd. apply acc_digits_bound in Hd; lia. }
  destruct s as [|c [|c2 r]]; [discriminate| |].
  - destruct ((c =? 43) || (c =? 45)); [discriminate|apply (K _ H)].
  - destruct (c =? 43); apply (K _ H).
Qed.

Lemma parse_i16_bound radix s v : parse_i16 radix s = POk v -> v < 65536.
Proof.
  unfold parse_i16. intros H.
  assert (K : forall ds, acc_digits radix 32767 ds 0 = POk v -> v < 65536).
  { intros ds Hd. apply acc_digits_bound in Hd; lia. }
  destruct s as [|c [|c2 r]]; [discriminate| |].
  - destruct ((c =? 43) || (c =? 45)); [discriminate|apply (K _ H)].
  - destruct (c =? 43); [apply (K _ H)|].
    destruct (c =? 45); [|apply (K _ H)].
    destruct (acc_digits radix 32768 (c2 :: r) 0); [|discriminate]. inversion H; subst.
    apply N.mod_lt. discriminate.
Qed.

Definition lexed_wf (x : lexed) : Prop :=
  match x with LexTok k _ _ => kind_wf k | LexErr _ _ _ => True end.

Lemma check_instruction_wf id : kind_wf (check_instruction id).
Proof.
  unfold check_instruction.
  repeat match goal with |- context [if ?b then _ else _] => destruct b; [cbn; try exact I; lia|] end. exact I.
Qed.

Lemma check_trap_wf id : kind_wf (check_trap id).
Proof.
  unfold check_trap.
  repeat match goal with |- context [if ?b then _ else _] => destruct b; [cbn; try exact I; lia|] end. exact I.
Qed.

Lemma ident_wf feat pre rest : lexed_wf (ident feat pre rest).
Proof.
  unfold ident. destruct (take_while is_id rest) as [more rest'].
  destruct (is_stack_word _ && negb feat); [exact I|]. cbn [lexed_wf].
  pose proof (check_instruction_wf (List.map to_lower (last pre 0 :: more))) as K.
  destruct (check_instruction _); try exact K. apply check_trap_wf.
Qed.

Lemma hex_wf pre rest : lexed_wf (hex pre rest).
Proof.
  unfold hex. destruct (take_while _ rest) as [digits rest'].
  destruct (parse_i16 16 digits) eqn:E1; [cbn; eapply parse_i16_bound; exact E1|].
  destruct (parse_u16 16 digits) as [v|[]] eqn:E2; try exact I. cbn. eapply parse_u16_bound; exact E2.
Qed.

Lemma dec_wf pre rest : lexed_wf (dec pre rest).
Proof.
  unfold dec. destruct (take_while _ rest) as [digits rest'].
  destruct (parse_i16 10 digits) eqn:E1; [cbn; eapply parse_i16_bound; exact E1|].
  destruct (parse_u16 10 digits) eqn:E2; [|exact I]. cbn. eapply parse_u16_bound; exact E2.
Qed.

Lemma dir_wf pre rest : lexed_wf (dir pre rest).
Proof. unfold dir. destruct (take_while is_id rest). destruct (check_directive _); exact I. Qed.

Lemma is_reg_num_bound d : is_reg_num d = true -> d - 48 < 8.
Proof.
  unfold is_reg_num, between. intros H. apply andb_true_iff in H. destruct H as [H1 H2].
  apply N.leb_le in H1. apply N.leb_le in H2. lia.
Qed.

Lemma advance_token_wf feat l x : advance_token feat l = Some x -> lexed_wf x.
Proof.
  destruct l as [|c rest]; [discriminate|]. cbn [advance_token]. intros H. inversion H; subst x; clear H.
  destruct (c =? 59); [destruct (take_while _ rest); exact I|].
  destruct (is_whitespace c); [destruct (take_while _ rest); exact I|].
  destruct ((c =? 120) || (c =? 88)); [apply hex_wf|].
  destruct (c =? 48).
  { destruct rest as [|x rest']; [apply ident_wf|].
    destruct ((x =? 120) || (x =? 88)); [apply hex_wf|apply ident_wf]. }
  destruct ((c =? 114) || (c =? 82)).
  { destruct rest as [|d rest']; [apply ident_wf|].
    destruct (is_reg_num d) eqn:Ed; [|apply ident_wf].
    destruct (take_while is_reg_num (d :: rest')) as [nums rest''].
    match goal with |- lexed_wf (if ?b then _ else _) => destruct b end; [|apply ident_wf].
    cbn. apply is_reg_num_bound. exact Ed. }
  destruct (is_id c); [apply ident_wf|].
  destruct (c =? 35); [apply dec_wf|].
  destruct (c =? 46); [apply dir_wf|].
  destruct (c =? 34); [destruct (str_scan rest) as [[t a] b]; destruct t; exact I|].
  destruct (take_while _ rest). exact I.
Qed.

Lemma lex_at_wf feat l pos t rest pos' : lex_at feat l pos = StepTok t rest pos' -> tok_wf t.
Proof.
  unfold lex_at. destruct (advance_token feat l) as [x|] eqn:E.
  - pose proof (advance_token_wf _ _ _ E) as K. destruct x; [|discriminate].
    intros H; inversion H; subst. exact K.
  - intros H; inversion H; subst. exact I.
Qed.

Lemma advance_real_wf feat l pos t rest pos' : advance_real feat l pos = StepTok t rest pos' -> tok_wf t.
Proof.
  unfold advance_real. destruct (lex_at feat l pos) as [t1 r1 p1|] eqn:E1; [|discriminate].
  destruct (tk t1) eqn:Ek; try (intros H; inversion H; subst; eapply lex_at_wf; exact E1).
  intros H. eapply lex_at_wf; exact H.
Qed.

(* ------------------------------------------------------------------ *)
(** * Preprocessing keeps tokens well-formed *)

Definition all_wf (r : res (list token)) : Prop :=
  match r with Ok toks => Forall tok_wf toks | _ => True end.

Lemma preprocess_wf feat fuel : forall l pos acc,
  Forall tok_wf acc -> all_wf (preprocess feat fuel l pos acc).
Proof.
  induction fuel as [|fuel IH]; intros l pos acc Hacc; [exact I|].
  cbn [preprocess].
  destruct (advance_real feat l pos) as [t rest pos'|d a n] eqn:E; [|exact I].
  pose proof (advance_real_wf _ _ _ _ _ _ E) as Ht.
  destruct (tk t) as [ |i|tr|li|di|r|v| | | | ] eqn:Ek;
    try (apply IH; constructor; assumption); try (apply IH; assumption);
    try (cbn; apply lrev_Forall; exact Hacc).
  destruct di; try (apply IH; constructor; assumption); try (cbn; apply lrev_Forall; exact Hacc).
  - (* stringz *)
    destruct (advance_real feat rest pos') as [v rest2 pos2|d a n] eqn:E2; [|exact I].
    destruct (tk v) as [ | | |[x|x| ]| | | | | | | ]; try exact I.
    apply IH. constructor; [cbn; lia|]. apply Forall_app. split; [|exact Hacc].
    apply lrev_Forall. apply Forall_forall. intros tkn Hin.
    apply in_map_iff in Hin. destruct Hin as (c & <- & _). cbn. apply N.mod_lt. discriminate.
  - (* blkw *)
    destruct (advance_real feat rest pos') as [v rest2 pos2|d a n] eqn:E2; [|exact I].
    destruct (tk v) as [ | | |[x|x| ]| | | | | | | ]; try exact I;
      (apply IH; apply Forall_app; split; [apply repeat_Forall; cbn; lia|exact Hacc]).
  - (* fill *)
    destruct (advance_real feat rest pos') as [v rest2 pos2|d a n] eqn:E2; [|exact I].
    pose proof (advance_real_wf _ _ _ _ _ _ E2) as Hv. unfold tok_wf in Hv.
    destruct (tk v) as [ | | |[x|x| ]| | | | | | | ]; try exact I;
      (apply IH; constructor; [exact Hv|exact Hacc]).
  - apply IH. constructor; [exact I|exact Hacc].
Qed.

(* ------------------------------------------------------------------ *)
(** * The parser produces statements with well-formed operands *)

Lemma check_range_imm5 v : v < 65536 -> check_range (Signed 5) v = true -> imm5_ok (v mod 256) = true.
Proof.
  intros Hv H. unfold check_range in H. change (2 ^ (5 - 1)) with 16 in H.
  unfold imm5_ok. destruct (N.ltb_spec v 32768).
  - apply N.ltb_lt in H. rewrite N.mod_small by lia.
    assert (E : (v <? 16) = true) by (apply N.ltb_lt; exact H). rewrite E. reflexivity.
  - apply N.leb_le in H.
    assert (Hm : v mod 256 = v - 65280).
    { symmetry. apply (N.mod_unique v 256 255); lia. }
    rewrite Hm.
    assert (E1 : (240 <=? v - 65280) = true) by (apply N.leb_le; lia).
    assert (E2 : (v - 65280 <? 256) = true) by (apply N.ltb_lt; lia).
    rewrite E1, E2. apply orb_true_r.
Qed.

Lemma check_range_off6 v : v < 65536 -> check_range (Signed 6) v = true -> off6_ok (v mod 256) = true.
Proof.
  intros Hv H. unfold check_range in H. change (2 ^ (6 - 1)) with 32 in H.
  unfold off6_ok. destruct (N.ltb_spec v 32768).
  - apply N.ltb_lt in H. rewrite N.mod_small by lia.
    assert (E : (v <? 32) = true) by (apply N.ltb_lt; exact H). rewrite E. reflexivity.
  - apply N.leb_le in H.
    assert (Hm : v mod 256 = v - 65280).
    { symmetry. apply (N.mod_unique v 256 255); lia. }
    rewrite Hm.
    assert (E1 : (224 <=? v - 65280) = true) by (apply N.leb_le; lia).
    assert (E2 : (v - 65280 <? 256) = true) by (apply N.ltb_lt; lia).
    rewrite E1, E2. apply orb_true_r.
Qed.

(** "if it succeeds, the value satisfies P and the remaining tokens are a well-formed suffix" *)
Definition yields {A} (toks : list token) (P : A -> Prop) (r : res (A * pst)) : Prop :=
  match r with
  | Ok (a, (toks', _)) => P a /\ is_suffix toks' toks
  | _ => True
  end.

Lemma expect_reg_yields p srclen : Forall tok_wf (fst p) -> yields (fst p) (fun r => r < 8) (expect_reg p srclen).
Proof.
  intros H. unfold expect_reg. destruct (fst p) as [|t r]; [exact I|].
  inversion H as [|? ? Ht Hr]; subst. unfold tok_wf in Ht.
  destruct (tk t); try exact I. cbn. split; [exact Ht|apply is_suffix_cons].
Qed.

Lemma expect_lit_yields b p srclen : Forall tok_wf (fst p) ->
  yields (fst p) (fun v => v < 65536 /\ check_range b v = true) (expect_lit b p srclen).
Proof.
  intros H. unfold expect_lit. destruct (fst p) as [|t r]; [exact I|].
  inversion H as [|? ? Ht Hr]; subst. unfold tok_wf in Ht.
  destruct (tk t) as [ | | |[x|x| ]| | | | | | | ]; try exact I;
    destruct (check_range b x) eqn:E; try exact I; cbn; (split; [split; assumption|apply is_suffix_cons]).
Qed.

Lemma expect_label_yields sym p srclen : yields (fst p) (fun _ => True) (expect_label sym p srclen).
Proof.
  unfold expect_label. destruct (fst p) as [|t r]; [exact I|].
  destruct (tk t); try exact I. cbn. split; [exact I|apply is_suffix_cons].
Qed.

Definition ior_ok (x : imm_or_reg) : Prop :=
  match x with IReg r => r < 8 | IImm5 v => imm5_ok v = true end.

Lemma expect_lit_or_reg_yields p srclen : Forall tok_wf (fst p) -> yields (fst p) ior_ok (expect_lit_or_reg p srclen).
Proof.
  intros H. unfold expect_lit_or_reg. destruct (fst p) as [|t r] eqn:E; [exact I|].
  destruct (tk t); try exact I.
  - pose proof (expect_lit_yields (Signed 5) p srclen) as K. rewrite E in K. specialize (K H).
    destruct (expect_lit (Signed 5) p srclen) as [[v [? ?]]| |]; try exact I.
    cbn in *. destruct K as [[Hv Hc] Hs]. split; [apply check_range_imm5; assumption|exact Hs].
  - pose proof (expect_reg_yields p srclen) as K. rewrite E in K. specialize (K H).
    destruct (expect_reg p srclen) as [[v [? ?]]| |]; try exact I. exact K.
Qed.

Lemma expect_lit_or_label_yields sym line nb p srclen : Forall tok_wf (fst p) ->
  yields (fst p) (fun _ => True) (expect_lit_or_label sym line nb p srclen).
Proof.
  intros H. unfold expect_lit_or_label. destruct (fst p) as [|t r] eqn:E; [exact I|].
  destruct (tk t); try exact I.
  - pose proof (expect_label_yields sym p srclen) as K. rewrite E in K. exact K.
  - pose proof (expect_lit_yields (Signed nb) p srclen) as K. rewrite E in K. specialize (K H).
    destruct (expect_lit (Signed nb) p srclen) as [[v [? ?]]| |]; try exact I.
    cbn in *. split; [exact I|apply K].
Qed.

Lemma yields_bind {A B} toks (P : A -> Prop) (Q : B -> Prop) (x : res (A * pst)) (f : A * pst -> res (B * pst)) :
  Forall tok_wf toks ->
  yields toks P x ->
  (forall a (p' : pst), P a -> is_suffix (fst p') toks -> Forall tok_wf (fst p') -> yields (fst p') Q (f (a, p'))) ->
  yields toks Q (bind x f).
Proof.
  intros Hw Hx Hf. destruct x as [[a p']| |]; cbn [bind]; try exact I.
  specialize (Hf a p'). revert Hf. generalize (f (a, p')). intros y Hy.
  destruct p' as [toks' te]. cbn [yields fst] in *. destruct Hx as [Pa Hs].
  specialize (Hy Pa Hs (is_suffix_Forall _ _ _ Hs Hw)).
  destruct y as [[b [toks2 te2]]| |]; cbn [yields] in *; try exact I.
  destruct Hy as [Qb Hs2]. split; [exact Qb|eapply is_suffix_trans; eassumption].
Qed.

Ltac yields_tac :=
  repeat first
    [ eapply yields_bind;
      [ assumption
      | first [ apply expect_reg_yields; assumption | apply expect_lit_yields; assumption
              | apply expect_label_yields | apply expect_lit_or_reg_yields; assumption
              | apply expect_lit_or_label_yields; assumption ]
      | let a := fresh "a" in let p' := fresh "p'" in
        intros a p' ? ? ?; destruct p' as [? ?]; cbn [fst] in * ]
    | (cbn [yields]; split; [cbn [stmt_ok];
         repeat match goal with x : imm_or_reg |- _ => destruct x; cbn [ior_ok] in * end;
         intuition; try (apply check_range_off6; tauto) | apply is_suffix_refl]) ].

Lemma parse_instr_yields sym line k p srclen : Forall tok_wf (fst p) -> kind_wf (KInstr k) ->
  yields (fst p) stmt_ok (parse_instr sym line k p srclen).
Proof.
  intros Hw Hk. destruct p as [toks te]. cbn [fst] in *.
  destruct k; cbn [parse_instr]; yields_tac.
Qed.

Lemma parse_trap_yields k p srclen : Forall tok_wf (fst p) -> kind_wf (KTrap k) ->
  yields (fst p) stmt_ok (parse_trap k p srclen).
Proof.
  intros Hw Hk. destruct p as [toks te]. cbn [fst] in *.
  destruct k; cbn [parse_trap]; [|cbn; split; [exact Hk|apply is_suffix_refl]].
  eapply yields_bind; [assumption|apply expect_lit_yields; assumption|].
  intros v p' [Hv Hc] Hs Hw'. destruct p' as [? ?]. cbn. split; [|apply is_suffix_refl].
  apply N.mod_lt. discriminate.
Qed.

Definition ast_ok (ls : list asm_line) : Prop := Forall (fun ln => stmt_ok (al_stmt ln)) ls.

Definition orig_ok (o : option N) : Prop := match o with Some v => v < 65536 | None => True end.

Definition parse_ok (r : res (air * symtab)) : Prop :=
  match r with Ok (a, _) => ast_ok (a_ast a) /\ orig_ok (a_orig a) | _ => True end.

Lemma parse_stmts_ok fuel srclen : forall ps,
  Forall tok_wf (p_toks ps) -> ast_ok (a_ast (p_air ps)) -> orig_ok (a_orig (p_air ps)) ->
  parse_ok (fst (parse fuel srclen ps)).
Proof.
  induction fuel as [|fuel IH]; intros ps Hw Hast Horig; [exact I|].
  cbn [parse].
  destruct (p_toks ps) as [|t0 r0] eqn:Et.
  { cbn. split; [apply lrev_Forall; exact Hast|exact Horig]. }
  assert (Hw0 : tok_wf t0 /\ Forall tok_wf r0) by (inversion Hw; auto).
  destruct Hw0 as [Hk0 Hr0].
  (* a generic finisher for "statement parsed" *)
  assert (FIN : forall sym1 line (x : res (stmt * pst)) t toks,
            Forall tok_wf toks -> yields toks stmt_ok x ->
            parse_ok (fst
              match x with
              | Ok (s, (toks2, tok_end2)) =>
                  if line + 1 <? W
                  then parse fuel srclen
                         (mkParser toks2
                            (mkAir (a_orig (p_air ps))
                               (mkLine (wrap (p_count ps + 1)) s (toffs t)
                                  (if tok_end2 <=? toffs t then tlen t else tok_end2 - toffs t) :: a_ast (p_air ps))
                               (a_bps (p_air ps))) (line + 1) tok_end2 sym1 (p_count ps + 1))
                  else (Err E_too_long (srclen - 1) 0, sym1)
              | Err d a n => (Err d a n, sym1)
              | Bad w => (Bad w, sym1)
              end)).
  { intros sym1 line x t toks Htoks Hy. destruct x as [[s [toks2 te2]]| |]; try exact I.
    cbn [yields] in Hy. destruct Hy as [Hs Hsuf].
    destruct (line + 1 <? W); [|exact I].
    apply IH; cbn [p_toks p_air a_ast a_orig]; [eapply is_suffix_Forall; eassumption| |exact Horig].
    constructor; [exact Hs|exact Hast]. }
  destruct (tk t0) eqn:Ek0; cbv beta iota zeta; rewrite ?Ek0; cbv beta iota zeta; try exact I.
  - (* label first *)
    destruct (sym_get (p_sym ps) (ttext t0)); [exact I|].
    destruct r0 as [|t r]; [exact I|].
    assert (Hw1 : tok_wf t /\ Forall tok_wf r) by (inversion Hr0; auto). destruct Hw1 as [Hk Hr].
    cbv beta iota zeta.
    destruct (tk t) eqn:Ek; cbv beta iota zeta; try exact I.
    + apply (FIN _ (p_line ps) _ t r Hr). apply (parse_instr_yields _ _ i (r, p_tok_end ps) srclen Hr).
      unfold tok_wf in Hk. rewrite Ek in Hk. exact Hk.
    + apply (FIN _ (p_line ps) _ t r Hr). apply (parse_trap_yields t1 (r, p_tok_end ps) srclen Hr).
      unfold tok_wf in Hk. rewrite Ek in Hk. exact Hk.
    + destruct d; try exact I.
      pose proof (expect_lit_yields (Unsigned 16) (r, p_tok_end ps) srclen Hr) as K.
      destruct (expect_lit _ _ _) as [[v [toks2 te2]]| |]; try exact I. cbn [yields fst] in K.
      destruct (a_orig (p_air ps)); [exact I|].
      apply IH; cbn [p_toks p_air a_ast a_orig]; [eapply is_suffix_Forall; [apply K|exact Hr]|exact Hast|apply K].
    + apply (FIN _ (p_line ps) (Ok (SRawWord v, (r, p_tok_end ps))) t r Hr). cbn. split; [|apply is_suffix_refl].
      unfold tok_wf in Hk. rewrite Ek in Hk. exact Hk.
    + apply IH; cbn [p_toks p_air a_ast a_orig]; assumption.
  - apply (FIN _ (p_line ps) _ t0 r0 Hr0). apply (parse_instr_yields _ _ i (r0, p_tok_end ps) srclen Hr0).
    unfold tok_wf in Hk0. rewrite Ek0 in Hk0. exact Hk0.
  - apply (FIN _ (p_line ps) _ t0 r0 Hr0). apply (parse_trap_yields t (r0, p_tok_end ps) srclen Hr0).
    unfold tok_wf in Hk0. rewrite Ek0 in Hk0. exact Hk0.
  - destruct d; try exact I.
    pose proof (expect_lit_yields (Unsigned 16) (r0, p_tok_end ps) srclen Hr0) as K.
    destruct (expect_lit _ _ _) as [[v [toks2 te2]]| |]; try exact I. cbn [yields fst] in K.
    destruct (a_orig (p_air ps)); [exact I|].
    apply IH; cbn [p_toks p_air a_ast a_orig]; [eapply is_suffix_Forall; [apply K|exact Hr0]|exact Hast|apply K].
  - apply (FIN _ (p_line ps) (Ok (SRawWord v, (r0, p_tok_end ps))) t0 r0 Hr0). cbn. split; [|apply is_suffix_refl].
    unfold tok_wf in Hk0. rewrite Ek0 in Hk0. exact Hk0.
  - apply IH; cbn [p_toks p_air a_ast a_orig]; assumption.
Qed.


(* ------------------------------------------------------------------ *)
(** * Backpatching keeps operands; emitted words are 16-bit values *)

Lemma backpatch_stmt_keeps sym s s' : stmt_ok s -> backpatch_stmt sym s = Ok s' -> stmt_ok s'.
Proof.
  intros Hs. destruct s; cbn [backpatch_stmt]; try (intros H; inversion H; subst; exact Hs);
    match goal with |- context [fill sym ?l] => destruct (fill sym l); cbn [bind]; try discriminate end;
    intros H; inversion H; subst; exact Hs.
Qed.

Lemma backpatch_keeps sym ls : forall ls', ast_ok ls -> backpatch sym ls = Ok ls' -> ast_ok ls'.
Proof.
  induction ls as [|ln r IH]; intros ls' H E; cbn [backpatch] in E.
  - inversion E; constructor.
  - inversion H as [|? ? Hl Hr]; subst.
    destruct (backpatch_stmt sym (al_stmt ln)) as [s'| |] eqn:E1; cbn [bind] in E; try discriminate.
    destruct (backpatch sym r) as [r'| |] eqn:E2; cbn [bind] in E; try discriminate.
    inversion E; subst. constructor; [cbn; eapply backpatch_stmt_keeps; eassumption|apply IH; auto].
Qed.

Lemma lor_lt a b k : a < 2 ^ k -> b < 2 ^ k -> N.lor a b < 2 ^ k.
Proof.
  intros Ha Hb.
  destruct (N.eq_dec (N.lor a b) 0) as [E|E]; [rewrite E; apply N.neq_0_lt_0; apply N.pow_nonzero; discriminate|].
  assert (Hk : 0 < k).
  { destruct (N.eq_dec k 0) as [->|]; [|lia]. cbn in Ha, Hb.
    assert (a = 0) by lia. assert (b = 0) by lia. subst. exfalso. apply E. reflexivity. }
  apply N.log2_lt_pow2; [lia|]. rewrite N.log2_lor.
  apply N.max_lub_lt.
  - destruct (N.eq_dec a 0) as [->|]; [cbn; exact Hk|apply N.log2_lt_pow2; [lia|exact Ha]].
  - destruct (N.eq_dec b 0) as [->|]; [cbn; exact Hk|apply N.log2_lt_pow2; [lia|exact Hb]].
Qed.

Lemma shl_lt d k m : d < 2 ^ m -> m + k <= 16 -> shl d k < 2 ^ 16.
Proof.
  intros Hd Hk. unfold shl. rewrite N.shiftl_mul_pow2.
  apply N.lt_le_trans with (2 ^ m * 2 ^ k).
  - apply N.mul_lt_mono_pos_r; [apply N.neq_0_lt_0; apply N.pow_nonzero; discriminate|exact Hd].
  - rewrite <- N.pow_add_r. apply N.pow_le_mono_r; [discriminate|exact Hk].
Qed.

Lemma land_mask_lt v n : N.land v (N.ones n) < 2 ^ n.
Proof. rewrite N.land_ones. apply N.mod_lt. apply N.pow_nonzero. discriminate. Qed.

Lemma imm_bits_lt x : ior_ok x -> imm_bits x < 2 ^ 16.
Proof.
  destruct x as [r|v]; cbn [ior_ok imm_bits]; intros H.
  - change (2 ^ 16) with 65536. lia.
  - apply lor_lt; [|reflexivity]. change 31 with (N.ones 5).
    eapply N.lt_le_trans; [apply land_mask_lt|]. apply N.pow_le_mono_r; [discriminate|lia].
Qed.

Lemma encode_with_lt s o : stmt_ok s -> field_bound s o -> encode_with s o < W.
Proof.
  intros Hok Hb. change W with (2 ^ 16).
  assert (R3 : forall d, d < 8 -> d < 2 ^ 3) by (intros; exact H).
  assert (O6 : forall off, N.land off 63 < 2 ^ 16).
  { intros off. change 63 with (N.ones 6). eapply N.lt_le_trans; [apply land_mask_lt|].
    apply N.pow_le_mono_r; [discriminate|lia]. }
  assert (FB : forall k, k <= 16 -> o < 2 ^ k -> o < 2 ^ 16).
  { intros k Hk Ho. eapply N.lt_le_trans; [exact Ho|]. apply N.pow_le_mono_r; [discriminate|exact Hk]. }
  unfold field_bound in Hb.
  destruct s as [d a x|d a x|f l|r|l|r|d l|d l|d a off|d l|d a| | |r l|r l|r b off|r|r|l| |v|v];
    cbn [pcrel_of] in Hb; cbn [stmt_ok] in Hok; cbn [encode_with]; unfold orl;
    try (destruct x as [rr|vv]; destruct Hok as (? & ? & ?));
    repeat apply lor_lt;
    try reflexivity;
    try (apply (shl_lt _ _ 3); [apply R3; tauto|lia]);
    try (apply imm_bits_lt; cbn; assumption);
    try apply O6;
    try (eapply FB; [|exact Hb]; lia);
    try (change 31 with (N.ones 5); eapply N.lt_le_trans; [apply land_mask_lt|apply N.pow_le_mono_r; [discriminate|lia]]);
    try (change (2 ^ 16) with 65536; lia).
  all: try (apply (shl_lt _ _ 3); [apply R3; first [exact Hok|tauto]|lia]).
Qed.

Lemma emit_lt ln w : stmt_ok (al_stmt ln) -> emit ln = Ok w -> w < W.
Proof.
  intros Hok H. destruct (emit_decode ln w Hok H) as (o & Hb & -> & _). apply encode_with_lt; assumption.
Qed.

Lemma emit_all_lt ls : forall ws, ast_ok ls -> emit_all ls = Ok ws -> Forall (fun w => w < W) ws.
Proof.
  induction ls as [|ln r IH]; intros ws H E; cbn [emit_all] in E.
  - inversion E; constructor.
  - inversion H as [|? ? Hl Hr]; subst.
    destruct (emit ln) as [w| |] eqn:E1; cbn [bind] in E; try discriminate.
    destruct (emit_all r) as [ws'| |] eqn:E2; cbn [bind] in E; try discriminate.
    inversion E; subst. constructor; [eapply emit_lt; eassumption|apply IH; auto].
Qed.

(* ------------------------------------------------------------------ *)
(** * Whole programs *)

(** Every statement of an assembled program has well-formed operands... *)
Theorem assemble_air_ok feat sym0 src a sym1 :
  assemble_air feat sym0 src = (Ok a, sym1) -> ast_ok (a_ast a) /\ orig_ok (a_orig a).
Proof.
  unfold assemble_air.
  pose proof (preprocess_wf feat (S (length src)) src 0 [] (Forall_nil _)) as Hpre.
  destruct (preprocess feat (S (length src)) src 0 []) as [toks| |]; try discriminate.
  cbn [all_wf] in Hpre.
  pose proof (parse_stmts_ok (S (length toks)) (bytes src)
                (mkParser toks (mkAir None [] []) 1 0 sym0 0) Hpre (Forall_nil _) I) as Hp.
  destruct (parse _ _ _) as [r s1]. cbn [fst] in Hp.
  destruct r as [[a0 s2]| |]; try discriminate. cbn [parse_ok] in Hp. destruct Hp as [Hp Ho].
  destruct (backpatch s1 (a_ast a0)) as [ast'| |] eqn:Eb; try discriminate.
  intros H. inversion H; subst. cbn [a_ast a_orig]. split; [eapply backpatch_keeps; eassumption|exact Ho].
Qed.

(** ... so the image is, word for word, the ISA encoding of the statements: the i-th word decodes to
    the i-th statement (with its PC-relative field produced by [bit_offs]), and is a 16-bit value. *)
Theorem assemble_image feat sym0 src im sym1 :
  assemble feat sym0 src = (Ok im, sym1) ->
  exists a, assemble_air feat sym0 src = (Ok a, sym1) /\
    i_orig im = a_orig a /\ i_bps im = a_bps a /\ ast_ok (a_ast a) /\ orig_ok (i_orig im) /\
    Forall (fun w => w < W) (i_words im) /\
    Forall2 (fun ln w => exists o, field_bound (al_stmt ln) o /\ w = encode_with (al_stmt ln) o /\
                                   decode w = instr_of (al_stmt ln) o /\
                                   match pcrel_of (al_stmt ln) with
                                   | Some (l, k) => bit_offs (al_line ln) l k = Ok o
                                   | None => True
                                   end)
            (a_ast a) (i_words im).
Proof.
  unfold assemble. destruct (assemble_air feat sym0 src) as [r s1] eqn:E.
  destruct r as [a| |]; try discriminate.
  pose proof (assemble_air_ok _ _ _ _ _ E) as [Hok Horig].
  destruct (emit_all (a_ast a)) as [ws| |] eqn:Ee; try discriminate.
  intros H. inversion H; subst. exists a. cbn [i_orig i_bps i_words].
  repeat split; try assumption.
  - eapply emit_all_lt; eassumption.
  - clear E H. revert ws Ee. induction (a_ast a) as [|ln r IH]; intros ws Ee; cbn [emit_all] in Ee.
    + inversion Ee; constructor.
    + inversion Hok as [|? ? Hl Hr]; subst.
      destruct (emit ln) as [w| |] eqn:E1; cbn [bind] in Ee; try discriminate.
      destruct (emit_all r) as [ws'| |] eqn:E2; cbn [bind] in Ee; try discriminate.
      inversion Ee; subst. constructor; [apply emit_decode; assumption|apply IH; auto].
Qed.
