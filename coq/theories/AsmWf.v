(* AsmWf.v — every statement the parser produces has well-formed operands (3-bit registers and
   flags, range-checked literals), so the per-statement theorems of AsmProofs.v apply to EVERY
   program the assembler accepts; every emitted word is a 16-bit value. *)
From Coq Require Import ZArith Lia.
From Lace Require Import Word Machine Isa Asm AsmProofs AsmTotal.
Open Scope N_scope.

(* ------------------------------------------------------------------ *)
(** * Tokens carry 16-bit literals and 3-bit registers *)

Definition kind_wf (k : tkind) : Prop :=
  match k with
  | KLit (LHex v) | KLit (LDec v) | KByte v => v < 65536
  | KReg r => r < 8
  | KTrap (TNamed v) => v < 256
  | KInstr (IBr f) => f < 8
  | _ => True
  end.

Definition tok_wf (t : token) : Prop := kind_wf (tk t).

Lemma acc_digits_bound radix max ds : forall acc v, acc <= max -> acc_digits radix max ds acc = POk v -> v <= max.
Proof.
  induction ds as [|c r IH]; intros acc v Ha H; cbn in H.
  - inversion H; subst; exact Ha.
  - destruct (to_digit radix c) as [x|]; [|discriminate].
    destruct (N.ltb_spec max (acc * radix + x)); [discriminate|]. eapply IH; [|exact H]. assumption.
Qed.

Lemma parse_u16_bound radix s v : parse_u16 radix s = POk v -> v < 65536.
Proof.
  unfold parse_u16. intros H.
  assert (K : forall ds, acc_digits radix 65535 ds 0 = POk v -> v < 65536).
  { intros ds Hd. apply acc_digits_bound in Hd; lia. }
  destruct s as [|c [|c2 r]]; [discriminate| |].
  - destruct ((c =? 43) || (c =? 45)); [discriminate|apply (K _ H)].
  - destruct (c =? 43); apply (K _ H).
Qed.

Lemma parse_i16_bound radix s v : parse_i16 radix s = POk v -> v < 65536.
Proof.
  unfold parse_i16. intros H.
  assert (K : forall ds, acc_digits radix 32767 ds 0 = POk v -> v < 65536).
  { intros ds Hd. apply acc_digits_bound in Hd; lia. }
  destruct s as [|c [|c2 r]]; [discriminate| |].
  - destruct ((c =? 43) || (c =? 45)); [discriminate|apply (K _ H)].
  - destruct (c =? 43); [apply (K _ H)|].
    destruct (c =? 45); [|apply (K _ H)].
    destruct (acc_digits radix 32768 (c2 :: r) 0); [|discriminate]. inversion H; subst.
    apply N.mod_lt. discriminate.
Qed.

Definition lexed_wf (x : lexed) : Prop :=
  match x with LexTok k _ _ => kind_wf k | LexErr _ _ _ => True end.

Lemma check_instruction_wf id : kind_wf (check_instruction id).
Proof.
  unfold check_instruction.
  repeat match goal with |- context [if ?b then _ else _] => destruct b; [cbn; try exact I; lia|] end. exact I.
Qed.

Lemma check_trap_wf id : kind_wf (check_trap id).
Proof.
  unfold check_trap.
  repeat match goal with |- context [if ?b then _ else _] => destruct b; [cbn; try exact I; lia|] end. exact I.
Qed.

Lemma ident_wf feat pre rest : lexed_wf (ident feat pre rest).
Proof.
  unfold ident. destruct (take_while is_id rest) as [more rest'].
  destruct (is_stack_word _ && negb feat); [exact I|]. cbn [lexed_wf].
  pose proof (check_instruction_wf (List.map to_lower (last pre 0 :: more))) as K.
  destruct (check_instruction _); try exact K. apply check_trap_wf.
Qed.

Lemma hex_wf pre rest : lexed_wf (hex pre rest).
Proof.
  unfold hex. destruct (take_while _ rest) as [digits rest'].
  destruct (parse_i16 16 digits) eqn:E1; [cbn; eapply parse_i16_bound; exact E1|].
  destruct (parse_u16 16 digits) as [v|[]] eqn:E2; try exact I. cbn. eapply parse_u16_bound; exact E2.
Qed.

Lemma dec_wf pre rest : lexed_wf (dec pre rest).
Proof.
  unfold dec. destruct (take_while _ rest) as [digits rest'].
  destruct (parse_i16 10 digits) eqn:E1; [cbn; eapply parse_i16_bound; exact E1|].
  destruct (parse_u16 10 digits) eqn:E2; [|exact I]. cbn. eapply parse_u16_bound; exact E2.
Qed.

Lemma dir_wf pre rest : lexed_wf (dir pre rest).
Proof. unfold dir. destruct (take_while is_id rest). destruct (check_directive _); exact I. Qed.

Lemma is_reg_num_bound d : is_reg_num d = true -> d - 48 < 8.
Proof.
  unfold is_reg_num, between. intros H. apply andb_true_iff in H. destruct H as [H1 H2].
  apply N.leb_le in H1. apply N.leb_le in H2. lia.
Qed.

Lemma advance_token_wf feat l x : advance_token feat l = Some x -> lexed_wf x.
Proof.
  destruct l as [|c rest]; [discriminate|]. cbn [advance_token]. intros H. inversion H; subst x; clear H.
  destruct (c =? 59); [destruct (take_while _ rest); exact I|].
  destruct (is_whitespace c); [destruct (take_while _ rest); exact I|].
  destruct ((c =? 120) || (c =? 88)); [apply hex_wf|].
  destruct (c =? 48).
  { destruct rest as [|x rest']; [apply ident_wf|].
    destruct ((x =? 120) || (x =? 88)); [apply hex_wf|apply ident_wf]. }
  destruct ((c =? 114) || (c =? 82)).
  { destruct rest as [|d rest']; [apply ident_wf|].
    destruct (is_reg_num d) eqn:Ed; [|apply ident_wf].
    destruct (take_while is_reg_num (d :: rest')) as [nums rest''].
    match goal with |- lexed_wf (if ?b then _ else _) => destruct b end; [|apply ident_wf].
    cbn. apply is_reg_num_bound. exact Ed. }
  destruct (is_id c); [apply ident_wf|].
  destruct (c =? 35); [apply dec_wf|].
  destruct (c =? 46); [apply dir_wf|].
  destruct (c =? 34); [destruct (str_scan rest) as [[t a] b]; destruct t; exact I|].
  destruct (take_while _ rest). exact I.
Qed.

Lemma lex_at_wf feat l pos t rest pos' : lex_at feat l pos = StepTok t rest pos' -> tok_wf t.
Proof.
  unfold lex_at. destruct (advance_token feat l) as [x|] eqn:E.
  - pose proof (advance_token_wf _ _ _ E) as K. destruct x; [|discriminate].
    intros H; inversion H; subst. exact K.
  - intros H; inversion H; subst. exact I.
Qed.

Lemma advance_real_wf feat l pos t rest pos' : advance_real feat l pos = StepTok t rest pos' -> tok_wf t.
Proof.
  unfold advance_real. destruct (lex_at feat l pos) as [t1 r1 p1|] eqn:E1; [|discriminate].
  destruct (tk t1) eqn:Ek; try (intros H; inversion H; subst; eapply lex_at_wf; exact E1).
  intros H. eapply lex_at_wf; exact H.
Qed.

(* ------------------------------------------------------------------ *)
(** * Preprocessing keeps tokens well-formed *)

Definition all_wf (r : res (list token)) : Prop :=
  match r with Ok toks => Forall tok_wf toks | _ => True end.

Lemma preprocess_wf feat fuel : forall l pos acc,
  Forall tok_wf acc -> all_wf (preprocess feat fuel l pos acc).
Proof.
  induction fuel as [|fuel IH]; intros l pos acc Hacc; [exact I|].
  cbn [preprocess].
  destruct (advance_real feat l pos) as [t rest pos'|d a n] eqn:E; [|exact I].
  pose proof (advance_real_wf _ _ _ _ _ _ E) as Ht.
  destruct (tk t) as [ |i|tr|li|di|r|v| | | | ] eqn:Ek;
    try (apply IH; constructor; assumption); try (apply IH; assumption);
    try (cbn; apply lrev_Forall; exact Hacc).
  destruct di; try (apply IH; constructor; assumption); try (cbn; apply lrev_Forall; exact Hacc).
  - (* stringz *)
    destruct (advance_real feat rest pos') as [v rest2 pos2|d a n] eqn:E2; [|exact I].
    destruct (tk v) as [ | | |[x|x| ]| | | | | | | ]; try exact I.
    apply IH. constructor; [cbn; lia|]. apply Forall_app. split; [|exact Hacc].
    apply lrev_Forall. apply Forall_forall. intros tkn Hin.
    apply in_map_iff in Hin. destruct Hin as (c & <- & _). cbn. apply N.mod_lt. discriminate.
  - (* blkw *)
    destruct (advance_real feat rest pos') as [v rest2 pos2|d a n] eqn:E2; [|exact I].
    destruct (tk v) as [ | | |[x|x| ]| | | | | | | ]; try exact I;
      (apply IH; apply Forall_app; split; [apply repeat_Forall; cbn; lia|exact Hacc]).
  - (* fill *)
    destruct (advance_real feat rest pos') as [v rest2 pos2|d a n] eqn:E2; [|exact I].
    pose proof (advance_real_wf _ _ _ _ _ _ E2) as Hv. unfold tok_wf in Hv.
    destruct (tk v) as [ | | |[x|x| ]| | | | | | | ]; try exact I;
      (apply IH; constructor; [exact Hv|exact Hacc]).
  - apply IH. constructor; [exact I|exact Hacc].
Qed.

(* ------------------------------------------------------------------ *)
(** * The parser produces statements with well-formed operands *)

Lemma check_range_imm5 v : v < 65536 -> check_range (Signed 5) v = true -> imm5_ok (v mod 256) = true.
Proof.
  intros Hv H. unfold check_range in H. change (2 ^ (5 - 1)) with 16 in H.
  unfold imm5_ok. destruct (N.ltb_spec v 32768).
  - apply N.ltb_lt in H. rewrite N.mod_small by lia.
    assert (E : (v <? 16) = true) by (apply N.ltb_lt; exact H). rewrite E. reflexivity.
  - apply N.leb_le in H.
    assert (Hm : v mod 256 = v - 65280).
    { symmetry. apply (N.mod_unique v 256 255); lia. }
    rewrite Hm.
    assert (E1 : (240 <=? v - 65280) = true) by (apply N.leb_le; lia).
    assert (E2 : (v - 65280 <? 256) = true) by (apply N.ltb_lt; lia).
    rewrite E1, E2. apply orb_true_r.
Qed.

Lemma check_range_off6 v : v < 65536 -> check_range (Signed 6) v = true -> off6_ok (v mod 256) = true.
Proof.
  intros Hv H. unfold check_range in H. change (2 ^ (6 - 1)) with 32 in H.
  unfold off6_ok. destruct (N.ltb_spec v 32768).
  - apply N.ltb_lt in H. rewrite N.mod_small by lia.
    assert (E : (v <? 32) = true) by (apply N.ltb_lt; exact H). rewrite E. reflexivity.
  - apply N.leb_le in H.
    assert (Hm : v mod 256 = v - 65280).
    { symmetry. apply (N.mod_unique v 256 255); lia. }
    rewrite Hm.
    assert (E1 : (224 <=? v - 65280) = true) by (apply N.leb_le; lia).
    assert (E2 : (v - 65280 <? 256) = true) by (apply N.ltb_lt; lia).
    rewrite E1, E2. apply orb_true_r.
Qed.

(** "if it succeeds, the value satisfies P and the remaining tokens are a well-formed suffix" *)
Definition yields {A} (toks : list token) (P : A -> Prop) (r : res (A * pst)) : Prop :=
  match r with
  | Ok (a, (toks', _)) => P a /\ is_suffix toks' toks
  | _ => True
  end.

Lemma expect_reg_yields p srclen : Forall tok_wf (fst p) -> yields (fst p) (fun r => r < 8) (expect_reg p srclen).
Proof.
  intros H. unfold expect_reg. destruct (fst p) as [|t r]; [exact I|].
  inversion H as [|? ? Ht Hr]; subst. unfold tok_wf in Ht.
  destruct (tk t); try exact I. cbn. split; [exact Ht|apply is_suffix_cons].
Qed.

Lemma expect_lit_yields b p srclen : Forall tok_wf (fst p) ->
  yields (fst p) (fun v => v < 65536 /\ check_range b v = true) (expect_lit b p srclen).
Proof.
  intros H. unfold expect_lit. destruct (fst p) as [|t r]; [exact I|].
  inversion H as [|? ? Ht Hr]; subst. unfold tok_wf in Ht.
  destruct (tk t) as [ | | |[x|x| ]| | | | | | | ]; try exact I;
    destruct (check_range b x) eqn:E; try exact I; cbn; (split; [split; assumption|apply is_suffix_cons]).
Qed.

Lemma expect_label_yields sym p srclen : yields (fst p) (fun _ => True) (expect_label sym p srclen).
Proof.
  unfold expect_label. destruct (fst p) as [|t r]; [exact I|].
  destruct (tk t); try exact I. cbn. split; [exact I|apply is_suffix_cons].
Qed.

Definition ior_ok (x : imm_or_reg) : Prop :=
  match x with IReg r => r < 8 | IImm5 v => imm5_ok v = true end.

Lemma expect_lit_or_reg_yields p srclen : Forall tok_wf (fst p) -> yields (fst p) ior_ok (expect_lit_or_reg p srclen).
Proof.
  intros H. unfold expect_lit_or_reg. destruct (fst p) as [|t r] eqn:E; [exact I|].
  destruct (tk t); try exact I.
  - pose proof (expect_lit_yields (Signed 5) p srclen) as K. rewrite E in K. specialize (K H).
    destruct (expect_lit (Signed 5) p srclen) as [[v [? ?]]| |]; try exact I.
    cbn in *. destruct K as [[Hv Hc] Hs]. split; [apply check_range_imm5; assumption|exact Hs].
  - pose proof (expect_reg_yields p srclen) as K. rewrite E in K. specialize (K H).
    destruct (expect_reg p srclen) as [[v [? ?]]| |]; try exact I. exact K.
Qed.

Lemma expect_lit_or_label_yields sym line nb p srclen : Forall tok_wf (fst p) ->
  yields (fst p) (fun _ => True) (expect_lit_or_label sym line nb p srclen).
Proof.
  intros H. unfold expect_lit_or_label. destruct (fst p) as [|t r] eqn:E; [exact I|].
  destruct (tk t); try exact I.
  - pose proof (expect_label_yields sym p srclen) as K. rewrite E in K. exact K.
  - pose proof (expect_lit_yields (Signed nb) p srclen) as K. rewrite E in K. specialize (K H).
    destruct (expect_lit (Signed nb) p srclen) as [[v [? ?]]| |]; try exact I.
    cbn in *. split; [exact I|apply K].
Qed.

Lemma yields_bind {A B} toks (P : A -> Prop) (Q : B -> Prop) (x : res (A * pst)) (f : A * pst -> res (B * pst)) :
  Forall tok_wf toks ->
  yields toks P x ->
  (forall a (p' : pst), P a -> is_suffix (fst p') toks -> Forall tok_wf (fst p') -> yields (fst p') Q (f (a, p'))) ->
  yields toks Q (bind x f).
Proof.
  intros Hw Hx Hf. destruct x as [[a p']| |]; cbn [bind]; try exact I.
  destruct p' as [toks' te]. cbn [yields] in Hx. destruct Hx as [Pa Hs].
  specialize (Hf a (toks', te) Pa Hs (is_suffix_Forall _ _ _ Hs Hw)). cbn [fst] in Hf.
  revert Hf. generalize (f (a, (toks', te))). intros y Hy.
  destruct y as [[b [toks2 te2]]| |]; cbn [yields] in *; try exact I.
  destruct Hy as [Qb Hs2]. split; [exact Qb|eapply is_suffix_trans; eassumption].
Qed.

Ltac yields_tac :=
  repeat first
    [ eapply yields_bind;
      [ assumption
      | first [ apply expect_reg_yields; assumption | apply expect_lit_yields; assumption
              | apply expect_label_yields | apply expect_lit_or_reg_yields; assumption
              | apply expect_lit_or_label_yields; assumption ]
      | let a := fresh "a" in let p' := fresh "p'" in
        intros a p' ? ? ?; destruct p' as [? ?]; cbn [fst] in * ]
    | (cbn [yields]; split; [cbn [stmt_ok]; intuition; try (apply check_range_off6; tauto) | apply is_suffix_refl]) ].

Lemma parse_instr_yields sym line k p srclen : Forall tok_wf (fst p) -> kind_wf (KInstr k) ->
  yields (fst p) stmt_ok (parse_instr sym line k p srclen).
Proof.
  intros Hw Hk. destruct p as [toks te]. cbn [fst] in *.
  destruct k; cbn [parse_instr]; yields_tac.
Qed.

Lemma parse_trap_yields k p srclen : Forall tok_wf (fst p) -> kind_wf (KTrap k) ->
  yields (fst p) stmt_ok (parse_trap k p srclen).
Proof.
  intros Hw Hk. destruct p as [toks te]. cbn [fst] in *.
  destruct k; cbn [parse_trap]; [|cbn; split; [exact Hk|apply is_suffix_refl]].
  eapply yields_bind; [assumption|apply expect_lit_yields; assumption|].
  intros v p' [Hv Hc] Hs Hw'. destruct p' as [? ?]. cbn. split; [|apply is_suffix_refl].
  apply N.mod_lt. discriminate.
Qed.
