(* VmFields.v — exhaustive sweeps: the code's shifts/masks/sign extension/formatting agree with
   the SPEC's arithmetic on every 16-bit word. *)
From Lace Require Import Word Machine Isa Vm.

(* ------------------------------------------------------------------ *)
(** * Tools *)

Fixpoint leqb (a b : list N) : bool :=
  match a, b with
  | [], [] => true
  | x :: a', y :: b' => (x =? y) && leqb a' b'
  | _, _ => false
  end.

Lemma leqb_eq a : forall b, leqb a b = true -> a = b.
Proof.
  induction a as [|x a IH]; intros [|y b] H; cbn in H; try discriminate; [reflexivity|].
  apply andb_true_iff in H. destruct H as [H1 H2].
  apply N.eqb_eq in H1. subst y. f_equal. apply IH. exact H2.
Qed.

Ltac sweep16 f :=
  let w := fresh "w" in let Hw := fresh "Hw" in
  intros w Hw;
  first [ apply N.eqb_eq | apply leqb_eq | idtac ];
  exact (all16_spec f (@eq_refl bool true <: all16 f = true) w Hw).

(* ------------------------------------------------------------------ *)
(** * Field extraction: shifts and masks are the ISA's divisions and remainders,
      for every 16-bit word (exhaustive sweeps). *)

Lemma f_opcode : forall w, w < W -> shr w 12 = w / 4096.
Proof. sweep16 (fun w => shr w 12 =? w / 4096). Qed.

Lemma f_dr : forall w, w < W -> band (shr w 9) 7 = fld w 9 3.
Proof. sweep16 (fun w => band (shr w 9) 7 =? fld w 9 3). Qed.

Lemma f_sr : forall w, w < W -> band (shr w 6) 7 = fld w 6 3.
Proof. sweep16 (fun w => band (shr w 6) 7 =? fld w 6 3). Qed.

Lemma f_sr2 : forall w, w < W -> band w 7 = fld w 0 3.
Proof. sweep16 (fun w => band w 7 =? fld w 0 3). Qed.

Lemma f_immbit : forall w, w < W -> (band w 32 =? 0) = (fld w 5 1 =? 0).
Proof.
  intros w Hw. apply eqb_prop.
  exact (all16_spec (fun w => eqb (band w 32 =? 0) (fld w 5 1 =? 0))
           (@eq_refl bool true <: all16 (fun w => eqb (band w 32 =? 0) (fld w 5 1 =? 0)) = true) w Hw).
Qed.

Lemma f_jsrbit : forall w, w < W -> (band w 2048 =? 0) = (fld w 11 1 =? 0).
Proof.
  intros w Hw. apply eqb_prop.
  exact (all16_spec (fun w => eqb (band w 2048 =? 0) (fld w 11 1 =? 0))
           (@eq_refl bool true <: all16 (fun w => eqb (band w 2048 =? 0) (fld w 11 1 =? 0)) = true) w Hw).
Qed.

Lemma f_vect : forall w, w < W -> band w 255 = w mod 256.
Proof. sweep16 (fun w => band w 255 =? w mod 256). Qed.

(** The two selector bits of opcode 0xD, as the code tests them, against the 2-bit field. *)
Definition stack_sel_code (w : N) : N :=
  if negb (band w 2048 =? 0) then (if negb (band w 1024 =? 0) then 3 else 2)
  else (if negb (band w 1024 =? 0) then 1 else 0).

Lemma f_stacksel : forall w, w < W -> stack_sel_code w = fld w 10 2.
Proof. sweep16 (fun w => stack_sel_code w =? fld w 10 2). Qed.

Lemma f_sext5 : forall w, w < W -> s_ext w 5 = sext 5 w.
Proof. sweep16 (fun w => s_ext w 5 =? sext 5 w). Qed.
Lemma f_sext6 : forall w, w < W -> s_ext w 6 = sext 6 w.
Proof. sweep16 (fun w => s_ext w 6 =? sext 6 w). Qed.
Lemma f_sext9 : forall w, w < W -> s_ext w 9 = sext 9 w.
Proof. sweep16 (fun w => s_ext w 9 =? sext 9 w). Qed.
Lemma f_sext10 : forall w, w < W -> s_ext w 10 = sext 10 w.
Proof. sweep16 (fun w => s_ext w 10 =? sext 10 w). Qed.
Lemma f_sext11 : forall w, w < W -> s_ext w 11 = sext 11 w.
Proof. sweep16 (fun w => s_ext w 11 =? sext 11 w). Qed.

(** Sign extension yields a 16-bit value. *)
Lemma sext_lt k w : 0 < k -> k <= 16 -> sext k w < W.
Proof.
  intros Hk Hk'. unfold sext.
  assert (Hp : 2 ^ k <= W).
  { change W with (2 ^ 16). apply N.pow_le_mono_r; lia. }
  assert (Hm : w mod 2 ^ k < 2 ^ k) by (apply N.mod_lt; apply N.pow_nonzero; lia).
  destruct (w mod 2 ^ k <? 2 ^ (k - 1)); lia.
Qed.

(* ------------------------------------------------------------------ *)
(** * Value-level facts (sweeps over a 16-bit value, or plain arithmetic). *)

Lemma v_not16 : forall v, v < W -> not16 v = notw v.
Proof. sweep16 (fun v => not16 v =? notw v). Qed.

Lemma v_flags v : (if is_neg v then CC_N else if v =? 0 then CC_Z else CC_P) = cc_of v.
Proof.
  unfold is_neg, cc_of.
  destruct (N.leb_spec 32768 v), (N.eqb_spec v 0), (N.ltb_spec v 32768); try reflexivity; lia.
Qed.

Lemma v_wsub1 a : wrapping_sub a 1 = addw a 65535.
Proof. unfold wrapping_sub, addw, wrap. f_equal. unfold W. lia. Qed.

Lemma v_fmt_i16 : forall v, v < W -> fmt_i16 v = signed_dec v.
Proof. sweep16 (fun v => leqb (fmt_i16 v) (signed_dec v)). Qed.

Lemma v_fmt_04x : forall v, v < W -> fmt_04x v = hex4 v.
Proof. sweep16 (fun v => leqb (fmt_04x v) (hex4 v)). Qed.

Lemma v_fmt_03b v : v = CC_N \/ v = CC_Z \/ v = CC_P \/ v = CC_U -> fmt_03b v = bin3 v.
Proof. intros [H|[H|[H|H]]]; subst v; reflexivity. Qed.

Lemma v_lowbyte : forall v, v < W -> band v 255 = v mod 256.
Proof. exact f_vect. Qed.

Lemma v_highbyte : forall v, v < W -> band (shr v 8) 255 = (v / 256) mod 256.
Proof. sweep16 (fun v => band (shr v 8) 255 =? (v / 256) mod 256). Qed.

