(* AsmLayout.v — THEOREM: the parser, the backpatcher and the emitter are blind to layout.

   After preprocessing, a source is a list of tokens.  Two token lists that agree in what the
   tokens ARE — instruction / trap / directive kind, register number, the VALUE of a literal
   (whatever its radix or spelling), the name of a label, raw data words, breakpoint marks — and
   differ arbitrarily in where the tokens stand in the text (offsets, lengths), in their spelling
   (letter case of keywords, `#5` / `x5` / `0x5`, separators, comments and blank lines between
   them: all of which only move offsets) assemble to the same origin, the same words, the same
   breakpoints and the same symbol table, or are both rejected with the same diagnostic class. *)
From Coq Require Import List NArith Bool Lia String.
From Lace Require Import Word Machine Isa Vm Asm.
Import ListNotations.
Open Scope N_scope.

(* ------------------------------------------------------------------ *)
(** * Tokens up to layout *)

(** A literal is its value: `#5`, `x5`, `0x5` are the same operand. *)
Definition knorm (k : tkind) : tkind :=
  match k with KLit (LDec v) => KLit (LHex v) | _ => k end.

Definition kind_sim (k k' : tkind) : Prop := knorm k = knorm k'.

Definition tok_sim (t t' : token) : Prop :=
  kind_sim (tk t) (tk t') /\ (tk t = KLabel -> ttext t = ttext t').

Definition toks_sim := Forall2 tok_sim.

Definition pst_sim (p p' : pst) : Prop := toks_sim (fst p) (fst p').

(** Outcomes up to layout: same class of outcome, the same diagnostic class for rejections
    (positions free), related values for successes. *)
Definition res_sim {A B} (R : A -> B -> Prop) (x : res A) (y : res B) : Prop :=
  match x, y with
  | Ok a, Ok b => R a b
  | Err d _ _, Err d' _ _ => d = d'
  | Bad w, Bad w' => w = w'
  | _, _ => False
  end.

Lemma res_sim_bind {A B A' B'} (R : A -> A' -> Prop) (S : B -> B' -> Prop)
      (x : res A) (x' : res A') (f : A -> res B) (f' : A' -> res B') :
  res_sim R x x' -> (forall a a', R a a' -> res_sim S (f a) (f' a')) -> res_sim S (bind x f) (bind x' f').
Proof.
  intros Hx Hf. destruct x, x'; cbn in *; try contradiction; auto.
Qed.

Definition val_pst_sim {A} (x : A * pst) (y : A * pst) : Prop := fst x = fst y /\ pst_sim (snd x) (snd y).

(** Case analysis on two similar kinds: only the diagonal (and the two literal radixes) survive. *)
Ltac kcases K :=
  unfold kind_sim in K;
  repeat match goal with
  | K : context [knorm (tk ?t)] |- _ => let E := fresh "E" in destruct (tk t) eqn:E
  end;
  cbn [knorm] in K; try discriminate K;
  repeat match goal with l : lit_kind |- _ => destruct l end;
  cbn [knorm] in K; try discriminate K; try (inversion K; subst; clear K).

(* ------------------------------------------------------------------ *)
(** * The operand readers *)

Lemma expect_lit_sim b p p' n n' : pst_sim p p' ->
  res_sim val_pst_sim (expect_lit b p n) (expect_lit b p' n').
Proof.
  unfold pst_sim, expect_lit. intros H. destruct p as [toks te], p' as [toks' te']. cbn [fst] in *.
  destruct H as [|t t' r r' Ht Hr]; cbn [res_sim]; [reflexivity|].
  destruct Ht as [K T]. kcases K; cbn [res_sim unexpected]; try reflexivity;
    (destruct (check_range b _); cbn [res_sim]; [split; [reflexivity|exact Hr]|reflexivity]).
Qed.

Lemma expect_reg_sim p p' n n' : pst_sim p p' ->
  res_sim val_pst_sim (expect_reg p n) (expect_reg p' n').
Proof.
  unfold pst_sim, expect_reg. intros H. destruct p as [toks te], p' as [toks' te']. cbn [fst] in *.
  destruct H as [|t t' r r' Ht Hr]; cbn [res_sim]; [reflexivity|].
  destruct Ht as [K T]. kcases K; cbn [res_sim unexpected]; try reflexivity.
  split; [reflexivity|exact Hr].
Qed.

Lemma res_sim_map {A B} (R : A * pst -> A * pst -> Prop) (S : B * pst -> B * pst -> Prop)
      (x x' : res (A * pst)) (g : A * pst -> res (B * pst)) :
  res_sim R x x' -> (forall a a', R a a' -> res_sim S (g a) (g a')) ->
  res_sim S (match x with Ok a => g a | Err d a n => Err d a n | Bad w => Bad w end)
            (match x' with Ok a => g a | Err d a n => Err d a n | Bad w => Bad w end).
Proof. intros Hx Hg. destruct x, x'; cbn in *; try contradiction; auto. Qed.

(** Goal: [res_sim _ (match X with ..) (match X' with ..)] with [H : res_sim val_pst_sim X X']. *)
Ltac via H :=
  match type of H with
  | res_sim _ ?X ?X' =>
      destruct X as [[? ?]| |], X' as [[? ?]| |]; cbn [res_sim bind] in H |- *; try contradiction; try exact H;
      try (let A := fresh "A" in let B := fresh "B" in
           destruct H as [A B]; cbn [fst snd] in A, B; subst; split; [reflexivity|exact B])
  end.

Lemma expect_lit_or_reg_sim p p' n n' : pst_sim p p' ->
  res_sim val_pst_sim (expect_lit_or_reg p n) (expect_lit_or_reg p' n').
Proof.
  intros H. pose proof (expect_reg_sim p p' n n' H) as Hr. pose proof (expect_lit_sim (Signed 5) p p' n n' H) as Hl.
  unfold expect_lit_or_reg. unfold pst_sim in H. destruct p as [toks te], p' as [toks' te']. cbn [fst] in *.
  destruct H as [|t t' r r' Ht Hrest]; cbn [res_sim]; [reflexivity|].
  destruct Ht as [K T]. kcases K; cbn [res_sim unexpected]; try reflexivity; try (via Hl; fail); via Hr.
Qed.

Lemma expect_label_sim sym p p' n n' : pst_sim p p' ->
  res_sim val_pst_sim (expect_label sym p n) (expect_label sym p' n').
Proof.
  unfold pst_sim, expect_label. intros H. destruct p as [toks te], p' as [toks' te']. cbn [fst] in *.
  destruct H as [|t t' r r' Ht Hr]; cbn [res_sim]; [reflexivity|].
  destruct Ht as [K T]. kcases K; cbn [res_sim unexpected]; try reflexivity.
  rewrite (T eq_refl). split; [reflexivity|exact Hr].
Qed.

Lemma expect_lit_or_label_sim sym line nbits p p' n n' : pst_sim p p' ->
  res_sim val_pst_sim (expect_lit_or_label sym line nbits p n) (expect_lit_or_label sym line nbits p' n').
Proof.
  intros H. pose proof (expect_label_sim sym p p' n n' H) as Hr.
  pose proof (expect_lit_sim (Signed nbits) p p' n n' H) as Hl.
  unfold expect_lit_or_label. unfold pst_sim in H. destruct p as [toks te], p' as [toks' te']. cbn [fst] in *.
  destruct H as [|t t' r r' Ht Hrest]; cbn [res_sim]; [reflexivity|].
  destruct Ht as [K T]. kcases K; cbn [res_sim unexpected]; try reflexivity; try (via Hl; fail); exact Hr.
Qed.

Ltac rd_step :=
  apply res_sim_bind with (R := val_pst_sim);
  [ first [ apply expect_reg_sim | apply expect_lit_sim | apply expect_lit_or_reg_sim
          | apply expect_label_sim | apply expect_lit_or_label_sim ]; assumption
  | let A := fresh "A" in let B := fresh "B" in
    intros [? ?] [? ?] [A B]; cbn [fst snd] in A, B; subst ].

Ltac rd_done := cbn [res_sim]; split; [reflexivity|assumption].

Lemma parse_instr_sim sym line k p p' n n' : pst_sim p p' ->
  res_sim val_pst_sim (parse_instr sym line k p n) (parse_instr sym line k p' n').
Proof.
  intros H. destruct k; cbn [parse_instr]; repeat rd_step; rd_done.
Qed.

Lemma parse_trap_sim k p p' n n' : pst_sim p p' ->
  res_sim val_pst_sim (parse_trap k p n) (parse_trap k p' n').
Proof.
  intros H. destruct k; cbn [parse_trap]; repeat rd_step; rd_done.
Qed.

(* ------------------------------------------------------------------ *)
(** * The statement parser *)

Definition line_sim (l l' : asm_line) : Prop := al_line l = al_line l' /\ al_stmt l = al_stmt l'.

Definition air_sim (a a' : air) : Prop :=
  a_orig a = a_orig a' /\ Forall2 line_sim (a_ast a) (a_ast a') /\ a_bps a = a_bps a'.

Definition parser_sim (ps ps' : parser) : Prop :=
  toks_sim (p_toks ps) (p_toks ps') /\ air_sim (p_air ps) (p_air ps') /\
  p_line ps = p_line ps' /\ p_sym ps = p_sym ps' /\ p_count ps = p_count ps'.

Definition parsed_sim (r r' : res (air * symtab) * symtab) : Prop :=
  res_sim (fun x x' => air_sim (fst x) (fst x') /\ snd x = snd x') (fst r) (fst r') /\ snd r = snd r'.

Lemma lrev_Forall2 {A B} (R : A -> B -> Prop) l l' : Forall2 R l l' -> Forall2 R (lrev l) (lrev l').
Proof.
  unfold lrev. intros H. assert (G : forall acc acc', Forall2 R acc acc' -> Forall2 R (rev_append l acc) (rev_append l' acc')).
  { induction H as [|x y l l' Hxy H IH]; intros acc acc' Ha; cbn [rev_append]; [exact Ha|].
    apply IH. constructor; assumption. }
  apply G. constructor.
Qed.

(** The part of one round of [parse] that follows the optional prefix label (copied from Asm.v;
    [parse_round] below checks by reflexivity that it is the same term). *)
Definition stmt_part (rec : parser -> res (air * symtab) * symtab) (srclen : N) (ps : parser)
           (labeled : bool) (toks1 : list token) (sym1 : symtab) : res (air * symtab) * symtab :=
  match toks1 with
  | [] =>
      if labeled then (Err E_eof (srclen - 1) 0, sym1)
      else (Ok (mkAir (a_orig (p_air ps)) (lrev (a_ast (p_air ps))) (a_bps (p_air ps)), sym1), sym1)
  | t :: r =>
      let finish (x : res (stmt * pst)) :=
        match x with
        | Err d a n => (Err d a n, sym1)
        | Bad w => (Bad w, sym1)
        | Ok (s, (toks2, tok_end2)) =>
            let len := if tok_end2 <=? toffs t then tlen t else tok_end2 - toffs t in
            let n := p_count ps in
            let ln := mkLine (wrap (n + 1)) s (toffs t) len in
            let air' := mkAir (a_orig (p_air ps)) (ln :: a_ast (p_air ps)) (a_bps (p_air ps)) in
            if p_line ps + 1 <? W
            then rec (mkParser toks2 air' (p_line ps + 1) tok_end2 sym1 (p_count ps + 1))
            else (Err E_too_long (srclen - 1) 0, sym1)
        end in
      match tk t with
      | KLabel | KLit _ | KReg _ => (unexpected t, sym1)
      | KDir DOrig =>
          match expect_lit (Unsigned 16) (r, p_tok_end ps) srclen with
          | Err d a n => (Err d a n, sym1)
          | Bad w => (Bad w, sym1)
          | Ok (v, (toks2, tok_end2)) =>
              match a_orig (p_air ps) with
              | Some _ => (Err E_orig_twice 0 0, sym1)
              | None =>
                  rec (mkParser toks2 (mkAir (Some v) (a_ast (p_air ps)) (a_bps (p_air ps)))
                                (p_line ps) tok_end2 sym1 (p_count ps))
              end
          end
      | KBreakpoint =>
          let addr := wrap (p_count ps) in
          rec (mkParser r (mkAir (a_orig (p_air ps)) (a_ast (p_air ps)) (bp_insert (a_bps (p_air ps)) (addr, true)))
                        (p_line ps) (p_tok_end ps) sym1 (p_count ps))
      | KInstr k => finish (parse_instr sym1 (p_line ps) k (r, p_tok_end ps) srclen)
      | KTrap k => finish (parse_trap k (r, p_tok_end ps) srclen)
      | KByte v => finish (Ok (SRawWord v, (r, p_tok_end ps)))
      | KDir _ => (Bad 5, sym1)
      | KWhitespace | KComment | KEof => (Bad 3, sym1)
      end
  end.

Lemma parse_round fuel srclen ps :
  parse (S fuel) srclen ps =
  match p_toks ps with
  | t :: r =>
      match tk t with
      | KLabel =>
          match sym_get (p_sym ps) (ttext t) with
          | Some _ => (Err E_dup_label (toffs t) (tlen t), sym_put (p_sym ps) (ttext t) (p_line ps))
          | None => stmt_part (parse fuel srclen) srclen ps true r (sym_put (p_sym ps) (ttext t) (p_line ps))
          end
      | _ => stmt_part (parse fuel srclen) srclen ps false (p_toks ps) (p_sym ps)
      end
  | [] => stmt_part (parse fuel srclen) srclen ps false [] (p_sym ps)
  end.
Proof.
  cbn [parse]. destruct (p_toks ps) as [|t r]; [reflexivity|].
  destruct (tk t); try reflexivity. destruct (sym_get (p_sym ps) (ttext t)); reflexivity.
Qed.

Lemma stmt_part_sim rec rec' n n' ps ps' labeled toks1 toks1' sym1 :
  (forall q q', parser_sim q q' -> parsed_sim (rec q) (rec' q')) ->
  air_sim (p_air ps) (p_air ps') -> p_line ps = p_line ps' -> p_count ps = p_count ps' ->
  toks_sim toks1 toks1' ->
  parsed_sim (stmt_part rec n ps labeled toks1 sym1) (stmt_part rec' n' ps' labeled toks1' sym1).
Proof.
  intros Hrec (A1 & A2 & A3) Hl Hc Ht. unfold stmt_part.
  destruct ps as [ptoks a line te sym cnt], ps' as [ptoks' a' line' te' sym' cnt'].
  cbn [p_toks p_air p_line p_tok_end p_sym p_count] in *. subst line' cnt'.
  destruct Ht as [|t t' r r' [K T] Hr].
  - destruct labeled; (split; [|reflexivity]); cbn [fst res_sim]; [reflexivity|].
    split; [|reflexivity]. split; [exact A1|]. split; [apply lrev_Forall2; exact A2|exact A3].
  - assert (Hfin : forall x x', res_sim val_pst_sim x x' ->
       parsed_sim
         (match x with
          | Err d a n0 => (Err d a n0, sym1) | Bad w => (Bad w, sym1)
          | Ok (s, (toks2, tok_end2)) =>
              if line + 1 <? W
              then rec (mkParser toks2 (mkAir (a_orig a)
                          (mkLine (wrap (cnt + 1)) s (toffs t)
                             (if tok_end2 <=? toffs t then tlen t else tok_end2 - toffs t) :: a_ast a)
                          (a_bps a)) (line + 1) tok_end2 sym1 (cnt + 1))
              else (Err E_too_long (n - 1) 0, sym1)
          end)
         (match x' with
          | Err d a n0 => (Err d a n0, sym1) | Bad w => (Bad w, sym1)
          | Ok (s, (toks2, tok_end2)) =>
              if line + 1 <? W
              then rec' (mkParser toks2 (mkAir (a_orig a')
                          (mkLine (wrap (cnt + 1)) s (toffs t')
                             (if tok_end2 <=? toffs t' then tlen t' else tok_end2 - toffs t') :: a_ast a')
                          (a_bps a')) (line + 1) tok_end2 sym1 (cnt + 1))
              else (Err E_too_long (n' - 1) 0, sym1)
          end)).
    { intros x x' Hx. destruct x as [[s [toks2 te2]]| |], x' as [[s' [toks2' te2']]| |]; cbn [res_sim] in Hx; try contradiction.
      - destruct Hx as [E P]. cbn [fst snd] in E, P. subst s'.
        destruct (line + 1 <? W); [|split; reflexivity].
        apply Hrec. split; [exact P|]. split; [|repeat split; reflexivity].
        split; [exact A1|]. split; [|exact A3]. constructor; [split; reflexivity|exact A2].
      - split; [exact Hx|reflexivity].
      - split; [exact Hx|reflexivity]. }
    kcases K; cbn [unexpected]; try (split; reflexivity).
    all: try (apply Hfin; first [ apply parse_instr_sim | apply parse_trap_sim ]; exact Hr).
    + (* directive *)
      match goal with d : dir_kind |- _ => destruct d end; try (split; reflexivity).
      pose proof (expect_lit_sim (Unsigned 16) (r, te) (r', te') n n' Hr) as Hx.
      destruct (expect_lit (Unsigned 16) (r, te) n) as [[v [toks2 te2]]| |],
               (expect_lit (Unsigned 16) (r', te') n') as [[v' [toks2' te2']]| |];
        cbn [res_sim] in Hx; try contradiction; try (split; [exact Hx|reflexivity]).
      destruct Hx as [Ev P]. cbn [fst snd] in Ev, P. subst v'. rewrite <- A1.
      destruct (a_orig a); [split; reflexivity|].
      apply Hrec. split; [exact P|]. split; [|repeat split; reflexivity].
      split; [reflexivity|]. split; assumption.
    + (* raw word *)
      match goal with v : N |- _ =>
        exact (Hfin (Ok (SRawWord v, (r, te))) (Ok (SRawWord v, (r', te'))) (conj eq_refl Hr)) end.
    + (* breakpoint *)
      apply Hrec. split; [exact Hr|]. split; [|repeat split; reflexivity].
      split; [exact A1|]. split; [exact A2|]. cbn [a_bps]. rewrite A3. reflexivity.
Qed.

Lemma parse_sim : forall fuel n n' ps ps', parser_sim ps ps' ->
  parsed_sim (parse fuel n ps) (parse fuel n' ps').
Proof.
  induction fuel as [|fuel IH]; intros n n' ps ps' Hps.
  - destruct Hps as (Ht & Ha & Hl & Hs & Hc). cbn [parse]. split; [reflexivity|exact Hs].
  - rewrite !parse_round. destruct Hps as (Ht & Ha & Hl & Hs & Hc).
    pose proof (fun toks1 toks1' lab sym1 => stmt_part_sim (parse fuel n) (parse fuel n') n n' ps ps' lab toks1 toks1' sym1
                  (IH n n') Ha Hl Hc) as Hstep.
    rewrite <- Hs, <- Hl. clear Hs Hl Hc Ha.
    destruct (p_toks ps) as [|t r], (p_toks ps') as [|t' r']; try (inversion Ht; fail).
    + apply Hstep. constructor.
    + assert (Hall : toks_sim (t :: r) (t' :: r')) by exact Ht.
      inversion Ht as [|? ? ? ? [K T] Hr]; subst.
      kcases K; try (apply Hstep; exact Hall).
      rewrite <- (T eq_refl). destruct (sym_get (p_sym ps) (ttext t)); [split; reflexivity|].
      apply Hstep. exact Hr.
Qed.

(* ------------------------------------------------------------------ *)
(** * Backpatching and emission *)

Lemma backpatch_sim sym : forall ls ls', Forall2 line_sim ls ls' ->
  res_sim (Forall2 line_sim) (backpatch sym ls) (backpatch sym ls').
Proof.
  induction 1 as [|l l' r r' [L S] Hr IH]; cbn [backpatch]; [constructor|].
  rewrite <- S. destruct (backpatch_stmt sym (al_stmt l)) as [s| |]; cbn [bind res_sim]; try reflexivity.
  destruct (backpatch sym r) as [x| |], (backpatch sym r') as [x'| |]; cbn [bind res_sim] in *; try contradiction; try assumption.
  constructor; [split; [exact L|reflexivity]|exact IH].
Qed.

Lemma emit_sim l l' : line_sim l l' -> emit l = emit l'.
Proof. intros [L S]. unfold emit. rewrite L, S. reflexivity. Qed.

Lemma emit_all_sim : forall ls ls', Forall2 line_sim ls ls' -> emit_all ls = emit_all ls'.
Proof.
  induction 1 as [|l l' r r' H Hr IH]; cbn [emit_all]; [reflexivity|]. rewrite (emit_sim l l' H), IH. reflexivity.
Qed.

(* ------------------------------------------------------------------ *)
(** * The assembler after preprocessing *)

(** What [assemble] does with the preprocessed tokens (checked against Asm.v by [assemble_split]). *)
Definition assemble_toks (sym0 : symtab) (toks : list token) (srclen : N) : res image * symtab :=
  let '(r, sym1) := parse (S (length toks)) srclen (mkParser toks (mkAir None [] []) 1 0 sym0 0) in
  match r with
  | Err d a n => (Err d a n, sym1)
  | Bad w => (Bad w, sym1)
  | Ok (a, _) =>
      match backpatch sym1 (a_ast a) with
      | Err d x n => (Err d x n, sym1)
      | Bad w => (Bad w, sym1)
      | Ok ast' =>
          match emit_all ast' with
          | Err d x n => (Err d x n, sym1)
          | Bad w => (Bad w, sym1)
          | Ok ws => (Ok (mkImage (a_orig a) ws (a_bps a) (List.map (fun ln => (al_offs ln, al_len ln)) ast')), sym1)
          end
      end
  end.

Lemma assemble_split feat sym0 src :
  assemble feat sym0 src =
  match preprocess feat (S (length src)) src 0 [] with
  | Err d a n => (Err d a n, sym0)
  | Bad w => (Bad w, sym0)
  | Ok toks => assemble_toks sym0 toks (bytes src)
  end.
Proof.
  unfold assemble, assemble_air, assemble_toks.
  destruct (preprocess feat (S (length src)) src 0 []) as [toks| |]; try reflexivity.
  destruct (parse _ _ _) as [[[a s2]| |] sym1]; try reflexivity.
  destruct (backpatch sym1 (a_ast a)); reflexivity.
Qed.

(** Images up to layout: everything but the statement spans. *)
Definition image_sim (i i' : image) : Prop :=
  i_orig i = i_orig i' /\ i_words i = i_words i' /\ i_bps i = i_bps i'.

Theorem assemble_toks_layout sym0 toks toks' n n' : toks_sim toks toks' ->
  res_sim image_sim (fst (assemble_toks sym0 toks n)) (fst (assemble_toks sym0 toks' n')) /\
  snd (assemble_toks sym0 toks n) = snd (assemble_toks sym0 toks' n').
Proof.
  intros H. unfold assemble_toks.
  assert (Hlen : length toks = length toks') by (induction H; cbn; congruence). rewrite <- Hlen.
  assert (Hps : parser_sim (mkParser toks (mkAir None [] []) 1 0 sym0 0) (mkParser toks' (mkAir None [] []) 1 0 sym0 0)).
  { split; [exact H|]. split; [|repeat split]. split; [reflexivity|]. split; [constructor|reflexivity]. }
  pose proof (parse_sim (S (length toks)) n n' _ _ Hps) as [P1 P2].
  destruct (parse (S (length toks)) n _) as [r sym1], (parse (S (length toks)) n' _) as [r' sym1'].
  cbn [fst snd] in P1, P2. subst sym1'.
  destruct r as [[a s2]| |], r' as [[a' s2']| |]; cbn [res_sim fst snd] in *; try contradiction;
    try (split; [exact P1|reflexivity]).
  destruct P1 as [(A1 & A2 & A3) _].
  pose proof (backpatch_sim sym1 _ _ A2) as B.
  destruct (backpatch sym1 (a_ast a)) as [x| |], (backpatch sym1 (a_ast a')) as [x'| |]; cbn [res_sim fst snd] in *;
    try contradiction; try (split; [exact B|reflexivity]).
  rewrite <- (emit_all_sim x x' B).
  destruct (emit_all x); cbn [res_sim fst snd]; split; try reflexivity.
  repeat split; assumption.
Qed.

(** Layout independence of the assembler: two sources whose preprocessed token lists agree up to
    layout assemble to the same origin, words, breakpoints and symbol table — or are both rejected,
    with the same diagnostic class. *)
Theorem assemble_layout feat sym0 src src' toks toks' :
  preprocess feat (S (length src)) src 0 [] = Ok toks ->
  preprocess feat (S (length src')) src' 0 [] = Ok toks' ->
  toks_sim toks toks' ->
  res_sim image_sim (fst (assemble feat sym0 src)) (fst (assemble feat sym0 src')) /\
  snd (assemble feat sym0 src) = snd (assemble feat sym0 src').
Proof.
  intros H1 H2 Hs. rewrite !assemble_split, H1, H2. apply assemble_toks_layout. exact Hs.
Qed.

(* ------------------------------------------------------------------ *)
(** * Non-vacuity: two layouts of one program *)

Definition layout_a : list N := str "ADD R0,R0,#1 ; one
loop: BRnzp loop
      .FILL x10
      LD R1, loop
      HALT
"%string.

Definition layout_b : list N := str "add r0 r0 x1


loop brnzp loop .fill #16 ld r1 loop halt"%string.

Example layouts_similar :
  match preprocess false (S (length layout_a)) layout_a 0 [], preprocess false (S (length layout_b)) layout_b 0 [] with
  | Ok ta, Ok tb => toks_sim ta tb /\ length ta = 12%nat
  | _, _ => False
  end.
Proof.
  vm_compute. split; [|reflexivity].
  repeat (constructor; [split; [reflexivity|cbn; intros HH; first [discriminate HH|reflexivity]]|]). constructor.
Qed.

Example layouts_same_image :
  match fst (assemble false [] layout_a), fst (assemble false [] layout_b) with
  | Ok ia, Ok ib => i_words ia = i_words ib /\ i_words ia = [4129; 4095; 16; 9213; 61477] /\ i_spans ia <> i_spans ib
  | _, _ => False
  end.
Proof. vm_compute. repeat split. discriminate. Qed.
