(* AsmCount.v — THEOREM: the parser produces exactly one statement per statement of the token list
   ([count_after] of AsmBreaks.v, read off the operand table), and the image has one word per
   statement.  With the loader's bound this is what keeps the relocation of the `.break` table by the
   load address ([Breakpoints::with_orig]: `address += orig` in u16) from overflowing. *)
From Coq Require Import List NArith Bool Lia String.
From Lace Require Import Word Machine Isa Vm Asm AsmLayout AsmAccept AsmBreaks.
Import ListNotations.
Open Scope N_scope.

Definition count_ok (ps : parser) (r : res (air * symtab) * symtab) : Prop :=
  N.of_nat (length (a_ast (p_air ps))) = p_count ps ->
  match fst r with
  | Ok (a, _) => N.of_nat (length (a_ast a)) = count_after 0 (p_toks ps) (p_count ps)
  | _ => True
  end.

Lemma count_after_skipn : forall w r c, count_after w r c = count_after 0 (skipn w r) c.
Proof.
  induction w as [|w IH]; intros r c; [reflexivity|].
  destruct r as [|t r]; [reflexivity|]. cbn [count_after skipn]. apply IH.
Qed.

Lemma lrev_length {A} (l : list A) : length (lrev l) = length l.
Proof. unfold lrev. rewrite rev_append_rev, app_nil_r. apply rev_length. Qed.

Lemma stmt_part_count rec n ps labeled toks1 sym1 :
  (forall q, count_ok q (rec q)) ->
  N.of_nat (length (a_ast (p_air ps))) = p_count ps ->
  match fst (stmt_part rec n ps labeled toks1 sym1) with
  | Ok (a, _) => N.of_nat (length (a_ast a)) = count_after 0 toks1 (p_count ps)
  | _ => True
  end.
Proof.
  intros Hrec Hinv. unfold stmt_part.
  destruct toks1 as [|t r]; [destruct labeled; cbn; [exact I|rewrite lrev_length; exact Hinv]|].
  assert (Hfin : forall (x : res (stmt * pst)) w,
     (forall s toks2 te2, x = Ok (s, (toks2, te2)) -> toks2 = skipn w r) ->
     match fst (match x with
                | Err d a n0 => (Err d a n0, sym1) | Bad w0 => (Bad w0, sym1)
                | Ok (s, (toks2, tok_end2)) =>
                    if p_line ps + 1 <? W
                    then rec (mkParser toks2 (mkAir (a_orig (p_air ps))
                                (mkLine (wrap (p_count ps + 1)) s (toffs t)
                                   (if tok_end2 <=? toffs t then tlen t else tok_end2 - toffs t) :: a_ast (p_air ps))
                                (a_bps (p_air ps))) (p_line ps + 1) tok_end2 sym1 (p_count ps + 1))
                    else (Err E_too_long (n - 1) 0, sym1)
                end) with
     | Ok (a, _) => N.of_nat (length (a_ast a)) = count_after w r (p_count ps + 1)
     | _ => True
     end).
  { intros x w Hx. destruct x as [[s [toks2 te2]]| |]; cbn [fst]; try exact I.
    destruct (p_line ps + 1 <? W); [|exact I].
    pose proof (Hx s toks2 te2 eq_refl) as E. subst toks2.
    match goal with |- context [rec ?q] => pose proof (Hrec q) as K; unfold count_ok in K; cbn [p_air a_ast p_toks p_count] in K end.
    rewrite count_after_skipn. apply K. cbn [length]. lia. }
  cbn [count_after].
  destruct (tk t) as [|k|k|l|d|rg|v| | | | ] eqn:Ek; cbn [unexpected fst]; try exact I.
  - apply Hfin. intros s toks2 te2 E. apply (parse_instr_consumes _ _ _ _ _ _ _ _ _ E).
  - apply Hfin. intros s toks2 te2 E. apply (parse_trap_consumes _ _ _ _ _ _ _ E).
  - destruct d; cbn [fst]; try exact I.
    destruct (expect_lit (Unsigned 16) (r, p_tok_end ps) n) as [[v [toks2 te2]]| |] eqn:El; cbn [fst]; try exact I.
    destruct (a_orig (p_air ps)); [exact I|].
    pose proof (expect_lit_one _ _ _ _ _ _ _ El) as E. subst toks2.
    match goal with |- context [rec ?q] => pose proof (Hrec q) as K; unfold count_ok in K; cbn [p_air a_ast p_toks p_count] in K end.
    rewrite count_after_skipn. apply K. exact Hinv.
  - apply (Hfin (Ok (SRawWord v, (r, p_tok_end ps))) 0%nat).
    intros s toks2 te2 E. inversion E. reflexivity.
  - match goal with |- context [rec ?q] => pose proof (Hrec q) as K; unfold count_ok in K; cbn [p_air a_ast p_toks p_count] in K end.
    apply K. exact Hinv.
Qed.

Theorem parse_count : forall fuel n ps, count_ok ps (parse fuel n ps).
Proof.
  induction fuel as [|fuel IH]; intros n ps; [intros _; exact I|].
  unfold count_ok. intros Hinv. rewrite parse_round.
  pose proof (fun lab toks1 sym1 => stmt_part_count (parse fuel n) n ps lab toks1 sym1 (IH n) Hinv) as S.
  destruct (p_toks ps) as [|t r] eqn:Et; [apply S|].
  destruct (tk t) eqn:Ek; try (specialize (S false (t :: r) (p_sym ps)); exact S).
  destruct (sym_get (p_sym ps) (ttext t)); [exact I|].
  specialize (S true r (sym_put (p_sym ps) (ttext t) (p_line ps))). cbn [count_after]. rewrite Ek. exact S.
Qed.

Lemma backpatch_length sym : forall ls ls', backpatch sym ls = Ok ls' -> length ls' = length ls.
Proof.
  induction ls as [|ln r IH]; intros ls' H; cbn [backpatch] in H; [inversion H; reflexivity|].
  destruct (backpatch_stmt sym (al_stmt ln)) as [s'| |]; cbn [bind] in H; try discriminate.
  destruct (backpatch sym r) as [r'| |]; cbn [bind] in H; try discriminate.
  inversion H; subst. cbn [length]. rewrite (IH r' eq_refl). reflexivity.
Qed.

Lemma emit_all_length : forall ls ws, emit_all ls = Ok ws -> length ws = length ls.
Proof.
  induction ls as [|ln r IH]; intros ws H; cbn [emit_all] in H; [inversion H; reflexivity|].
  destruct (emit ln) as [w| |]; cbn [bind] in H; try discriminate.
  destruct (emit_all r) as [ws'| |]; cbn [bind] in H; try discriminate.
  inversion H; subst. cbn [length]. rewrite (IH ws' eq_refl). reflexivity.
Qed.

(** One word per statement of the token list. *)
Theorem assemble_toks_count sym0 toks n im sym :
  assemble_toks sym0 toks n = (Ok im, sym) ->
  N.of_nat (length (i_words im)) = count_after 0 toks 0.
Proof.
  unfold assemble_toks. intros H.
  pose proof (parse_count (S (length toks)) n (mkParser toks (mkAir None [] []) 1 0 sym0 0)) as K.
  unfold count_ok in K. cbn [p_air a_ast p_toks p_count length] in K. specialize (K eq_refl).
  destruct (parse _ _ _) as [[[a s2]| |] sym1]; cbn [fst] in K; try discriminate.
  destruct (backpatch sym1 (a_ast a)) as [ast'| |] eqn:Eb; try discriminate.
  destruct (emit_all ast') as [ws| |] eqn:Ee; try discriminate.
  inversion H; subst. cbn [i_words].
  rewrite (emit_all_length _ _ Ee), (backpatch_length _ _ _ Eb). exact K.
Qed.

Theorem assemble_count feat sym0 src toks im sym :
  preprocess feat (S (length src)) src 0 [] = Ok toks ->
  assemble feat sym0 src = (Ok im, sym) ->
  N.of_nat (length (i_words im)) = count_after 0 toks 0.
Proof.
  intros Hp H. rewrite assemble_split, Hp in H. exact (assemble_toks_count _ _ _ _ _ H).
Qed.
