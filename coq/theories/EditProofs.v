(* EditProofs.v — C20: the line-editor MODEL (Edit.v) refines the SPEC (EditSpec.v). *)
From Coq Require Import NArith List Bool Arith Lia.
From Lace Require Import EditSpec Edit.
Import ListNotations.
