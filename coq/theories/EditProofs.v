(* EditProofs.v — C20: the line-editor MODEL (Edit.v) refines the SPEC (EditSpec.v),
   for all key lists, all histories and all classifications of characters. *)
From Coq Require Import NArith List Bool Arith Lia.
From Lace Require Import EditSpec Edit.
Import ListNotations.
Open Scope nat_scope.

(* ------------------------------------------------------------------ *)
(** * Strings as character lists with byte offsets *)

Lemma len_utf8_pos : forall c, 1 <= len_utf8 c.
Proof. intro c. unfold len_utf8. repeat destruct (_ <? _)%N; lia. Qed.

Lemma byte_len_app : forall a b, byte_len (a ++ b) = byte_len a + byte_len b.
Proof. induction a; simpl; intros; [reflexivity | rewrite IHa; lia]. Qed.

Lemma ccb_loop_spec : forall s i j ci bi cc,
  ccb_loop s i j ci bi cc =
  (if (i <=? ci) && (ci <? i + length s) then j + byte_len (firstn (ci - i) s) else bi,
   cc + length s).
Proof.
  induction s as [|c r IH]; intros; simpl.
  - replace (ci <? i + 0) with (ci <? i) by (f_equal; lia).
    destruct (i <=? ci) eqn:A, (ci <? i) eqn:B; simpl;
      try apply Nat.leb_le in A; try apply Nat.ltb_lt in B; try lia; f_equal; lia.
  - rewrite IH. f_equal; [| lia].
    destruct (i =? ci) eqn:E.
    + apply Nat.eqb_eq in E. subst ci.
      replace (S i <=? i) with false by (symmetry; apply Nat.leb_gt; lia).
      replace (i <=? i) with true by (symmetry; apply Nat.leb_le; lia).
      replace (i <? i + S (length r)) with true by (symmetry; apply Nat.ltb_lt; lia).
      simpl. rewrite Nat.sub_diag. simpl. lia.
    + apply Nat.eqb_neq in E.
      destruct (S i <=? ci) eqn:A.
      * apply Nat.leb_le in A.
        replace (i <=? ci) with true by (symmetry; apply Nat.leb_le; lia).
        replace (ci <? i + S (length r)) with (ci <? S i + length r) by (f_equal; lia).
        simpl. destruct (ci <? S (i + length r)); [| reflexivity].
        replace (ci - i) with (S (ci - S i)) by lia. simpl. lia.
      * apply Nat.leb_gt in A.
        replace (i <=? ci) with false by (symmetry; apply Nat.leb_gt; lia).
        reflexivity.
Qed.

Lemma count_chars_bytes_spec : forall s ci, ci <= length s ->
  count_chars_bytes s ci = (byte_len (firstn ci s), length s).
Proof.
  intros s ci H. unfold count_chars_bytes. rewrite ccb_loop_spec. simpl.
  rewrite Nat.sub_0_r. f_equal.
  destruct (ci <? length s) eqn:A; [reflexivity |].
  apply Nat.ltb_ge in A. rewrite firstn_all2 by lia. reflexivity.
Qed.

Lemma str_insert_spec : forall s i ch, i <= length s ->
  str_insert s (byte_len (firstn i s)) ch = Ok (firstn i s ++ ch :: skipn i s).
Proof.
  induction s as [|c r IH]; intros i ch H.
  - destruct i; reflexivity.
  - destruct i as [|i]; [reflexivity |]. simpl in H.
    cbn [firstn byte_len skipn str_insert app].
    pose proof (len_utf8_pos c).
    replace (len_utf8 c + byte_len (firstn i r) =? 0) with false by (symmetry; apply Nat.eqb_neq; lia).
    replace (len_utf8 c + byte_len (firstn i r) <? len_utf8 c) with false by (symmetry; apply Nat.ltb_ge; lia).
    replace (len_utf8 c + byte_len (firstn i r) - len_utf8 c) with (byte_len (firstn i r)) by lia.
    rewrite IH by lia. reflexivity.
Qed.

Lemma str_remove_spec : forall s i, i < length s ->
  str_remove s (byte_len (firstn i s)) = Ok (firstn i s ++ skipn (S i) s).
Proof.
  induction s as [|c r IH]; intros i H; [simpl in H; lia |].
  destruct i as [|i]; [reflexivity |]. simpl in H.
  cbn [firstn byte_len skipn str_remove app].
  pose proof (len_utf8_pos c).
  replace (len_utf8 c + byte_len (firstn i r) =? 0) with false by (symmetry; apply Nat.eqb_neq; lia).
  replace (len_utf8 c + byte_len (firstn i r) <? len_utf8 c) with false by (symmetry; apply Nat.ltb_ge; lia).
  replace (len_utf8 c + byte_len (firstn i r) - len_utf8 c) with (byte_len (firstn i r)) by lia.
  rewrite IH by lia. reflexivity.
Qed.

Lemma insert_char_index_spec : forall s i ch, i <= length s ->
  insert_char_index s i ch = Ok (firstn i s ++ ch :: skipn i s).
Proof.
  intros. unfold insert_char_index. rewrite count_chars_bytes_spec by assumption.
  replace (i <=? length s) with true by (symmetry; apply Nat.leb_le; assumption).
  apply str_insert_spec; assumption.
Qed.

Lemma remove_char_index_spec : forall s i, i < length s ->
  remove_char_index s i = Ok (firstn i s ++ skipn (S i) s).
Proof.
  intros. unfold remove_char_index. rewrite count_chars_bytes_spec by lia.
  replace (i <? length s) with true by (symmetry; apply Nat.ltb_lt; assumption).
  apply str_remove_spec; assumption.
Qed.

Lemma str_from_app : forall p r, str_from (p ++ r) (byte_len p) = Ok r.
Proof.
  induction p as [|c p IH]; intro r.
  - simpl. destruct r; reflexivity.
  - cbn [app byte_len str_from]. pose proof (len_utf8_pos c).
    replace (len_utf8 c + byte_len p =? 0) with false by (symmetry; apply Nat.eqb_neq; lia).
    replace (len_utf8 c + byte_len p <? len_utf8 c) with false by (symmetry; apply Nat.ltb_ge; lia).
    replace (len_utf8 c + byte_len p - len_utf8 c) with (byte_len p) by lia. apply IH.
Qed.

Lemma str_to_app : forall p r, str_to (p ++ r) (byte_len p) = Ok p.
Proof.
  induction p as [|c p IH]; intro r.
  - simpl. destruct r; reflexivity.
  - cbn [app byte_len str_to]. pose proof (len_utf8_pos c).
    replace (len_utf8 c + byte_len p =? 0) with false by (symmetry; apply Nat.eqb_neq; lia).
    replace (len_utf8 c + byte_len p <? len_utf8 c) with false by (symmetry; apply Nat.ltb_ge; lia).
    replace (len_utf8 c + byte_len p - len_utf8 c) with (byte_len p) by lia.
    rewrite IH. reflexivity.
Qed.

(* ------------------------------------------------------------------ *)
(** * The commands of a submitted line *)

Fixpoint until_semi (s : list N) : list N :=
  match s with [] => [] | c :: r => if (c =? 59)%N then [] else c :: until_semi r end.
Fixpoint after_semi (s : list N) : option (list N) :=
  match s with [] => None | c :: r => if (c =? 59)%N then Some r else after_semi r end.

Lemma semi_decomp : forall s,
  s = until_semi s ++ match after_semi s with Some r => 59%N :: r | None => [] end.
Proof.
  induction s as [|c r IH]; [reflexivity |]. simpl.
  destruct (c =? 59)%N eqn:E.
  - apply N.eqb_eq in E. subst. reflexivity.
  - simpl. f_equal. exact IH.
Qed.

Lemma after_semi_length : forall s r, after_semi s = Some r -> length r < length s.
Proof.
  induction s as [|c s IH]; intros r H; [discriminate |]. simpl in *.
  destruct (c =? 59)%N; [injection H as <-; lia | apply IH in H; lia].
Qed.

Lemma find_semi_spec : forall s off,
  find_semi s off = match after_semi s with
                    | Some _ => Some (off + byte_len (until_semi s))
                    | None => None
                    end.
Proof.
  induction s as [|c r IH]; intro off; [reflexivity |]. simpl.
  destruct (c =? 59)%N; [simpl; f_equal; lia |].
  rewrite IH. destruct (after_semi r); [| reflexivity]. simpl. f_equal. lia.
Qed.

Lemma split_semi_nonempty : forall s, split_semi s <> [].
Proof.
  induction s as [|c r IH]; [discriminate |]. simpl.
  destruct (c =? 59)%N; [discriminate |]. destruct (split_semi r); [contradiction | discriminate].
Qed.

Lemma split_semi_spec : forall s,
  split_semi s = match after_semi s with
                 | Some r => until_semi s :: split_semi r
                 | None => [until_semi s]
                 end.
Proof.
  induction s as [|c r IH]; [reflexivity |]. simpl.
  destruct (c =? 59)%N; [reflexivity |].
  rewrite IH. destruct (after_semi r); reflexivity.
Qed.

Lemma read_commands_spec : forall fuel done rest vc h i,
  length rest < fuel ->
  read_commands fuel (mkTerm (done ++ rest) (byte_len done) vc h i) =
  Ok (mkTerm (done ++ rest) 0 vc h i, split_semi rest).
Proof.
  induction fuel as [|f IH]; intros done rest vc h i Hf; [lia |].
  cbn [read_commands]. unfold get_next_command. cbn [t_buf t_head].
  rewrite str_from_app. cbn [bind].
  rewrite find_semi_spec, (split_semi_spec rest).
  pose proof (semi_decomp rest) as D.
  destruct (after_semi rest) as [r|] eqn:A.
  - rewrite D at 1. rewrite str_to_app. cbn [bind].
    unfold set_head. cbn [t_buf t_head t_vc t_hist t_idx fst snd].
    replace (byte_len done + (0 + byte_len (until_semi rest) + 1) =? 0) with false
      by (symmetry; apply Nat.eqb_neq; lia).
    replace (byte_len done + (0 + byte_len (until_semi rest) + 1))
      with (byte_len (done ++ until_semi rest ++ [59%N]))
      by (rewrite !byte_len_app; simpl; lia).
    replace (done ++ rest) with ((done ++ until_semi rest ++ [59%N]) ++ r)
      by (rewrite D at 2; rewrite <- !app_assoc; reflexivity).
    rewrite IH by (apply after_semi_length in A; lia).
    reflexivity.
  - cbn [bind]. unfold set_head. cbn [t_buf t_head t_vc t_hist t_idx].
    rewrite Nat.eqb_refl. rewrite app_nil_r in D. rewrite <- D. reflexivity.
Qed.

(* ------------------------------------------------------------------ *)
(** * Word motions *)

Lemma run_len_ext : forall p q l, (forall y, p y = q y) -> run_len p l = run_len q l.
Proof. induction l as [|x l IH]; intro H; simpl; [reflexivity |]. rewrite H, IH by assumption. reflexivity. Qed.

Lemma run_len_le : forall p l, run_len p l <= length l.
Proof. induction l as [|x l IH]; simpl; [lia |]. destruct (p x); simpl; lia. Qed.

Lemma run_len_stop : forall p l, run_len p (skipn (run_len p l) l) = 0.
Proof.
  induction l as [|x l IH]; [reflexivity |]. simpl.
  destruct (p x) eqn:E; simpl; [exact IH | rewrite E; reflexivity].
Qed.

Lemma firstn_S_nth_error : forall (s : list N) n x,
  nth_error s n = Some x -> firstn (S n) s = firstn n s ++ [x].
Proof.
  induction s as [|c s IH]; intros n x H; [destruct n; discriminate |].
  destruct n as [|n]; simpl in *; [injection H as <-; reflexivity |].
  f_equal. apply IH. exact H.
Qed.

Section Words.
Variable is_ws : N -> bool.
Variable is_alnum : N -> bool.

Let same := same is_ws is_alnum.

Lemma same_ws : forall x y, is_ws x = true -> same x y = is_ws y.
Proof.
  intros x y H. unfold same, EditSpec.same, class. rewrite H.
  destruct (is_ws y); [reflexivity |]. destruct (is_alnum y); reflexivity.
Qed.

Lemma same_nonws : forall x y, is_ws x = false ->
  same x y = negb (is_ws y) && eqb (is_alnum y) (is_alnum x).
Proof.
  intros x y H. unfold same, EditSpec.same, class. rewrite H.
  destruct (is_ws y), (is_alnum y), (is_alnum x); reflexivity.
Qed.

Lemma fwn_skip_ws_spec : forall r i,
  fwn_skip_ws is_ws r i =
  if run_len is_ws r <? length r then Some (i + run_len is_ws r) else None.
Proof.
  induction r as [|ch r IH]; intro i; [reflexivity |]. simpl.
  destruct (is_ws ch); simpl.
  - rewrite IH. change (S (run_len is_ws r) <? S (length r)) with (run_len is_ws r <? length r).
    destruct (_ <? _); [f_equal; lia | reflexivity].
  - f_equal. lia.
Qed.

Lemma fwn_loop_spec : forall a r i total, total = i + length r ->
  fwn_loop is_ws is_alnum false a r i total =
  let n := run_len (fun y => negb (is_ws y) && eqb (is_alnum y) a) r in
  i + n + run_len is_ws (skipn n r).
Proof.
  induction r as [|ch r IH]; intros i total H; simpl in *; [lia |].
  destruct (is_ws ch) eqn:W; simpl.
  - rewrite W. rewrite fwn_skip_ws_spec.
    pose proof (run_len_le is_ws r).
    destruct (_ <? _) eqn:L; [lia |]. apply Nat.ltb_ge in L. lia.
  - destruct (eqb (is_alnum ch) a) eqn:A; simpl.
    + rewrite IH by lia. simpl. lia.
    + rewrite W. lia.
Qed.

Theorem find_word_next_spec : forall s c,
  find_word_next is_ws is_alnum s c false = word_next is_ws is_alnum s c.
Proof.
  intros s c. unfold find_word_next, word_next.
  destruct (skipn c s) as [|x r] eqn:E; [reflexivity |].
  assert (L : length s = c + 1 + length r).
  { pose proof (skipn_length c s) as K. rewrite E in K. simpl in K. lia. }
  fold same. destruct (is_ws x) eqn:W.
  - rewrite fwn_skip_ws_spec.
    rewrite (run_len_ext (same x) is_ws r) by (intro; apply same_ws; assumption).
    rewrite run_len_stop. pose proof (run_len_le is_ws r).
    destruct (_ <? _) eqn:K; [lia |]. apply Nat.ltb_ge in K. lia.
  - rewrite fwn_loop_spec by lia. cbv zeta.
    rewrite (run_len_ext (same x) (fun y => negb (is_ws y) && eqb (is_alnum y) (is_alnum x)) r)
      by (intro; apply same_nonws; assumption).
    lia.
Qed.

Lemma word_next_le : forall s c, c <= length s -> word_next is_ws is_alnum s c <= length s.
Proof.
  intros s c H. unfold word_next.
  destruct (skipn c s) as [|x r] eqn:E; [lia |].
  assert (L : length s = c + 1 + length r).
  { pose proof (skipn_length c s) as K. rewrite E in K. simpl in K. lia. }
  set (n := run_len _ r).
  pose proof (run_len_le (EditSpec.same is_ws is_alnum x) r).
  pose proof (run_len_le is_ws (skipn n r)) as K. rewrite skipn_length in K.
  fold n in H0. lia.
Qed.

Lemma fwb_loop_spec : forall a s cursor, cursor <= length s ->
  fwb_loop is_ws is_alnum false a s cursor =
  Ok (cursor - run_len (fun y => negb (is_ws y) && eqb (is_alnum y) a) (rev (firstn cursor s))).
Proof.
  induction cursor as [|c IH]; intro H; [reflexivity |].
  cbn [fwb_loop].
  destruct (nth_error s c) as [ch|] eqn:E; [| apply nth_error_None in E; lia].
  rewrite (firstn_S_nth_error _ _ _ E), rev_app_distr. cbn [rev app run_len negb andb].
  destruct (is_ws ch); cbn [orb negb andb]; [reflexivity |].
  destruct (eqb (is_alnum ch) a); cbn [negb].
  - rewrite IH by lia. reflexivity.
  - reflexivity.
Qed.

Lemma fwb_skip_ws_spec : forall s cursor, cursor < length s ->
  fwb_skip_ws is_ws s cursor = Ok (cursor - run_len is_ws (rev (firstn (S cursor) s))).
Proof.
  induction cursor as [|c IH]; intro H; [reflexivity |].
  cbn [fwb_skip_ws].
  destruct (nth_error s (S c)) as [ch|] eqn:E; [| apply nth_error_None in E; lia].
  rewrite (firstn_S_nth_error _ _ _ E), rev_app_distr. cbn [rev app run_len].
  destruct (is_ws ch).
  - rewrite IH by lia. reflexivity.
  - reflexivity.
Qed.

Theorem find_word_back_spec : forall s c, c <= length s ->
  find_word_back is_ws is_alnum s c false = Ok (word_back is_ws is_alnum s c).
Proof.
  intros s c H. unfold find_word_back, word_back.
  destruct (c <=? 1) eqn:C.
  - apply Nat.leb_le in C. f_equal.
    destruct c as [|[|c]]; [reflexivity | | lia].
    destruct s as [|x s]; [reflexivity |]. simpl.
    destruct (is_ws x); reflexivity.
  - apply Nat.leb_gt in C.
    rewrite fwb_skip_ws_spec by lia. cbn [bind].
    replace (S (c - 1)) with c by lia.
    set (before := rev (firstn c s)).
    set (n := run_len is_ws before).
    assert (LB : length before = c) by (unfold before; rewrite rev_length, firstn_length; lia).
    pose proof (run_len_le is_ws before) as NL. fold n in NL.
    destruct (nth_error s (c - 1 - n)) as [ch|] eqn:E; [| apply nth_error_None in E; lia].
    rewrite fwb_loop_spec by lia.
    destruct (Nat.eq_dec n c) as [EQ | NE].
    + (* only blanks before the cursor *)
      rewrite skipn_all2 by lia. replace (c - 1 - n) with 0 by lia. reflexivity.
    + assert (SK : skipn n before = ch :: rev (firstn (c - 1 - n) s)).
      { unfold before. rewrite skipn_rev, firstn_length, Nat.min_l by lia.
        rewrite firstn_firstn, Nat.min_l by lia.
        replace (c - n) with (S (c - 1 - n)) by lia.
        rewrite (firstn_S_nth_error _ _ _ E), rev_app_distr. reflexivity. }
      rewrite SK. f_equal.
      assert (W : is_ws ch = false).
      { pose proof (run_len_stop is_ws before) as K. fold n in K. rewrite SK in K. simpl in K.
        destruct (is_ws ch); [discriminate | reflexivity]. }
      fold same.
      rewrite (run_len_ext (same ch) (fun y => negb (is_ws y) && eqb (is_alnum y) (is_alnum ch)))
        by (intro; apply same_nonws; assumption).
      lia.
Qed.

Lemma word_back_le : forall s c, word_back is_ws is_alnum s c <= c.
Proof. intros. unfold word_back. destruct (skipn _ _); lia. Qed.

End Words.

(* ------------------------------------------------------------------ *)
(** * The model performs the reference editor's steps *)

Section Sim.
Variable is_ws : N -> bool.
Variable is_alnum : N -> bool.
Variable dbg : bool.

(** The invariant C20 is about. *)
Definition ed_inv (e : ed) : Prop :=
  focus e <= length (hist e) /\ cur e <= length (shown e).

(** No blank line in the history. *)
Definition nonblank_hist (h : list (list N)) : Prop :=
  Forall (fun l => all_blank is_ws l = false) h.

(** The one place where the debug profile can panic with the invariant in force: Enter on a
    focused history entry that is blank (read_line's debug_assert). *)
Definition blank_submit (e : ed) (k : key) : bool :=
  match k with
  | KEnter => negb (negb (focus e <? length (hist e)) && all_blank is_ws (draft e))
              && all_blank is_ws (shown e)
  | _ => false
  end.

Lemma is_next_ok : forall b hd v h i, i <= length h ->
  is_next dbg (mkTerm b hd v h i) = Ok (negb (i <? length h)).
Proof.
  intros. unfold is_next. cbn [t_hist t_idx].
  replace (length h <? i) with false by (symmetry; apply Nat.ltb_ge; assumption).
  rewrite andb_false_r, Nat.leb_antisym. reflexivity.
Qed.

Lemma get_current_ok : forall b hd v h i, i <= length h ->
  get_current dbg (mkTerm b hd v h i) = Ok (line_at b h i).
Proof.
  intros. unfold get_current. rewrite is_next_ok by assumption. cbn [bind t_buf t_hist t_idx].
  unfold line_at. destruct (i <? length h) eqn:L; cbn [negb]; [| reflexivity].
  destruct (nth_error h i) eqn:E.
  - rewrite (nth_error_nth _ _ _ E). reflexivity.
  - apply nth_error_None in E. apply Nat.ltb_lt in L. lia.
Qed.

Lemma update_next_ok : forall b hd v h i, i <= length h ->
  update_next dbg (mkTerm b hd v h i) = Ok (mkTerm (line_at b h i) hd v h (length h)).
Proof.
  intros. unfold update_next. rewrite is_next_ok by assumption. cbn [bind t_buf t_hist t_idx].
  unfold line_at. destruct (i <? length h) eqn:L; cbn [negb].
  - destruct (nth_error h i) eqn:E.
    + rewrite (nth_error_nth _ _ _ E). reflexivity.
    + apply nth_error_None in E. apply Nat.ltb_lt in L. lia.
  - apply Nat.ltb_ge in L. replace i with (length h) by lia. reflexivity.
Qed.

Lemma line_at_draft : forall d h, line_at d h (length h) = d.
Proof. intros. unfold line_at. rewrite Nat.ltb_irrefl. reflexivity. Qed.

Lemma step_ok : forall e k, ed_inv e ->
  session_key is_ws is_alnum dbg (term_of_ed e) k =
  if dbg && blank_submit e k then Panic
  else Ok (term_of_ed (fst (spec_key is_ws is_alnum e k)), snd (spec_key is_ws is_alnum e k)).
Proof.
  intros [d c h f] k [Hf Hc]. unfold shown in Hc. cbn [draft cur hist focus] in *.
  unfold term_of_ed. cbn [draft cur hist focus].
  destruct k; unfold blank_submit; rewrite ?andb_false_r;
    unfold session_key, handle_key, spec_key, shown; cbn [draft cur hist focus].
  - (* Enter *)
    rewrite is_next_ok by assumption. cbn [bind t_buf].
    unfold blank_str, all_blank. set (l := line_at d h f) in *.
    destruct (negb (f <? length h) && forallb is_ws d) eqn:B; cbn [negb andb].
    + rewrite andb_false_r. reflexivity.
    + rewrite update_next_ok by assumption. cbn [bind]. fold l.
      unfold finish_line, blank_str. cbn [t_buf t_hist].
      destruct (dbg && forallb is_ws l); [reflexivity |]. cbn [bind].
      set (h' := if match h with [] => true | _ :: _ => negb (line_eqb (last h []) l) end
                 then h ++ [l] else h).
      assert (E : (if match h with [] => false | _ :: _ => line_eqb (last h []) l end
                   then h else h ++ [l]) = h').
      { unfold h'. destruct h; [reflexivity |]. destruct (line_eqb _ _); reflexivity. }
      rewrite E. unfold set_idx, set_hist. cbn [t_buf t_head t_vc t_hist t_idx].
      pose proof (read_commands_spec (S (length l)) [] l c h' (length h') (Nat.lt_succ_diag_r _)) as R.
      cbn [app byte_len] in R. rewrite R. reflexivity.
  - (* Backspace *)
    rewrite update_next_ok by assumption. cbn [bind t_vc t_buf set_vc set_buf t_head t_hist t_idx].
    set (l := line_at d h f) in *.
    destruct c as [|c'].
    + reflexivity.
    + change (0 <? S c') with true. cbv iota.
      rewrite get_current_ok by lia. cbn [bind]. rewrite line_at_draft.
      replace (S c' <=? length l) with true by (symmetry; apply Nat.leb_le; lia).
      replace (S c' - 1) with c' by lia. rewrite remove_char_index_spec by lia. reflexivity.
  - (* Delete *)
    rewrite update_next_ok by assumption. cbn [bind]. rewrite get_current_ok by lia. cbn [bind].
    rewrite line_at_draft. cbn [t_vc t_buf]. set (l := line_at d h f) in *.
    destruct (c <? length l) eqn:L.
    + apply Nat.ltb_lt in L. rewrite remove_char_index_spec by assumption. reflexivity.
    + apply Nat.ltb_ge in L. unfold edit. cbn [fst snd draft cur hist focus].
      rewrite firstn_all2, skipn_all2 by lia. rewrite app_nil_r. reflexivity.
  - (* Left *)
    destruct c as [|c']; [reflexivity |]. cbn [t_vc]. change (0 <? S c') with true. cbv iota.
    unfold set_vc. cbn. rewrite Nat.sub_0_r. reflexivity.
  - (* Right *)
    rewrite get_current_ok by assumption. cbn [bind t_vc]. set (l := line_at d h f) in *.
    destruct (c <? length l); [| reflexivity]. unfold set_vc. cbn. rewrite Nat.add_1_r. reflexivity.
  - (* Up *)
    cbn [t_idx]. destruct f as [|f']; [reflexivity |]. change (0 <? S f') with true. cbv iota.
    unfold set_idx. cbn [t_buf t_head t_vc t_hist t_idx]. replace (S f' - 1) with f' by lia.
    rewrite get_current_ok by lia. reflexivity.
  - (* Down *)
    cbn [t_idx t_hist]. destruct (f <? length h) eqn:L; [| reflexivity].
    apply Nat.ltb_lt in L. unfold set_idx. cbn [t_buf t_head t_vc t_hist t_idx].
    rewrite Nat.add_1_r. rewrite get_current_ok by lia. reflexivity.
  - (* Ctrl+Left *)
    rewrite get_current_ok by assumption. cbn [bind t_vc].
    rewrite find_word_back_spec by assumption. reflexivity.
  - (* Ctrl+Right *)
    rewrite get_current_ok by assumption. cbn [bind t_vc].
    rewrite find_word_next_spec. reflexivity.
  - (* Char *)
    unfold is_control. destruct ((c0 <=? 31)%N || (c0 =? 127)%N); [reflexivity |].
    rewrite update_next_ok by assumption. cbn [bind t_buf t_vc].
    rewrite insert_char_index_spec by assumption. cbn [bind]. unfold set_vc, set_buf, edit. cbn.
    rewrite Nat.add_1_r. reflexivity.
Qed.

(** The reference editor keeps its own cursor inside its line. *)
Lemma spec_key_inv : forall e k, ed_inv e -> ed_inv (fst (spec_key is_ws is_alnum e k)).
Proof.
  intros [d c h f] k [Hf Hc]. unfold ed_inv, shown in *. cbn [draft cur hist focus] in *.
  set (l := line_at d h f) in *.
  destruct k; unfold spec_key, shown, edit; cbn [draft cur hist focus]; fold l.
  - (* Enter *)
    destruct (negb (f <? length h) && all_blank is_ws d); cbn [fst draft cur hist focus]; split; lia.
  - (* Backspace *)
    destruct c as [|c']; cbn [fst draft cur hist focus]; rewrite line_at_draft; split; try lia.
    rewrite app_length, firstn_length, skipn_length. lia.
  - (* Delete *)
    cbn [fst draft cur hist focus]. rewrite line_at_draft. split; [lia |].
    rewrite app_length, firstn_length, skipn_length. lia.
  - cbn [fst draft cur hist focus]. fold l. split; lia.
  - cbn [fst draft cur hist focus]. fold l. split; [lia |].
    destruct (c <? length l) eqn:L; [apply Nat.ltb_lt in L |]; lia.
  - (* Up *)
    destruct f as [|f']; cbn [fst draft cur hist focus]; [fold l |]; split; lia.
  - (* Down *)
    destruct (f <? length h) eqn:L; cbn [fst draft cur hist focus]; [apply Nat.ltb_lt in L | fold l];
      split; lia.
  - cbn [fst draft cur hist focus]. fold l. split; [lia |].
    pose proof (word_back_le is_ws is_alnum l c). lia.
  - cbn [fst draft cur hist focus]. fold l. split; [lia |].
    apply word_next_le. assumption.
  - (* Char *)
    destruct (is_control c0); cbn [fst draft cur hist focus]; [fold l; split; lia |].
    rewrite line_at_draft. split; [lia |].
    rewrite app_length, firstn_length. cbn [length]. rewrite skipn_length. lia.
Qed.

Lemma blank_submit_false : forall e k, ed_inv e -> nonblank_hist (hist e) -> blank_submit e k = false.
Proof.
  intros [d c h f] k [Hf _] NB. destruct k; try reflexivity.
  unfold blank_submit, shown, line_at. cbn [draft cur hist focus] in *.
  destruct (f <? length h) eqn:L; cbn [negb andb].
  - apply Nat.ltb_lt in L. unfold nonblank_hist in NB. rewrite Forall_forall in NB.
    apply NB. apply nth_In. exact L.
  - destruct (all_blank is_ws d); reflexivity.
Qed.

Lemma spec_key_nonblank : forall e k, ed_inv e -> nonblank_hist (hist e) ->
  nonblank_hist (hist (fst (spec_key is_ws is_alnum e k))).
Proof.
  intros e k I NB. pose proof (blank_submit_false e KEnter I NB) as BS.
  destruct e as [d c h f].
  destruct k; unfold spec_key, edit; cbn [draft cur hist focus] in *;
    try exact NB;
    try (match goal with |- context [match ?x with _ => _ end] => destruct x end; exact NB).
  unfold blank_submit in BS. cbn [draft cur hist focus] in BS.
  destruct (negb (f <? length h) && all_blank is_ws d); [exact NB |].
  cbn [negb andb] in BS. cbn [fst hist].
  match goal with |- context [if ?b then _ else _] => destruct b end; [exact NB |].
  unfold nonblank_hist. apply Forall_app. split; [exact NB |]. constructor; [exact BS | constructor].
Qed.

Theorem run_keys_refines : forall ks e, ed_inv e -> (dbg = true -> nonblank_hist (hist e)) ->
  run_keys is_ws is_alnum dbg (term_of_ed e) ks =
  Ok (term_of_ed (fst (spec_run is_ws is_alnum e ks)), snd (spec_run is_ws is_alnum e ks)).
Proof.
  induction ks as [|k ks IH]; intros e I NB; [reflexivity |].
  cbn [run_keys spec_run]. rewrite step_ok by assumption.
  assert (B : dbg && blank_submit e k = false).
  { destruct dbg; [apply blank_submit_false; auto | reflexivity]. }
  rewrite B. cbn [bind].
  pose proof (spec_key_inv e k I) as I1.
  assert (NB1 : dbg = true -> nonblank_hist (hist (fst (spec_key is_ws is_alnum e k))))
    by (intro D; apply spec_key_nonblank; auto).
  destruct (spec_key is_ws is_alnum e k) as [e1 sub]. cbn [fst snd] in *.
  rewrite IH by assumption. cbn [bind].
  destruct (spec_run is_ws is_alnum e1 ks) as [e2 subs]. reflexivity.
Qed.

Lemma current_term_of_ed : forall e, current (term_of_ed e) = shown e.
Proof. reflexivity. Qed.

Theorem run_keys_inv : forall ks e t subs, ed_inv e ->
  run_keys is_ws is_alnum dbg (term_of_ed e) ks = Ok (t, subs) ->
  t_vc t <= length (current t) /\ t_idx t <= length (t_hist t).
Proof.
  induction ks as [|k ks IH]; intros e t subs I H.
  - cbn [run_keys] in H. injection H as <- _. rewrite current_term_of_ed. destruct I. split; assumption.
  - cbn [run_keys] in H. rewrite step_ok in H by assumption.
    destruct (dbg && blank_submit e k); [discriminate |]. cbn [bind] in H.
    pose proof (spec_key_inv e k I) as I1.
    destruct (run_keys is_ws is_alnum dbg (term_of_ed (fst (spec_key is_ws is_alnum e k))) ks)
      as [[t2 subs2]| |] eqn:R; try discriminate.
    cbn [bind] in H. injection H as <- _. eapply IH; eassumption.
Qed.

Theorem spec_run_inv : forall ks e, ed_inv e -> ed_inv (fst (spec_run is_ws is_alnum e ks)).
Proof.
  induction ks as [|k ks IH]; intros e I; [exact I |].
  cbn [spec_run]. pose proof (spec_key_inv e k I) as I1.
  destruct (spec_key is_ws is_alnum e k) as [e1 sub]. cbn [fst] in I1.
  specialize (IH e1 I1). destruct (spec_run is_ws is_alnum e1 ks). exact IH.
Qed.

End Sim.

Lemma spec_start_inv : forall h, ed_inv (spec_start h).
Proof. intro h. unfold ed_inv, spec_start, shown. cbn. split; lia. Qed.

(* ------------------------------------------------------------------ *)
(** * C20 *)

Theorem edit_inv : forall (is_ws is_alnum : N -> bool) (dbg : bool) (h : list (list N)) (ks : list key) t subs,
  run_keys is_ws is_alnum dbg (term_start h) ks = Ok (t, subs) ->
  t_vc t <= length (current t) /\ t_idx t <= length (t_hist t).
Proof. intros. eapply (run_keys_inv is_ws is_alnum dbg ks (spec_start h)); [apply spec_start_inv | exact H]. Qed.

Theorem edit_submit : forall (is_ws is_alnum : N -> bool) (dbg : bool) (h : list (list N)) (ks : list key),
  (dbg = true -> Forall (fun l => forallb is_ws l = false) h) ->
  run_keys is_ws is_alnum dbg (term_start h) ks =
  Ok (term_of_ed (fst (spec_run is_ws is_alnum (spec_start h) ks)),
      snd (spec_run is_ws is_alnum (spec_start h) ks)).
Proof. intros. apply (run_keys_refines is_ws is_alnum dbg ks (spec_start h)); [apply spec_start_inv | exact H]. Qed.

Theorem edit_total : forall (is_ws is_alnum : N -> bool) (dbg : bool) (h : list (list N)) (ks : list key),
  (dbg = true -> Forall (fun l => forallb is_ws l = false) h) ->
  exists t subs, run_keys is_ws is_alnum dbg (term_start h) ks = Ok (t, subs).
Proof. intros. eexists. eexists. apply edit_submit. assumption. Qed.

Theorem spec_inv : forall (blank letter : N -> bool) (h : list (list N)) (ks : list key),
  let e := fst (spec_run blank letter (spec_start h) ks) in
  cur e <= length (shown e) /\ focus e <= length (hist e).
Proof.
  intros. destruct (spec_run_inv blank letter ks (spec_start h) (spec_start_inv h)). split; assumption.
Qed.

(* ------------------------------------------------------------------ *)
(** * Non-vacuity, and what the pinned tree did *)

(** A small classification for the examples: space is blank; a-z, 0-9 and e-acute are letters. *)
Definition ex_ws (c : N) : bool := (c =? 32)%N.
Definition ex_alnum (c : N) : bool :=
  ((97 <=? c) && (c <=? 122) || (48 <=? c) && (c <=? 57) || (c =? 233))%N.

(** e-acute, Ctrl+Right, a, Enter (the F20 witness): the fixed editor submits "e-acute a". *)
Example run_witness :
  run_keys ex_ws ex_alnum true (term_start []) [KChar 233; KCtrlRight; KChar 97; KEnter]
  = Ok (mkTerm [] 0 0 [[233; 97]%N] 1, [[[233; 97]%N]]).
Proof. vm_compute. reflexivity. Qed.

(** From a non-empty history that satisfies the hypothesis of edit_submit / edit_total:
    Up, Enter resubmits "c;d" as the two commands "c" and "d" and does not store it twice. *)
Example run_history :
  Forall (fun l => forallb ex_ws l = false) [[97; 98]; [99; 59; 100]]%N /\
  run_keys ex_ws ex_alnum true (term_start [[97; 98]; [99; 59; 100]]%N) [KUp; KEnter]
  = Ok (mkTerm [] 0 0 [[97; 98]; [99; 59; 100]]%N 2, [[[99]; [100]]%N]).
Proof. split; [repeat constructor | vm_compute; reflexivity]. Qed.

(** The hypothesis is needed in the debug profile: a blank history entry (only possible in a
    hand-edited history file) trips read_line's debug_assert on Up, Enter. *)
Example blank_history_entry_panics_in_debug :
  run_keys ex_ws ex_alnum true (term_start [[32%N]]) [KUp; KEnter] = Panic /\
  exists r, run_keys ex_ws ex_alnum false (term_start [[32%N]]) [KUp; KEnter] = Ok r.
Proof. split; [vm_compute; reflexivity | eexists; vm_compute; reflexivity]. Qed.

(** F20 on the pinned tree: with e-acute on the line Ctrl+Right returned 2 (a byte offset) for a
    line of 1 character, and the next insertion at that cursor is the failed assertion. *)
Lemma F20_refuted :
  find_word_next_pinned ex_ws ex_alnum [233%N] 0 false = 2 /\
  length [233%N] = 1 /\
  insert_char_index [233%N] (find_word_next_pinned ex_ws ex_alnum [233%N] 0 false) 97 = Panic /\
  find_word_next ex_ws ex_alnum [233%N] 0 false = 1.
Proof. vm_compute. repeat split; reflexivity. Qed.

(** Second defect of the pinned tree: from a word followed only by blanks Ctrl+Right stopped
    right behind the word ("a  ": 1) although behind a punctuation word it went to the end of
    the line ("+  ": 3), which is what the reference editor does in both cases. *)
Lemma F20b_refuted :
  find_word_next_pinned ex_ws ex_alnum [97; 32; 32]%N 0 false = 1 /\
  find_word_next_pinned ex_ws ex_alnum [43; 32; 32]%N 0 false = 3 /\
  word_next ex_ws ex_alnum [97; 32; 32]%N 0 = 3 /\
  find_word_next ex_ws ex_alnum [97; 32; 32]%N 0 false = 3.
Proof. vm_compute. repeat split; reflexivity. Qed.
