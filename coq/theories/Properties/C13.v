(* C13 — debugger writes are confined to user space and to the named target. *)
From Coq Require Import ZArith.
From Lace Require Import Word Machine Isa Vm Asm Dbg DbgProofs.
From Lace Require Examples.
Open Scope N_scope.

(** `move` to a register changes that register and nothing else. *)
Theorem C13_move_reg : forall env d st r v, r < 8 ->
  exists d', run_command env (CMove (LReg r) v) d st = CmdNone d' (set_reg st r v) /\
             d_bps d' = d_bps d /\
             R (set_reg st r v) r = v /\
             (forall r', r' < 8 -> r' <> r -> R (set_reg st r v) r' = R st r') /\
             s_mem (set_reg st r v) = s_mem st /\ s_pc (set_reg st r v) = s_pc st /\
             s_cc (set_reg st r v) = s_cc st.
Proof. exact move_reg_frame. Qed.
Print Assumptions C13_move_reg.

(** `move` to memory either changes nothing or exactly the one named word, which is in user space. *)
Theorem C13_move_mem : forall env d st m v d' st',
  run_command env (CMove (LMem m) v) d st = CmdNone d' st' ->
  st' = st \/
  (exists a, in_userspace st a = true /\ st' = set_mem st a v /\
             M st' a = v /\ (forall b, b <> a -> M st' b = M st b) /\
             s_regs st' = s_regs st /\ s_pc st' = s_pc st /\ s_cc st' = s_cc st).
Proof. exact move_mem_frame. Qed.
Print Assumptions C13_move_mem.

(** move/goto/break add/break remove on an address outside [origin, xFE00) — in any spelling —
    are refused: machine, breakpoints and status unchanged, an error line printed. *)
Theorem C13_refuse : forall env c m d st,
  writes_cmd c = Some m ->
  (forall a d', resolve_location env (set_icount d 0) st m = (Some a, d') -> in_userspace st a = false) ->
  exists d', run_command env c d st = CmdNone d' st /\ d_bps d' = d_bps d /\
             d_status d' = d_status d /\ (exists line rest, d_err d' = line :: rest /\ exists k, rest = k ++ d_err d).
Proof. exact refuse_outside. Qed.
Print Assumptions C13_refuse.

(** Label+offset and ^offset are added WITHOUT 16-bit wrap-around: a location that resolves is the
    exact sum and lies in user space — so offsets that overflow 16 bits can never land inside. *)
Theorem C13_no_wrap : forall orig a off x,
  add_address_offset orig a off = Some x ->
  orig <= x /\ x < 65024 /\ Z.of_N x = (Z.of_N a + signed16 off)%Z.
Proof. exact add_address_offset_spec. Qed.
Print Assumptions C13_no_wrap.

(** print, registers, assembly, break list (and echo, help) never change machine or breakpoints. *)
Theorem C13_readonly : forall env c d st,
  match c with CPrint _ | CRegisters | CAssembly _ | CBreakList | CEcho _ | CHelp => True | _ => False end ->
  exists d', run_command env c d st = CmdNone d' st /\ d_bps d' = d_bps d /\ d_status d' = d_status d.
Proof. exact inspection_changes_nothing. Qed.
Print Assumptions C13_readonly.

(** Non-vacuity: `goto x0000` names a target outside user space (the hypotheses of C13_refuse);
    `move x3001 7` names one inside and writes exactly that word. *)
Example C13_nonvacuous :
  (writes_cmd (CGoto (MAddr 0)) = Some (MAddr 0) /\
   forall a d', resolve_location Examples.ex_env (set_icount (Examples.ex_dbg nil) 0) Examples.ex_state (MAddr 0) = (Some a, d') ->
                in_userspace Examples.ex_state a = false) /\
  exists d', run_command Examples.ex_env (CMove (LMem (MAddr 12289)) 7) (Examples.ex_dbg nil) Examples.ex_state =
             CmdNone d' (set_mem Examples.ex_state 12289 7).
Proof. split; [exact Examples.ex_outside_target|exact Examples.ex_move_mem]. Qed.
