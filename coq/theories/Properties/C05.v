(* C05 — the assembler is total: any text yields an image or a diagnostic. *)
From Coq Require Import String.
From Lace Require Import Word Asm AsmTotal AsmSpan.
Open Scope string_scope.
Open Scope N_scope.

(** For every source text (any list of Unicode scalar values), either feature setting and any
    symbol table left by earlier assemblies, assembling (preprocess, parse, backpatch, emission of
    every statement) ends in an image or a diagnostic — never in [Bad], the model's rendering of a
    Rust panic: `unreachable!`, a failed `assert!`, an unfilled label at emission, or a loop that
    outlives the input (the model's loops are structurally recursive on fuel computed from the
    input's length; running out of it is also [Bad]). *)
Theorem C05_total : forall (feat : bool) (sym0 : symtab) (src : list N) (why : N),
  fst (assemble feat sym0 src) <> Bad why.
Proof.
  intros feat sym0 src why H. pose proof (assemble_not_bad feat sym0 src) as K.
  rewrite H in K. exact K.
Qed.
Print Assumptions C05_total.

(** The same for `lace check`'s path (no emission). *)
Theorem C05_total_check : forall (feat : bool) (sym0 : symtab) (src : list N) (why : N),
  fst (assemble_air feat sym0 src) <> Bad why.
Proof.
  intros feat sym0 src why H. pose proof (assemble_air_not_bad feat sym0 src) as K.
  rewrite H in K. exact K.
Qed.
Print Assumptions C05_total_check.

(** Every diagnostic points inside the source: its span (byte offset, byte length) ends at or
    before the end of the text — for every text, feature setting and inherited table, whichever
    stage reports it (lexer, preprocessor, parser, backpatching, emission). *)
Theorem C05_span_inside : forall (feat : bool) (sym0 : symtab) (src : list N) d a n,
  fst (assemble feat sym0 src) = Err d a n -> a + n <= bytes src.
Proof. exact assemble_span. Qed.
Print Assumptions C05_span_inside.

(** The lexer makes progress: every token except end-of-input consumes at least one character
    (so the Rust loops, which have the same shape, terminate). *)
Theorem C05_lexer_progress : forall feat l pos t rest pos',
  advance_real feat l pos = StepTok t rest pos' ->
  (tk t = KEof /\ rest = []) \/ (lexer_kind (tk t) /\ (length rest < length l)%nat).
Proof. exact advance_real_shorter. Qed.
Print Assumptions C05_lexer_progress.

(** Non-vacuity: inputs that used to panic now yield diagnostics or images in the model. *)
Example C05_nonvacuous :
  (exists d a n, fst (assemble false [] (str "add r0 .fill x1")) = Err d a n) /\
  (exists d a n, fst (assemble false [] [120; 233]) = Err d a n) /\
  (exists im, fst (assemble false [] (str "br #-2")) = Ok im).
Proof. vm_compute. repeat split; repeat eexists. Qed.
