(* C02 — Every instruction word executes as the ISA prescribes.
   Only statements, each closed by [exact]; proofs live in VmProofs.v. *)
From Lace Require Import Word Machine Isa Vm VmProofs FrameProofs.

(** The transcription of lace's [RunState::execute] agrees with the ISA semantics of the decoded
    instruction: for every 16-bit word, every feature setting and every well-formed machine state
    (all registers, PC, condition code, all 65,536 memory words, pending console input) — the
    whole result: next state, console output, exit status. *)
Theorem C02_exec : forall (feat : bool) (w : N) (st : state),
  wf st -> w < W -> execute feat w st = step feat (decode w) st.
Proof. exact execute_refines_step. Qed.
Print Assumptions C02_exec.

(** Apart from RTI (opcode 8, documented as unimplemented) no instruction panics. *)
Theorem C02_no_panic : forall (feat : bool) (w : N) (st st' : state),
  wf st -> w < W -> w / 4096 <> 8 -> execute feat w st <> Panicked st'.
Proof. exact execute_no_panic. Qed.
Print Assumptions C02_no_panic.

(** Executing keeps every register, the PC and every memory word a 16-bit value. *)
Theorem C02_wf : forall (feat : bool) (w : N) (st st' : state),
  wf st -> w < W -> execute feat w st = Running st' -> wf st'.
Proof. exact execute_wf. Qed.
Print Assumptions C02_wf.

(** Unsupported encodings stop the machine without executing anything. *)
Theorem C02_unsupported : forall (w : N) (st : state), wf st -> w < W ->
  (w / 4096 = 13 -> execute false w st = Exited 1 st) /\
  (w / 4096 = 15 -> (w mod 256 < 32 \/ 39 < w mod 256) -> forall feat, execute feat w st = Exited 238 st).
Proof. exact execute_unsupported. Qed.
Print Assumptions C02_unsupported.

(** Nothing but the specified locations changes: executing any word leaves every register outside
    [reg_targets] (the destination register; R7 for JSR/JSRR and the stack instructions; R0 for
    GETC/IN), every memory word other than the single [mem_target] (the effective address of
    ST/STI/STR, the new stack top of PUSH/CALL), and the origin exactly as they were. *)
Theorem C02_frame : forall (feat : bool) (w : N) (st st' : state),
  wf st -> w < W -> execute feat w st = Running st' ->
  same_regs_except (reg_targets (decode w)) st st' /\
  same_mem_except (mem_target (decode w) st) st st' /\ s_orig st' = s_orig st.
Proof. exact execute_frame. Qed.
Print Assumptions C02_frame.

(** Non-vacuity: a concrete non-trivial well-formed state, and the theorem instantiated on it
    (JSRR R7 with R7 = x4000 at PC = x3001: jumps to x4000, links x3001). *)
Example C02_nonvacuous :
  let st := mkState (mkRegs 0 1 32767 32768 65535 7 9 16384) 12289 CC_U mem_zero 12288 [65] [] in
  wf st /\ execute true 16832 st = Running (set_reg (set_pc st 16384) 7 12289).
Proof. exact nonvacuous_jsrr. Qed.
