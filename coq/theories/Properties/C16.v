(* C16 — a debugger session always makes progress. *)
From Lace Require Import Word Machine Isa Vm Asm Dbg DbgProofs.
From Lace Require Examples.
Open Scope N_scope.

(** The debugger never spins: an iteration of the run loop that neither executes an instruction
    nor reads a command does not exist — in particular not with PC = xFFFF, outside user space or
    parked on HALT. *)
Theorem C16_no_spin : forall env script d st,
  match tick env script d st with
  | TNext _ _ _ e n => 1 <= e + n
  | TDetach _ _ n => 1 <= n
  | TStop _ _ _ _ _ _ => True
  end.
Proof. exact tick_progress. Qed.
Print Assumptions C16_no_spin.

(** Hence the work of a whole session (iterations of the run loop, attached or not) is bounded by
    the instructions it executes plus the commands it reads, plus one — for every program, script,
    breakpoint set and budget. *)
Theorem C16_progress : forall env fuel script d st t e c,
  let r := session env fuel script d st t e c in
  sr_ticks r + e + c <= t + sr_execs r + sr_cmds r + 1.
Proof. exact session_progress. Qed.
Print Assumptions C16_progress.

(** ... and the commands read are at most the script's length plus one (the end of input). *)
Theorem C16_commands_bounded : forall env script d st n,
  match wait_loop env script d st n with
  | NaAction _ _ _ rest n' | NaStop _ _ rest n' => n' + N.of_nat (length rest) <= n + N.of_nat (length script) + 1
  end.
Proof. exact wait_loop_script. Qed.
Print Assumptions C16_commands_bounded.

(** Non-vacuity: on a concrete session the bound is met with room to spare
    (ticks <= instructions + commands + 1). *)
Example C16_nonvacuous :
  let r := session Examples.ex_env 50 Examples.ex_script (Examples.ex_dbg nil) Examples.ex_state 0 0 0 in
  sr_kind r = 0 /\ sr_kind r <> 4 /\ R (sr_state r) 0 = 3 /\ sr_execs r = 4 /\ sr_cmds r = 7.
Proof. exact Examples.ex_session. Qed.
