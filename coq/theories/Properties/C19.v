(* C19 — assembling is a pure function of the source text (given the documented reset). *)
From Coq Require Import List.
From Lace Require Import Word Asm AsmFeat Cli Watch.

(** In the model the only state that survives an assembly is the symbol table, threaded
    explicitly; the documented reset empties it.  Whatever was assembled before (valid, failing in
    the lexer, failing after labels were recorded, sharing label names), assembling B after a reset
    equals assembling B from scratch — result and resulting table. *)
Theorem C19_pure : forall feat (symA : symtab) (srcA srcB : list N),
  let after_A := snd (assemble feat symA srcA) in
  assemble feat (reset_state after_A) srcB = assemble feat [] srcB.
Proof. exact assemble_pure. Qed.
Print Assumptions C19_pure.

(** The reset is needed: without it a label shared with the previous source makes B fail. *)
Theorem C19_needs_reset :
  let a := [97; 32; 104; 97; 108; 116; 10] in
  fst (assemble false (snd (assemble false [] a)) a) <> fst (assemble false [] a).
Proof. exact needs_reset. Qed.
Print Assumptions C19_needs_reset.

(** "This is what makes every re-check of `lace watch` equivalent to a fresh `lace check`": the
    watcher of Watch.v, for every sequence of file versions. *)
Theorem C19_watch : forall feat versions, watch feat nil versions = List.map (check_exit feat) versions.
Proof. exact watch_is_check. Qed.
Print Assumptions C19_watch.
