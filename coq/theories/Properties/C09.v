(* C09 — the debugger is transparent to the program. *)
From Coq Require Import List.
From Lace Require Import Word Machine Isa Vm Asm Dbg DbgProofs.
From Lace Require Examples.
From Lace Require DebugText DebugTextProofs DbgStream DbgStreamProofs.
Open Scope N_scope.

(** For every program state, every script made only of execution-control and inspection commands
    (step, step into, step out, continue, break add/remove/list, print, registers, assembly, echo,
    help; `quit` or the end of the script detaches), every breakpoint set and every budget: if the
    session comes to an end, there is a plain run (no debugger) from the same state that ends the
    same way — same stop, same exit status, same final registers, PC, condition code, memory,
    program output and remaining input. *)
Theorem C09_transparent : forall env fuel script d st t e c,
  Forall readonly_cmd script ->
  sr_kind (session env fuel script d st t e c) <> 4 ->
  exists k, same_end (session env fuel script d st t e c) (fst (vm_run (e_feat env) k st [])).
Proof. exact session_transparent. Qed.
Print Assumptions C09_transparent.

(** The invariant behind it: with such a script, one iteration of the debugger loop either leaves
    the machine exactly as it was or performs exactly one step of the plain machine. *)
Theorem C09_tick : forall env script d st, Forall readonly_cmd script ->
  match tick env script d st with
  | TStop kind code st' _ e _ =>
      runnable st /\ e = 1 /\
      match vm_step (e_feat env) st with
      | Exited c s => kind = 1 /\ code = c /\ st' = s
      | Panicked s => kind = 2 /\ st' = s
      | Diverged => kind = 3
      | Running _ => False
      end
  | TDetach _ st' _ => st' = st
  | TNext rest _ st' e _ =>
      Forall readonly_cmd rest /\
      ((e = 0 /\ st' = st) \/ (e = 1 /\ runnable st /\ vm_step (e_feat env) st = Running st'))
  end.
Proof. exact tick_readonly. Qed.
Print Assumptions C09_tick.

(** The same for a script given as TEXT (`--command` and/or standard input; model DebugText.v): if
    every line that the command parser accepts is an execution-control or inspection command —
    whatever else the text contains: blank lines, rejected lines, any spelling or transport — the
    session is transparent. *)
Theorem C09_text_transparent : forall env fuel arg stdin d st t e c,
  forallb DebugTextProofs.readonly_cmdb (DebugText.script_of_text arg stdin) = true ->
  sr_kind (session env fuel (DebugText.script_of_text arg stdin) d st t e c) <> 4 ->
  exists k, same_end (session env fuel (DebugText.script_of_text arg stdin) d st t e c)
                     (fst (vm_run (e_feat env) k st [])).
Proof. exact DebugTextProofs.text_transparent. Qed.
Print Assumptions C09_text_transparent.

(** The real process has ONE console stream: when the `--command` argument is used up the debugger
    reads its commands from the stream GETC / IN read from (model DbgStream.v, tied to the code by
    sessions whose script and program input interleave on that stream).  With no console input
    the one-stream model and the two-channel model of the theorems above are the same function:
    every field of the session agrees. *)
Theorem C09_one_stream : forall env fuel script d st t e c, s_inp st = nil ->
  DbgStream.ssession env fuel script d st t e c = Some (session env fuel script d st t e c).
Proof. exact DbgStreamProofs.ssession_no_input. Qed.
Print Assumptions C09_one_stream.

(** ... and so are they, WHATEVER the console input is, when the script in the `--command` argument
    ends with `quit` or `exit`: the debugger never reaches the console stream, the program gets all
    of it.  (These two theorems are what carries every statement about [session] over to the real
    process; sessions outside both — the argument runs out while console input remains — are
    described by DbgStream.v itself and compared with the code as DBGS cases.) *)
Theorem C09_one_stream_stopping : forall env c, DbgStreamProofs.stops c -> forall fuel pre d st t e n,
  DbgStream.ssession env fuel (pre ++ (c :: nil)) d st t e n = Some (session env fuel (pre ++ (c :: nil)) d st t e n).
Proof. exact DbgStreamProofs.ssession_stopping_script. Qed.
Print Assumptions C09_one_stream_stopping.

(** Non-vacuity: a read-only script (step, registers, print, break add, continue, continue) on a
    concrete program: the hypotheses of C09_transparent hold and the session ends like the plain
    run, with R0 = 3, after 4 instructions and 7 commands read. *)
Example C09_nonvacuous :
  Forall readonly_cmd Examples.ex_script /\
  let r := session Examples.ex_env 50 Examples.ex_script (Examples.ex_dbg nil) Examples.ex_state 0 0 0 in
  sr_kind r = 0 /\ sr_kind r <> 4 /\ R (sr_state r) 0 = 3 /\ sr_execs r = 4 /\ sr_cmds r = 7.
Proof. split; [exact Examples.ex_script_readonly|exact Examples.ex_session]. Qed.
