(* C15 — eval executes the instruction it is given, here and now. *)
From Lace Require Import Word Machine Isa Vm VmProofs Asm AsmProofs Dbg DbgProofs EvalProofs.
From Lace Require Examples.
Open Scope N_scope.

(** An allowed, well-formed instruction is resolved, emitted for the CURRENT PC and executed on the
    current machine by the VM's own [execute] (whose agreement with the ISA is C02_exec). *)
Theorem C15_eval : forall env st text toks s s' w,
  lex_simple (e_feat env) (S (length text)) text 0 [] = Ok toks ->
  parse_simple (e_sym env) toks (bytes text) = Ok s ->
  allowed s ->
  backpatch_stmt (e_sym env) s = Ok s' ->
  emit (mkLine (wrap (s_pc st + 65536 - s_orig st)) s' 0 0) = Ok w ->
  eval env st text = match execute (e_feat env) w st with Running st' => EvalDone st' | r => EvalStop r end.
Proof. exact eval_unfold. Qed.
Print Assumptions C15_eval.

(** A label operand denotes the label's address wherever the PC is: the executed word decodes to
    the written instruction, and CURRENT PC + SEXT(field) = origin + (label's line) - 1. *)
Theorem C15_label : forall st s' w l r k,
  wf st -> 1 <= r -> r < 65536 ->
  stmt_ok s' -> pcrel_of s' = Some (l, k) -> l = LRef r ->
  emit (mkLine (wrap (s_pc st + 65536 - s_orig st)) s' 0 0) = Ok w ->
  exists o, decode w = instr_of s' o /\
            addw (s_pc st) (sext k o) = wrap (s_orig st + r - 1).
Proof. exact eval_label_target. Qed.
Print Assumptions C15_label.

(** BR*, RTI, HALT and unknown trap vectors are refused. *)
Theorem C15_refuse : forall env st text toks s,
  lex_simple (e_feat env) (S (length text)) text 0 [] = Ok toks ->
  parse_simple (e_sym env) toks (bytes text) = Ok s ->
  match s with
  | SBranch _ _ | SInterrupt => True
  | STrap v => v = 37 \/ v < 32 \/ 39 < v
  | _ => False
  end ->
  exists line, eval env st text = EvalRefused line.
Proof. exact eval_refuses. Qed.
Print Assumptions C15_refuse.

(** A refusal — off-limits instruction or text that is not one well-formed instruction (surplus
    operands included) — has no effect and never ends the session. *)
Theorem C15_no_effect : forall env d st text,
  (exists line, eval env st text = EvalRefused line) \/ eval env st text = EvalError ->
  exists d', run_command env (CEval text) d st = CmdNone d' st /\ d_bps d' = d_bps d /\ d_status d' = d_status d.
Proof. exact eval_command_no_effect. Qed.
Print Assumptions C15_no_effect.

Theorem C15_surplus : forall sym t r extra srclen s toks2 te,
  match tk t with
  | KInstr k => parse_instr sym 1 k (r, 0) srclen = Ok (s, (extra :: toks2, te))
  | KTrap k => parse_trap k (r, 0) srclen = Ok (s, (extra :: toks2, te))
  | _ => False
  end ->
  parse_simple sym (t :: r) srclen = Err E_unexpected (toffs extra) (tlen extra).
Proof. exact parse_simple_surplus. Qed.
Print Assumptions C15_surplus.

(** Non-vacuity: `add r1 r1 #3` passes every stage named in C15_eval (word x1263); `halt` is refused. *)
Example C15_nonvacuous :
  match lex_simple false (S (length Examples.ex_eval_text)) Examples.ex_eval_text 0 nil with
  | Ok toks =>
      match parse_simple nil toks (bytes Examples.ex_eval_text) with
      | Ok s =>
          allowed s /\
          match backpatch_stmt nil s with
          | Ok s' => emit (mkLine (wrap (s_pc Examples.ex_state + 65536 - s_orig Examples.ex_state)) s' 0 0) = Ok 4707
          | _ => False
          end
      | _ => False
      end
  | _ => False
  end /\
  exists line, eval Examples.ex_env Examples.ex_state (104 :: 97 :: 108 :: 116 :: nil) = EvalRefused line.
Proof. split; [exact Examples.ex_eval_allowed|exact Examples.ex_eval_refused]. Qed.
