(* C14 — the debugger command language is total, unambiguous and transport-independent. *)
From Coq Require Import ZArith.
From Lace Require Import CmdSpec Cmd.
