(* C14 — the debugger command language is total, unambiguous and transport-independent. *)
From Coq Require Import List NArith ZArith Bool String.
From Lace Require Import CmdSpec Cmd CmdProofs.
From Lace Require Dbg DbgBad DebugText DebugTextProofs Utf8 Utf8Lines DbgStream DbgStreamLines.
Import ListNotations.
Open Scope N_scope.

(** The integer parser accepts exactly the documented integer syntax — optional sign, optional
    single leading zero before a radix letter, prefix #/x/o/b or none, optional sign after the
    prefix (one sign at most), at least one digit, magnitude at most 2^31 - 1 — with the value as
    written. *)
Theorem C14_int_sound : forall s v, parse_integer s false = Ok (Some v) -> IntSyn s v.
Proof. exact parse_integer_sound. Qed.
Print Assumptions C14_int_sound.

Theorem C14_int_complete : forall s v, IntSyn s v -> parse_integer s false = Ok (Some v).
Proof. exact parse_integer_complete. Qed.
Print Assumptions C14_int_complete.

(** The integer syntax assigns at most one value to a token. *)
Theorem C14_unambiguous : forall s v v', IntSyn s v -> IntSyn s v' -> v = v'.
Proof. exact IntSyn_unambiguous. Qed.
Print Assumptions C14_unambiguous.

(** No line makes the parser panic: none of the model's panic sites (slices, asserts,
    debug_asserts, `expect`, overflow checks of the debug profile) is reachable on a line that a
    reader can hand over (readers cut at `;` and newline, so a line contains neither). *)
Theorem C14_total : forall raw, nodelim raw -> forall w, parse_line raw <> Some (Panic w).
Proof. exact parse_line_total. Qed.
Print Assumptions C14_total.

(** ... and no script does, however it is delivered; the readers themselves included. *)
Theorem C14_session_total : forall arg stdin e, In e (session arg stdin) ->
  (forall w, e <> EvPanic w) /\ e <> EvOutOfFuel.
Proof. exact session_total. Qed.
Print Assumptions C14_session_total.

(** A script means the same whether it arrives through `--command`, through standard input or
    split across both, and whether commands are separated by `;` or by newlines. *)
Theorem C14_transport :
  (forall arg stdin,
     session arg stdin = events (script_lines (arg_text arg) ++ script_lines stdin)) /\
  (forall s, session (Some s) [] = session None s) /\
  (forall a d b, is_delim d = true ->
     session (Some a) b = session None (a ++ d :: b) /\
     session (Some a) b = session (Some (a ++ d :: b)) [] /\
     session (Some (a ++ [d])) b = session (Some a) b) /\
  (forall f, sep_renaming f -> forall arg stdin,
     session (option_map (map f) arg) (map f stdin) = session arg stdin).
Proof. exact transport_independent. Qed.
Print Assumptions C14_transport.

(** A rejected line changes nothing in what the debugger is given to execute. *)
Theorem C14_no_effect : forall ls1 l e ls2, try_from l = Err e ->
  commands_of (events (ls1 ++ l :: ls2)) = commands_of (events (ls1 ++ ls2)).
Proof. exact rejected_line_no_effect. Qed.
Print Assumptions C14_no_effect.

(** Arguments have exactly the documented forms and values: registers, `^offset`, label
    plus/minus offset, integer values (16-bit pattern), `Address+` (after the preliminary type
    check that goto, assembly, break add and break remove apply), `Register | Address+`. *)
Theorem C14_register : forall s r, register_try_parse s = Ok (Some r) <-> RegSyn s r.
Proof. exact register_iff. Qed.
Print Assumptions C14_register.

Theorem C14_pc_offset : forall s v, pcoffset_try_parse s = Ok (Some v) <-> PcOffSyn s v.
Proof. exact pcoffset_iff. Qed.
Print Assumptions C14_pc_offset.

Theorem C14_label : forall s name off,
  label_try_parse s = Ok (Some (name, off)) <-> LabelSyn s name off.
Proof. exact label_iff. Qed.
Print Assumptions C14_label.

Theorem C14_value : forall s v,
  (check_naive_type [NInteger] s = Ok tt /\
   exists x, parse_integer s false = Ok (Some x) /\ as_u16_cast x = Ok v) <-> ValueSyn s v.
Proof. exact value_arg_iff. Qed.
Print Assumptions C14_value.

Theorem C14_memory_location : forall s m,
  (check_naive_type [NInteger; NLabel; NPCOffset] s = Ok tt /\
   memory_location_try_parse s = Ok (Some m)) <-> MemLocSyn s m.
Proof. exact memloc_iff. Qed.
Print Assumptions C14_memory_location.

Theorem C14_location : forall s l, location_try_parse s = Ok (Some l) <-> LocSyn s l.
Proof. exact location_iff. Qed.
Print Assumptions C14_location.

(** The whole line: what the parser does with a line handed over by a reader is decided by the
    documented grammar [LineSyn] (CmdSpec.v) — it parses to a command exactly when the grammar gives
    the line that meaning, it is rejected with an error exactly when the grammar gives it none, it
    never panics; the only other outcome is the process exit on the first word `sudo` (F15). *)
Theorem C14_line : forall raw, nodelim raw ->
  match parse_line raw with
  | None => trim raw = []
  | Some (Ok cmd) => LineSyn (trim raw) cmd
  | Some (Err _) => forall cmd, ~ LineSyn (trim raw) cmd
  | Some (ExitP code) => code = 0 /\ (exists ws, words (trim raw) = str "sudo" :: ws) /\
                         forall cmd, ~ LineSyn (trim raw) cmd
  | Some (Panic _) => False
  end.
Proof. exact parse_line_classified. Qed.
Print Assumptions C14_line.

Theorem C14_line_iff : forall line cmd, nodelim line -> (try_from line = Ok cmd <-> LineSyn line cmd).
Proof. exact try_from_iff. Qed.
Print Assumptions C14_line_iff.

(** Exactly one command per line. *)
Theorem C14_one_command : forall line cmd cmd', nodelim line ->
  LineSyn line cmd -> LineSyn line cmd' -> cmd = cmd'.
Proof. exact LineSyn_unambiguous. Qed.
Print Assumptions C14_one_command.

(** The whole debugger, not only the parser: `lace debug` with the script as TEXT (model DebugText.v =
    readers + command parser + debugger + VM + assembler) gives the same session — machine, console,
    breakpoints, debugger output, counters — whether the script arrives in `--command`, on standard
    input or split across both at any separator, and whether `;` or newlines separate the commands. *)
Theorem C14_debug_transport : forall feat src inp fuel,
  (forall s, DebugText.debug_text feat src inp (Some s) [] fuel = DebugText.debug_text feat src inp None s fuel) /\
  (forall a d b, is_delim d = true ->
     DebugText.debug_text feat src inp (Some a) b fuel = DebugText.debug_text feat src inp None (a ++ d :: b) fuel /\
     DebugText.debug_text feat src inp (Some a) b fuel = DebugText.debug_text feat src inp (Some (a ++ d :: b)) [] fuel /\
     DebugText.debug_text feat src inp (Some (a ++ [d])) b fuel = DebugText.debug_text feat src inp (Some a) b fuel) /\
  (forall f, sep_renaming f -> forall arg stdin,
     DebugText.debug_text feat src inp (option_map (map f) arg) (map f stdin) fuel =
     DebugText.debug_text feat src inp arg stdin fuel).
Proof. exact DebugTextProofs.debug_text_transport. Qed.
Print Assumptions C14_debug_transport.

(** What the debugger executes for a script text: per line, the command the documented grammar gives
    it (values as 16-bit patterns), or the pseudo-command [CBad] for a rejected line ... *)
Theorem C14_debug_script : forall arg stdin,
  DebugText.script_of_text arg stdin =
  DebugTextProofs.script_of_lines (script_lines (arg_text arg) ++ script_lines stdin).
Proof. exact DebugTextProofs.script_of_text_lines. Qed.
Print Assumptions C14_debug_script.

Theorem C14_debug_line : forall line c, nodelim line -> LineSyn line c ->
  DebugTextProofs.script_of_lines [line] = [DebugText.conv_cmd c].
Proof. exact DebugTextProofs.line_is_command. Qed.
Print Assumptions C14_debug_line.

(** ... and a rejected line has no effect: `CommandError` is reported; machine, breakpoints, status
    and saved initial state are untouched, no action is raised, no command is counted. *)
Theorem C14_debug_rejected : forall line e env d st, try_from line = Err e ->
  DebugTextProofs.script_of_lines [line] = [Dbg.CBad] /\
  Dbg.run_command env Dbg.CBad d st = Dbg.CmdNone (Dbg.say (Dbg.set_icount d 0) Dbg.L_COMMAND_ERROR) st /\
  Dbg.cmd_cost Dbg.CBad = 0.
Proof.
  intros line e env d st H. split; [exact (DebugTextProofs.line_is_rejected line e H)|].
  exact (DebugTextProofs.bad_line_step env d st).
Qed.
Print Assumptions C14_debug_rejected.

(** ... for the whole session: wherever the rejected line stands among the lines of the script, the
    session with it and the session without it end the same way — same stop, exit status, registers,
    PC, condition code, memory, console, iteration / instruction / command counts, breakpoints,
    status, saved initial state.  Only the debugger's stderr differs. *)
Theorem C14_debug_no_effect : forall env fuel ls1 l e ls2 d st t e0 c, try_from l = Err e ->
  DbgBad.same_but_stderr
    (Dbg.session env fuel (DebugTextProofs.script_of_lines (ls1 ++ l :: ls2)) d st t e0 c)
    (Dbg.session env fuel (DebugTextProofs.script_of_lines (ls1 ++ ls2)) d st t e0 c).
Proof. exact DebugTextProofs.rejected_line_session. Qed.
Print Assumptions C14_debug_no_effect.

(** Non-vacuity. *)
Example C14_nonvacuous_int :
  IntSyn (str "-0x1F") (-31) /\ IntSyn (str "#-12") (-12) /\ IntSyn (str "b+101") 5 /\
  parse_integer (str "x-8000") false = Ok (Some (-32768)%Z) /\
  parse_integer (str "2147483647") false = Ok (Some 2147483647%Z) /\
  parse_integer (str "2147483648") false = Err (IntegerTooLarge 32767) /\
  parse_integer (str "0#1") false = Err MalformedInteger /\
  parse_integer (str "x1g") false = Ok None.
Proof.
  repeat split; try (apply parse_integer_sound; vm_compute; reflexivity); vm_compute; reflexivity.
Qed.

Example C14_nonvacuous_session :
  session (Some (str "move r1 x-1;bogus")) (str "goto Foo+4
;s i")
  = [ EvCommand (CMove (LRegister 1) 65535);
      EvError (InvalidCommand None);
      EvCommand (CGoto (MLabel (str "Foo") 4));
      EvCommand (CStepInto 1) ]
  /\ sep_renaming swap_separators /\ sep_renaming all_newlines /\ sep_renaming all_semicolons
  /\ nodelim (str "print 2147483648").
Proof.
  split; [vm_compute; reflexivity|].
  split; [exact swap_separators_renaming|]. split; [exact all_newlines_renaming|].
  split; [exact all_semicolons_renaming|]. reflexivity.
Qed.

Example C14_nonvacuous_line :
  LineSyn (str "move  Foo+4   -0x1") (CMove (LMemory (MLabel (str "Foo") 4)) 65535) /\
  LineSyn (str "s i") (CStepInto 1) /\ LineSyn (str "BREAK add ^-x10") (CBreakAdd (MPcOffset (-16))) /\
  LineSyn (str "eval  add r1 r1  #1") (CEval (str "add r1 r1  #1")) /\
  (forall cmd, ~ LineSyn (str "goto r1") cmd) /\ (forall cmd, ~ LineSyn (str "print 2147483648") cmd).
Proof.
  repeat split; try (apply C14_line_iff; [reflexivity|vm_compute; reflexivity]);
    intros cmd H; apply C14_line_iff in H; try reflexivity; vm_compute in H; discriminate.
Qed.

(** The known finding (F15): the line `sudo` is outside the documented grammar and yet is not
    rejected — the process exits. *)
Example C14_known_finding_sudo : parse_line (str "sudo") = Some (ExitP 0).
Proof. vm_compute. reflexivity. Qed.

(** Multi-byte characters on the piped standard input (Utf8.v models the reader's own decoder:
    `Utf8Position::from`, `read_char_from_bytes`, the validation of `from_utf8`).  Every Unicode
    scalar value is read back from its UTF-8 encoding, consuming exactly its bytes — all
    1,112,064 of them, by a sweep evaluated inside the kernel — so a script that is valid UTF-8 is
    handed to the command parser character for character ([Utf8.read_char] / [Utf8.decode] are the strict
    reading: what `from_utf8` accepts). *)
Theorem C14_utf8_char : forall c more, Utf8.scalar c = true ->
  Utf8.read_char (Utf8.encode c ++ more) = Utf8.RcChar c more.
Proof. exact Utf8.read_char_encode. Qed.
Print Assumptions C14_utf8_char.

Theorem C14_utf8_text : forall cs, forallb Utf8.scalar cs = true ->
  Utf8.decode (Utf8.encode_all cs) = Some cs.
Proof. exact Utf8.decode_encode. Qed.
Print Assumptions C14_utf8_text.

Example C14_utf8_nonvacuous :
  Utf8.decode [195; 169] = Some [233] /\ Utf8.decode [226; 134; 146] = Some [8594] /\
  Utf8.decode [240; 159; 141; 139; 10] = Some [127819; 10] /\ Utf8.decode [255] = None /\ Utf8.decode [195] = None /\
  Utf8.decode [237; 160; 128] = None.
Proof. vm_compute. repeat split. Qed.

(** Bytes that are NOT UTF-8 (defect F40: they used to end the session in a panic).  The reader as the
    debugger uses it ([Utf8.read_char_lossy], `Stdin::read_char`) hands on U+FFFD in their place:
    - every call takes at least one byte, so every byte stream is read to its end - no stream makes the
      reader panic or loop ([C14_utf8_reader_total]: the decoding satisfies its unfolding equation with no
      fuel in it, and each step shortens the stream);
    - on valid UTF-8 nothing is replaced ([C14_utf8_lossy_valid]);
    - the byte that shows a character to be truncated is not swallowed: a line end or `;` behind a broken
      sequence still ends the line ([C14_utf8_keeps_separator]). *)
Theorem C14_utf8_reader_total : forall bs,
  Utf8.decode_lossy bs =
    match Utf8.read_char_lossy bs with
    | None => []
    | Some (c, rest) => c :: Utf8.decode_lossy rest
    end /\
  (Utf8.read_char_lossy bs = None <-> bs = []) /\
  (forall c rest, Utf8.read_char_lossy bs = Some (c, rest) -> (List.length rest < List.length bs)%nat).
Proof.
  intros bs. split; [exact (Utf8.decode_lossy_step bs)|]. split; [exact (Utf8.read_char_lossy_eof bs)|].
  exact (Utf8.read_char_lossy_progress bs).
Qed.
Print Assumptions C14_utf8_reader_total.

Theorem C14_utf8_lossy_valid : forall bs cs, Utf8.decode bs = Some cs -> Utf8.decode_lossy bs = cs.
Proof. exact Utf8.decode_lossy_valid. Qed.
Print Assumptions C14_utf8_lossy_valid.

Theorem C14_utf8_keeps_separator : forall a n pre b rest,
  Utf8.cont_due a = Some n -> forallb Utf8.is_cont pre = true -> (List.length pre < n)%nat -> Utf8.is_cont b = false ->
  Utf8.read_char_lossy (a :: pre ++ b :: rest) = Some (Utf8.replacement, b :: rest).
Proof. exact Utf8.read_char_lossy_keeps. Qed.
Print Assumptions C14_utf8_keeps_separator.

(** The reader works character by character (decode one, test it for newline / `;`, push it); the one-stream
    model (DbgStream.fetch) cuts the BYTES at the first newline / `;` and decodes the line.  The two orders give
    the same line and leave the same rest, for every byte stream. *)
Theorem C14_utf8_lines : forall bs,
  Utf8Lines.read_line (S (List.length bs)) bs [] =
    (match fst (stdin_read bs) with Some line => Some (Utf8.decode_lossy line) | None => None end,
     snd (stdin_read bs)).
Proof. exact Utf8Lines.read_line_eq. Qed.
Print Assumptions C14_utf8_lines.

(** ... and so the reader of the one-stream debugger model (DbgStream.fetch, what the DBGS correspondence runs) IS the reader
    in the code's order: decode a character, test it, push it; parse the line; skip blank lines. *)
Theorem C14_stream_reader_order : forall fuel inp,
  DbgStream.fetch fuel inp = DbgStreamLines.fetch_chars fuel inp.
Proof. exact DbgStreamLines.fetch_in_code_order. Qed.
Print Assumptions C14_stream_reader_order.

Example C14_utf8_lossy_nonvacuous :
  Utf8.decode_lossy [99; 97; 102; 233; 10; 113] = [99; 97; 102; 65533; 10; 113] /\
  Utf8.decode_lossy [226; 134; 59; 195; 169] = [65533; 59; 233] /\
  Utf8.decode_lossy [237; 160; 128] = [65533] /\ Utf8.decode_lossy [255; 65] = [65533; 65] /\
  Utf8.cont_due 226 = Some 2%nat /\ Utf8.is_cont 134 = true /\ Utf8.is_cont 59 = false.
Proof. vm_compute. repeat split. Qed.
