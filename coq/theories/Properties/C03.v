(* C03 — Running an image follows the machine model from load to stop. *)
From Lace Require Import Word Machine Isa Vm RunProofs.
From Lace Require Examples.
From Lace Require VmInput.

(** lace's loader is the SPEC's: same accept/reject decision, same initial machine. *)
Theorem C03_load : forall (raw inp : list N),
  from_raw raw inp = match load raw inp with Some st => Loaded st | None => LoadExit 238 end.
Proof. exact from_raw_load. Qed.
Print Assumptions C03_load.

(** ...and the SPEC's initial machine is the one the property describes: PC = origin,
    R0-R6 = 0, R7 = xFDFF, no condition code, the words at the origin, HALT behind them, zero
    elsewhere; accepted iff non-empty and words + HALT fit below 2^16. *)
Theorem C03_load_shape : forall origin words inp st,
  load (origin :: words) inp = Some st ->
  s_pc st = origin /\ s_orig st = origin /\ s_cc st = CC_U /\
  s_regs st = mkRegs 0 0 0 0 0 0 0 65023 /\ s_inp st = inp /\ s_out st = [] /\
  (forall i, (i < length words)%nat -> M st (origin + N.of_nat i) = nth i words 0) /\
  M st (origin + N.of_nat (length words)) = 61477 /\
  (forall a, a < origin \/ origin + N.of_nat (length words) < a -> M st a = 0).
Proof. exact load_shape. Qed.
Print Assumptions C03_load_shape.

Theorem C03_load_accepts : forall raw inp,
  (exists st, load raw inp = Some st) <->
  (exists origin words, raw = origin :: words /\ origin + N.of_nat (length words) + 1 <= W).
Proof. exact load_accepts. Qed.
Print Assumptions C03_load_accepts.

(** The run loop performs exactly the reference machine's run — same sequence of fetched
    (address, word) pairs, same final state (registers, PC, CC, memory, console output,
    remaining input), same stop reason, or out of fuel at the same point — for every step budget. *)
Theorem C03_run : forall (feat : bool) (fuel : nat) (st : state) (tr : list (N * N)),
  wf st ->
  vm_run feat fuel st tr = (to_vm (fst (run feat fuel st tr)), snd (run feat fuel st tr)).
Proof. exact vm_run_refines. Qed.
Print Assumptions C03_run.

(** No instruction is ever fetched from outside [origin, xFE00). *)
Theorem C03_fetch_bounds : forall (feat : bool) (fuel : nat) (st : state),
  Forall (fun aw => s_orig st <= fst aw /\ fst aw < 65024) (snd (run feat fuel st [])).
Proof. intros. exact (run_fetch_bounds feat fuel st [] (s_orig st) eq_refl (Forall_nil _)). Qed.
Print Assumptions C03_fetch_bounds.

(** A normal end happens exactly with PC = xFFFF. *)
Theorem C03_finished_pc : forall feat fuel st tr st',
  fst (run feat fuel st tr) = Finished st' -> s_pc st' = 65535.
Proof. exact run_finished_pc. Qed.
Print Assumptions C03_finished_pc.

(** Loaded machines are well-formed (so C03_run applies to every loadable image of 16-bit words). *)
Theorem C03_load_wf : forall raw inp st,
  Forall (fun w => w < W) raw -> load raw inp = Some st -> wf st.
Proof. exact load_wf. Qed.
Print Assumptions C03_load_wf.

(** Console input is consumed from the front, at most one byte per instruction (GETC and IN take
    exactly one each; no other instruction, and no output trap however long its string, touches
    the input). *)
Theorem C03_input_front : forall feat instr st st', execute feat instr st = Running st' ->
  s_inp st' = s_inp st \/ s_inp st' = tl (s_inp st).
Proof. exact VmInput.execute_input. Qed.
Print Assumptions C03_input_front.

(** Exactly: GETC (vector x20) and IN (x23) take one byte — the first — and need one to be there;
    every other instruction leaves the input alone. *)
Theorem C03_input_exact : forall feat instr st st', execute feat instr st = Running st' ->
  if (15 <=? shr instr 12) && VmInput.reads_input (band instr 255)
  then s_inp st' = tl (s_inp st) /\ s_inp st <> nil
  else s_inp st' = s_inp st.
Proof. exact VmInput.execute_input_exact. Qed.
Print Assumptions C03_input_exact.

(** Non-vacuity: a concrete loaded image (three `add r0 r0 #1`, HALT, at x3000) is well-formed (the
    hypothesis of C03_run / C03_load_wf) and runs to the normal end with R0 = 3, PC = xFFFF. *)
Example C03_nonvacuous :
  from_raw Examples.ex_raw nil = Loaded Examples.ex_state /\ wf Examples.ex_state /\
  match fst (vm_run false 10 Examples.ex_state nil) with VFinished s => R s 0 = 3 /\ s_pc s = 65535 | _ => False end.
Proof. split; [exact Examples.ex_loaded|]. split; [exact Examples.ex_wf|exact Examples.ex_runs]. Qed.
