(* C11 — breakpoints always stop execution before the marked instruction. *)
From Coq Require Import List.
From Lace Require Import Word Machine Isa Vm Asm Dbg DbgProofs DbgRef AsmBreaks Cli.
From Lace Require AsmCount DbgBreaks.
From Lace Require Examples.
Open Scope N_scope.

(** Whenever the PC carries a breakpoint — whatever is pending (continue, step, step into, step
    out), on EVERY arrival — the debugger waits for a command before the instruction executes. *)
Theorem C11_fires : forall env script d st,
  bp_get (d_bps d) (s_pc st) <> None ->
  exists d', d_status d' = WaitForAction /\ next_action env script d st = wait_loop env script d' st 0.
Proof. exact breakpoint_pauses. Qed.
Print Assumptions C11_fires.

(** Adding makes it fire, removing makes it silent (and touches no other breakpoint). *)
Theorem C11_add_remove : forall l a f b,
  bp_get (bp_insert l (a, f)) a <> None /\ bp_get (bp_remove l a) a = None /\
  (a <> b -> bp_get (bp_remove l a) b = bp_get l b).
Proof. intros. split; [apply bp_get_insert|]. split; [apply bp_get_remove|apply bp_get_remove_other]. Qed.
Print Assumptions C11_add_remove.

(** The list stays sorted by address and free of duplicates under every command, under insertion
    (also the assembler's, for `.break`), removal and the shift by the origin. *)
Theorem C11_sorted : forall env c d st,
  bp_sorted (d_bps d) -> bp_sorted (d_bps (cmd_dbg (run_command env c d st))).
Proof. exact run_command_sorted. Qed.
Print Assumptions C11_sorted.

Theorem C11_sorted_ops : forall l b a orig, bp_sorted l ->
  bp_sorted (bp_insert l b) /\ bp_sorted (bp_remove l a) /\ bp_sorted (with_orig l orig).
Proof.
  intros. split; [apply bp_insert_sorted; assumption|].
  split; [apply bp_remove_sorted; assumption|apply with_orig_sorted; assumption].
Qed.
Print Assumptions C11_sorted_ops.

(** The property's sentences in the reference semantics of the stepping commands (DbgRef.v, which the
    debugger refines for every count, state and breakpoint set: C10_reference, C10_reference_at).
    Reaching an address that carries a breakpoint pauses before its instruction executes, whatever
    was running; *)
Theorem C11_ref_fires : forall feat bps fuel m st k, bp_get bps (s_pc st) <> None ->
  ref_at feat bps (S fuel) m st k = PEPaused st k.
Proof. exact ref_at_breakpoint. Qed.
Print Assumptions C11_ref_fires.

(** an address without a breakpoint (not HALT, in user space) never pauses `continue` — in
    particular one whose breakpoint was removed (C11_add_remove); *)
Theorem C11_ref_silent : forall feat bps fuel st k,
  bp_get bps (s_pc st) = None -> at_halt st = false -> oob st = false ->
  ref_at feat bps (S fuel) MCont st k =
  match vm_step feat st with
  | Running st' => ref_at feat bps fuel MCont st' (S k)
  | Exited c s => PEStopped 1 c s (S k)
  | Panicked s => PEStopped 2 0 s (S k)
  | Diverged => PEStopped 3 0 st (S k)
  end.
Proof. exact ref_at_no_breakpoint. Qed.
Print Assumptions C11_ref_silent.

(** resuming executes the marked instruction — once: what follows is an ordinary [ref_at] state at
    which the breakpoint fires again when control comes back to it. *)
Theorem C11_ref_resume : forall feat bps fuel c st m,
  mode_of_cmd feat c st = Some m -> at_halt st = false -> oob st = false ->
  exists m', mode_next m st = Some m' /\
  ref_cmd feat bps fuel c st =
  match vm_step feat st with
  | Running st' => ref_at feat bps fuel m' st' 1
  | Exited cd s => PEStopped 1 cd s 1
  | Panicked s => PEStopped 2 0 s 1
  | Diverged => PEStopped 3 0 st 1
  end.
Proof. exact ref_cmd_leaves_breakpoint. Qed.
Print Assumptions C11_ref_resume.

(** `.break` marks the NEXT statement and occupies no memory (AsmBreaks.v).  [marks] reads the
    statement boundaries of the preprocessed tokens off the operand table and lists, for every
    `.break`, the number of statements in front of it; for every source the assembler accepts the
    image's breakpoint table is exactly that list, inserted in order — wherever the `.orig` line
    stands and whatever the origin is (the debugger adds the load address: [with_orig] in
    [debug_session]). *)
Theorem C11_break_marks : forall feat sym0 src toks im sym,
  preprocess feat (S (length src)) src 0 nil = Ok toks ->
  assemble feat sym0 src = (Ok im, sym) ->
  i_bps im = record nil (marks 0 toks 0).
Proof. exact assemble_marks. Qed.
Print Assumptions C11_break_marks.

(** An offset carries a declared breakpoint iff a `.break` stands in front of the statement with
    that index. *)
Theorem C11_break_iff : forall feat sym0 src toks im sym a,
  preprocess feat (S (length src)) src 0 nil = Ok toks ->
  assemble feat sym0 src = (Ok im, sym) ->
  (In a (map fst (i_bps im)) <-> In a (map wrap (marks 0 toks 0))).
Proof. exact break_iff. Qed.
Print Assumptions C11_break_iff.

(** No memory: a mark never exceeds the number of statements (it names a statement, or the address
    just behind the last one). *)
Theorem C11_break_bounds : forall toks skip count c,
  In c (marks skip toks count) -> count <= c <= count_after skip toks count.
Proof. exact marks_bounds. Qed.
Print Assumptions C11_break_bounds.

(** `.break`, end to end (DbgBreaks.v).  For every source the assembler accepts and the loader loads, the table the
    debugger starts with - the assembler's table relocated by the load address (`Breakpoints::with_orig`: `address += orig`
    on 16-bit numbers) - holds exactly the addresses origin + m, m the number of statements in front of a `.break`; the
    addition never leaves 16 bits, because a mark names a word of the image or the one just behind it (one word per
    statement: AsmCount.v) and the loader has checked that image and implicit HALT fit below x10000. *)
Theorem C11_break_relocated : forall feat src inp toks im sym st,
  preprocess feat (S (length src)) src 0 nil = Ok toks ->
  assemble feat nil src = (Ok im, sym) ->
  from_raw (raw_of_image im) inp = Loaded st ->
  s_pc st = image_orig im /\
  (forall m, In m (marks 0 toks 0) -> m <= N.of_nat (length (i_words im)) /\ image_orig im + m < W) /\
  (forall a, bp_get (with_orig (i_bps im) (s_pc st)) a <> None <->
             exists m, In m (marks 0 toks 0) /\ a = image_orig im + m).
Proof. exact DbgBreaks.break_relocated. Qed.
Print Assumptions C11_break_relocated.

(** ... and so the debugger waits, before the instruction executes, whenever the PC stands on a statement that a
    `.break` marks - under whatever command is pending. *)
Theorem C11_break_pauses : forall feat src inp toks im sym st env script d st' m,
  preprocess feat (S (length src)) src 0 nil = Ok toks ->
  assemble feat nil src = (Ok im, sym) ->
  from_raw (raw_of_image im) inp = Loaded st ->
  d_bps d = with_orig (i_bps im) (s_pc st) ->
  In m (marks 0 toks 0) -> s_pc st' = image_orig im + m ->
  exists d', d_status d' = WaitForAction /\ next_action env script d st' = wait_loop env script d' st' 0.
Proof. exact DbgBreaks.break_pauses. Qed.
Print Assumptions C11_break_pauses.

(** One word per statement of the token list (what bounds the marks). *)
Theorem C11_one_word_per_statement : forall feat sym0 src toks im sym,
  preprocess feat (S (length src)) src 0 nil = Ok toks ->
  assemble feat sym0 src = (Ok im, sym) ->
  N.of_nat (length (i_words im)) = count_after 0 toks 0.
Proof. exact AsmCount.assemble_count. Qed.
Print Assumptions C11_one_word_per_statement.

(** Non-vacuity: a state whose PC carries a breakpoint; a sorted breakpoint list. *)
Example C11_nonvacuous :
  bp_get (d_bps (Examples.ex_dbg ((12289, false) :: nil))) (s_pc Examples.ex_state1) <> None /\
  bp_sorted (d_bps (Examples.ex_dbg ((12289, false) :: (12290, true) :: nil))).
Proof. split; [exact Examples.ex_breakpoint_at_pc|exact Examples.ex_sorted]. Qed.

(** `.break` before `.orig x4000` and between two statements: marks 0 and 1. *)
Example C11_break_nonvacuous :
  match assemble false nil ex_break_src with
  | (Ok im, _) => i_bps im = (0, true) :: (1, true) :: nil /\ i_orig im = Some 16384
  | _ => False
  end.
Proof. exact ex_break_image. Qed.
