(* C11 — breakpoints always stop execution before the marked instruction. *)
From Lace Require Import Word Machine Isa Vm Asm Dbg DbgProofs.
Open Scope N_scope.

(** Whenever the PC carries a breakpoint — whatever is pending (continue, step, step into, step
    out), on EVERY arrival — the debugger waits for a command before the instruction executes. *)
Theorem C11_fires : forall env script d st,
  bp_get (d_bps d) (s_pc st) <> None ->
  exists d', d_status d' = WaitForAction /\ next_action env script d st = wait_loop env script d' st 0.
Proof. exact breakpoint_pauses. Qed.
Print Assumptions C11_fires.

(** Adding makes it fire, removing makes it silent (and touches no other breakpoint). *)
Theorem C11_add_remove : forall l a f b,
  bp_get (bp_insert l (a, f)) a <> None /\ bp_get (bp_remove l a) a = None /\
  (a <> b -> bp_get (bp_remove l a) b = bp_get l b).
Proof. intros. split; [apply bp_get_insert|]. split; [apply bp_get_remove|apply bp_get_remove_other]. Qed.
Print Assumptions C11_add_remove.

(** The list stays sorted by address and free of duplicates under every command, under insertion
    (also the assembler's, for `.break`), removal and the shift by the origin. *)
Theorem C11_sorted : forall env c d st,
  bp_sorted (d_bps d) -> bp_sorted (d_bps (cmd_dbg (run_command env c d st))).
Proof. exact run_command_sorted. Qed.
Print Assumptions C11_sorted.

Theorem C11_sorted_ops : forall l b a orig, bp_sorted l ->
  bp_sorted (bp_insert l b) /\ bp_sorted (bp_remove l a) /\ bp_sorted (with_orig l orig).
Proof.
  intros. split; [apply bp_insert_sorted; assumption|].
  split; [apply bp_remove_sorted; assumption|apply with_orig_sorted; assumption].
Qed.
Print Assumptions C11_sorted_ops.
