(* C08 — compile is all-or-nothing. *)
From Lace Require Import Word Asm Cli CliProofs CliWrite.
From Lace Require Examples.
Open Scope N_scope.

(** For every source, destination, file system and behaviour of the operating system's
    create/write (the oracle): exit 0 means the destination holds the complete object file; a
    non-zero exit leaves every path as it was.  Since the repair F39 an absent or regular destination
    is written to a temporary file next to it and renamed into place, so a write that fails half-way
    (full disk, quota, size limit: outcome [WTempFail]) changes nothing either.  The one outcome
    [preserving] still excludes needs two faults at once: the destination's directory refuses a new
    file, so the existing file is written directly, AND that write fails half-way.
    No other path is ever touched. *)
Theorem C08_atomic : forall feat src dest f o,
  let '(e, f') := compile_cmd feat src dest f o in
  (e = 0 -> exists im, assembles feat src = Ok im /\ f' dest = Some (compile_bytes im)) /\
  (e <> 0 -> preserving o -> forall p, f' p = f p) /\
  (forall p, p <> dest -> f' p = f p).
Proof. exact compile_all_or_nothing. Qed.
Print Assumptions C08_atomic.

(** The oracle refined (CliWrite.v): what `write_object_file` does for each KIND of destination (absent, regular,
    link to a regular file, dangling link, device / pipe, directory) under each combination of faults (the directory
    refuses the temporary file, the destination cannot be created, the write is cut off, the device takes no data, the
    rename fails).  A destination that is absent, regular or a link to a regular file is never left half-written as long
    as its directory takes the temporary file; with ONE fault of whatever kind no destination is; and the excluded outcome arises exactly when the write is cut off while the destination is
    written directly. *)
Theorem C08_kinds : forall feat src dest f k fl,
  let '(e, f') := compile_cmd feat src dest f (outcome_of k fl) in
  (e = 0 -> exists im, assembles feat src = Ok im /\ f' dest = Some (compile_bytes im)) /\
  (e <> 0 -> (route_of k = Temp /\ temp_refused fl = false \/ single_fault fl) -> forall p, f' p = f p).
Proof. exact compile_kinds. Qed.
Print Assumptions C08_kinds.

Theorem C08_truncated_iff : forall k fl n,
  outcome_of k fl = WWriteFailTruncated n <->
  write_stops fl = Some n /\ create_refused fl = false /\ route_of k = Temp /\ temp_refused fl = true.
Proof. exact truncated_iff. Qed.
Print Assumptions C08_truncated_iff.

Example C08_kinds_nonvacuous :
  outcome_of KRegular (mkFaults false false (Some 1024%nat) false false) = WTempFail /\
  outcome_of KLinkRegular (mkFaults false false (Some 1024%nat) false false) = WTempFail /\
  outcome_of KRegular (mkFaults true false (Some 1024%nat) false false) = WWriteFailTruncated 1024 /\
  single_fault (mkFaults false false (Some 1024%nat) false false).
Proof. repeat split; try reflexivity. unfold single_fault. cbn. apply N.le_refl. Qed.

(** Assembly failure — at whatever statement it surfaces — never touches the file system. *)
Theorem C08_failure_untouched : forall feat src dest f o d a n,
  assembles feat src = Err d a n -> compile_cmd feat src dest f o = (1, f).
Proof. exact compile_failure_untouched. Qed.
Print Assumptions C08_failure_untouched.

(** Non-vacuity: a source that is rejected (the hypothesis of C08_failure_untouched). *)
Example C08_nonvacuous : exists d a n, assembles false Examples.ex_src_bad = Err d a n.
Proof. exact Examples.ex_rejected. Qed.
