(* C18 — the stack extension is gated by its feature flag, and only it. *)
From Lace Require Import Word Machine Isa Vm VmProofs Asm AsmFeat.
From Lace Require Examples Feat.
From Coq Require Import String.
Open Scope N_scope.

(** Assembler: with the flag off, the result is either exactly the flag-on result (same image or
    same diagnostic, same symbol table afterwards) or the diagnostic that names the stack feature.
    Hence the flag changes nothing for a source that does not trigger that diagnostic. *)
Theorem C18_asm_flag : forall (sym0 : symtab) (src : list N),
  assemble false sym0 src = assemble true sym0 src \/
  exists a n, fst (assemble false sym0 src) = Err E_lex_stack a n.
Proof. exact assemble_feat. Qed.
Print Assumptions C18_asm_flag.

(** ...and that diagnostic is what an identifier spelled push/pop/call/rets (in any letter case)
    produces when the flag is off. *)
Theorem C18_asm_off : forall pre rest,
  is_stack_word (List.map to_lower (last pre 0 :: fst (take_while is_id rest))) = true ->
  exists c, ident false pre rest = LexErr E_lex_stack 0 c.
Proof. exact stack_word_rejected. Qed.
Print Assumptions C18_asm_off.

(** VM: with the flag off opcode 0xD stops the machine with exit status 1, executing nothing. *)
Theorem C18_vm_off : forall (w : N) (st : state), wf st -> w < W -> w / 4096 = 13 ->
  execute false w st = Exited 1 st.
Proof. intros w st H1 H2 H3. exact (proj1 (execute_unsupported w st H1 H2) H3). Qed.
Print Assumptions C18_vm_off.

(** VM: a run that never fetches a word of opcode 0xD is identical under both flag values
    (same trace, same final state, same stop). *)
Theorem C18_vm_irrelevant : forall fuel st tr,
  Forall (fun aw => snd aw / 4096 <> 13) (snd (run true fuel st tr)) ->
  run false fuel st tr = run true fuel st tr.
Proof. exact run_feat_irrelevant. Qed.
Print Assumptions C18_vm_irrelevant.

(** Non-vacuity: a well-formed state and a 0xD word (hypotheses of C18_vm_off); a run that never
    fetches a 0xD word (hypothesis of C18_vm_irrelevant). *)
Example C18_nonvacuous :
  wf Examples.ex_state /\ (54336 < W /\ 54336 / 4096 = 13) /\
  Forall (fun aw : N * N => snd aw / 4096 <> 13) (snd (run true 10 Examples.ex_state nil)).
Proof. split; [exact Examples.ex_wf|]. split; [exact Examples.ex_stack_word|exact Examples.ex_no_stack_fetch]. Qed.

(** The flag as it is written on the command line (Feat.v models `Features::from_str`, the value
    parser behind -f / --features): the list is split at commas and empty elements are skipped; the
    extension is ON exactly when the remaining elements are the single name `stack`, OFF exactly
    when none remains, and anything else — another name, another letter case, blanks around the
    name, `stack` twice — is refused. *)
Theorem C18_flag_list : forall s,
  Feat.parse_features s =
  match Feat.named s with
  | nil => Some false
  | cons w nil => if Feat.is_stack w then Some true else None
  | _ => None
  end.
Proof. exact Feat.parse_features_spec. Qed.
Print Assumptions C18_flag_list.

(** The flag may stand before the sub-command, after it, or in both places (since F32 the two are combined with
    `Features::union`): the extension is on exactly when both values are acceptable and at least one names `stack`. *)
Theorem C18_flag_positions : forall pre post,
  (Feat.command_line pre post = Some true <->
     exists a b, Feat.one_position pre = Some a /\ Feat.one_position post = Some b /\ (a = true \/ b = true)) /\
  (Feat.command_line pre post = Some false <-> Feat.one_position pre = Some false /\ Feat.one_position post = Some false) /\
  (Feat.command_line pre post = None <-> Feat.one_position pre = None \/ Feat.one_position post = None).
Proof. exact Feat.command_line_spec. Qed.
Print Assumptions C18_flag_positions.

Example C18_flag_positions_nonvacuous :
  Feat.command_line (Some (str "stack")) (Some (str "stack")) = Some true /\
  Feat.command_line (Some (str "stack")) None = Some true /\ Feat.command_line None (Some (str ",stack")) = Some true /\
  Feat.command_line (Some (str "")) (Some (str "")) = Some false /\ Feat.command_line None None = Some false /\
  Feat.command_line (Some (str "heap")) (Some (str "stack")) = None.
Proof. exact Feat.ex_command_line. Qed.

Example C18_flag_list_nonvacuous :
  Feat.parse_features (str "stack") = Some true /\ Feat.parse_features (str ",stack,,") = Some true /\
  Feat.parse_features (str "") = Some false /\ Feat.parse_features (str ",,") = Some false /\
  Feat.parse_features (str "stack,stack") = None /\ Feat.parse_features (str "Stack") = None /\
  Feat.parse_features (str " stack") = None /\ Feat.parse_features (str "stack,heap") = None.
Proof. exact Feat.ex_features. Qed.
