(* C20 — The interactive line editor keeps its cursor inside the line.

   MODEL  = Edit.v (terminal.rs with the two fix: commits to find_word_next), run_keys = the
            `read` calls of a debugger session fed with a list of keys;
   SPEC   = EditSpec.v (a plain reference editor), spec_run;
   is_ws / is_alnum stand for char::is_whitespace / char::is_alphanumeric and are arbitrary;
   dbg = true is Rust's debug profile (debug_assert! active). *)
From Coq Require Import NArith List Bool Arith.
From Lace Require Import EditSpec Edit EditProofs.
Import ListNotations.

(** After any list of keys, from any history (empty or not), the cursor lies between 0 and the
    number of characters of the line on display, and the focus inside the history. *)
Theorem C20_inv : forall (is_ws is_alnum : N -> bool) (dbg : bool) (h : list (list N)) (ks : list key)
                         (t : term) (subs : list (list (list N))),
  run_keys is_ws is_alnum dbg (term_start h) ks = Ok (t, subs) ->
  t_vc t <= length (current t) /\ t_idx t <= length (t_hist t).
Proof. exact edit_inv. Qed.
Print Assumptions C20_inv.

(** The editor never panics (no failed assert!/expect/unwrap, no String::insert/remove or slice
    off a character boundary, no fuel artefact): every key list is processed to the end.  In the
    debug profile this needs the history to be free of blank lines (lace never stores one). *)
Theorem C20_total : forall (is_ws is_alnum : N -> bool) (dbg : bool) (h : list (list N)) (ks : list key),
  (dbg = true -> Forall (fun l => forallb is_ws l = false) h) ->
  exists t subs, run_keys is_ws is_alnum dbg (term_start h) ks = Ok (t, subs).
Proof. exact edit_total. Qed.
Print Assumptions C20_total.

(** What is submitted on each Enter - the commands the line is cut into at ';', in order - is
    what the reference editor submits after the same keys; so are the buffer, the cursor, the
    history and the focus at the end. *)
Theorem C20_submit : forall (is_ws is_alnum : N -> bool) (dbg : bool) (h : list (list N)) (ks : list key),
  (dbg = true -> Forall (fun l => forallb is_ws l = false) h) ->
  run_keys is_ws is_alnum dbg (term_start h) ks =
  Ok (term_of_ed (fst (spec_run is_ws is_alnum (spec_start h) ks)),
      snd (spec_run is_ws is_alnum (spec_start h) ks)).
Proof. exact edit_submit. Qed.
Print Assumptions C20_submit.

(** The reference editor itself keeps its cursor inside its line. *)
Theorem C20_spec_inv : forall (blank letter : N -> bool) (h : list (list N)) (ks : list key),
  let e := fst (spec_run blank letter (spec_start h) ks) in
  cur e <= length (shown e) /\ focus e <= length (hist e).
Proof. exact spec_inv. Qed.
Print Assumptions C20_spec_inv.

(** Ctrl+Right / Ctrl+Left of the code are the reference editor's word motions, on every line and
    at every cursor. *)
Theorem C20_word_next : forall (is_ws is_alnum : N -> bool) (s : list N) (c : nat),
  find_word_next is_ws is_alnum s c false = word_next is_ws is_alnum s c.
Proof. exact find_word_next_spec. Qed.
Print Assumptions C20_word_next.

Theorem C20_word_back : forall (is_ws is_alnum : N -> bool) (s : list N) (c : nat),
  c <= length s ->
  find_word_back is_ws is_alnum s c false = Ok (word_back is_ws is_alnum s c).
Proof. exact find_word_back_spec. Qed.
Print Assumptions C20_word_back.

(** Non-vacuity: the F20 witness keys e-acute, Ctrl+Right, a, Enter run to the end in the debug
    profile and submit the two characters; a non-empty history satisfying the hypothesis. *)
Example C20_nonvacuous :
  run_keys ex_ws ex_alnum true (term_start []) [KChar 233; KCtrlRight; KChar 97; KEnter]
  = Ok (mkTerm [] 0 0 [[233; 97]%N] 1, [[[233; 97]%N]]) /\
  Forall (fun l => forallb ex_ws l = false) [[97; 98]; [99; 59; 100]]%N /\
  run_keys ex_ws ex_alnum true (term_start [[97; 98]; [99; 59; 100]]%N) [KUp; KEnter]
  = Ok (mkTerm [] 0 0 [[97; 98]; [99; 59; 100]]%N 2, [[[99]; [100]]%N]).
Proof. exact (conj run_witness run_history). Qed.
Print Assumptions C20_nonvacuous.

(** The pinned tree did not have the property: Ctrl+Right on a line holding e-acute put the
    cursor at 2 on a 1-character line and the next insertion is the failed assertion. *)
Lemma C20_pinned_refuted :
  find_word_next_pinned ex_ws ex_alnum [233%N] 0 false = 2 /\
  length [233%N] = 1 /\
  insert_char_index [233%N] (find_word_next_pinned ex_ws ex_alnum [233%N] 0 false) 97 = Panic /\
  find_word_next ex_ws ex_alnum [233%N] 0 false = 1.
Proof. exact F20_refuted. Qed.
Print Assumptions C20_pinned_refuted.
