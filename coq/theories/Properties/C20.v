(* C20 — The interactive line editor keeps its cursor inside the line. *)
From Lace Require Import EditSpec Edit EditProofs.
