(* C04 — the assembler accepts exactly the programs whose operands fit. *)
From Coq Require Import ZArith List.
Import ListNotations.
From Lace Require AsmAccept AsmLayout AsmOrig AsmProgram AsmLex AsmLit.
From Lace Require Import Word Machine Isa Asm AsmProofs.
Open Scope N_scope.

(** What a literal DENOTES (AsmLit.v).  A numeral is an optional sign followed by at least one digit of its radix (hexadecimal
    digits in either letter case) and denotes an integer in the usual way; a literal denotes the 16-bit pattern of that integer
    when it lies in [-32768, 65535] and nothing otherwise ([AsmLit.lit_value]): `#-1`, `xFFFF`, `x-1`, `0XffFF`, `#65535` are one
    operand.  The lexer's reading of the digits - Rust's `i16::from_str_radix`, then `u16::from_str_radix` - computes exactly
    that, for every string; so a word is the decimal / hexadecimal literal of value v iff its digits denote v. *)
Theorem C04_literal_value : forall radix s, 1 <= radix -> AsmLit.parse_lit radix s = AsmLit.lit_value radix s.
Proof. exact AsmLit.parse_lit_value. Qed.
Print Assumptions C04_literal_value.

Theorem C04_dec_word : forall feat ds v, forallb AsmLex.nte ds = true ->
  (AsmLex.lex_word feat (35 :: ds) = Some (KLit (LDec v)) <-> AsmLit.lit_value 10 ds = Some v).
Proof. exact AsmLit.dec_word. Qed.
Print Assumptions C04_dec_word.

Theorem C04_hex_word : forall feat pre ds v, forallb AsmLex.nte ds = true ->
  In pre [[120]; [88]; [48; 120]; [48; 88]] ->
  (AsmLex.lex_word feat (pre ++ ds) = Some (KLit (LHex v)) <-> AsmLit.lit_value 16 ds = Some v).
Proof. exact AsmLit.hex_word. Qed.
Print Assumptions C04_hex_word.

(** Non-vacuity: one operand in five spellings, the extremes, and strings that denote nothing. *)
Example C04_literal_nonvacuous :
  AsmLit.lit_value 10 AsmLit.s_m1 = Some 65535 /\ AsmLit.lit_value 16 AsmLit.s_m1 = Some 65535 /\
  AsmLit.lit_value 16 AsmLit.s_m8001 = None /\ AsmLit.lit_value 10 AsmLit.s_65536 = None.
Proof. exact AsmLit.lit_examples2. Qed.

(** A literal is accepted for a signed n-bit field iff its 16-bit value, read as two's
    complement, lies in [-2^(n-1), 2^(n-1)); for an unsigned n-bit field iff it is below 2^n
    (imm5: n = 5, offset6: n = 6, literal PC offsets: n = 9/11, trap vectors: unsigned 8,
    .orig: unsigned 16). *)
Theorem C04_signed_iff : forall n v, 1 <= n -> n <= 16 -> v < 65536 ->
  check_range (Signed n) v = true <-> (- 2 ^ (Z.of_N n - 1) <= signed16 v < 2 ^ (Z.of_N n - 1))%Z.
Proof. exact check_range_signed. Qed.
Print Assumptions C04_signed_iff.

Theorem C04_unsigned_iff : forall n v, check_range (Unsigned n) v = true <-> v < 2 ^ n.
Proof. exact check_range_unsigned. Qed.
Print Assumptions C04_unsigned_iff.

(** The operand reader accepts a literal iff the range check passes, and hands the value on
    unchanged (no truncation or wrapping at this point). *)
Theorem C04_expect_lit : forall b t r te srclen v,
  (tk t = KLit (LHex v) \/ tk t = KLit (LDec v)) ->
  (check_range b v = true -> expect_lit b (t :: r, te) srclen = Ok (v, (r, tend t))) /\
  (check_range b v = false -> expect_lit b (t :: r, te) srclen = Err E_lit_range (toffs t) (tlen t)).
Proof. exact expect_lit_iff. Qed.
Print Assumptions C04_expect_lit.

(** A label reference is accepted iff its distance fits the signed 9-, 10- or 11-bit field. *)
Theorem C04_offset_iff : forall line r nbits, 1 <= nbits -> nbits <= 15 ->
  let d := distance line r in
  let p := (2 ^ (Z.of_N nbits - 1))%Z in
  (forall o, bit_offs line (LRef r) nbits = Ok o ->
     (- p <= d < p)%Z /\ o = Z.to_N (d mod 2 ^ Z.of_N nbits)) /\
  ((- p <= d < p)%Z -> exists o, bit_offs line (LRef r) nbits = Ok o).
Proof. exact bit_offs_spec. Qed.
Print Assumptions C04_offset_iff.

(** Nothing accepted is spilled into a neighbouring field: the emitted word decodes to the
    written operands (this is C01_emit_decode, restated here because C04 names it). *)
Theorem C04_no_spill : forall (ln : asm_line) (w : N),
  stmt_ok (al_stmt ln) -> emit ln = Ok w -> exists o, decode w = instr_of (al_stmt ln) o.
Proof.
  intros ln w H1 H2. destruct (emit_decode ln w H1 H2) as (o & _ & _ & H & _). exists o. exact H.
Qed.
Print Assumptions C04_no_spill.

(** A second definition of a label is rejected; an undefined label is rejected when references
    are resolved. *)
Theorem C04_dup_label : forall fuel srclen ps t r v,
  p_toks ps = t :: r -> tk t = KLabel -> sym_get (p_sym ps) (ttext t) = Some v ->
  fst (parse (S fuel) srclen ps) = Err E_dup_label (toffs t) (tlen t).
Proof. exact parse_dup_label. Qed.
Print Assumptions C04_dup_label.

Theorem C04_undefined_label : forall sym name,
  sym_get sym name = None -> fill sym (LUnfilled name) = Err E_label_not_found 0 0.
Proof. exact fill_undefined. Qed.
Print Assumptions C04_undefined_label.

(** Non-vacuity: the boundary values of imm5. *)
Example C04_nonvacuous :
  check_range (Signed 5) 15 = true /\ check_range (Signed 5) 16 = false /\
  check_range (Signed 5) 65520 = true /\ check_range (Signed 5) 65519 = false /\
  check_range (Unsigned 16) 65535 = true /\ check_range (Unsigned 8) 255 = true /\
  check_range (Unsigned 8) 256 = false.
Proof. vm_compute. repeat split; reflexivity. Qed.

(** Statement level, as one equivalence.  [AsmAccept.shape] is the specification: for every
    instruction the operand positions and the field each must fit (ADD/AND: register, register,
    register-or-imm5; BR*: label or 9-bit offset; JSR: label or 11-bit offset; LD/LDI/LEA/ST/STI:
    register, label or 9-bit offset; LDR/STR: register, register, 6-bit offset; NOT: two registers;
    JMP/JSRR/PUSH/POP: a register; CALL: a label; RET/RTI/RETS: none; TRAP: an 8-bit unsigned
    vector).  A token fits a position ([AsmAccept.fits]) when it is a register where one is due, a
    literal — any radix — whose value passes the range test of the field, or a label where a label
    may stand.  The statement parser accepts exactly the token sequences that fit, consumes
    exactly those tokens (recording the end of the last one, which bounds the statement's source
    span), rejects everything else with a diagnostic, and never panics. *)
Theorem C04_statement : forall sym line k toks te n,
  AsmAccept.specL (AsmAccept.shape k) (parse_instr sym line k (toks, te) n) toks te.
Proof. exact AsmAccept.parse_instr_accepts. Qed.
Print Assumptions C04_statement.

Theorem C04_statement_iff : forall sym line k toks te n,
  (exists s p, parse_instr sym line k (toks, te) n = Ok (s, p)) <-> AsmAccept.fits_all (AsmAccept.shape k) toks = true.
Proof. exact AsmAccept.parse_instr_iff. Qed.
Print Assumptions C04_statement_iff.

Theorem C04_trap_statement : forall k toks te n,
  AsmAccept.specL (AsmAccept.trap_shape k) (parse_trap k (toks, te) n) toks te.
Proof. exact AsmAccept.parse_trap_accepts. Qed.
Print Assumptions C04_trap_statement.

(** `.orig` appears at most once.  One round of the parser on a `.orig` statement with an acceptable
    operand: a second one is rejected ("origin set twice"), a first one is recorded ([stmt_part] is
    the part of a parse round after the optional prefix label; [AsmLayout.parse_round] shows it is
    the parser's own term) ... *)
Theorem C04_orig_twice : forall rec n ps labeled t r sym1 v toks2 te2,
  tk t = KDir DOrig ->
  expect_lit (Unsigned 16) (r, p_tok_end ps) n = Ok (v, (toks2, te2)) ->
  AsmLayout.stmt_part rec n ps labeled (t :: r) sym1 =
  match a_orig (p_air ps) with
  | Some _ => (Err E_orig_twice 0 0, sym1)
  | None => rec (mkParser toks2 (mkAir (Some v) (a_ast (p_air ps)) (a_bps (p_air ps)))
                          (p_line ps) te2 sym1 (p_count ps))
  end.
Proof. exact AsmOrig.orig_round. Qed.
Print Assumptions C04_orig_twice.

(** ... and a recorded origin never changes: whatever follows, the parse fails or ends with it. *)
Theorem C04_orig_kept : forall fuel n ps o, a_orig (p_air ps) = Some o ->
  match fst (parse fuel n ps) with
  | Ok (a, _) => a_orig a = Some o
  | _ => True
  end.
Proof. exact AsmOrig.parse_keeps_orig. Qed.
Print Assumptions C04_orig_kept.

(** PROGRAM level, as one equivalence (AsmProgram.v).  [prog_ok] walks the preprocessed tokens once and
    decides: every statement head is followed by operands that fit its row of the operand table
    (and nothing else starts a statement); a label is defined at most once — the inherited table
    counts — and stands in front of a statement, a `.break` or an `.orig`, not in front of another
    label or the end of the file; `.orig` occurs at most once; fewer than 65,535 statements.
    The parser accepts iff [prog_ok] says so ... *)
Theorem C04_program_parse : forall fuel n ps, (length (p_toks ps) < fuel)%nat ->
  AsmProgram.acc (parse fuel n ps) =
  AsmProgram.prog_ok 0 (p_toks ps) false (p_line ps) (p_sym ps) (AsmProgram.is_some (a_orig (p_air ps))).
Proof. exact AsmProgram.parse_acc. Qed.
Print Assumptions C04_program_parse.

(** ... what the parser accepted is emitted iff every referenced label is defined and every
    PC-relative distance fits its field ([line_ok]; the distance condition in numbers is
    C04_offset_iff) ... *)
Theorem C04_program_emit : forall sym ls,
  match backpatch sym ls with
  | Ok ls' => AsmProgram.is_ok (emit_all ls') = forallb (AsmProgram.line_ok sym) ls
  | Err _ _ _ => forallb (AsmProgram.line_ok sym) ls = false
  | Bad _ => False
  end.
Proof. exact AsmProgram.emit_acc. Qed.
Print Assumptions C04_program_emit.

(** ... and so for the assembler as a whole: a source is accepted iff its tokens form a well-formed
    program and every reference of the parsed statements is defined and within reach. *)
Theorem C04_program_iff : forall feat sym0 src toks,
  preprocess feat (S (length src)) src 0 nil = Ok toks ->
  AsmProgram.acc (assemble feat sym0 src) =
  AsmProgram.prog_ok 0 toks false 1 sym0 false &&
  match parse (S (length toks)) (bytes src) (mkParser toks (mkAir None nil nil) 1 0 sym0 0) with
  | (Ok (a, _), sym1) => forallb (AsmProgram.line_ok sym1) (a_ast a)
  | _ => false
  end.
Proof. exact AsmProgram.assemble_acc. Qed.
Print Assumptions C04_program_iff.

(** Non-vacuity: one accepted program using every statement kind, and one rejected program for each
    reason (label defined twice, `.orig` twice, operand out of range, label in front of the end of
    the file, two labels in a row; well-formed but a reference undefined / out of reach). *)
Example C04_program_nonvacuous :
  AsmProgram.prog_ok 0 (AsmProgram.toks_of AsmProgram.ex_prog_ok) false 1 nil false = true /\
  AsmProgram.acc (assemble true nil AsmProgram.ex_prog_ok) = true /\
  AsmProgram.prog_ok 0 (AsmProgram.toks_of AsmProgram.ex_prog_dup) false 1 nil false = false /\
  AsmProgram.prog_ok 0 (AsmProgram.toks_of AsmProgram.ex_prog_orig2) false 1 nil false = false /\
  AsmProgram.prog_ok 0 (AsmProgram.toks_of AsmProgram.ex_prog_range) false 1 nil false = false /\
  AsmProgram.prog_ok 0 (AsmProgram.toks_of AsmProgram.ex_prog_dangling) false 1 nil false = false /\
  AsmProgram.prog_ok 0 (AsmProgram.toks_of AsmProgram.ex_prog_labels) false 1 nil false = false /\
  AsmProgram.acc (assemble true nil AsmProgram.ex_prog_dup) = false /\
  AsmProgram.acc (assemble true nil AsmProgram.ex_prog_labels) = false.
Proof. exact AsmProgram.ex_prog_verdicts. Qed.
