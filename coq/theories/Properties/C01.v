(* C01 — the assembled image is the ISA encoding of the source. *)
From Coq Require Import ZArith.
From Coq Require Import List.
From Lace Require Import Word Machine Isa Asm AsmProofs AsmWf.
From Lace Require AsmLayout AsmLex AsmLexCase AsmAccept AsmMeaning.
Open Scope N_scope.

(** Every word the assembler emits for a statement (operands as the parser delivers them)
    decodes, by the ISA's decoder, to exactly the instruction that was written: same opcode, same
    register fields, immediates and base offsets sign-extended from their truncated fields, trap
    vector, and for PC-relative forms the field [o] computed by [bit_offs]. Data words are emitted
    verbatim. *)
Theorem C01_emit_decode : forall (ln : asm_line) (w : N),
  stmt_ok (al_stmt ln) -> emit ln = Ok w ->
  exists o, field_bound (al_stmt ln) o /\ w = encode_with (al_stmt ln) o /\
            decode w = instr_of (al_stmt ln) o /\
            match pcrel_of (al_stmt ln) with
            | Some (l, k) => bit_offs (al_line ln) l k = Ok o
            | None => True
            end.
Proof. exact emit_decode. Qed.
Print Assumptions C01_emit_decode.

(** Every PC-relative field equals the target minus the instruction's address plus one: with the
    statement of line L at address origin + L - 1, PC after the fetch plus the sign-extended field
    is the address of the statement the label (or literal offset) refers to. *)
Theorem C01_pcrel_target : forall orig line r nbits o,
  1 <= nbits -> nbits <= 15 -> 1 <= line -> line < 65536 -> 1 <= r -> r < 65536 -> orig < 65536 ->
  bit_offs line (LRef r) nbits = Ok o ->
  addw (wrap (orig + line)) (sext nbits o) = wrap (orig + r - 1).
Proof. exact pcrel_target. Qed.
Print Assumptions C01_pcrel_target.

(** The field is the distance truncated to its width, and it is produced iff the distance fits. *)
Theorem C01_field : forall line r nbits, 1 <= nbits -> nbits <= 15 ->
  let d := distance line r in
  let p := (2 ^ (Z.of_N nbits - 1))%Z in
  (forall o, bit_offs line (LRef r) nbits = Ok o ->
     (- p <= d < p)%Z /\ o = Z.to_N (d mod 2 ^ Z.of_N nbits)) /\
  ((- p <= d < p)%Z -> exists o, bit_offs line (LRef r) nbits = Ok o).
Proof. exact bit_offs_spec. Qed.
Print Assumptions C01_field.

(** Whole programs: for EVERY source text the assembler accepts (any layout, any feature setting,
    any inherited symbol table), every statement has well-formed operands and the image is, word
    for word, the ISA encoding of the statements — the i-th word decodes to the i-th statement,
    with its PC-relative field the one [bit_offs] computes for the statement's line — and every
    word and the origin are 16-bit values. *)
Theorem C01_image : forall feat sym0 src im sym1,
  assemble feat sym0 src = (Ok im, sym1) ->
  exists a, assemble_air feat sym0 src = (Ok a, sym1) /\
    i_orig im = a_orig a /\ i_bps im = a_bps a /\ ast_ok (a_ast a) /\ orig_ok (i_orig im) /\
    Forall (fun w => w < W) (i_words im) /\
    Forall2 (fun ln w => exists o, field_bound (al_stmt ln) o /\ w = encode_with (al_stmt ln) o /\
                                   decode w = instr_of (al_stmt ln) o /\
                                   match pcrel_of (al_stmt ln) with
                                   | Some (l, k) => bit_offs (al_line ln) l k = Ok o
                                   | None => True
                                   end)
            (a_ast a) (i_words im).
Proof. exact assemble_image. Qed.
Print Assumptions C01_image.

(** What the text MEANS (AsmMeaning.v).  [AsmMeaning.means] is the table of the assembly language as the ISA manual writes
    it (ADD DR, SR1, SR2 | ADD DR, SR1, imm5 | LDR DR, BaseR, offset6 | ST SR, LABEL | ...; lace's PUSH / POP / CALL / RETS):
    mnemonic, operands IN THE ORDER WRITTEN, and the instruction they denote - an immediate is the literal's own value, [o] stands
    for the PC-relative field.  Whatever statement the parser builds from a mnemonic and the tokens behind it, the instruction
    that statement stands for is the one the table gives for those tokens. *)
Theorem C01_statement_meaning : forall sym line k toks te n s p', Forall AsmWf.tok_wf toks ->
  parse_instr sym line k (toks, te) n = Ok (s, p') ->
  exists ops, AsmMeaning.opvals (firstn (length (AsmAccept.shape k)) toks) = Some ops /\
              forall o, AsmMeaning.means k ops o = Some (instr_of s o).
Proof. exact AsmMeaning.instr_meaning. Qed.
Print Assumptions C01_statement_meaning.

(** END TO END, for every source the assembler accepts: the i-th word of the image decodes, by the ISA's decoder, to the
    instruction the table gives for a mnemonic token of the source (the i-th statement carries that token's offset) and the
    operand tokens written behind it - destination, sources, base and offset where the manual puts them - with the
    PC-relative field [bit_offs] computes for the statement; trap aliases are their vectors; data words are the values written. *)
Theorem C01_program_meaning : forall feat sym0 src toks im sym1,
  preprocess feat (S (length src)) src 0 nil = Ok toks ->
  assemble feat sym0 src = (Ok im, sym1) ->
  exists a, assemble_air feat sym0 src = (Ok a, sym1) /\
    Forall2 (fun ln w =>
      exists pre t rest, toks = pre ++ t :: rest /\ al_offs ln = toffs t /\
        match tk t with
        | KInstr k => exists ops o, AsmMeaning.opvals (firstn (length (AsmAccept.shape k)) rest) = Some ops /\
                                    AsmMeaning.means k ops o = Some (decode w) /\
                                    match pcrel_of (al_stmt ln) with
                                    | Some (l, nb) => bit_offs (al_line ln) l nb = Ok o
                                    | None => True
                                    end
        | KTrap k => exists ops, AsmMeaning.opvals (firstn (length (AsmAccept.trap_shape k)) rest) = Some ops /\
                                 AsmMeaning.trap_means k ops = Some (decode w)
        | KByte v => w = v
        | _ => False
        end) (a_ast a) (i_words im).
Proof. exact AsmMeaning.program_meaning. Qed.
Print Assumptions C01_program_meaning.

(** Non-vacuity of the table: `add r1 r2 #-3` is ADD DR=1 SR1=2 imm=-3; `str r1 r2 #5` is STR SR=1 BaseR=2 off=5; operands in
    another order denote nothing. *)
Example C01_meaning_nonvacuous :
  AsmMeaning.means IAdd (AsmMeaning.VReg 1 :: AsmMeaning.VReg 2 :: AsmMeaning.VLit 65533 :: nil) 0 = Some (ADDi 1 2 65533) /\
  AsmMeaning.means IStr (AsmMeaning.VReg 1 :: AsmMeaning.VReg 2 :: AsmMeaning.VLit 5 :: nil) 0 = Some (STR 1 2 5) /\
  AsmMeaning.means IAdd (AsmMeaning.VReg 1 :: AsmMeaning.VLit 2 :: AsmMeaning.VReg 3 :: nil) 0 = None.
Proof. pose proof AsmMeaning.means_examples as H. tauto. Qed.

(** Non-vacuity: `ldr r0 r1 #-1` (offset kept as the byte xFF) emits x607F = LDR R0,R1,#-1, and
    `br` to a label three statements back emits x0FFC. *)
Example C01_nonvacuous :
  emit (mkLine 1 (SLoadOffs 0 1 255) 0 13) = Ok 24703 /\ decode 24703 = LDR 0 1 65535 /\
  emit (mkLine 4 (SBranch 7 (LRef 1)) 0 0) = Ok 4092 /\ decode 4092 = BR 7 65532.
Proof. vm_compute. repeat split; reflexivity. Qed.

(** Re-laying out the text never changes the image.  After preprocessing a source is a list of
    tokens; [AsmLayout.toks_sim] relates two such lists that agree in what the tokens ARE —
    instruction / trap / directive kind, register number, the VALUE of a literal whatever its radix
    or spelling (`#16`, `x10`, `0x10`), the NAME of a label, raw data words, breakpoint marks — and
    differ arbitrarily in where they stand (offsets, lengths: separators, comments, blank lines
    only move those) and in their spelling.  Two such sources assemble to the same origin, the same
    words, the same breakpoints and leave the same symbol table — or both are rejected, with the
    same diagnostic class.  (Which characters make which token is the lexer's definition, tied to
    the code by the layout corpora of the correspondence check.) *)
Theorem C01_layout : forall feat sym0 src src' toks toks',
  preprocess feat (S (length src)) src 0 nil = Ok toks ->
  preprocess feat (S (length src')) src' 0 nil = Ok toks' ->
  AsmLayout.toks_sim toks toks' ->
  AsmLayout.res_sim AsmLayout.image_sim (fst (assemble feat sym0 src)) (fst (assemble feat sym0 src')) /\
  snd (assemble feat sym0 src) = snd (assemble feat sym0 src').
Proof. exact AsmLayout.assemble_layout. Qed.
Print Assumptions C01_layout.

(** The same on the TEXT, down to the characters (AsmLex.v).  [AsmLex.source_words] is the reference reading of a
    source: words separated by white space, `,`, `:` and comments (`;` to the end of the line); a word that starts with
    a double quote runs to its closing quote; `.end` ends the text; the operand of `.fill` / `.blkw` / `.stringz` is
    the next word beyond white space only.  [AsmLex.word_sim] relates two words that, each lexed ON ITS OWN, are the same
    kind of token - the same keyword whatever its letter case, the same register, a literal of the same VALUE whatever
    its radix and spelling - with the same text where the text matters (labels, strings).  Two sources whose words are
    pairwise similar - however many blanks, tabs, commas, colons, blank lines and comments separate them - assemble to
    the same origin, words, breakpoints and symbol table, or are both rejected with the same diagnostic class. *)
Theorem C01_relayout : forall feat sym0 src src',
  Forall2 (AsmLex.word_sim feat) (AsmLex.source_words src) (AsmLex.source_words src') ->
  AsmLayout.res_sim AsmLayout.image_sim (fst (assemble feat sym0 src)) (fst (assemble feat sym0 src')) /\
  snd (assemble feat sym0 src) = snd (assemble feat sym0 src').
Proof. exact AsmLex.relayout. Qed.
Print Assumptions C01_relayout.

(** What the preprocessor hands to the parser is a function of the words' kinds and texts alone ([AsmLex.apre] over the
    classified words): no offset, separator or comment enters it. *)
Theorem C01_words : forall feat src ats,
  AsmLex.classify_all feat (AsmLex.source_words src) = Some ats ->
  AsmLex.abs_res (preprocess feat (S (length src)) src 0 nil) = AsmLex.apre ats nil.
Proof. exact AsmLex.preprocess_source. Qed.
Print Assumptions C01_words.

(** Letter case (AsmLexCase.v).  Two words that agree character by character up to ASCII letter case are the same kind of
    token - the same keyword, register, directive, the same value for a literal whose hexadecimal digits or radix letter
    change case; an identifier that is a label stays a label (of another name: labels are case-sensitive, which is why
    they are excluded below). *)
Theorem C01_case_word : forall feat w w' k,
  Forall2 AsmLexCase.lc w w' -> AsmLex.lex_word feat w = Some k -> k <> KLit LStr -> AsmLex.lex_word feat w' = Some k.
Proof. exact AsmLexCase.lex_word_case. Qed.
Print Assumptions C01_case_word.

(** Keyword case, end to end: rewrite any of the words that are not labels or string literals in another letter case, and
    separate the words however you like - the image, the breakpoints and the symbol table stay the same. *)
Theorem C01_relayout_case : forall feat sym0 src src',
  Forall2 (AsmLexCase.word_case_sim feat) (AsmLex.source_words src) (AsmLex.source_words src') ->
  AsmLayout.res_sim AsmLayout.image_sim (fst (assemble feat sym0 src)) (fst (assemble feat sym0 src')) /\
  snd (assemble feat sym0 src) = snd (assemble feat sym0 src').
Proof. exact AsmLexCase.relayout_case. Qed.
Print Assumptions C01_relayout_case.

(** Non-vacuity: the two layouts of one program (13 words each) are similar word by word; `#16` ~ `x10`,
    `xFFFF` ~ `#-1`, `BRnzp` ~ `br`, `R7` ~ `r7`; `loop` and `Loop` are different labels. *)
Example C01_relayout_nonvacuous :
  Forall2 (AsmLex.word_sim false) (AsmLex.source_words AsmLayout.layout_a) (AsmLex.source_words AsmLayout.layout_b) /\
  ~ AsmLex.word_sim false AsmLex.w_loop AsmLex.w_Loop.
Proof. split; [exact (proj2 AsmLex.layouts_words)|]. pose proof AsmLex.word_sim_examples as H. tauto. Qed.
