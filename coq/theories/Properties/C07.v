(* C07 — check, compile and run agree on which sources are valid. *)
From Lace Require Import Word Asm Cli CliProofs.
Open Scope N_scope.

(** For every source and feature setting: `check` succeeds iff `compile` succeeds iff `run` gets
    past assembly (the three arms share one assembling function that includes the emission of
    every statement, where label distances are range-checked). *)
Theorem C07_agree : forall feat src,
  (check_exit feat src = 0 <-> compile_exit feat src = 0) /\
  (compile_exit feat src = 0 <-> run_assembles feat src = true).
Proof. exact verdicts_agree. Qed.
Print Assumptions C07_agree.
