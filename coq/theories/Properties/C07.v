(* C07 — check, compile and run agree on which sources are valid. *)
From Coq Require Import List.
From Lace Require Import Word Asm Cli CliProofs Watch CliFile.
From Lace Require Utf8.
From Lace Require Examples.
Open Scope N_scope.

(** For every source and feature setting: `check` succeeds iff `compile` succeeds iff `run` gets
    past assembly (the three arms share one assembling function that includes the emission of
    every statement, where label distances are range-checked). *)
Theorem C07_agree : forall feat src,
  (check_exit feat src = 0 <-> compile_exit feat src = 0) /\
  (compile_exit feat src = 0 <-> run_assembles feat src = true).
Proof. exact verdicts_agree. Qed.
Print Assumptions C07_agree.

(** Non-vacuity: both verdicts occur. *)
Example C07_nonvacuous :
  check_exit false Examples.ex_src_ok = 0 /\ exists d a n, assembles false Examples.ex_src_bad = Err d a n.
Proof.
  split; [|exact Examples.ex_rejected]. pose proof Examples.ex_assembles as H.
  destruct (assemble false nil Examples.ex_src_ok) as [[im| |] sym]; try contradiction. apply H.
Qed.

(** The same at the level of FILES (CliFile.v): every sub-command reads its source with `fs::read_to_string`, i.e. the
    file's bytes decoded as strict UTF-8, an i/o error otherwise.  For EVERY byte string — valid UTF-8 or not — the three
    verdicts agree; a file that is not valid UTF-8 is rejected by all of them (exit status 1); and a file that is the UTF-8
    encoding of a text gets exactly the text-level verdicts of [C07_agree]. *)
Theorem C07_agree_files : forall feat bytes,
  (check_file feat bytes = 0 <-> compile_file feat bytes = 0) /\
  (compile_file feat bytes = 0 <-> run_file_assembles feat bytes = true).
Proof. exact files_agree. Qed.
Print Assumptions C07_agree_files.

Theorem C07_invalid_file : forall feat bytes, read_to_string bytes = None ->
  check_file feat bytes = 1 /\ compile_file feat bytes = 1 /\ run_file_assembles feat bytes = false.
Proof. exact invalid_file_rejected. Qed.
Print Assumptions C07_invalid_file.

Theorem C07_file_text : forall feat src, forallb Utf8.scalar src = true ->
  check_file feat (Utf8.encode_all src) = check_exit feat src /\
  compile_file feat (Utf8.encode_all src) = compile_exit feat src /\
  run_file_assembles feat (Utf8.encode_all src) = run_assembles feat src.
Proof. exact check_file_text. Qed.
Print Assumptions C07_file_text.

(** Non-vacuity: a Latin-1 e-acute in a comment makes the file unreadable for all; its UTF-8 form is accepted. *)
Example C07_files_nonvacuous :
  read_to_string ex_file_latin1 = None /\ check_file false ex_file_utf8 = 0.
Proof. split; [exact (proj1 ex_latin1)|exact (proj2 (proj2 (proj2 ex_latin1)))]. Qed.

(** `lace watch` (Watch.v: the handler assembles the current contents with the symbol table as the
    previous re-check left it, prints the verdict, resets).  Every re-check — whatever the earlier
    versions of the file were — gives exactly the verdict of `lace check` on that version alone. *)
Theorem C07_watch : forall feat versions, watch feat nil versions = List.map (check_exit feat) versions.
Proof. exact watch_is_check. Qed.
Print Assumptions C07_watch.

(** Non-vacuity: a version that fails after recording a label, then one that only refers to that
    label (rejected, as by `check`); a handler that returned early on the failure, skipping the
    reset, would accept it. *)
Example C07_watch_nonvacuous :
  watch false nil (ex_w1 :: ex_w2 :: ex_w1 :: nil) = 1 :: 1 :: 1 :: nil /\
  watch_early_return false nil (ex_w1 :: ex_w2 :: nil) = 1 :: 0 :: nil.
Proof. split; [exact (proj1 ex_watch)|exact early_return_differs]. Qed.
