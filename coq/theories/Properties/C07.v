(* C07 — check, compile and run agree on which sources are valid. *)
From Lace Require Import Word Asm Cli CliProofs.
From Lace Require Examples.
Open Scope N_scope.

(** For every source and feature setting: `check` succeeds iff `compile` succeeds iff `run` gets
    past assembly (the three arms share one assembling function that includes the emission of
    every statement, where label distances are range-checked). *)
Theorem C07_agree : forall feat src,
  (check_exit feat src = 0 <-> compile_exit feat src = 0) /\
  (compile_exit feat src = 0 <-> run_assembles feat src = true).
Proof. exact verdicts_agree. Qed.
Print Assumptions C07_agree.

(** Non-vacuity: both verdicts occur. *)
Example C07_nonvacuous :
  check_exit false Examples.ex_src_ok = 0 /\ exists d a n, assembles false Examples.ex_src_bad = Err d a n.
Proof.
  split; [|exact Examples.ex_rejected]. pose proof Examples.ex_assembles as H.
  destruct (assemble false nil Examples.ex_src_ok) as [[im| |] sym]; try contradiction. apply H.
Qed.
