(* C07 — check, compile and run agree on which sources are valid. *)
From Coq Require Import List.
From Lace Require Import Word Asm Cli CliProofs Watch.
From Lace Require Examples.
Open Scope N_scope.

(** For every source and feature setting: `check` succeeds iff `compile` succeeds iff `run` gets
    past assembly (the three arms share one assembling function that includes the emission of
    every statement, where label distances are range-checked). *)
Theorem C07_agree : forall feat src,
  (check_exit feat src = 0 <-> compile_exit feat src = 0) /\
  (compile_exit feat src = 0 <-> run_assembles feat src = true).
Proof. exact verdicts_agree. Qed.
Print Assumptions C07_agree.

(** Non-vacuity: both verdicts occur. *)
Example C07_nonvacuous :
  check_exit false Examples.ex_src_ok = 0 /\ exists d a n, assembles false Examples.ex_src_bad = Err d a n.
Proof.
  split; [|exact Examples.ex_rejected]. pose proof Examples.ex_assembles as H.
  destruct (assemble false nil Examples.ex_src_ok) as [[im| |] sym]; try contradiction. apply H.
Qed.

(** `lace watch` (Watch.v: the handler assembles the current contents with the symbol table as the
    previous re-check left it, prints the verdict, resets).  Every re-check — whatever the earlier
    versions of the file were — gives exactly the verdict of `lace check` on that version alone. *)
Theorem C07_watch : forall feat versions, watch feat nil versions = List.map (check_exit feat) versions.
Proof. exact watch_is_check. Qed.
Print Assumptions C07_watch.

(** Non-vacuity: a version that fails after recording a label, then one that only refers to that
    label (rejected, as by `check`); a handler that returned early on the failure, skipping the
    reset, would accept it. *)
Example C07_watch_nonvacuous :
  watch false nil (ex_w1 :: ex_w2 :: ex_w1 :: nil) = 1 :: 1 :: 1 :: nil /\
  watch_early_return false nil (ex_w1 :: ex_w2 :: nil) = 1 :: 0 :: nil.
Proof. split; [exact (proj1 ex_watch)|exact early_return_differs]. Qed.
