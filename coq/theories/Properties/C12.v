(* C12 — reset restores the initial machine exactly. *)
From Lace Require Import Word Machine Isa Vm Asm Dbg DbgProofs.
From Lace Require Examples.
Open Scope N_scope.

(** `reset` puts every register, the PC, the condition code, the origin and all 65,536 memory words
    back to the saved initial state (the console is not part of the machine). *)
Theorem C12_reset : forall env d st,
  exists d', run_command env CReset d st = CmdNone d' (set_out (set_inp (d_init d) (s_inp st)) (s_out st))
             /\ d_bps d' = d_bps d /\ d_status d' = d_status d.
Proof. exact reset_restores. Qed.
Print Assumptions C12_reset.

Theorem C12_reset_fields : forall i inp out,
  let st' := set_out (set_inp i inp) out in
  s_regs st' = s_regs i /\ s_pc st' = s_pc i /\ s_cc st' = s_cc i /\ s_mem st' = s_mem i /\ s_orig st' = s_orig i.
Proof. exact reset_state_fields. Qed.
Print Assumptions C12_reset_fields.

(** Nothing the user or the program does alters the saved initial state: after ANY script (move,
    goto, eval, executed stores, resets, ...) a session that is still attached holds the initial
    state it was created with; and no single command or loop iteration changes it. *)
Theorem C12_initial_const : forall env fuel script d st t e c dd,
  sr_dbg (session env fuel script d st t e c) = Some dd -> d_init dd = d_init d.
Proof. exact session_init. Qed.
Print Assumptions C12_initial_const.

Theorem C12_initial_const_step : forall env script c d st,
  d_init (cmd_dbg (run_command env c d st)) = d_init d /\
  d_init (tick_dbg (tick env script d st)) = d_init d.
Proof. intros. split; [apply run_command_init|apply tick_init]. Qed.
Print Assumptions C12_initial_const_step.

(** Non-vacuity: a session (step, move, reset, exit) that ends attached: the hypothesis of
    C12_initial_const holds and the saved initial state is the loaded one. *)
Example C12_nonvacuous :
  exists dd, sr_dbg (session Examples.ex_env 50 (CStepOver :: CMove (LReg 3) 7 :: CReset :: CExit :: nil)
                             (Examples.ex_dbg nil) Examples.ex_state 0 0 0) = Some dd /\
             d_init dd = Examples.ex_state.
Proof. exact Examples.ex_attached_end. Qed.
