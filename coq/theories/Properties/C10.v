(* C10 — stepping commands execute exactly what they promise. *)
From Lace Require Import Word Machine Isa Vm Asm Dbg DbgProofs.
Open Scope N_scope.

(** What each resuming command arms (when not parked on HALT): `step into N` a count of N-1 more
    instructions, `continue` free running, `step` the return address PC+1 iff the next instruction
    is JSR/JSRR/CALL and a single instruction otherwise, `step out` running to a RET/RETS. *)
Theorem C10_commands : forall env d st, at_halt st = false ->
  (forall n, run_command env (CStepInto n) d st = CmdNone (set_status (set_icount d 0) (StepIntoS (n - 1))) st) /\
  run_command env CContinue d st = CmdNone (set_status (set_icount d 0) ContinueS) st /\
  run_command env CStepOver d st =
    CmdNone (set_status (set_icount d 0)
               (if is_sig (significant (M st (s_pc st))) SigCall
                then StepOverS (wrapping_add (s_pc st) 1) else StepIntoS 0)) st /\
  (e_feat env = true -> run_command env CStepOut d st = CmdNone (set_status (set_icount d 0) FinishS) st).
Proof. exact resume_commands. Qed.
Print Assumptions C10_commands.

(** The iteration in which a resuming command is read: from a waiting debugger at a runnable state
    that is not on HALT, the command arms its status and the instruction at PC executes in that
    same iteration — whether or not a breakpoint sits at PC (resuming executes the marked
    instruction once); exactly one command is read and exactly one instruction executed. *)
Theorem C10_resume_tick : forall env c rest d st d1 d2,
  d_status d = WaitForAction -> at_halt st = false -> runnable st ->
  run_command env c (check_interrupts d st) st = CmdNone d1 st ->
  dispatch_status d1 st = (Some Proceed, d2) ->
  after_exec1 env rest d2 st (tick env (c :: rest) d st).
Proof. exact tick_resume. Qed.
Print Assumptions C10_resume_tick.

(** HALT is never executed while the debugger is attached: resuming commands are refused there. *)
Theorem C10_halt_refused : forall env d st c, at_halt st = true ->
  match c with CStepInto _ | CContinue | CStepOver => True | _ => False end ->
  run_command env c d st = CmdNone (say (set_icount d 0) L_REACHED_HALT) st.
Proof. exact resume_refused_on_halt. Qed.
Print Assumptions C10_halt_refused.

(** `step into N`: with N-1 armed and nothing pausing earlier, exactly N instructions of the
    reference machine are executed, no command is read meanwhile, then the debugger waits. *)
Theorem C10_step_into : forall env script c d st,
  d_status d = StepIntoS (N.of_nat c) ->
  free_path (e_feat env) (d_bps d) (S c) st ->
  exists d' st', iter_tick env (S c) script d st = Some (d', st') /\
                 steps (e_feat env) (S c) st = Some st' /\ d_status d' = WaitForAction /\ d_bps d' = d_bps d.
Proof. exact step_into_exact. Qed.
Print Assumptions C10_step_into.

(** `continue`: one reference-machine instruction per iteration for as long as no pause condition
    (breakpoint, HALT, PC outside user space) holds. *)
Theorem C10_continue : forall env script k d st,
  d_status d = ContinueS -> free_path (e_feat env) (d_bps d) k st ->
  exists d' st', iter_tick env k script d st = Some (d', st') /\ steps (e_feat env) k st = Some st' /\
                 d_status d' = ContinueS /\ d_bps d' = d_bps d.
Proof. exact continue_runs. Qed.
Print Assumptions C10_continue.

(** `step out`: each iteration executes one instruction; executing a RET/RETS ends it. *)
Theorem C10_step_out : forall env script d st,
  free d st -> d_status d = FinishS ->
  after_exec env script
    (if is_sig (significant (M st (s_pc st))) SigReturn
     then set_status (say d L_REACHED_SUBEND) WaitForAction else d) st
    (tick env script d st).
Proof. exact tick_finish. Qed.
Print Assumptions C10_step_out.

(** `step` over a call: runs until the PC is the following address, then waits without executing. *)
Theorem C10_step_over : forall env script d st ra,
  free d st -> d_status d = StepOverS ra ->
  (s_pc st <> ra -> after_exec env script d st (tick env script d st)) /\
  (s_pc st = ra -> exists d', d_status d' = WaitForAction /\
                              next_action env script d st = wait_loop env script d' st 0).
Proof.
  intros env script d st ra Hf Hs. split.
  - apply tick_step_over; assumption.
  - apply step_over_returns; assumption.
Qed.
Print Assumptions C10_step_over.

(** Each of them pauses earlier exactly at a breakpoint, on HALT, or when PC leaves user space:
    the status is forced to "wait" and a command is read before anything executes. *)
Theorem C10_pause : forall env script d st,
  bp_get (d_bps d) (s_pc st) <> None \/ at_halt st = true \/ (s_pc st <? s_orig st) || (65024 <=? s_pc st) = true ->
  exists d', d_status d' = WaitForAction /\ d_bps d' = d_bps d /\
             next_action env script d st = wait_loop env script d' st 0.
Proof. exact pause_forces_wait. Qed.
Print Assumptions C10_pause.
