(* C10 — stepping commands execute exactly what they promise. *)
From Coq Require Import List NArith Bool.
From Lace Require Import Word Machine Isa Vm Asm Dbg DbgProofs DbgRef DbgScript.
From Lace Require DbgSig.
From Lace Require Examples.
Import ListNotations.
Open Scope N_scope.

(** What each resuming command arms (when not parked on HALT): `step into N` a count of N-1 more
    instructions, `continue` free running, `step` the return address PC+1 iff the next instruction
    is JSR/JSRR/CALL and a single instruction otherwise, `step out` running to a RET/RETS. *)
Theorem C10_commands : forall env d st, at_halt st = false ->
  (forall n, run_command env (CStepInto n) d st = CmdNone (set_status (set_icount d 0) (StepIntoS (n - 1))) st) /\
  run_command env CContinue d st = CmdNone (set_status (set_icount d 0) ContinueS) st /\
  run_command env CStepOver d st =
    CmdNone (set_status (set_icount d 0)
               (if is_sig (significant (M st (s_pc st))) SigCall
                then StepOverS (wrapping_add (s_pc st) 1) else StepIntoS 0)) st /\
  (e_feat env = true -> run_command env CStepOut d st = CmdNone (set_status (set_icount d 0) FinishS) st).
Proof. exact resume_commands. Qed.
Print Assumptions C10_commands.

(** The iteration in which a resuming command is read: from a waiting debugger at a runnable state
    that is not on HALT, the command arms its status and the instruction at PC executes in that
    same iteration — whether or not a breakpoint sits at PC (resuming executes the marked
    instruction once); exactly one command is read and exactly one instruction executed. *)
Theorem C10_resume_tick : forall env c rest d st d1 d2,
  d_status d = WaitForAction -> at_halt st = false -> runnable st ->
  run_command env c (check_interrupts d st) st = CmdNone d1 st ->
  dispatch_status d1 st = (Some Proceed, d2) ->
  after_exec1 env rest d2 st (tick env (c :: rest) d st).
Proof. exact tick_resume. Qed.
Print Assumptions C10_resume_tick.

(** HALT is never executed while the debugger is attached: resuming commands are refused there. *)
Theorem C10_halt_refused : forall env d st c, at_halt st = true ->
  match c with CStepInto _ | CContinue | CStepOver => True | _ => False end ->
  run_command env c d st = CmdNone (say (set_icount d 0) L_REACHED_HALT) st.
Proof. exact resume_refused_on_halt. Qed.
Print Assumptions C10_halt_refused.

(** `step into N`: with N-1 armed and nothing pausing earlier, exactly N instructions of the
    reference machine are executed, no command is read meanwhile, then the debugger waits. *)
Theorem C10_step_into : forall env script c d st,
  d_status d = StepIntoS (N.of_nat c) ->
  free_path (e_feat env) (d_bps d) (S c) st ->
  exists d' st', iter_tick env (S c) script d st = Some (d', st') /\
                 steps (e_feat env) (S c) st = Some st' /\ d_status d' = WaitForAction /\ d_bps d' = d_bps d.
Proof. exact step_into_exact. Qed.
Print Assumptions C10_step_into.

(** `continue`: one reference-machine instruction per iteration for as long as no pause condition
    (breakpoint, HALT, PC outside user space) holds. *)
Theorem C10_continue : forall env script k d st,
  d_status d = ContinueS -> free_path (e_feat env) (d_bps d) k st ->
  exists d' st', iter_tick env k script d st = Some (d', st') /\ steps (e_feat env) k st = Some st' /\
                 d_status d' = ContinueS /\ d_bps d' = d_bps d.
Proof. exact continue_runs. Qed.
Print Assumptions C10_continue.

(** `step out`: each iteration executes one instruction; executing a RET/RETS ends it. *)
Theorem C10_step_out : forall env script d st,
  free d st -> d_status d = FinishS ->
  after_exec env script
    (if is_sig (significant (M st (s_pc st))) SigReturn
     then set_status (say d L_REACHED_SUBEND) WaitForAction else d) st
    (tick env script d st).
Proof. exact tick_finish. Qed.
Print Assumptions C10_step_out.

(** `step` over a call: runs until the PC is the following address, then waits without executing. *)
Theorem C10_step_over : forall env script d st ra,
  free d st -> d_status d = StepOverS ra ->
  (s_pc st <> ra -> after_exec env script d st (tick env script d st)) /\
  (s_pc st = ra -> exists d', d_status d' = WaitForAction /\
                              next_action env script d st = wait_loop env script d' st 0).
Proof.
  intros env script d st ra Hf Hs. split.
  - apply tick_step_over; assumption.
  - apply step_over_returns; assumption.
Qed.
Print Assumptions C10_step_over.

(** Each of them pauses earlier exactly at a breakpoint, on HALT, or when PC leaves user space:
    the status is forced to "wait" and a command is read before anything executes. *)
Theorem C10_pause : forall env script d st,
  bp_get (d_bps d) (s_pc st) <> None \/ at_halt st = true \/ (s_pc st <? s_orig st) || (65024 <=? s_pc st) = true ->
  exists d', d_status d' = WaitForAction /\ d_bps d' = d_bps d /\
             next_action env script d st = wait_loop env script d' st 0.
Proof. exact pause_forces_wait. Qed.
Print Assumptions C10_pause.

(* ------------------------------------------------------------------ *)
(** * The whole statement against a reference (DbgRef.v)

    [ref_cmd] / [ref_at] are the SPEC: the plain machine ([vm_step]) driven by a mode (how much is
    still to run) and the pause conditions (breakpoint at PC, HALT at PC, PC outside user space);
    nothing of the debugger's record, messages, script or counters.  For EVERY count, machine state
    and breakpoint set the debugger does exactly what the reference does: *)

(** a resuming command read by a waiting debugger at a state in user space, not on HALT (a
    breakpoint at PC does not hold the first instruction back): the command and one instruction
    in the first iteration, then one instruction per iteration with no command read, until the
    debugger is paused at exactly the reference's state after exactly the reference's number of
    instructions — or the machine stops exactly where the reference's does; *)
Theorem C10_reference : forall env fuel c rest d st m,
  d_status d = WaitForAction -> mode_of_cmd (e_feat env) c st = Some m -> at_halt st = false -> runnable st ->
  match ref_cmd (e_feat env) (d_bps d) fuel c st with
  | PEPaused st' k =>
      exists d1 st1 d', tick env (c :: rest) d st = TNext rest d1 st1 1 1 /\
        iter_tick env (k - 1) rest d1 st1 = Some (d', st') /\ d_bps d' = d_bps d /\
        paused_at env rest d' st' /\ (1 <= k)%nat
  | PEStopped kind code s k =>
      (k = 1%nat /\ exists d', tick env (c :: rest) d st = TStop kind code s d' 1 1) \/
      (exists d1 st1 d' st2, tick env (c :: rest) d st = TNext rest d1 st1 1 1 /\
         iter_tick env (k - 2) rest d1 st1 = Some (d', st2) /\ d_bps d' = d_bps d /\
         stops_with env rest d' st2 kind code s /\ (2 <= k)%nat)
  | PEFuel => True
  end.
Proof. exact ref_cmd_refined. Qed.
Print Assumptions C10_reference.

(** the same from any armed status at any state (the iterations after the first); *)
Theorem C10_reference_at : forall env script fuel m st k d,
  d_status d = status_of m ->
  match ref_at (e_feat env) (d_bps d) fuel m st k with
  | PEPaused st' k' =>
      exists d', iter_tick env (k' - k) script d st = Some (d', st') /\ d_bps d' = d_bps d /\
                 paused_at env script d' st' /\ (k <= k')%nat
  | PEStopped kind code s k' =>
      exists d' st1, iter_tick env (k' - S k) script d st = Some (d', st1) /\ d_bps d' = d_bps d /\
                     stops_with env script d' st1 kind code s /\ (S k <= k')%nat
  | PEFuel => True
  end.
Proof. exact ref_at_refined. Qed.
Print Assumptions C10_reference_at.

(** outside user space a resuming command executes nothing and the debugger is paused again. *)
Theorem C10_outside : forall env c rest d st m,
  d_status d = WaitForAction -> mode_of_cmd (e_feat env) c st = Some m -> at_halt st = false -> oob st = true ->
  exists d1, tick env (c :: rest) d st = TNext rest d1 st 0 1 /\ d_bps d1 = d_bps d /\ paused_at env rest d1 st.
Proof. exact resume_outside. Qed.
Print Assumptions C10_outside.

(** What the reference says, declaratively.  Wherever it pauses it got there by plain-machine
    instructions from states at which no pause condition held ... *)
Theorem C10_least_path : forall feat bps fuel m st k st' k', ref_at feat bps fuel m st k = PEPaused st' k' ->
  (k <= k')%nat /\ steps feat (k' - k) st = Some st' /\
  (forall i, (i < k' - k)%nat -> exists si, steps feat i st = Some si /\ pause_cond bps si = false).
Proof. exact ref_at_path. Qed.
Print Assumptions C10_least_path.

(** ... `step into` with n more to go: n+1 instructions, fewer only at a pause condition;
    `continue`: only at a pause condition; `step` over a call: at the first state whose PC is the
    return address, or a pause condition; `step out`: right after the first RET/RETS executed, or
    at a pause condition. *)
Theorem C10_least_into : forall feat bps fuel n st k st' k', ref_at feat bps fuel (MInto n) st k = PEPaused st' k' ->
  (k' - k <= S n)%nat /\ ((k' - k = S n)%nat \/ pause_cond bps st' = true).
Proof. exact ref_at_into. Qed.
Print Assumptions C10_least_into.

Theorem C10_least_continue : forall feat bps fuel st k st' k', ref_at feat bps fuel MCont st k = PEPaused st' k' ->
  pause_cond bps st' = true.
Proof. exact ref_at_cont. Qed.
Print Assumptions C10_least_continue.

Theorem C10_least_over : forall feat bps ra fuel st k st' k', ref_at feat bps fuel (MOver ra) st k = PEPaused st' k' ->
  (s_pc st' = ra \/ pause_cond bps st' = true) /\
  (forall i, (i < k' - k)%nat -> exists si, steps feat i st = Some si /\ s_pc si <> ra).
Proof. exact ref_at_over. Qed.
Print Assumptions C10_least_over.

Theorem C10_least_out : forall feat bps fuel st k st' k', ref_at feat bps fuel MOut st k = PEPaused st' k' ->
  (pause_cond bps st' = true \/
   exists j sj, (k' - k = S j)%nat /\ steps feat j st = Some sj /\ at_return sj = true) /\
  (forall i, (S i < k' - k)%nat -> exists si, steps feat i st = Some si /\ at_return si = false).
Proof. exact ref_at_out. Qed.
Print Assumptions C10_least_out.

(** Non-vacuity: on `add r0 r0 #1` x3, `halt`: `step into 5` pauses on the HALT after 3
    instructions, `step into 2` after 2, `continue` with a breakpoint at x3002 after 2, `step` after
    1, `step out` without the stack feature does nothing. *)
Example C10_reference_nonvacuous :
  match from_raw [12288; 4129; 4129; 4129; 61477] [] with
  | Loaded st =>
      let show p := match p with PEPaused s k => Some (k, s_pc s, R s 0) | _ => None end in
      show (ref_cmd false [] 10 (CStepInto 5) st) = Some (3%nat, 12291, 3) /\
      show (ref_cmd false [] 10 (CStepInto 2) st) = Some (2%nat, 12290, 2) /\
      show (ref_cmd false [(12290, false)] 10 CContinue st) = Some (2%nat, 12290, 2) /\
      show (ref_cmd false [] 10 CStepOver st) = Some (1%nat, 12289, 1) /\
      show (ref_cmd false [] 10 CStepOut st) = Some (0%nat, 12288, 0)
  | _ => False
  end.
Proof. vm_compute. repeat split. Qed.

(** A whole SCRIPT of stepping commands (DbgScript.v).  [ref_script] folds [ref_cmd] over the script:
    each command starts from the state at which the previous one paused; its count is the total
    number of instructions executed.  The session of a waiting debugger (every session starts so)
    given that script followed by `exit` ends — whatever breakpoints are set, wherever HALT, the end
    of user space or a refused command comes in between — with `exit` at exactly the reference's
    machine state after exactly the reference's number of executed instructions, or with the very
    stop (kind, code, state, instruction count) the reference machine runs into. *)
Theorem C10_script : forall env fuelR cs d st,
  Forall resuming cs -> d_status d = WaitForAction ->
  match ref_script (e_feat env) (d_bps d) fuelR cs st with
  | PEPaused st' k =>
      exists j, forall fuel, ends_like (session env (j + fuel) (cs ++ [CExit]) d st 0 0 0) 7 0 st' (N.of_nat k)
  | PEStopped kind code s k =>
      exists j, forall fuel, ends_like (session env (j + fuel) (cs ++ [CExit]) d st 0 0 0) kind code s (N.of_nat k)
  | PEFuel => True
  end.
Proof. exact script_exit. Qed.
Print Assumptions C10_script.

(** The same with anything behind the script: after the stepping commands the debugger is reading
    the rest of the script ([tail]) at the reference's state. *)
Theorem C10_script_then : forall env fuelR cs tail d0 st n,
  Forall resuming cs -> d_status d0 = WaitForAction ->
  match ref_script (e_feat env) (d_bps d0) fuelR cs st with
  | PEPaused st' k =>
      exists j d0' n', d_status d0' = WaitForAction /\ d_bps d0' = d_bps d0 /\
        forall fuel t e c, exists t' c',
          session_w env (j + fuel) (wtick env st (cs ++ tail) d0 n) t e c =
          session_w env fuel (wtick env st' tail d0' n') t' (e + N.of_nat k) c'
  | PEStopped kind code s k =>
      exists j, forall fuel t e c,
        ends_like (session_w env (j + fuel) (wtick env st (cs ++ tail) d0 n) t e c) kind code s (e + N.of_nat k)
  | PEFuel => True
  end.
Proof. exact script_session. Qed.
Print Assumptions C10_script_then.

(** Non-vacuity: `step; step into 2; continue` on the example program — three instructions, then
    the `continue` is refused on the HALT that was reached; the session with `exit` behind it agrees. *)
Example C10_script_nonvacuous :
  Forall resuming ex_steps /\
  match ref_script false [] 20 ex_steps Examples.ex_state with
  | PEPaused st' k => k = 3%nat /\ R st' 0 = 3 /\ at_halt st' = true
  | _ => False
  end /\
  (let r := session Examples.ex_env 20 (ex_steps ++ [CExit]) (Examples.ex_dbg []) Examples.ex_state 0 0 0 in
   sr_kind r = 7 /\ sr_execs r = 3 /\ R (sr_state r) 0 = 3).
Proof. split; [exact ex_steps_resuming|]. split; [exact ex_steps_ref|exact ex_steps_session]. Qed.

(** The property's scripts in full: stepping commands AND `break add a` / `break remove a` in any
    order.  The reference ([ref_script2]) carries its breakpoint set along: a breakpoint command
    changes the set exactly as C11/C13 say (refused outside user space), a stepping command runs
    under the set as it is then.  The session ends with `exit` at the reference's state, after the
    reference's number of instructions, holding the reference's breakpoint set. *)
Theorem C10_script_breakpoints : forall env fuelR cs d st,
  Forall stepping cs -> d_status d = WaitForAction ->
  match ref_script2 (e_feat env) fuelR cs (d_bps d) st with
  | (PEPaused st' k, bps') =>
      exists j, forall fuel,
        let r := session env (j + fuel) (cs ++ [CExit]) d st 0 0 0 in
        ends_like r 7 0 st' (N.of_nat k) /\ match sr_dbg r with Some d' => d_bps d' = bps' | None => False end
  | (PEStopped kind code s k, _) =>
      exists j, forall fuel, ends_like (session env (j + fuel) (cs ++ [CExit]) d st 0 0 0) kind code s (N.of_nat k)
  | (PEFuel, _) => True
  end.
Proof. exact script2_exit. Qed.
Print Assumptions C10_script_breakpoints.

Example C10_script_breakpoints_nonvacuous :
  Forall stepping ex_steps2 /\
  match ref_script2 false 20 [CBreakAdd (MAddr 12290); CContinue] [] Examples.ex_state,
        ref_script2 false 20 ex_steps2 [] Examples.ex_state with
  | (PEPaused s1 k1, b1), (PEPaused s2 k2, b2) =>
      k1 = 2%nat /\ s_pc s1 = 12290 /\ b1 = [(12290, false)] /\ k2 = 3%nat /\ at_halt s2 = true /\ b2 = []
  | _, _ => False
  end.
Proof. split; [exact ex_steps2_stepping|exact ex_steps2_ref]. Qed.

(** What the stepping commands take for a call, a return and a HALT is what the ISA says these words are: the
    debugger's own decoder (`SignificantInstr::try_from`, masks on the raw word) agrees with [Isa.decode] on ALL 65,536
    words - JSR / JSRR / CALL are calls, JMP R7 and RETS are returns, TRAP x25 is HALT whatever the unused bits hold,
    and nothing else is any of these. *)
Theorem C10_classification : forall w, w < 65536 ->
  significant w = DbgSig.sig_of_instr (decode w).
Proof. exact DbgSig.significant_decode. Qed.
Print Assumptions C10_classification.

Theorem C10_halt_words : forall w, w < 65536 ->
  (is_sig (significant w) SigHalt = true <-> decode w = TRAP 37).
Proof. exact DbgSig.halt_words. Qed.
Print Assumptions C10_halt_words.

Example C10_classification_nonvacuous :
  significant 49600 = Some SigReturn /\ significant 55296 = Some SigReturn /\
  significant 61477 = Some SigHalt /\ significant 61733 = Some SigHalt /\ significant 65317 = Some SigHalt /\
  significant 18432 = Some SigCall /\ significant 16576 = Some SigCall /\ significant 56320 = Some SigCall /\
  significant 49536 = None /\ significant 61478 = None /\ significant 4096 = None.
Proof. exact DbgSig.sig_examples. Qed.
