(* C17 — the debugger's view of source and symbols matches the assembler's. *)
From Coq Require Import ZArith.
From Lace Require Import Word Machine Isa Vm Asm Dbg DbgProofs EvalProofs.
Open Scope N_scope.

(** `assembly <address>` shows exactly the source slice of the statement (span recorded by the
    parser) that produced the word at that address; addresses holding no statement show nothing. *)
Theorem C17_assembly : forall env orig a,
  (a < orig \/ orig + N.of_nat (length (e_spans env)) <= a -> source_statement env orig a = None) /\
  (forall i o l, a = orig + N.of_nat i -> nth_error (e_spans env) i = Some (o, l) ->
                 source_statement env orig a = Some (slice_src (e_src env) o l)).
Proof. exact source_statement_spec. Qed.
Print Assumptions C17_assembly.

(** A label used as a location resolves to the address the assembler gave the statement it marks
    (origin + line - 1), plus the offset, whenever that is in user space — also above x7FFF. *)
Theorem C17_label : forall env d st name off line a,
  sym_get (e_sym env) name = Some line -> 1 <= line -> line + s_orig st <= 65536 ->
  (Z.of_N a = Z.of_N (s_orig st + line - 1) + signed16 off)%Z -> in_userspace st a = true ->
  resolve_location env d st (MLabel name off) = (Some a, d).
Proof. exact label_resolves. Qed.
Print Assumptions C17_label.

(** Non-vacuity: the first statement of a file, without operands, keeps its text. *)
Example C17_nonvacuous :
  match fst (assemble false [] [104; 97; 108; 116; 10]) with
  | Ok im => i_spans im = [(0, 4)]
  | _ => False
  end.
Proof. vm_compute. reflexivity. Qed.
