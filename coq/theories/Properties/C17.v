(* C17 — the debugger's view of source and symbols matches the assembler's. *)
From Coq Require Import ZArith.
From Coq Require Import List.
From Lace Require Import Word Machine Isa Vm Asm Dbg DbgProofs EvalProofs.
From Lace Require AsmAccept AsmSpan.
Open Scope N_scope.

(** `assembly <address>` shows exactly the source slice of the statement (span recorded by the
    parser) that produced the word at that address; addresses holding no statement show nothing. *)
Theorem C17_assembly : forall env orig a,
  (a < orig \/ orig + N.of_nat (length (e_spans env)) <= a -> source_statement env orig a = None) /\
  (forall i o l, a = orig + N.of_nat i -> nth_error (e_spans env) i = Some (o, l) ->
                 source_statement env orig a = Some (slice_src (e_src env) o l)).
Proof. exact source_statement_spec. Qed.
Print Assumptions C17_assembly.

(** A label used as a location resolves to the address the assembler gave the statement it marks
    (origin + line - 1), plus the offset, whenever that is in user space — also above x7FFF. *)
Theorem C17_label : forall env d st name off line a,
  sym_get (e_sym env) name = Some line -> 1 <= line -> line + s_orig st <= 65536 ->
  (Z.of_N a = Z.of_N (s_orig st + line - 1) + signed16 off)%Z -> in_userspace st a = true ->
  resolve_location env d st (MLabel name off) = (Some a, d).
Proof. exact label_resolves. Qed.
Print Assumptions C17_label.

(** What that span is: "mnemonic through its last operand".  The parser records, for the statement
    whose first token is [t], the span from [toffs t] to the end [te2] it has when the statement is
    parsed ([tlen t] when nothing was read after [t]); and an accepted instruction reads exactly
    the operands of its shape — no label before it, no comment after it — leaving [te2] at the end
    of the last operand token. *)
Theorem C17_span_extent : forall sym line k toks te n s rest te2,
  parse_instr sym line k (toks, te) n = Ok (s, (rest, te2)) ->
  rest = skipn (length (AsmAccept.shape k)) toks /\
  te2 = AsmAccept.last_end (firstn (length (AsmAccept.shape k)) toks) te.
Proof. exact AsmAccept.parse_instr_consumes. Qed.
Print Assumptions C17_span_extent.

Theorem C17_span_extent_trap : forall k toks te n s rest te2,
  parse_trap k (toks, te) n = Ok (s, (rest, te2)) ->
  rest = skipn (length (AsmAccept.trap_shape k)) toks /\
  te2 = AsmAccept.last_end (firstn (length (AsmAccept.trap_shape k)) toks) te.
Proof. exact AsmAccept.parse_trap_consumes. Qed.
Print Assumptions C17_span_extent_trap.

(** Non-vacuity: the first statement of a file, without operands, keeps its text. *)
Example C17_nonvacuous :
  match fst (assemble false [] [104; 97; 108; 116; 10]) with
  | Ok im => i_spans im = [(0, 4)]
  | _ => False
  end.
Proof. vm_compute. reflexivity. Qed.
