(* C06 — object files round-trip and the loader rejects what it cannot load. *)
From Coq Require Import Arith.
From Lace Require Import Word Machine Isa Vm Asm Cli CliProofs.
From Lace Require CliRead.
From Lace Require Examples.
Open Scope N_scope.

(** `compile` writes exactly 2(n+1) bytes: the origin (x3000 by default), then the n words,
    big-endian. *)
Theorem C06_bytes : forall im,
  compile_bytes im = be16 (image_orig im) ++ flat_map be16 (i_words im) /\
  length (compile_bytes im) = (2 * (length (i_words im) + 1))%nat /\
  (i_orig im = None -> image_orig im = 12288).
Proof.
  intros im. split; [reflexivity|]. split; [apply compile_bytes_length|].
  intros H. unfold image_orig. rewrite H. reflexivity.
Qed.
Print Assumptions C06_bytes.

(** Loading the object file yields exactly what `run` builds from the source: the same loaded
    machine (hence the same run, for every input and step budget) or the same rejection. *)
Theorem C06_roundtrip : forall im inp,
  image_orig im < W -> Forall (fun w => w < W) (i_words im) ->
  load_file (compile_bytes im) inp = from_raw (raw_of_image im) inp.
Proof. exact load_file_compile. Qed.
Print Assumptions C06_roundtrip.

(** ... and the hypotheses hold for everything the assembler produces: for EVERY source that
    assembles, running the compiled object file starts from exactly the machine `run` builds from
    the source (so the two runs are identical for every input and budget, by C03_run). *)
Theorem C06_roundtrip_src : forall feat src im sym1 inp,
  assemble feat [] src = (Ok im, sym1) ->
  load_file (compile_bytes im) inp = from_raw (raw_of_image im) inp.
Proof. exact load_file_compile_src. Qed.
Print Assumptions C06_roundtrip_src.

(** The loader accepts exactly the even-length files of at least one word whose image, placed at
    the address given by the first word and followed by the implicit HALT, fits below 2^16. *)
Theorem C06_loader_iff : forall bytes inp,
  (exists st, load_file bytes inp = Loaded st) <->
  (Nat.even (length bytes) = true /\ (2 <= length bytes)%nat /\
   exists hi lo rest, bytes = hi :: lo :: rest /\
     hi * 256 + lo + N.of_nat (Nat.div (length rest) 2) + 1 <= W).
Proof. exact loader_iff. Qed.
Print Assumptions C06_loader_iff.

(** How the code reads the file (CliRead.v, since the repair F31): the length comes from the file's metadata, an odd length
    is refused at once, and at most 2 * (x10000 + 1) bytes - one word more than any loadable image - are read.  That is the
    same function of the file's bytes as reading it whole: the loader theorems above speak about the code as it is, and no
    file, however long, needs more than 128 KiB + 2 bytes of it in memory. *)
Theorem C06_read_limit : forall bytes inp, CliRead.load_file_code bytes inp = load_file bytes inp.
Proof. exact CliRead.load_file_code_eq. Qed.
Print Assumptions C06_read_limit.

(** Everything else is an error exit (status 1: not aligned; xEE: empty or too long), not a panic. *)
Theorem C06_loader_rejects : forall bytes inp, exists r, load_file bytes inp = r /\
  (match r with Loaded _ => True | LoadExit c => c = 1 \/ c = 238 end).
Proof. exact load_file_never_panics. Qed.
Print Assumptions C06_loader_rejects.

(** Non-vacuity: a source that assembles (6 words, origin in range: the hypotheses of C06_roundtrip
    and C06_roundtrip_src). *)
Example C06_nonvacuous :
  match assemble false nil Examples.ex_src_ok with
  | (Ok im, _) => image_orig im < W /\ length (i_words im) = 6%nat /\ check_exit false Examples.ex_src_ok = 0
  | _ => False
  end.
Proof. exact Examples.ex_assembles. Qed.
