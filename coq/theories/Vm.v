(* Vm.v — MODEL of /repo/src/runtime.rs (RunState::execute, the 16 handlers, the stack helpers,
   the trap routines, from_raw and the non-debugger run loop), transcribed function by function
   with the code's shifts, masks, wrapping operations and evaluation order. *)
From Lace Require Export Machine.

(* ---- u16 primitives as the code uses them ---- *)

Definition shr (x k : N) : N := N.shiftr x k.
Definition band (x y : N) : N := N.land x y.
Definition bor (x y : N) : N := N.lor x y.
Definition wrapping_add (a b : N) : N := wrap (a + b).
Definition wrapping_sub (a b : N) : N := wrap (a + W - b).

(** [RunState::s_ext(val, bits)] *)
Definition s_ext (val bits : N) : N :=
  let sign := band val (N.shiftl 1 (bits - 1)) in
  let val' := band val (N.shiftl 1 bits - 1) in
  let sign_extension := wrapping_add (not16 sign) 1 in
  bor val' sign_extension.

(** [RunState::set_flags]: [(val as i16).cmp(&0)] *)
Definition set_flags (st : state) (val : N) : state :=
  set_cc st (if is_neg val then CC_N else if val =? 0 then CC_Z else CC_P).

(** [push_val] / [pop_val] *)
Definition push_val (st : state) (val : N) : state :=
  let st1 := set_reg st 7 (wrapping_sub (R st 7) 1) in
  let sp := R st1 7 in
  set_mem st1 sp val.

Definition pop_val (st : state) : N * state :=
  let sp := R st 7 in
  let val := M st sp in
  (val, set_reg st 7 (wrapping_add (R st 7) 1)).

Definition h_stack (feat : bool) (instr : N) (st : state) : result :=
  if negb feat then Exited 1 st
  else if negb (band instr 2048 =? 0) then
    if negb (band instr 1024 =? 0) then
      (* call *)
      let st1 := push_val st (s_pc st) in
      Running (set_pc st1 (wrapping_add (s_pc st1) (s_ext instr 10)))
    else
      (* rets *)
      let '(v, st1) := pop_val st in
      Running (set_pc st1 v)
  else
    let reg := band (shr instr 6) 7 in
    if negb (band instr 1024 =? 0) then
      let val := R st reg in
      Running (push_val st val)
    else
      let '(val, st1) := pop_val st in
      Running (set_reg st1 reg val).

Definition h_add (instr : N) (st : state) : result :=
  let dr := band (shr instr 9) 7 in
  let sr := band (shr instr 6) 7 in
  let val1 := R st sr in
  let val2 := if band instr 32 =? 0 then R st (band instr 7) else s_ext instr 5 in
  let res := wrapping_add val1 val2 in
  Running (set_reg (set_flags st res) dr res).

Definition h_and (instr : N) (st : state) : result :=
  let dr := band (shr instr 9) 7 in
  let sr := band (shr instr 6) 7 in
  let val1 := R st sr in
  let val2 := if band instr 32 =? 0 then R st (band instr 7) else s_ext instr 5 in
  let res := band val1 val2 in
  Running (set_reg (set_flags st res) dr res).

Definition h_br (instr : N) (st : state) : result :=
  let flag := band (shr instr 9) 7 in
  if negb (band (s_cc st) flag =? 0)
  then Running (set_pc st (wrapping_add (s_pc st) (s_ext instr 9)))
  else Running st.

Definition h_jmp (instr : N) (st : state) : result :=
  let br := band (shr instr 6) 7 in
  Running (set_pc st (R st br)).

(** [jsr]: the return address is taken first, the link register written last. *)
Definition h_jsr (instr : N) (st : state) : result :=
  let ret := s_pc st in
  let st1 :=
    if band instr 2048 =? 0
    then set_pc st (R st (band (shr instr 6) 7))
    else set_pc st (wrapping_add (s_pc st) (s_ext instr 11)) in
  Running (set_reg st1 7 ret).

Definition h_ld (instr : N) (st : state) : result :=
  let dr := band (shr instr 9) 7 in
  let val := M st (wrapping_add (s_pc st) (s_ext instr 9)) in
  Running (set_flags (set_reg st dr val) val).

Definition h_ldi (instr : N) (st : state) : result :=
  let dr := band (shr instr 9) 7 in
  let ptr := M st (wrapping_add (s_pc st) (s_ext instr 9)) in
  let val := M st ptr in
  Running (set_flags (set_reg st dr val) val).

Definition h_ldr (instr : N) (st : state) : result :=
  let dr := band (shr instr 9) 7 in
  let br := band (shr instr 6) 7 in
  let ptr := R st br in
  let val := M st (wrapping_add ptr (s_ext instr 6)) in
  Running (set_flags (set_reg st dr val) val).

Definition h_lea (instr : N) (st : state) : result :=
  let dr := band (shr instr 9) 7 in
  let val := wrapping_add (s_pc st) (s_ext instr 9) in
  Running (set_flags (set_reg st dr val) val).

Definition h_not (instr : N) (st : state) : result :=
  let dr := band (shr instr 9) 7 in
  let sr := band (shr instr 6) 7 in
  let val := not16 (R st sr) in
  Running (set_flags (set_reg st dr val) val).

Definition h_rti (instr : N) (st : state) : result := Panicked st.   (* todo!() *)

Definition h_st (instr : N) (st : state) : result :=
  let sr := band (shr instr 9) 7 in
  let val := R st sr in
  Running (set_mem st (wrapping_add (s_pc st) (s_ext instr 9)) val).

Definition h_sti (instr : N) (st : state) : result :=
  let sr := band (shr instr 9) 7 in
  let val := R st sr in
  let ptr := M st (wrapping_add (s_pc st) (s_ext instr 9)) in
  Running (set_mem st ptr val).

Definition h_str (instr : N) (st : state) : result :=
  let sr := band (shr instr 9) 7 in
  let br := band (shr instr 6) 7 in
  let ptr := R st br in
  let val := R st sr in
  Running (set_mem st (wrapping_add ptr (s_ext instr 6)) val).

(* ---- console ---- *)

(** [read_char]: one byte; non-ASCII becomes U+FFFD; end of input exits with status 1. *)
Definition read_char (st : state) : option (N * state) :=
  match s_inp st with
  | [] => None
  | b :: rest => Some (if b <? 128 then b else 65533, set_inp st rest)
  end.

(** The PUTS loop: [for addr in r0.. { chr = mem[addr] & 0xFF; if chr == 0 break; print }],
    the address advancing with [wrapping_add]. *)
Fixpoint puts_loop (fuel : nat) (st : state) (addr : N) : option state :=
  match fuel with
  | O => None
  | S fuel' =>
      let chr := band (M st addr) 255 in
      if chr =? 0 then Some st
      else puts_loop fuel' (emit st chr) (wrapping_add addr 1)
  end.

(** The PUTSP loop: per word [for chr in [raw & 0xFF, raw >> 8] { if chr == 0 break 'string; print }]. *)
Fixpoint putsp_loop (fuel : nat) (st : state) (addr : N) : option state :=
  match fuel with
  | O => None
  | S fuel' =>
      let raw := M st addr in
      let c1 := band raw 255 in
      let c2 := band (shr raw 8) 255 in   (* [(raw >> 8) as u8] *)
      if c1 =? 0 then Some st
      else
        let st1 := emit st c1 in
        if c2 =? 0 then Some st1
        else putsp_loop fuel' (emit st1 c2) (wrapping_add addr 1)
  end.

Definition LOOP_FOREVER : nat := N.to_nat W.

(* ---- Output::print_decimal / print_registers (minimal format) ---- *)

Fixpoint fmt_dec_aux (fuel : nat) (n : N) (acc : list N) : list N :=
  match fuel with
  | O => acc
  | S f => let acc' := (48 + n mod 10) :: acc in
           if n <? 10 then acc' else fmt_dec_aux f (n / 10) acc'
  end.
Definition fmt_u (n : N) : list N := fmt_dec_aux 6 n [].
(** [format!("{}", value as i16)] *)
Definition fmt_i16 (v : N) : list N :=
  if is_neg v then 45 :: fmt_u (W - v) else fmt_u v.

Definition fmt_hexdigit (d : N) : N := if d <? 10 then 48 + d else 97 + (d - 10).
(** [format!("{:04x}", v)] *)
Definition fmt_04x (v : N) : list N :=
  [fmt_hexdigit (band (shr v 12) 15); fmt_hexdigit (band (shr v 8) 15);
   fmt_hexdigit (band (shr v 4) 15); fmt_hexdigit (band v 15)].
(** [format!("{:03b}", v)] for [v < 8] *)
Definition fmt_03b (v : N) : list N :=
  [48 + band (shr v 2) 1; 48 + band (shr v 1) 1; 48 + band v 1].

Definition print_registers_min (st : state) : list N :=
  flat_map (fun i => [82; 48 + i; 32; 120] ++ fmt_04x (R st i) ++ [10]) [0;1;2;3;4;5;6;7]
  ++ [80; 67; 32; 120] ++ fmt_04x (s_pc st) ++ [10]
  ++ [67; 67; 32] ++ fmt_03b (s_cc st) ++ [10].

Definition h_trap (instr : N) (st : state) : result :=
  let trap_vect := band instr 255 in
  match trap_vect with
  | 32 => match read_char st with
          | None => Exited 1 st
          | Some (c, st1) => Running (set_reg st1 0 c)
          end
  | 33 => Running (emit st (band (R st 0) 255))
  | 34 => match puts_loop LOOP_FOREVER st (R st 0) with
          | Some st1 => Running st1 | None => Diverged end
  | 35 => match read_char st with
          | None => Exited 1 st
          | Some (c, st1) => Running (emit (set_reg st1 0 c) c)
          end
  | 36 => match putsp_loop LOOP_FOREVER st (R st 0) with
          | Some st1 => Running st1 | None => Diverged end
  | 37 => Running (emit_list (set_pc st 65535) BANNER)
  | 38 => Running (emit_list st (fmt_i16 (R st 0)))
  | 39 => Running (emit_list st (print_registers_min st))
  | _ => Exited 238 st
  end.

(** [RunState::execute]: dispatch through [OP_TABLE] on [instr >> 12]. *)
Definition execute (feat : bool) (instr : N) (st : state) : result :=
  match shr instr 12 with
  | 0 => h_br instr st
  | 1 => h_add instr st
  | 2 => h_ld instr st
  | 3 => h_st instr st
  | 4 => h_jsr instr st
  | 5 => h_and instr st
  | 6 => h_ldr instr st
  | 7 => h_str instr st
  | 8 => h_rti instr st
  | 9 => h_not instr st
  | 10 => h_ldi instr st
  | 11 => h_sti instr st
  | 12 => h_jmp instr st
  | 13 => h_stack feat instr st
  | 14 => h_lea instr st
  | _ => h_trap instr st
  end.

(* ------------------------------------------------------------------ *)
(** * RunEnvironment::from_raw and the run loop without a debugger *)

Definition MEMORY_MAX : N := 65536.
Definition USER_MEMORY_END : N := 65024.
Definition HALT_ADDRESS : N := 65535.

Inductive load_result := Loaded (st : state) | LoadExit (code : N).

(** [from_raw(raw)]: empty -> exception; [raw[0] + raw.len() > MEMORY_MAX] -> exception;
    memory zeroed, [raw[1..]] copied to [orig..], [mem[orig + raw[1..].len()] = 0xF025]. *)
Definition from_raw (raw : list N) (inp : list N) : load_result :=
  match raw with
  | [] => LoadExit 238
  | orig :: body =>
      if MEMORY_MAX <? orig + N.of_nat (length raw) then LoadExit 238
      else
        let m1 := mstore_list mem_zero orig body in
        let m2 := mset m1 (orig + N.of_nat (length body)) 61477 in
        Loaded (mkState (mkRegs 0 0 0 0 0 0 0 (USER_MEMORY_END - 1)) orig CC_U m2 orig inp [])
  end.

Inductive vm_result :=
| VFinished (st : state)
| VExit (code : N) (st : state)
| VPanic (st : state)
| VHung
| VOutOfFuel (st : state).

(** [check_pc_bounds] *)
Inductive ordering := Less | Equal | Greater.
Definition check_pc_bounds (st : state) : ordering :=
  if s_pc st <? s_orig st then Less
  else if USER_MEMORY_END <=? s_pc st then Greater
  else Equal.

(** The loop of [RunEnvironment::run] with [debugger == None].  [pc += 1] is a plain addition:
    it panics (debug profile) if it overflows. *)
Fixpoint vm_run (feat : bool) (fuel : nat) (st : state) (tr : list (N * N)) : vm_result * list (N * N) :=
  if s_pc st =? HALT_ADDRESS then (VFinished st, tr)
  else match check_pc_bounds st with
       | Less => (VExit 238 st, tr)
       | Greater => (VExit 238 st, tr)
       | Equal =>
           match fuel with
           | O => (VOutOfFuel st, tr)
           | S fuel' =>
               let instr := M st (s_pc st) in
               let tr' := (s_pc st, instr) :: tr in
               if W <=? s_pc st + 1 then (VPanic st, tr')
               else
                 match execute feat instr (set_pc st (s_pc st + 1)) with
                 | Running st' => vm_run feat fuel' st' tr'
                 | Exited c st' => (VExit c st', tr')
                 | Panicked st' => (VPanic st', tr')
                 | Diverged => (VHung, tr')
                 end
           end
       end.
