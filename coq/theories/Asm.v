(* Asm.v — MODEL of lace's assembler: lexer/cursor.rs + lexer/mod.rs (advance_token and its
   helpers), parser.rs (preprocess, unescape, AsmParser::parse and the expect_* functions),
   symbol.rs (Label::insert/try_fill/filled over an explicit symbol table), air.rs (add_stmt,
   backpatch, emit, bit_offs).  Sources are lists of Unicode scalar values; spans are byte
   offsets computed with len_utf8, exactly as the code computes them. *)
From Coq Require Import String Ascii ZArith.
From Lace Require Import Word.
Open Scope N_scope.

(* ------------------------------------------------------------------ *)
(** * Characters *)

Definition str (s : string) : list N := List.map N_of_ascii (list_ascii_of_string s).

Definition len_utf8 (c : N) : N :=
  if c <? 128 then 1 else if c <? 2048 then 2 else if c <? 65536 then 3 else 4.

Fixpoint bytes (l : list N) : N :=
  match l with [] => 0 | c :: r => len_utf8 c + bytes r end.

Definition between (lo c hi : N) : bool := (lo <=? c) && (c <=? hi).

(** [char::is_ascii_whitespace]: space, tab, LF, FF, CR *)
Definition is_ascii_ws (c : N) : bool :=
  (c =? 32) || (c =? 9) || (c =? 10) || (c =? 12) || (c =? 13).
Definition is_whitespace (c : N) : bool := is_ascii_ws c || (c =? 44) || (c =? 58).
Definition is_token_end (c : N) : bool := is_whitespace c || (c =? 59).
Definition is_reg_num (c : N) : bool := between 48 c 55.
Definition is_id (c : N) : bool := between 97 c 122 || between 65 c 90 || between 48 c 57 || (c =? 95).
Definition to_lower (c : N) : N := if between 65 c 90 then c + 32 else c.

Fixpoint leqb (a b : list N) : bool :=
  match a, b with
  | [], [] => true
  | x :: a', y :: b' => (x =? y) && leqb a' b'
  | _, _ => false
  end.

(** Linear-time list reversal ([List.rev] is quadratic). *)
Definition lrev {A} (l : list A) : list A := rev_append l [].

Fixpoint take_while (p : N -> bool) (l : list N) : list N * list N :=
  match l with
  | [] => ([], [])
  | c :: r => if p c then let '(a, b) := take_while p r in (c :: a, b) else ([], l)
  end.

(* ------------------------------------------------------------------ *)
(** * Integer parsing: Rust's [i16::from_str_radix] / [u16::from_str_radix] *)

Definition to_digit (radix c : N) : option N :=
  let d := if between 48 c 57 then Some (c - 48)
           else if between 97 c 122 then Some (c - 87)
           else if between 65 c 90 then Some (c - 55)
           else None in
  match d with
  | Some v => if v <? radix then Some v else None
  | None => None
  end.

Inductive perr := PEmpty | PInvalid | POverflow.
Inductive pres := POk (v : N) | PErr (e : perr).

(** Accumulate digits left to right; the first offending character decides the error: an invalid
    digit is reported when reached, an overflow as soon as the magnitude exceeds [max]. *)
Fixpoint acc_digits (radix max : N) (ds : list N) (acc : N) : pres :=
  match ds with
  | [] => POk acc
  | c :: r =>
      match to_digit radix c with
      | None => PErr PInvalid
      | Some x => let a := acc * radix + x in
                  if max <? a then PErr POverflow else acc_digits radix max r a
      end
  end.

Definition parse_u16 (radix : N) (s : list N) : pres :=
  match s with
  | [] => PErr PEmpty
  | c :: r =>
      match r with
      | [] => if (c =? 43) || (c =? 45) then PErr PInvalid else acc_digits radix 65535 s 0
      | _ :: _ => if c =? 43 then acc_digits radix 65535 r 0 else acc_digits radix 65535 s 0
      end
  end.

(** Result as the 16-bit two's-complement pattern. *)
Definition parse_i16 (radix : N) (s : list N) : pres :=
  match s with
  | [] => PErr PEmpty
  | c :: r =>
      match r with
      | [] => if (c =? 43) || (c =? 45) then PErr PInvalid else acc_digits radix 32767 s 0
      | _ :: _ =>
          if c =? 43 then acc_digits radix 32767 r 0
          else if c =? 45 then
            match acc_digits radix 32768 r 0 with
            | POk m => POk ((65536 - m) mod 65536)
            | PErr e => PErr e
            end
          else acc_digits radix 32767 s 0
      end
  end.

(* ------------------------------------------------------------------ *)
(** * Tokens *)

Inductive instr_kind :=
| IAdd | IAnd | IBr (nzp : N) | IJmp | IJsr | IJsrr | ILd | ILdi | ILdr | ILea | INot | IRet | IRti
| ISt | ISti | IStr | IPop | IPush | ICall | IRets.

Inductive trap_kind := TGeneric | TNamed (vect : N).
Inductive dir_kind := DOrig | DEnd | DStringz | DBlkw | DFill | DBreak.
Inductive lit_kind := LHex (v : N) | LDec (v : N) | LStr.   (* LDec: two's-complement pattern *)

Inductive tkind :=
| KLabel | KInstr (i : instr_kind) | KTrap (t : trap_kind) | KLit (l : lit_kind) | KDir (d : dir_kind)
| KReg (r : N) | KByte (v : N) | KBreakpoint | KWhitespace | KComment | KEof.

Record token := mkTok { tk : tkind; toffs : N; tlen : N; ttext : list N }.

Definition tend (t : token) : N := toffs t + tlen t.

(** Diagnostics, by the code lace attaches (or its message where it attaches none). *)
Inductive diag :=
| E_lex_dir | E_lex_str | E_lex_bad_lit | E_lex_unknown | E_lex_stack
| E_pre_bad_lit | E_pre_no_str
| E_dup_label | E_unexpected | E_eof | E_lit_range | E_too_long
| E_orig_twice | E_label_not_found | E_offset_range.

(** Outcome of any stage.  [Bad]: a Rust panic (never acceptable). *)
Inductive res (A : Type) := Ok (a : A) | Err (d : diag) (at_ : N) (len : N) | Bad (why : N).
Arguments Ok {A} a.
Arguments Err {A} d at_ len.
Arguments Bad {A} why.

(* ------------------------------------------------------------------ *)
(** * Lexer *)

Definition check_directive (lower : list N) : option dir_kind :=
  if leqb lower (str ".orig") then Some DOrig
  else if leqb lower (str ".end") then Some DEnd
  else if leqb lower (str ".stringz") then Some DStringz
  else if leqb lower (str ".blkw") then Some DBlkw
  else if leqb lower (str ".fill") then Some DFill
  else if leqb lower (str ".break") then Some DBreak
  else None.

Definition is_stack_word (id : list N) : bool :=
  leqb id (str "pop") || leqb id (str "push") || leqb id (str "call") || leqb id (str "rets").

Definition check_instruction (id : list N) : tkind :=
  if leqb id (str "add") then KInstr IAdd
  else if leqb id (str "and") then KInstr IAnd
  else if leqb id (str "br") then KInstr (IBr 7)
  else if leqb id (str "brnzp") then KInstr (IBr 7)
  else if leqb id (str "brnz") then KInstr (IBr 6)
  else if leqb id (str "brzp") then KInstr (IBr 3)
  else if leqb id (str "brnp") then KInstr (IBr 5)
  else if leqb id (str "brn") then KInstr (IBr 4)
  else if leqb id (str "brz") then KInstr (IBr 2)
  else if leqb id (str "brp") then KInstr (IBr 1)
  else if leqb id (str "jmp") then KInstr IJmp
  else if leqb id (str "jsr") then KInstr IJsr
  else if leqb id (str "jsrr") then KInstr IJsrr
  else if leqb id (str "ld") then KInstr ILd
  else if leqb id (str "ldi") then KInstr ILdi
  else if leqb id (str "ldr") then KInstr ILdr
  else if leqb id (str "lea") then KInstr ILea
  else if leqb id (str "not") then KInstr INot
  else if leqb id (str "ret") then KInstr IRet
  else if leqb id (str "rti") then KInstr IRti
  else if leqb id (str "st") then KInstr ISt
  else if leqb id (str "sti") then KInstr ISti
  else if leqb id (str "str") then KInstr IStr
  else if leqb id (str "pop") then KInstr IPop
  else if leqb id (str "push") then KInstr IPush
  else if leqb id (str "call") then KInstr ICall
  else if leqb id (str "rets") then KInstr IRets
  else KLabel.

Definition check_trap (id : list N) : tkind :=
  if leqb id (str "trap") then KTrap TGeneric
  else if leqb id (str "getc") then KTrap (TNamed 32)
  else if leqb id (str "out") then KTrap (TNamed 33)
  else if leqb id (str "puts") then KTrap (TNamed 34)
  else if leqb id (str "in") then KTrap (TNamed 35)
  else if leqb id (str "putsp") then KTrap (TNamed 36)
  else if leqb id (str "halt") then KTrap (TNamed 37)
  else if leqb id (str "putn") then KTrap (TNamed 38)
  else if leqb id (str "reg") then KTrap (TNamed 39)
  else KLabel.

(** What the lexer produces for one token: its kind, the consumed characters, the rest. *)
Inductive lexed :=
| LexTok (k : tkind) (consumed : list N) (rest : list N)
| LexErr (d : diag) (start_back : N) (consumed : list N).
   (* error span: starts [start_back] bytes before the token's first character's END, i.e. the
      code's [abs_pos() - 1] conventions are kept: see [advance_token]. *)

(** [ident()]: called with [pre] = the characters of this token consumed so far (non-empty, the
    last one ASCII); the identifier text starts at the last consumed character. *)
Definition ident (feat : bool) (pre rest : list N) : lexed :=
  let '(more, rest') := take_while is_id rest in
  let lastc := last pre 0 in
  let id := List.map to_lower (lastc :: more) in
  if is_stack_word id && negb feat then LexErr E_lex_stack 0 (pre ++ more)
  else
    let k := check_instruction id in
    let k' := match k with KLabel => check_trap id | _ => k end in
    LexTok k' (pre ++ more) rest'.

(** [hex()]: [pre] is "x" or "0x". *)
Definition hex (pre rest : list N) : lexed :=
  let '(digits, rest') := take_while (fun c => negb (is_token_end c)) rest in
  match parse_i16 16 digits with
  | POk v => LexTok (KLit (LHex v)) (pre ++ digits) rest'
  | PErr _ =>
      match parse_u16 16 digits with
      | POk v => LexTok (KLit (LHex v)) (pre ++ digits) rest'
      | PErr POverflow => LexErr E_lex_bad_lit 0 (pre ++ digits)
      | PErr _ => LexTok KLabel (pre ++ digits) rest'
      end
  end.

Definition dec (pre rest : list N) : lexed :=
  let '(digits, rest') := take_while (fun c => negb (is_token_end c)) rest in
  match parse_i16 10 digits with
  | POk v => LexTok (KLit (LDec v)) (pre ++ digits) rest'
  | PErr _ =>
      match parse_u16 10 digits with
      | POk v => LexTok (KLit (LDec v)) (pre ++ digits) rest'
      | PErr _ => LexErr E_lex_bad_lit 0 (pre ++ digits)
      end
  end.

(** [str()]: scan to the closing quote; newline or end of input first is an error; a backslash
    skips one character (whatever it is). Returns (terminated, consumed, rest). *)
Fixpoint str_scan (l : list N) : bool * list N * list N :=
  match l with
  | [] => (false, [], [])
  | c :: r =>
      if c =? 10 then (false, [c], r)
      else if c =? 34 then (true, [c], r)
      else if c =? 92 then
        match r with
        | [] => (false, [c], [])
        | c2 :: r2 => let '(t, a, b) := str_scan r2 in (t, c :: c2 :: a, b)
        end
      else let '(t, a, b) := str_scan r in (t, c :: a, b)
  end.

Definition dir (pre rest : list N) : lexed :=
  let '(more, rest') := take_while is_id rest in
  match check_directive (List.map to_lower (pre ++ more)) with
  | Some d => LexTok (KDir d) (pre ++ more) rest'
  | None => LexErr E_lex_dir 0 (pre ++ more)
  end.

(** [advance_token] on the remaining characters.  [None]: end of input. *)
Definition advance_token (feat : bool) (l : list N) : option lexed :=
  match l with
  | [] => None
  | c :: rest =>
      Some (
      if c =? 59 then
        let '(a, b) := take_while (fun x => negb (x =? 10)) rest in LexTok KComment (c :: a) b
      else if is_whitespace c then
        let '(a, b) := take_while is_whitespace rest in LexTok KWhitespace (c :: a) b
      else if (c =? 120) || (c =? 88) then hex [c] rest
      else if c =? 48 then
        match rest with
        | x :: rest' => if (x =? 120) || (x =? 88) then hex [c; x] rest' else ident feat [c] rest
        | [] => ident feat [c] rest
        end
      else if (c =? 114) || (c =? 82) then
        match rest with
        | d :: _ =>
            if is_reg_num d then
              let '(nums, rest') := take_while is_reg_num rest in
              let next_ok := match rest' with
                             | [] => true
                             | n :: _ => is_token_end n || (n =? 0)
                             end in
              if (N.of_nat (length nums) =? 1) && next_ok
              then LexTok (KReg (d - 48)) (c :: nums) rest'
              else ident feat (c :: nums) rest'
            else ident feat [c] rest
        | [] => ident feat [c] rest
        end
      else if is_id c then ident feat [c] rest
      else if c =? 35 then dec [c] rest
      else if c =? 46 then dir [c] rest
      else if c =? 34 then
        let '(t, a, b) := str_scan rest in
        if t then LexTok (KLit LStr) (c :: a) b else LexErr E_lex_str 0 (c :: a)
      else
        let '(a, b) := take_while (fun x => negb (is_whitespace x)) rest in
        LexErr E_lex_unknown (len_utf8 c - 1) (c :: a))
  end.

(** A token with its span, the rest and the new position; errors carry their span. *)
Inductive lex_step :=
| StepTok (t : token) (rest : list N) (pos : N)
| StepErr (d : diag) (at_ : N) (len : N).

Definition lex_at (feat : bool) (l : list N) (pos : N) : lex_step :=
  match advance_token feat l with
  | None => StepTok (mkTok KEof 0 0 []) [] pos
  | Some (LexTok k consumed rest) =>
      StepTok (mkTok k pos (bytes consumed) consumed) rest (pos + bytes consumed)
  | Some (LexErr d back consumed) =>
      (* the code's span starts at [abs_pos() - 1] taken right after the first [bump]:
         that is [pos + len_utf8 first - 1] for unknown tokens, [pos] for the others *)
      StepErr d (pos + back) (bytes consumed - back)
  end.

(** [advance_real]: skip one whitespace token. *)
Definition advance_real (feat : bool) (l : list N) (pos : N) : lex_step :=
  match lex_at feat l pos with
  | StepTok t rest pos' =>
      match tk t with
      | KWhitespace => lex_at feat rest pos'
      | _ => StepTok t rest pos'
      end
  | e => e
  end.

(* ------------------------------------------------------------------ *)
(** * Preprocessing *)

Fixpoint unescape (s : list N) : list N :=
  match s with
  | [] => []
  | c :: r =>
      if c =? 92 then
        match r with
        | [] => [92]
        | e :: r2 =>
            if e =? 110 then 10 :: unescape r2
            else if e =? 116 then 9 :: unescape r2
            else if e =? 114 then 13 :: unescape r2
            else if e =? 92 then 92 :: unescape r2
            else if e =? 34 then 34 :: unescape r2
            else 92 :: e :: unescape r2
        end
      else c :: unescape r
  end.

Definition span_join (o1 l1 o2 l2 : N) : N * N :=
  let offs := N.min o1 o2 in
  let e := N.max (o1 + l1) (o2 + l2) in
  (offs, e - offs).

Definition byte_tok (v : N) (sp : N * N) : token := mkTok (KByte v) (fst sp) (snd sp) [].

Definition strip_quotes (t : list N) : list N := removelast (tl t).

(** [preprocess]: the token list the parser sees.  Each round consumes at least one character,
    so [fuel] = length of the source + 1 always suffices. *)
Fixpoint preprocess (feat : bool) (fuel : nat) (l : list N) (pos : N) (acc : list token)
  : res (list token) :=
  match fuel with
  | O => Bad 1
  | S fuel' =>
      match advance_real feat l pos with
      | StepErr d a n => Err d a n
      | StepTok t rest pos' =>
          match tk t with
          | KDir DFill =>
              match advance_real feat rest pos' with
              | StepErr d a n => Err d a n
              | StepTok v rest2 pos2 =>
                  let sp := span_join (toffs t) (tlen t) (toffs v) (tlen v) in
                  match tk v with
                  | KLit (LHex x) => preprocess feat fuel' rest2 pos2 (byte_tok x sp :: acc)
                  | KLit (LDec x) => preprocess feat fuel' rest2 pos2 (byte_tok x sp :: acc)
                  | _ => Err E_pre_bad_lit (toffs v) (tlen v)
                  end
              end
          | KDir DBlkw =>
              match advance_real feat rest pos' with
              | StepErr d a n => Err d a n
              | StepTok v rest2 pos2 =>
                  let sp := span_join (toffs t) (tlen t) (toffs v) (tlen v) in
                  match tk v with
                  | KLit (LHex x) | KLit (LDec x) =>
                      preprocess feat fuel' rest2 pos2 (repeat (byte_tok 0 sp) (N.to_nat x) ++ acc)
                  | _ => Err E_pre_bad_lit (toffs v) (tlen v)
                  end
              end
          | KDir DStringz =>
              match advance_real feat rest pos' with
              | StepErr d a n => Err d a n
              | StepTok v rest2 pos2 =>
                  match tk v with
                  | KLit LStr =>
                      let sp := span_join (toffs t) (tlen t) (toffs v) (tlen v) in
                      let chars := unescape (strip_quotes (ttext v)) in
                      let toks := List.map (fun c => byte_tok (c mod 65536) sp) chars in
                      preprocess feat fuel' rest2 pos2 (byte_tok 0 sp :: lrev toks ++ acc)
                  | _ => Err E_pre_no_str (toffs v) (tlen v)
                  end
              end
          | KDir DBreak =>
              preprocess feat fuel' rest pos' (mkTok KBreakpoint (toffs t) (tlen t) [] :: acc)
          | KComment | KWhitespace => preprocess feat fuel' rest pos' acc
          | KEof | KDir DEnd => Ok (lrev acc)
          | _ => preprocess feat fuel' rest pos' (t :: acc)
          end
      end
  end.

(* ------------------------------------------------------------------ *)
(** * AIR *)

Inductive imm_or_reg := IReg (r : N) | IImm5 (v : N).          (* Imm5: the [u8] kept by the parser *)
Inductive label := LRef (line : N) | LUnfilled (name : list N).

Inductive stmt :=
| SAdd (d s : N) (x : imm_or_reg)
| SAnd (d s : N) (x : imm_or_reg)
| SBranch (flag : N) (l : label)
| SJump (r : N)
| SJumpSub (l : label)
| SJumpSubReg (r : N)
| SLoad (d : N) (l : label)
| SLoadInd (d : N) (l : label)
| SLoadOffs (d s off : N)
| SLoadEAddr (d : N) (l : label)
| SNot (d s : N)
| SReturn
| SInterrupt
| SStore (s : N) (l : label)
| SStoreInd (s : N) (l : label)
| SStoreOffs (s d off : N)
| SPush (r : N)
| SPop (r : N)
| SCall (l : label)
| SRets
| SRawWord (v : N)
| STrap (v : N).

Record asm_line := mkLine { al_line : N; al_stmt : stmt; al_offs : N; al_len : N }.

(** The symbol table: name -> line.  Kept across assemblies until [reset_state]. *)
Definition symtab := list (list N * N).

Fixpoint sym_get (s : symtab) (name : list N) : option N :=
  match s with
  | [] => None
  | (k, v) :: r => if leqb k name then Some v else sym_get r name
  end.

(** [HashMap::insert]: the value is replaced when the key exists. *)
Fixpoint sym_put (s : symtab) (name : list N) (v : N) : symtab :=
  match s with
  | [] => [(name, v)]
  | (k, old) :: r => if leqb k name then (k, v) :: r else (k, old) :: sym_put r name v
  end.

Definition try_fill (s : symtab) (name : list N) : label :=
  match sym_get s name with Some v => LRef v | None => LUnfilled name end.

(** Breakpoints: sorted insertion without duplicates ([Breakpoints::insert]). *)
Fixpoint bp_insert (l : list (N * bool)) (b : N * bool) : list (N * bool) :=
  match l with
  | [] => [b]
  | o :: r =>
      if fst o =? fst b then l
      else if fst b <=? fst o then b :: l
      else o :: bp_insert r b
  end.

Record air := mkAir {
  a_orig : option N;
  a_ast : list asm_line;          (* in source order *)
  a_bps : list (N * bool)
}.

(* ------------------------------------------------------------------ *)
(** * Parser *)

Inductive bits := Signed (n : N) | Unsigned (n : N).

Definition check_range (b : bits) (val : N) : bool :=
  match b with
  | Signed n =>
      let range := 2 ^ (n - 1) in
      (* val as i16 in -range..range *)
      if val <? 32768 then val <? range else 65536 - range <=? val
  | Unsigned n => val <? 2 ^ n
  end.

(** Parser state inside one statement: remaining tokens and [tok_end]. *)
Definition pst := (list token * N)%type.

Definition unexpected {A} (t : token) : res A := Err E_unexpected (toffs t) (tlen t).

Definition expect_lit (b : bits) (p : pst) (srclen : N) : res (N * pst) :=
  match fst p with
  | [] => Err E_eof (srclen - 1) 0
  | t :: r =>
      match tk t with
      | KLit (LDec v) | KLit (LHex v) =>
          if check_range b v then Ok (v, (r, tend t)) else Err E_lit_range (toffs t) (tlen t)
      | _ => unexpected t
      end
  end.

Definition expect_reg (p : pst) (srclen : N) : res (N * pst) :=
  match fst p with
  | [] => Err E_eof (srclen - 1) 0
  | t :: r =>
      match tk t with
      | KReg x => Ok (x, (r, tend t))
      | _ => unexpected t
      end
  end.

Definition expect_lit_or_reg (p : pst) (srclen : N) : res (imm_or_reg * pst) :=
  match fst p with
  | [] => Err E_eof (srclen - 1) 0
  | t :: _ =>
      match tk t with
      | KReg _ => match expect_reg p srclen with
                  | Ok (x, p') => Ok (IReg x, p') | Err d a n => Err d a n | Bad w => Bad w end
      | KLit _ => match expect_lit (Signed 5) p srclen with
                  | Ok (v, p') => Ok (IImm5 (v mod 256), p') | Err d a n => Err d a n | Bad w => Bad w end
      | _ => unexpected t
      end
  end.

Definition expect_label (sym : symtab) (p : pst) (srclen : N) : res (label * pst) :=
  match fst p with
  | [] => Err E_eof (srclen - 1) 0
  | t :: r =>
      match tk t with
      | KLabel => Ok (try_fill sym (ttext t), (r, tend t))
      | _ => unexpected t
      end
  end.

Definition expect_lit_or_label (sym : symtab) (line : N) (nbits : N) (p : pst) (srclen : N)
  : res (label * pst) :=
  match fst p with
  | [] => Err E_eof (srclen - 1) 0
  | t :: _ =>
      match tk t with
      | KLabel => expect_label sym p srclen
      | KLit _ => match expect_lit (Signed nbits) p srclen with
                  | Ok (v, p') => Ok (LRef (wrap (wrap (line + 1) + v)), p')
                  | Err d a n => Err d a n | Bad w => Bad w end
      | _ => unexpected t
      end
  end.

Definition bind {A B} (x : res A) (f : A -> res B) : res B :=
  match x with Ok a => f a | Err d a n => Err d a n | Bad w => Bad w end.

Definition parse_instr (sym : symtab) (line : N) (k : instr_kind) (p : pst) (srclen : N)
  : res (stmt * pst) :=
  match k with
  | IPush => bind (expect_reg p srclen) (fun '(r, p1) => Ok (SPush r, p1))
  | IPop => bind (expect_reg p srclen) (fun '(r, p1) => Ok (SPop r, p1))
  | ICall => bind (expect_label sym p srclen) (fun '(l, p1) => Ok (SCall l, p1))
  | IRets => Ok (SRets, p)
  | IAdd => bind (expect_reg p srclen) (fun '(d, p1) =>
            bind (expect_reg p1 srclen) (fun '(s, p2) =>
            bind (expect_lit_or_reg p2 srclen) (fun '(x, p3) => Ok (SAdd d s x, p3))))
  | IAnd => bind (expect_reg p srclen) (fun '(d, p1) =>
            bind (expect_reg p1 srclen) (fun '(s, p2) =>
            bind (expect_lit_or_reg p2 srclen) (fun '(x, p3) => Ok (SAnd d s x, p3))))
  | IBr f => bind (expect_lit_or_label sym line 9 p srclen) (fun '(l, p1) => Ok (SBranch f l, p1))
  | IJmp => bind (expect_reg p srclen) (fun '(r, p1) => Ok (SJump r, p1))
  | IJsr => bind (expect_lit_or_label sym line 11 p srclen) (fun '(l, p1) => Ok (SJumpSub l, p1))
  | IJsrr => bind (expect_reg p srclen) (fun '(r, p1) => Ok (SJumpSubReg r, p1))
  | ILd => bind (expect_reg p srclen) (fun '(d, p1) =>
           bind (expect_lit_or_label sym line 9 p1 srclen) (fun '(l, p2) => Ok (SLoad d l, p2)))
  | ILdi => bind (expect_reg p srclen) (fun '(d, p1) =>
            bind (expect_lit_or_label sym line 9 p1 srclen) (fun '(l, p2) => Ok (SLoadInd d l, p2)))
  | ILdr => bind (expect_reg p srclen) (fun '(d, p1) =>
            bind (expect_reg p1 srclen) (fun '(s, p2) =>
            bind (expect_lit (Signed 6) p2 srclen) (fun '(v, p3) => Ok (SLoadOffs d s (v mod 256), p3))))
  | ILea => bind (expect_reg p srclen) (fun '(d, p1) =>
            bind (expect_lit_or_label sym line 9 p1 srclen) (fun '(l, p2) => Ok (SLoadEAddr d l, p2)))
  | INot => bind (expect_reg p srclen) (fun '(d, p1) =>
            bind (expect_reg p1 srclen) (fun '(s, p2) => Ok (SNot d s, p2)))
  | IRet => Ok (SReturn, p)
  | IRti => Ok (SInterrupt, p)
  | ISt => bind (expect_reg p srclen) (fun '(s, p1) =>
           bind (expect_lit_or_label sym line 9 p1 srclen) (fun '(l, p2) => Ok (SStore s l, p2)))
  | ISti => bind (expect_reg p srclen) (fun '(s, p1) =>
            bind (expect_lit_or_label sym line 9 p1 srclen) (fun '(l, p2) => Ok (SStoreInd s l, p2)))
  | IStr => bind (expect_reg p srclen) (fun '(s, p1) =>
            bind (expect_reg p1 srclen) (fun '(d, p2) =>
            bind (expect_lit (Signed 6) p2 srclen) (fun '(v, p3) => Ok (SStoreOffs s d (v mod 256), p3))))
  end.

Definition parse_trap (k : trap_kind) (p : pst) (srclen : N) : res (stmt * pst) :=
  match k with
  | TGeneric => bind (expect_lit (Unsigned 8) p srclen) (fun '(v, p1) => Ok (STrap (v mod 256), p1))
  | TNamed v => Ok (STrap v, p)
  end.

Record parser := mkParser {
  p_toks : list token;
  p_air : air;            (* ast kept reversed while parsing *)
  p_line : N;
  p_tok_end : N;
  p_sym : symtab;
  p_count : N            (* = number of statements in p_air (air.len()), kept to avoid recounting *)
}.

(** [AsmParser::parse].  Every round consumes a token or stops: fuel = #tokens + 1 suffices. *)
Fixpoint parse (fuel : nat) (srclen : N) (ps : parser) : res (air * symtab) * symtab :=
  match fuel with
  | O => (Bad 2, p_sym ps)
  | S fuel' =>
      (* optional prefix label *)
      let '(labeled, toks1, sym1, dup) :=
        match p_toks ps with
        | t :: r =>
            match tk t with
            | KLabel =>
                let existed := match sym_get (p_sym ps) (ttext t) with Some _ => true | None => false end in
                (true, r, sym_put (p_sym ps) (ttext t) (p_line ps), if existed then Some t else None)
            | _ => (false, p_toks ps, p_sym ps, None)
            end
        | [] => (false, [], p_sym ps, None)
        end in
      match dup with
      | Some t => (Err E_dup_label (toffs t) (tlen t), sym1)
      | None =>
        match toks1 with
        | [] =>
            if labeled then (Err E_eof (srclen - 1) 0, sym1)
            else (Ok (mkAir (a_orig (p_air ps)) (lrev (a_ast (p_air ps))) (a_bps (p_air ps)), sym1), sym1)
        | t :: r =>
            let finish (x : res (stmt * pst)) :=
              match x with
              | Err d a n => (Err d a n, sym1)
              | Bad w => (Bad w, sym1)
              | Ok (s, (toks2, tok_end2)) =>
                  let len := if tok_end2 <=? toffs t then tlen t else tok_end2 - toffs t in
                  let n := p_count ps in
                  let ln := mkLine (wrap (n + 1)) s (toffs t) len in
                  let air' := mkAir (a_orig (p_air ps)) (ln :: a_ast (p_air ps)) (a_bps (p_air ps)) in
                  if p_line ps + 1 <? W
                  then parse fuel' srclen (mkParser toks2 air' (p_line ps + 1) tok_end2 sym1 (p_count ps + 1))
                  else (Err E_too_long (srclen - 1) 0, sym1)
              end in
            match tk t with
            | KLabel | KLit _ | KReg _ => (unexpected t, sym1)
            | KDir DOrig =>
                match expect_lit (Unsigned 16) (r, p_tok_end ps) srclen with
                | Err d a n => (Err d a n, sym1)
                | Bad w => (Bad w, sym1)
                | Ok (v, (toks2, tok_end2)) =>
                    match a_orig (p_air ps) with
                    | Some _ => (Err E_orig_twice 0 0, sym1)
                    | None =>
                        parse fuel' srclen
                          (mkParser toks2 (mkAir (Some v) (a_ast (p_air ps)) (a_bps (p_air ps)))
                                    (p_line ps) tok_end2 sym1 (p_count ps))
                    end
                end
            | KBreakpoint =>
                let addr := wrap (p_count ps) in
                parse fuel' srclen
                  (mkParser r (mkAir (a_orig (p_air ps)) (a_ast (p_air ps)) (bp_insert (a_bps (p_air ps)) (addr, true)))
                            (p_line ps) (p_tok_end ps) sym1 (p_count ps))
            | KInstr k => finish (parse_instr sym1 (p_line ps) k (r, p_tok_end ps) srclen)
            | KTrap k => finish (parse_trap k (r, p_tok_end ps) srclen)
            | KByte v => finish (Ok (SRawWord v, (r, p_tok_end ps)))
            | KDir _ => (Bad 5, sym1)      (* assert!(dir == DirKind::Orig) *)
            | KWhitespace | KComment | KEof => (Bad 3, sym1)
            end
        end
      end
  end.

(* ------------------------------------------------------------------ *)
(** * Backpatching and emission *)

Definition fill (sym : symtab) (l : label) : res label :=
  match l with
  | LRef _ => Ok l
  | LUnfilled name => match sym_get sym name with
                      | Some v => Ok (LRef v)
                      | None => Err E_label_not_found 0 0
                      end
  end.

Definition backpatch_stmt (sym : symtab) (s : stmt) : res stmt :=
  match s with
  | SBranch f l => bind (fill sym l) (fun l' => Ok (SBranch f l'))
  | SJumpSub l => bind (fill sym l) (fun l' => Ok (SJumpSub l'))
  | SLoad d l => bind (fill sym l) (fun l' => Ok (SLoad d l'))
  | SLoadInd d l => bind (fill sym l) (fun l' => Ok (SLoadInd d l'))
  | SLoadEAddr d l => bind (fill sym l) (fun l' => Ok (SLoadEAddr d l'))
  | SStore r l => bind (fill sym l) (fun l' => Ok (SStore r l'))
  | SStoreInd r l => bind (fill sym l) (fun l' => Ok (SStoreInd r l'))
  | SCall l => bind (fill sym l) (fun l' => Ok (SCall l'))
  | _ => Ok s
  end.

Fixpoint backpatch (sym : symtab) (ls : list asm_line) : res (list asm_line) :=
  match ls with
  | [] => Ok []
  | ln :: r =>
      bind (backpatch_stmt sym (al_stmt ln)) (fun s' =>
      bind (backpatch sym r) (fun r' => Ok (mkLine (al_line ln) s' (al_offs ln) (al_len ln) :: r')))
  end.

Open Scope Z_scope.

(** [bit_offs]: distance between the referenced line and this line, minus one, range-checked for
    [nbits] and truncated to the field. *)
Definition bit_offs (line : N) (l : label) (nbits : N) : res N :=
  match l with
  | LUnfilled _ => Bad 4
  | LRef r =>
      let d16 := ((r + 65536 - line) mod 65536)%N in
      let z := if (d16 <? 32768)%N then Z.of_N d16 else Z.of_N d16 - 65536 in
      let off := z - 1 in
      let lim := 2 ^ (Z.of_N nbits - 1) - (if 0 <? off then 1 else 0) in
      if lim <? Z.abs off then Err E_offset_range 0 0
      else Ok (Z.to_N (off mod 2 ^ Z.of_N nbits))
  end.

Close Scope Z_scope.

Definition imm_bits (x : imm_or_reg) : N :=
  match x with
  | IReg r => r
  | IImm5 v => N.lor (N.land v 31) 32
  end.

Definition orl (a b : N) : N := N.lor a b.
Definition shl (a k : N) : N := N.shiftl a k.

Definition emit (ln : asm_line) : res N :=
  let line := al_line ln in
  match al_stmt ln with
  | SAdd d s x => Ok (orl (orl (orl 4096 (shl d 9)) (shl s 6)) (imm_bits x))
  | SAnd d s x => Ok (orl (orl (orl 20480 (shl d 9)) (shl s 6)) (imm_bits x))
  | SBranch f l => bind (bit_offs line l 9) (fun o => Ok (orl (orl 0 (shl f 9)) o))
  | SJump r => Ok (orl 49152 (shl r 6))
  | SJumpSub l => bind (bit_offs line l 11) (fun o => Ok (orl 18432 o))
  | SJumpSubReg r => Ok (orl 16384 (shl r 6))
  | SLoad d l => bind (bit_offs line l 9) (fun o => Ok (orl (orl 8192 (shl d 9)) o))
  | SLoadInd d l => bind (bit_offs line l 9) (fun o => Ok (orl (orl 40960 (shl d 9)) o))
  | SLoadOffs d s off => Ok (orl (orl (orl 24576 (shl d 9)) (shl s 6)) (N.land off 63))
  | SLoadEAddr d l => bind (bit_offs line l 9) (fun o => Ok (orl (orl 57344 (shl d 9)) o))
  | SNot d s => Ok (orl (orl (orl 36864 (shl d 9)) (shl s 6)) 63)
  | SReturn => Ok 49600
  | SInterrupt => Ok 32768
  | SStore s l => bind (bit_offs line l 9) (fun o => Ok (orl (orl 12288 (shl s 9)) o))
  | SStoreInd s l => bind (bit_offs line l 9) (fun o => Ok (orl (orl 45056 (shl s 9)) o))
  | SStoreOffs s d off => Ok (orl (orl (orl 28672 (shl s 9)) (shl d 6)) (N.land off 63))
  | SPush r => Ok (orl (orl 53248 1024) (shl r 6))
  | SPop r => Ok (orl 53248 (shl r 6))
  | SCall l => bind (bit_offs line l 10) (fun o => Ok (orl (orl 53248 3072) o))
  | SRets => Ok (orl 53248 2048)
  | SRawWord v => Ok v
  | STrap v => Ok (orl 61440 v)
  end.

Fixpoint emit_all (ls : list asm_line) : res (list N) :=
  match ls with
  | [] => Ok []
  | ln :: r => bind (emit ln) (fun w => bind (emit_all r) (fun ws => Ok (w :: ws)))
  end.

(* ------------------------------------------------------------------ *)
(** * The whole assembler *)

Record image := mkImage {
  i_orig : option N;
  i_words : list N;
  i_bps : list (N * bool);
  i_spans : list (N * N)          (* statement spans (byte offset, byte length) *)
}.

(** [assemble()] of main.rs: preprocess, parse, backpatch. *)
Definition assemble_air (feat : bool) (sym0 : symtab) (src : list N) : res air * symtab :=
  match preprocess feat (S (length src)) src 0 [] with
  | Err d a n => (Err d a n, sym0)
  | Bad w => (Bad w, sym0)
  | Ok toks =>
      let '(r, sym1) := parse (S (length toks)) (bytes src)
                              (mkParser toks (mkAir None [] []) 1 0 sym0 0) in
      match r with
      | Err d a n => (Err d a n, sym1)
      | Bad w => (Bad w, sym1)
      | Ok (a, _) =>
          match backpatch sym1 (a_ast a) with
          | Err d x n => (Err d x n, sym1)
          | Bad w => (Bad w, sym1)
          | Ok ast' => (Ok (mkAir (a_orig a) ast' (a_bps a)), sym1)
          end
      end
  end.

(** ... followed by the emission of every statement. *)
Definition assemble (feat : bool) (sym0 : symtab) (src : list N) : res image * symtab :=
  let '(r, sym1) := assemble_air feat sym0 src in
  match r with
  | Err d a n => (Err d a n, sym1)
  | Bad w => (Bad w, sym1)
  | Ok a =>
      match emit_all (a_ast a) with
      | Err d x n => (Err d x n, sym1)
      | Bad w => (Bad w, sym1)
      | Ok ws => (Ok (mkImage (a_orig a) ws (a_bps a)
                              (List.map (fun ln => (al_offs ln, al_len ln)) (a_ast a))), sym1)
      end
  end.
