(* AsmOrig.v — THEOREM: `.orig` appears at most once: a second one is rejected with "origin set
   twice", and the origin, once set, is the one the image carries. *)
From Coq Require Import List NArith Bool Lia.
From Lace Require Import Word Machine Isa Vm Asm AsmLayout.
Import ListNotations.
Open Scope N_scope.

(** One round of the parser on a `.orig` statement whose operand is acceptable: rejected when an
    origin is already recorded, recorded otherwise. *)
Theorem orig_round rec n ps labeled t r sym1 v toks2 te2 :
  tk t = KDir DOrig ->
  expect_lit (Unsigned 16) (r, p_tok_end ps) n = Ok (v, (toks2, te2)) ->
  stmt_part rec n ps labeled (t :: r) sym1 =
  match a_orig (p_air ps) with
  | Some _ => (Err E_orig_twice 0 0, sym1)
  | None => rec (mkParser toks2 (mkAir (Some v) (a_ast (p_air ps)) (a_bps (p_air ps)))
                          (p_line ps) te2 sym1 (p_count ps))
  end.
Proof. intros Ht He. unfold stmt_part. rewrite Ht, He. reflexivity. Qed.

(** The recorded origin never changes: whatever follows, the parse fails or ends with that origin. *)
Definition keeps_orig (o : N) (r : res (air * symtab) * symtab) : Prop :=
  match fst r with
  | Ok (a, _) => a_orig a = Some o
  | _ => True
  end.

Lemma stmt_part_keeps rec n ps labeled toks1 sym1 o :
  (forall q, a_orig (p_air q) = Some o -> keeps_orig o (rec q)) ->
  a_orig (p_air ps) = Some o ->
  keeps_orig o (stmt_part rec n ps labeled toks1 sym1).
Proof.
  intros Hrec Ho. unfold stmt_part, keeps_orig.
  destruct toks1 as [|t r]; [destruct labeled; cbn; [exact I|exact Ho]|].
  assert (Hfin : forall x : res (stmt * pst),
     match fst (match x with
                | Err d a n0 => (Err d a n0, sym1) | Bad w => (Bad w, sym1)
                | Ok (s, (toks2, tok_end2)) =>
                    if p_line ps + 1 <? W
                    then rec (mkParser toks2 (mkAir (a_orig (p_air ps))
                                (mkLine (wrap (p_count ps + 1)) s (toffs t)
                                   (if tok_end2 <=? toffs t then tlen t else tok_end2 - toffs t) :: a_ast (p_air ps))
                                (a_bps (p_air ps))) (p_line ps + 1) tok_end2 sym1 (p_count ps + 1))
                    else (Err E_too_long (n - 1) 0, sym1)
                end) with
     | Ok (a, _) => a_orig a = Some o
     | _ => True
     end).
  { intros x. destruct x as [[s [toks2 te2]]| |]; cbn [fst]; try exact I.
    destruct (p_line ps + 1 <? W); [|exact I]. apply Hrec. exact Ho. }
  destruct (tk t) as [| | |l|d| | | | | |]; cbn [unexpected fst]; try exact I; try apply Hfin.
  - destruct d; cbn [fst]; try exact I.
    destruct (expect_lit (Unsigned 16) (r, p_tok_end ps) n) as [[v [toks2 te2]]| |]; cbn [fst]; try exact I.
    rewrite Ho. exact I.
  - match goal with v : N |- _ => exact (Hfin (Ok (SRawWord v, (r, p_tok_end ps)))) end.
  - apply Hrec. exact Ho.
Qed.

Theorem parse_keeps_orig : forall fuel n ps o, a_orig (p_air ps) = Some o -> keeps_orig o (parse fuel n ps).
Proof.
  induction fuel as [|fuel IH]; intros n ps o Ho; [exact I|].
  rewrite parse_round.
  destruct (p_toks ps) as [|t r]; [apply stmt_part_keeps; [intros q; apply IH|exact Ho]|].
  destruct (tk t); try (apply stmt_part_keeps; [intros q; apply IH|exact Ho]).
  destruct (sym_get (p_sym ps) (ttext t)); [exact I|]. apply stmt_part_keeps; [intros q; apply IH|exact Ho].
Qed.
