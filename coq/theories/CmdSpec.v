(* CmdSpec.v — SPEC of the debugger's command language (property C14).

   Written from the documentation, not from the parser: src/debugger/help.txt (the commands, their
   short forms, their arguments, the three forms of an `Address+`), the property text ("integers
   with optional sign, optional single leading zero and #/x/o/b prefix, registers, label
   plus/minus offset, ^offset") and the alias tables (the lists of names the debugger documents as
   accepted, and as "did you mean" misspellings).

   A line, a token, a name are lists of Unicode scalar values ([N]).  Integer values are [Z].
   The grammar is given as inductive relations ([IntSyn], [RegSyn], [LabelSyn], [PcOffSyn],
   [MemLocSyn], [LocSyn], [ArgsSyn], [LineSyn]); the only functions are the obvious ones: the
   positional value of a digit string, splitting a line at spaces, splitting a script at `;` and
   newline, trimming white space, and looking a word up in a table. *)
From Coq Require Import List NArith ZArith Bool String Ascii Lia.
Import ListNotations.
Open Scope N_scope.

(* ------------------------------------------------------------------ *)
(** * Characters and text *)

Definition str (s : string) : list N := map N_of_ascii (list_ascii_of_string s).

Definition between (lo c hi : N) : bool := (lo <=? c) && (c <=? hi).

Definition c_plus : N := 43.     Definition c_minus : N := 45.   Definition c_hash : N := 35.
Definition c_zero : N := 48.     Definition c_caret : N := 94.   Definition c_space : N := 32.
Definition c_semi : N := 59.     Definition c_newline : N := 10. Definition c_under : N := 95.

Definition is_lower (c : N) : bool := between 97 c 122.
Definition is_upper (c : N) : bool := between 65 c 90.
Definition is_decimal (c : N) : bool := between 48 c 57.

(** ASCII lower-casing (commands are matched without regard to ASCII letter case). *)
Definition lower (c : N) : N := if is_upper c then c + 32 else c.

Fixpoint leqb (a b : list N) : bool :=
  match a, b with
  | [], [] => true
  | x :: a', y :: b' => (x =? y) && leqb a' b'
  | _, _ => false
  end.

(** Equal up to ASCII letter case. *)
Definition ieq (a b : list N) : bool := leqb (map lower a) (map lower b).

(** Unicode White_Space (what "trimming a line" removes). *)
Definition is_white (c : N) : bool :=
  between 9 c 13 || (c =? 32) || (c =? 133) || (c =? 160) || (c =? 5760) || between 8192 c 8202
  || (c =? 8232) || (c =? 8233) || (c =? 8239) || (c =? 8287) || (c =? 12288).

Fixpoint drop_while (p : N -> bool) (l : list N) : list N :=
  match l with
  | [] => []
  | c :: r => if p c then drop_while p r else l
  end.

Definition trim (l : list N) : list N := rev (drop_while is_white (rev (drop_while is_white l))).

(* ------------------------------------------------------------------ *)
(** * Integers

    [sign] digits                       decimal
    [sign] "#" [sign] digits            decimal
    [sign] ["0"] (b|o|x) [sign] digits  binary, octal, hexadecimal (prefix letter in either case)

    with at most one sign in total, at least one digit, digits of the radix (hex digits in either
    case), the value being the number as written, of magnitude at most 2^31 - 1. *)

Definition i32_max : Z := 2147483647.

Definition digit_of (radix : Z) (c : N) : option Z :=
  let d := if between 48 c 57 then Some (Z.of_N c - 48)%Z
           else if between 97 c 102 then Some (Z.of_N c - 87)%Z
           else if between 65 c 70 then Some (Z.of_N c - 55)%Z
           else None in
  match d with
  | Some v => if (v <? radix)%Z then Some v else None
  | None => None
  end.

(** Positional value of a digit string, most significant digit first ([None]: some character is
    not a digit of the radix). *)
Fixpoint digits_value (radix : Z) (ds : list N) (acc : Z) : option Z :=
  match ds with
  | [] => Some acc
  | c :: r => match digit_of radix c with
              | Some d => digits_value radix r (acc * radix + d)%Z
              | None => None
              end
  end.

Inductive SignSyn : list N -> Z -> Prop :=
| Sg_none : SignSyn [] 1%Z
| Sg_plus : SignSyn [43] 1%Z
| Sg_minus : SignSyn [45] (-1)%Z.

Definition radix_letter (c : N) : option Z :=
  if (c =? 98) || (c =? 66) then Some 2%Z           (* b B *)
  else if (c =? 111) || (c =? 79) then Some 8%Z     (* o O *)
  else if (c =? 120) || (c =? 88) then Some 16%Z    (* x X *)
  else None.

(** A radix prefix: `#`, or a radix letter optionally preceded by a single zero. *)
Inductive RadixSyn : list N -> Z -> Prop :=
| Rx_hash : RadixSyn [35] 10%Z
| Rx_letter : forall c r, radix_letter c = Some r -> RadixSyn [c] r
| Rx_zero_letter : forall c r, radix_letter c = Some r -> RadixSyn [48; c] r.

Inductive IntSyn : list N -> Z -> Prop :=
| Int_plain : forall sg k ds m,
    SignSyn sg k -> ds <> [] -> digits_value 10 ds 0 = Some m -> (m <= i32_max)%Z ->
    IntSyn (sg ++ ds) (k * m)%Z
| Int_prefixed : forall sg1 k1 px r sg2 k2 ds m,
    SignSyn sg1 k1 -> RadixSyn px r -> SignSyn sg2 k2 -> (sg1 = [] \/ sg2 = []) ->
    ds <> [] -> digits_value r ds 0 = Some m -> (m <= i32_max)%Z ->
    IntSyn (sg1 ++ px ++ sg2 ++ ds) (k1 * k2 * m)%Z.

(** An integer that begins with its sign (the offset of a label). *)
Definition SignedIntSyn (s : list N) (v : Z) : Prop :=
  IntSyn s v /\ exists c r, s = c :: r /\ (c = 43 \/ c = 45).

Definition fits_u16 (v : Z) : Prop := (0 <= v <= 65535)%Z.
Definition fits_i16 (v : Z) : Prop := (-32768 <= v <= 32767)%Z.

(** An integer *value* argument (`move`'s VALUE, `step into`'s COUNT) is a 16-bit pattern:
    non-negative numbers up to 65535 as they are, negative numbers down to -32768 in two's
    complement. *)
Inductive ValueSyn : list N -> Z -> Prop :=
| Val_nonneg : forall s v, IntSyn s v -> (0 <= v <= 65535)%Z -> ValueSyn s v
| Val_neg : forall s v, IntSyn s v -> (-32768 <= v < 0)%Z -> ValueSyn s (v + 65536)%Z.

(* ------------------------------------------------------------------ *)
(** * Registers, labels, PC offsets, locations *)

Inductive RegSyn : list N -> Z -> Prop :=
| Reg_intro : forall c d, (c = 114 \/ c = 82) -> between 48 d 55 = true ->
    RegSyn [c; d] (Z.of_N d - 48)%Z.

Definition label_start (c : N) : bool := is_lower c || is_upper c || (c =? 95).
Definition label_char (c : N) : bool := label_start c || is_decimal c.

(** name, optionally followed by a signed integer offset that fits 16 bits signed *)
Inductive LabelSyn : list N -> list N -> Z -> Prop :=
| Lbl_plain : forall c cs,
    label_start c = true -> forallb label_char cs = true -> LabelSyn (c :: cs) (c :: cs) 0%Z
| Lbl_offset : forall c cs offs v,
    label_start c = true -> forallb label_char cs = true -> SignedIntSyn offs v -> fits_i16 v ->
    LabelSyn ((c :: cs) ++ offs) (c :: cs) v.

Inductive PcOffSyn : list N -> Z -> Prop :=
| Pc_bare : PcOffSyn [94] 0%Z
| Pc_offset : forall s v, IntSyn s v -> fits_i16 v -> PcOffSyn (94 :: s) v.

Inductive memloc :=
| MPcOffset (off : Z)
| MAddress (addr : Z)
| MLabel (name : list N) (off : Z).

Inductive location :=
| LRegister (r : Z)
| LMemory (m : memloc).

(** A token that starts like a prefixed integer with the sign after the prefix — radix letter,
    then a sign — belongs to the integer syntax (so `b+2`, `o-8` are malformed integers, not the
    label `b` plus 2; the parser's own documentation lists "invalid digits for the given radix" as
    an error). *)
Definition PrefixedLike (s : list N) : Prop :=
  exists c r sg rest, radix_letter c = Some r /\ s = c :: sg :: rest /\ (sg = 43 \/ sg = 45).

(** Likewise a token that starts with a radix letter followed by digits that already exceed
    2^31 - 1 is rejected as too large an integer, whatever follows (`x80000000g`). *)
Definition TooLargeLike (s : list N) : Prop :=
  exists c r ds rest m, radix_letter c = Some r /\ s = c :: ds ++ rest /\
    digits_value r ds 0 = Some m /\ (m > i32_max)%Z.

(** An `Address+` (help.txt, final note): an absolute address, a label with optional offset, an
    offset from the program counter.  The three forms overlap in the text of the note (`x3010` is
    also a well-formed label name, `r0` too): a token that is an integer is an address, and a
    register name is not a label name. *)
Inductive MemLocSyn : list N -> memloc -> Prop :=
| ML_pc : forall s v, PcOffSyn s v -> MemLocSyn s (MPcOffset v)
| ML_addr : forall s v, IntSyn s v -> fits_u16 v -> MemLocSyn s (MAddress v)
| ML_label : forall s name off,
    LabelSyn s name off -> (forall v, ~ IntSyn s v) -> ~ PrefixedLike s -> ~ TooLargeLike s ->
    (forall r, ~ RegSyn name r) ->
    MemLocSyn s (MLabel name off).

(** `Register | Address+` *)
Inductive LocSyn : list N -> location -> Prop :=
| Loc_reg : forall s r, RegSyn s r -> LocSyn s (LRegister r)
| Loc_mem : forall s m, MemLocSyn s m -> LocSyn s (LMemory m).

(* ------------------------------------------------------------------ *)
(** * Commands *)

Inductive cname :=
| Help | StepOver | StepInto | StepOut | Continue | Registers | Print | Move | Goto | Assembly
| Eval | Echo | Reset | Quit | Exit | BreakList | BreakAdd | BreakRemove.

Inductive command :=
| CHelp | CStepOver | CStepInto (count : Z) | CStepOut | CContinue | CRegisters
| CPrint (l : location) | CMove (l : location) (value : Z) | CGoto (m : memloc)
| CAssembly (m : memloc) | CEval (text : list N) | CEcho (text : list N) | CReset | CQuit | CExit
| CBreakList | CBreakAdd (m : memloc) | CBreakRemove (m : memloc).

Definition cname_eqb (a b : cname) : bool :=
  match a, b with
  | Help, Help | StepOver, StepOver | StepInto, StepInto | StepOut, StepOut | Continue, Continue
  | Registers, Registers | Print, Print | Move, Move | Goto, Goto | Assembly, Assembly
  | Eval, Eval | Echo, Echo | Reset, Reset | Quit, Quit | Exit, Exit | BreakList, BreakList
  | BreakAdd, BreakAdd | BreakRemove, BreakRemove => true
  | _, _ => false
  end.

(** One-word names: the short form and the name given in help.txt, then the further spellings the
    debugger accepts.  (The order of a table is immaterial: no two keys are equal up to letter
    case — [tables_keys_distinct] in CmdProofs.v.) *)
Definition word_table : list (string * cname) :=
  [ ("h", Help); ("help", Help); ("--help", Help); ("-h", Help); (":h", Help); ("man", Help);
    ("info", Help); ("wtf", Help);
    ("c", Continue); ("continue", Continue); ("cont", Continue);
    ("p", Print); ("print", Print);
    ("m", Move); ("move", Move);
    ("r", Registers); ("registers", Registers); ("reg", Registers);
    ("g", Goto); ("goto", Goto);
    ("a", Assembly); ("assembly", Assembly); ("asm", Assembly);
    ("e", Eval); ("eval", Eval); ("evil", Eval); ("evaluate", Eval);
    ("z", Reset); ("reset", Reset);
    ("echo", Echo);
    ("q", Quit); ("quit", Quit);
    ("x", Exit); ("exit", Exit); (":q", Exit); (":wq", Exit); ("^C", Exit);
    ("si", StepInto); ("stepinto", StepInto);
    ("so", StepOut); ("stepout", StepOut);
    ("bl", BreakList); ("breaklist", BreakList);
    ("ba", BreakAdd); ("breakadd", BreakAdd);
    ("br", BreakRemove); ("breakremove", BreakRemove) ]%string.

(** Two-word names: `step`/`s` and `break`/`b` followed by a sub-command word. *)
Definition step_words : list string := ["step"; "s"]%string.
Definition break_words : list string := ["b"; "break"]%string.
Definition step_table : list (string * cname) :=
  [ ("i", StepInto); ("into", StepInto); ("o", StepOut); ("out", StepOut) ]%string.
Definition break_table : list (string * cname) :=
  [ ("l", BreakList); ("list", BreakList); ("a", BreakAdd); ("add", BreakAdd);
    ("r", BreakRemove); ("remove", BreakRemove) ]%string.

Definition in_words (w : list N) (ws : list string) : bool :=
  existsb (fun s => ieq w (str s)) ws.

Fixpoint lookup (w : list N) (t : list (string * cname)) : option cname :=
  match t with
  | [] => None
  | (s, c) :: r => if ieq w (str s) then Some c else lookup w r
  end.

(** Splitting a line into its words: separated by spaces (only the space character separates). *)
Fixpoint words_aux (l : list N) (cur : list N) : list (list N) :=
  match l with
  | [] => match cur with [] => [] | _ => [rev cur] end
  | c :: r => if c =? 32
              then match cur with [] => words_aux r [] | _ => rev cur :: words_aux r [] end
              else words_aux r (c :: cur)
  end.
Definition words (l : list N) : list (list N) := words_aux l [].

(** The text after the first [n] words of a line, trimmed (the argument of `eval` and `echo`). *)
Fixpoint after_words (n : nat) (l : list N) : list N :=
  match n with
  | O => trim l
  | S n' => let l1 := drop_while (fun c => c =? 32) l in
            after_words n' (drop_while (fun c => negb (c =? 32)) l1)
  end.

(** The command name of a line and how many words it takes. *)
Inductive NameSyn : list (list N) -> cname -> nat -> Prop :=
| Name_word : forall w rest c,
    in_words w step_words = false -> in_words w break_words = false ->
    lookup w word_table = Some c -> NameSyn (w :: rest) c 1
| Name_step : forall w, in_words w step_words = true -> NameSyn [w] StepOver 1
| Name_step_sub : forall w s rest c,
    in_words w step_words = true -> lookup s step_table = Some c -> NameSyn (w :: s :: rest) c 2
| Name_break_sub : forall w s rest c,
    in_words w step_words = false -> in_words w break_words = true ->
    lookup s break_table = Some c -> NameSyn (w :: s :: rest) c 2.

(** Arguments (help.txt): COUNT? for `step into`, LOCATION? (default: PC) for `print`, LOCATION VALUE for `move`,
    an `Address+` for `goto`, `break add`, `break remove`, an optional one (default: PC) for
    `assembly`; `help` ignores what follows; the others take nothing. *)
Inductive ArgsSyn : cname -> list (list N) -> command -> Prop :=
| A_help : forall ws, ArgsSyn Help ws CHelp
| A_stepover : ArgsSyn StepOver [] CStepOver
| A_stepout : ArgsSyn StepOut [] CStepOut
| A_continue : ArgsSyn Continue [] CContinue
| A_registers : ArgsSyn Registers [] CRegisters
| A_reset : ArgsSyn Reset [] CReset
| A_quit : ArgsSyn Quit [] CQuit
| A_exit : ArgsSyn Exit [] CExit
| A_breaklist : ArgsSyn BreakList [] CBreakList
| A_stepinto_default : ArgsSyn StepInto [] (CStepInto 1)
| A_stepinto : forall t v, ValueSyn t v -> ArgsSyn StepInto [t] (CStepInto (Z.max v 1))
| A_print_default : ArgsSyn Print [] (CPrint (LMemory (MPcOffset 0)))
| A_print : forall t l, LocSyn t l -> ArgsSyn Print [t] (CPrint l)
| A_move : forall t l u v, LocSyn t l -> ValueSyn u v -> ArgsSyn Move [t; u] (CMove l v)
| A_goto : forall t m, MemLocSyn t m -> ArgsSyn Goto [t] (CGoto m)
| A_assembly_default : ArgsSyn Assembly [] (CAssembly (MPcOffset 0))
| A_assembly : forall t m, MemLocSyn t m -> ArgsSyn Assembly [t] (CAssembly m)
| A_breakadd : forall t m, MemLocSyn t m -> ArgsSyn BreakAdd [t] (CBreakAdd m)
| A_breakremove : forall t m, MemLocSyn t m -> ArgsSyn BreakRemove [t] (CBreakRemove m).

(** A (trimmed, non-blank) line denotes a command. *)
Inductive LineSyn : list N -> command -> Prop :=
| Line_args : forall line c n cmd,
    NameSyn (words line) c n -> c <> Eval -> c <> Echo ->
    ArgsSyn c (skipn n (words line)) cmd -> LineSyn line cmd
| Line_eval : forall line,
    NameSyn (words line) Eval 1 -> after_words 1 line <> [] ->
    LineSyn line (CEval (after_words 1 line))
| Line_echo : forall line,
    NameSyn (words line) Echo 1 -> after_words 1 line <> [] ->
    LineSyn line (CEcho (after_words 1 line)).

(* ------------------------------------------------------------------ *)
(** * Scripts

    A script is cut into lines at every `;` and every newline (the two are interchangeable); a
    blank line is no command.  Where the text comes from — the `--command` argument, standard
    input, or the argument followed by standard input — is not part of its meaning. *)

Definition is_delim (c : N) : bool := (c =? 59) || (c =? 10).

Fixpoint split_aux (s : list N) (cur : list N) : list (list N) :=
  match s with
  | [] => match cur with [] => [] | _ => [rev cur] end
  | c :: r => if is_delim c then rev cur :: split_aux r [] else split_aux r (c :: cur)
  end.
Definition split_script (s : list N) : list (list N) := split_aux s [].

Definition is_blank (l : list N) : bool := match trim l with [] => true | _ => false end.

(** The command lines of a script: trimmed, blank lines dropped. *)
Definition script_lines (s : list N) : list (list N) :=
  map trim (filter (fun l => negb (is_blank l)) (split_script s)).
