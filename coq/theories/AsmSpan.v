(* AsmSpan.v — every diagnostic of the assembler model points inside the source (C05). *)
From Coq Require Import ZArith Lia.
From Lace Require Import Word Asm AsmTotal.
Open Scope N_scope.

Lemma bytes_app a b : bytes (a ++ b) = bytes a + bytes b.
Proof. induction a as [|c r IH]; cbn [app bytes]; [lia|]. rewrite IH. lia. Qed.

Lemma len_utf8_pos c : 1 <= len_utf8 c.
Proof. unfold len_utf8. repeat match goal with |- context [if ?b then _ else _] => destruct b end; lia. Qed.

(** A result whose diagnostics (if any) lie within [total] bytes. *)
Definition err_in {A} (total : N) (r : res A) : Prop :=
  match r with Err _ a n => a + n <= total | _ => True end.

Definition span_in (total : N) (t : token) : Prop := toffs t + tlen t <= total.

(* ------------------------------------------------------------------ *)
(** * Lexer *)

(** Errors of [advance_token] carry everything consumed, starting with the first character. *)
Definition err_shape (l : list N) (x : lexed) : Prop :=
  match x with
  | LexErr _ back consumed => (exists rest, l = consumed ++ rest) /\ back <= bytes consumed
  | LexTok _ _ _ => True
  end.

Lemma ident_err feat pre rest : err_shape (pre ++ rest) (ident feat pre rest).
Proof.
  unfold ident. destruct (take_while is_id rest) as [more rest'] eqn:E. apply take_while_app in E. subst rest.
  destruct (is_stack_word _ && negb feat); [|exact I]. cbn. split; [exists rest'; rewrite app_assoc; reflexivity|lia].
Qed.

Lemma hex_err pre rest : err_shape (pre ++ rest) (hex pre rest).
Proof.
  unfold hex. destruct (take_while _ rest) as [digits rest'] eqn:E. apply take_while_app in E. subst rest.
  destruct (parse_i16 16 digits); [exact I|]. destruct (parse_u16 16 digits) as [v|[]]; try exact I.
  cbn. split; [exists rest'; rewrite app_assoc; reflexivity|lia].
Qed.

Lemma dec_err pre rest : err_shape (pre ++ rest) (dec pre rest).
Proof.
  unfold dec. destruct (take_while _ rest) as [digits rest'] eqn:E. apply take_while_app in E. subst rest.
  destruct (parse_i16 10 digits); [exact I|]. destruct (parse_u16 10 digits); [exact I|].
  cbn. split; [exists rest'; rewrite app_assoc; reflexivity|lia].
Qed.

Lemma dir_err pre rest : err_shape (pre ++ rest) (dir pre rest).
Proof.
  unfold dir. destruct (take_while is_id rest) as [more rest'] eqn:E. apply take_while_app in E. subst rest.
  destruct (check_directive _); [exact I|]. cbn. split; [exists rest'; rewrite app_assoc; reflexivity|lia].
Qed.

Lemma advance_token_err feat l x : advance_token feat l = Some x -> err_shape l x.
Proof.
  destruct l as [|c rest]; [discriminate|]. cbn [advance_token]. intros H. inversion H; subst x; clear H.
  destruct (c =? 59); [destruct (take_while _ rest); exact I|].
  destruct (is_whitespace c); [destruct (take_while _ rest); exact I|].
  destruct ((c =? 120) || (c =? 88)); [apply (hex_err [c] rest)|].
  destruct (c =? 48).
  { destruct rest as [|x rest']; [apply (ident_err feat [c] [])|].
    destruct ((x =? 120) || (x =? 88)); [apply (hex_err [c; x] rest')|apply (ident_err feat [c] (x :: rest'))]. }
  destruct ((c =? 114) || (c =? 82)).
  { destruct rest as [|d rest']; [apply (ident_err feat [c] [])|].
    destruct (is_reg_num d); [|apply (ident_err feat [c] (d :: rest'))].
    destruct (take_while is_reg_num (d :: rest')) as [nums rest''] eqn:E.
    pose proof (take_while_app _ _ _ _ E) as Happ.
    match goal with |- err_shape _ (if ?b then _ else _) => destruct b end; [exact I|].
    rewrite Happ. apply (ident_err feat (c :: nums) rest''). }
  destruct (is_id c); [apply (ident_err feat [c] rest)|].
  destruct (c =? 35); [apply (dec_err [c] rest)|].
  destruct (c =? 46); [apply (dir_err [c] rest)|].
  destruct (c =? 34).
  { destruct (str_scan rest) as [[t a] b] eqn:E.
    apply (str_scan_app (length rest) rest (le_n _)) in E. subst rest.
    destruct t; [exact I|]. cbn. split; [exists b; reflexivity|lia]. }
  destruct (take_while _ rest) as [a b] eqn:E. apply take_while_app in E. subst rest.
  cbn. split; [exists b; reflexivity|]. pose proof (len_utf8_pos c). lia.
Qed.

(** One lexing step: the position advances by the bytes consumed; token and error spans lie inside. *)
Lemma lex_at_span feat l pos total :
  pos + bytes l = total ->
  match lex_at feat l pos with
  | StepTok t rest pos' => span_in total t /\ pos' + bytes rest = total
  | StepErr _ a n => a + n <= total
  end.
Proof.
  intros Ht. unfold lex_at. destruct (advance_token feat l) as [x|] eqn:E.
  - pose proof (advance_token_splits _ _ _ E) as S. pose proof (advance_token_err _ _ _ E) as R.
    destruct x as [k consumed r|d back consumed].
    + cbn in S. destruct S as [-> _]. rewrite bytes_app in Ht. unfold span_in; cbn. lia.
    + cbn in R. destruct R as [[rest ->] Hb]. rewrite bytes_app in Ht. lia.
  - destruct l; [|discriminate]. cbn in *. unfold span_in; cbn. lia.
Qed.

Lemma advance_real_span feat l pos total :
  pos + bytes l = total ->
  match advance_real feat l pos with
  | StepTok t rest pos' => span_in total t /\ pos' + bytes rest = total
  | StepErr _ a n => a + n <= total
  end.
Proof.
  intros Ht. unfold advance_real. pose proof (lex_at_span feat l pos total Ht) as K.
  destruct (lex_at feat l pos) as [t r p|]; [|exact K]. destruct K as [Ks Kp].
  destruct (tk t); try (split; assumption). apply lex_at_span. exact Kp.
Qed.

(* ------------------------------------------------------------------ *)
(** * Preprocessor *)

Lemma span_join_in total o1 l1 o2 l2 : o1 + l1 <= total -> o2 + l2 <= total ->
  fst (span_join o1 l1 o2 l2) + snd (span_join o1 l1 o2 l2) <= total.
Proof. intros. unfold span_join; cbn. lia. Qed.

Definition pre_ok (total : N) (r : res (list token)) : Prop :=
  match r with Ok toks => Forall (span_in total) toks | Err _ a n => a + n <= total | Bad _ => True end.

Lemma preprocess_span feat total fuel : forall l pos acc,
  pos + bytes l = total -> Forall (span_in total) acc -> pre_ok total (preprocess feat fuel l pos acc).
Proof.
  induction fuel as [|fuel IH]; intros l pos acc Ht Hacc; [exact I|].
  cbn [preprocess].
  pose proof (advance_real_span feat l pos total Ht) as K.
  destruct (advance_real feat l pos) as [t rest pos'|d a n]; [|exact K]. destruct K as [Kt Kp].
  assert (NEXT : forall (P : token -> list N -> N -> Prop),
            (forall v r2 p2, span_in total v -> p2 + bytes r2 = total -> P v r2 p2) ->
            match advance_real feat rest pos' with
            | StepTok v r2 p2 => P v r2 p2
            | StepErr _ a n => a + n <= total
            end).
  { intros P HP. pose proof (advance_real_span feat rest pos' total Kp) as K2.
    destruct (advance_real feat rest pos'); [apply HP; apply K2|exact K2]. }
  destruct (tk t) as [ |i|tr|li|di|r|v| | | | ] eqn:Ek;
    try (apply IH; [exact Kp|constructor; assumption]); try (apply IH; assumption);
    try (cbn; apply lrev_Forall; exact Hacc).
  destruct di; try (apply IH; [exact Kp|constructor; assumption]); try (cbn; apply lrev_Forall; exact Hacc).
  - (* stringz *)
    pose proof (advance_real_span feat rest pos' total Kp) as K2.
    destruct (advance_real feat rest pos') as [v rest2 pos2|d a n]; [|exact K2]. destruct K2 as [Kv Kp2].
    destruct (tk v) as [ | | |[x|x| ]| | | | | | | ]; try exact Kv.
    apply IH; [exact Kp2|].
    assert (J : fst (span_join (toffs t) (tlen t) (toffs v) (tlen v)) + snd (span_join (toffs t) (tlen t) (toffs v) (tlen v)) <= total)
      by (apply span_join_in; assumption).
    constructor; [exact J|]. apply Forall_app. split; [|exact Hacc].
    apply lrev_Forall. apply Forall_forall. intros tkn Hin.
    apply in_map_iff in Hin. destruct Hin as (c & <- & _). exact J.
  - (* blkw *)
    pose proof (advance_real_span feat rest pos' total Kp) as K2.
    destruct (advance_real feat rest pos') as [v rest2 pos2|d a n]; [|exact K2]. destruct K2 as [Kv Kp2].
    assert (J : fst (span_join (toffs t) (tlen t) (toffs v) (tlen v)) + snd (span_join (toffs t) (tlen t) (toffs v) (tlen v)) <= total)
      by (apply span_join_in; assumption).
    destruct (tk v) as [ | | |[x|x| ]| | | | | | | ]; try exact Kv;
      (apply IH; [exact Kp2|]; apply Forall_app; split; [apply repeat_Forall; exact J|exact Hacc]).
  - (* fill *)
    pose proof (advance_real_span feat rest pos' total Kp) as K2.
    destruct (advance_real feat rest pos') as [v rest2 pos2|d a n]; [|exact K2]. destruct K2 as [Kv Kp2].
    assert (J : fst (span_join (toffs t) (tlen t) (toffs v) (tlen v)) + snd (span_join (toffs t) (tlen t) (toffs v) (tlen v)) <= total)
      by (apply span_join_in; assumption).
    destruct (tk v) as [ | | |[x|x| ]| | | | | | | ]; try exact Kv;
      (apply IH; [exact Kp2|]; constructor; [exact J|exact Hacc]).
Qed.

(* ------------------------------------------------------------------ *)
(** * Parser *)

Definition step_in {A} (total : N) (toks : list token) (r : res (A * pst)) : Prop :=
  match r with
  | Ok (_, (toks', _)) => is_suffix toks' toks
  | Err _ a n => a + n <= total
  | Bad _ => True
  end.

Lemma expect_lit_in total b p srclen : srclen <= total -> Forall (span_in total) (fst p) ->
  step_in total (fst p) (expect_lit b p srclen).
Proof.
  intros Hs H. unfold expect_lit. destruct (fst p) as [|t r]; [cbn; lia|].
  inversion H as [|? ? Ht Hr]; subst. unfold span_in in Ht.
  destruct (tk t) as [ | | |[x|x| ]| | | | | | | ]; try exact Ht;
    destruct (check_range b x); try exact Ht; apply is_suffix_cons.
Qed.

Lemma expect_reg_in total p srclen : srclen <= total -> Forall (span_in total) (fst p) ->
  step_in total (fst p) (expect_reg p srclen).
Proof.
  intros Hs H. unfold expect_reg. destruct (fst p) as [|t r]; [cbn; lia|].
  inversion H as [|? ? Ht Hr]; subst. unfold span_in in Ht.
  destruct (tk t); try exact Ht. apply is_suffix_cons.
Qed.

Lemma expect_label_in total sym p srclen : srclen <= total -> Forall (span_in total) (fst p) ->
  step_in total (fst p) (expect_label sym p srclen).
Proof.
  intros Hs H. unfold expect_label. destruct (fst p) as [|t r]; [cbn; lia|].
  inversion H as [|? ? Ht Hr]; subst. unfold span_in in Ht.
  destruct (tk t); try exact Ht. apply is_suffix_cons.
Qed.

Lemma expect_lit_or_reg_in total p srclen : srclen <= total -> Forall (span_in total) (fst p) ->
  step_in total (fst p) (expect_lit_or_reg p srclen).
Proof.
  intros Hs H. unfold expect_lit_or_reg. destruct (fst p) as [|t r] eqn:E; [cbn; lia|].
  assert (Ht : toffs t + tlen t <= total) by (inversion H; assumption).
  destruct (tk t); try exact Ht.
  - pose proof (expect_lit_in total (Signed 5) p srclen Hs) as K. rewrite E in K. specialize (K H).
    destruct (expect_lit (Signed 5) p srclen) as [[v [? ?]]| |]; exact K.
  - pose proof (expect_reg_in total p srclen Hs) as K. rewrite E in K. specialize (K H).
    destruct (expect_reg p srclen) as [[v [? ?]]| |]; exact K.
Qed.

Lemma expect_lit_or_label_in total sym line nb p srclen : srclen <= total -> Forall (span_in total) (fst p) ->
  step_in total (fst p) (expect_lit_or_label sym line nb p srclen).
Proof.
  intros Hs H. unfold expect_lit_or_label. destruct (fst p) as [|t r] eqn:E; [cbn; lia|].
  assert (Ht : toffs t + tlen t <= total) by (inversion H; assumption).
  destruct (tk t); try exact Ht.
  - pose proof (expect_label_in total sym p srclen Hs) as K. rewrite E in K. exact (K H).
  - pose proof (expect_lit_in total (Signed nb) p srclen Hs) as K. rewrite E in K. specialize (K H).
    destruct (expect_lit (Signed nb) p srclen) as [[v [? ?]]| |]; exact K.
Qed.

Lemma bind_step_in {A B} total toks (x : res (A * pst)) (f : A * pst -> res (B * pst)) :
  Forall (span_in total) toks ->
  step_in total toks x ->
  (forall a (p' : pst), is_suffix (fst p') toks -> Forall (span_in total) (fst p') -> step_in total (fst p') (f (a, p'))) ->
  step_in total toks (bind x f).
Proof.
  intros Hw Hx Hf. destruct x as [[a p']| |]; cbn [bind]; try exact Hx; try exact I.
  specialize (Hf a p'). revert Hf. generalize (f (a, p')). intros y Hy.
  destruct p' as [toks' te]. cbn [step_in fst] in *.
  specialize (Hy Hx (is_suffix_Forall _ _ _ Hx Hw)).
  destruct y as [[b [toks2 te2]]| |]; cbn [step_in] in *; try exact Hy; try exact I.
  eapply is_suffix_trans; eassumption.
Qed.

Ltac step_in_tac Hs :=
  repeat first
    [ eapply bind_step_in;
      [ assumption
      | first [ apply expect_reg_in; [exact Hs|assumption] | apply expect_lit_in; [exact Hs|assumption]
              | apply expect_label_in; [exact Hs|assumption] | apply expect_lit_or_reg_in; [exact Hs|assumption]
              | apply expect_lit_or_label_in; [exact Hs|assumption] ]
      | let a := fresh "a" in let p' := fresh "p'" in
        intros a p' ? ?; destruct p' as [? ?]; cbn [fst] in * ]
    | (cbn [step_in]; apply is_suffix_refl) ].

Lemma parse_instr_in total sym line k p srclen : srclen <= total -> Forall (span_in total) (fst p) ->
  step_in total (fst p) (parse_instr sym line k p srclen).
Proof.
  intros Hs Hw. destruct p as [toks te]. cbn [fst] in *.
  destruct k; cbn [parse_instr]; step_in_tac Hs.
Qed.

Lemma parse_trap_in total k p srclen : srclen <= total -> Forall (span_in total) (fst p) ->
  step_in total (fst p) (parse_trap k p srclen).
Proof.
  intros Hs Hw. destruct p as [toks te]. cbn [fst] in *.
  destruct k; cbn [parse_trap]; step_in_tac Hs.
Qed.

Lemma parse_span total fuel srclen : srclen <= total -> forall ps,
  Forall (span_in total) (p_toks ps) -> err_in total (fst (parse fuel srclen ps)).
Proof.
  intros Hs. induction fuel as [|fuel IH]; intros ps Hw; [exact I|].
  cbn [parse].
  destruct (p_toks ps) as [|t0 r0] eqn:Et; [exact I|].
  assert (Hw0 : span_in total t0 /\ Forall (span_in total) r0) by (inversion Hw; auto).
  destruct Hw0 as [Hk0 Hr0]. unfold span_in in Hk0.
  assert (FIN : forall sym1 line (x : res (stmt * pst)) t toks,
            Forall (span_in total) toks -> step_in total toks x ->
            err_in total (fst
              match x with
              | Ok (s, (toks2, tok_end2)) =>
                  if line + 1 <? W
                  then parse fuel srclen
                         (mkParser toks2
                            (mkAir (a_orig (p_air ps))
                               (mkLine (wrap (p_count ps + 1)) s (toffs t)
                                  (if tok_end2 <=? toffs t then tlen t else tok_end2 - toffs t) :: a_ast (p_air ps))
                               (a_bps (p_air ps))) (line + 1) tok_end2 sym1 (p_count ps + 1))
                  else (Err E_too_long (srclen - 1) 0, sym1)
              | Err d a n => (Err d a n, sym1)
              | Bad w => (Bad w, sym1)
              end)).
  { intros sym1 line x t toks Htoks Hy. destruct x as [[s [toks2 te2]]| |]; try exact Hy; try exact I.
    cbn [step_in] in Hy.
    destruct (line + 1 <? W); [|cbn; lia].
    apply IH; cbn [p_toks]. eapply is_suffix_Forall; eassumption. }
  destruct (tk t0) eqn:Ek0; cbv beta iota zeta; rewrite ?Ek0; cbv beta iota zeta; try exact I; try (cbn; exact Hk0).
  - (* label first *)
    destruct (sym_get (p_sym ps) (ttext t0)); [cbn; exact Hk0|].
    destruct r0 as [|t r]; [cbn; lia|].
    assert (Hw1 : span_in total t /\ Forall (span_in total) r) by (inversion Hr0; auto). destruct Hw1 as [Hk Hr].
    unfold span_in in Hk. cbv beta iota zeta.
    destruct (tk t) eqn:Ek; cbv beta iota zeta; try exact I; try (cbn; exact Hk).
    + apply (FIN _ (p_line ps) _ t r Hr). apply (parse_instr_in total _ _ i (r, p_tok_end ps) srclen Hs Hr).
    + apply (FIN _ (p_line ps) _ t r Hr). apply (parse_trap_in total t1 (r, p_tok_end ps) srclen Hs Hr).
    + destruct d; try exact I.
      pose proof (expect_lit_in total (Unsigned 16) (r, p_tok_end ps) srclen Hs Hr) as K.
      destruct (expect_lit _ _ _) as [[v [toks2 te2]]| |]; try exact K; try exact I. cbn [step_in fst] in K.
      destruct (a_orig (p_air ps)); [cbn; lia|].
      apply IH; cbn [p_toks]. eapply is_suffix_Forall; [exact K|exact Hr].
    + apply (FIN _ (p_line ps) (Ok (SRawWord v, (r, p_tok_end ps))) t r Hr). cbn. apply is_suffix_refl.
    + apply IH; cbn [p_toks]; assumption.
  - apply (FIN _ (p_line ps) _ t0 r0 Hr0). apply (parse_instr_in total _ _ i (r0, p_tok_end ps) srclen Hs Hr0).
  - apply (FIN _ (p_line ps) _ t0 r0 Hr0). apply (parse_trap_in total t (r0, p_tok_end ps) srclen Hs Hr0).
  - destruct d; try exact I.
    pose proof (expect_lit_in total (Unsigned 16) (r0, p_tok_end ps) srclen Hs Hr0) as K.
    destruct (expect_lit _ _ _) as [[v [toks2 te2]]| |]; try exact K; try exact I. cbn [step_in fst] in K.
    destruct (a_orig (p_air ps)); [cbn; lia|].
    apply IH; cbn [p_toks]. eapply is_suffix_Forall; [exact K|exact Hr0].
  - apply (FIN _ (p_line ps) (Ok (SRawWord v, (r0, p_tok_end ps))) t0 r0 Hr0). cbn. apply is_suffix_refl.
  - apply IH; cbn [p_toks]; assumption.
Qed.

(* ------------------------------------------------------------------ *)
(** * The whole assembler *)

Lemma backpatch_err sym ls total : err_in total (backpatch sym ls).
Proof.
  induction ls as [|ln r IH]; cbn [backpatch]; [exact I|].
  destruct (backpatch_stmt sym (al_stmt ln)) as [s'|d a n|] eqn:E; cbn [bind]; try exact I.
  - destruct (backpatch sym r); cbn [bind]; try exact I; exact IH.
  - destruct (al_stmt ln); cbn [backpatch_stmt] in E; try discriminate;
      match type of E with context [fill sym ?l] =>
        destruct l as [x|name]; cbn in E; try discriminate; destruct (sym_get sym name); cbn in E; inversion E; subst; cbn; lia end.
Qed.

Lemma emit_err ln total : err_in total (emit ln).
Proof.
  unfold emit. destruct (al_stmt ln); try exact I;
    match goal with |- context [bit_offs ?a ?l ?k] =>
      destruct (bit_offs a l k) as [o|dg xa nl|] eqn:E; cbn [bind]; try exact I;
      destruct l; cbn in E; try discriminate;
      match type of E with (if ?c then _ else _) = _ => destruct c; inversion E; subst; cbn; lia end
    end.
Qed.

Lemma emit_all_err ls total : err_in total (emit_all ls).
Proof.
  induction ls as [|ln r IH]; cbn [emit_all]; [exact I|].
  pose proof (emit_err ln total) as K.
  destruct (emit ln); cbn [bind]; try exact K; try exact I.
  destruct (emit_all r); cbn [bind]; try exact IH; exact I.
Qed.

Lemma assemble_air_span feat sym0 src : err_in (bytes src) (fst (assemble_air feat sym0 src)).
Proof.
  unfold assemble_air.
  pose proof (preprocess_span feat (bytes src) (S (length src)) src 0 [] (N.add_0_l _) (Forall_nil _)) as Hpre.
  destruct (preprocess feat (S (length src)) src 0 []) as [toks|d0 a0 n0|]; cbn [pre_ok fst err_in] in *;
    [|exact Hpre|exact I].
  pose proof (parse_span (bytes src) (S (length toks)) (bytes src) (N.le_refl _)
                (mkParser toks (mkAir None [] []) 1 0 sym0 0) Hpre) as Hp.
  destruct (parse _ _ _) as [r s1]. cbn [fst] in Hp.
  destruct r as [[a1 s2]|d1 a1 n1|]; cbn [fst err_in] in *; [|exact Hp|exact I].
  pose proof (backpatch_err s1 (a_ast a1) (bytes src)) as Hb.
  destruct (backpatch s1 (a_ast a1)) as [ast'|d2 a2 n2|]; cbn [fst err_in] in *; [exact I|exact Hb|exact I].
Qed.

Theorem assemble_span feat sym0 src dd aa nn :
  fst (assemble feat sym0 src) = Err dd aa nn -> aa + nn <= bytes src.
Proof.
  unfold assemble. pose proof (assemble_air_span feat sym0 src) as Ha.
  destruct (assemble_air feat sym0 src) as [r s1]. cbn [fst] in Ha.
  destruct r as [a|d1 a1 n1|]; cbn [fst err_in] in *.
  - pose proof (emit_all_err (a_ast a) (bytes src)) as He.
    destruct (emit_all (a_ast a)) as [ws|d2 a2 n2|]; cbn [fst err_in] in *; intros H; inversion H; subst. exact He.
  - intros H; inversion H; subst. exact Ha.
  - discriminate.
Qed.
