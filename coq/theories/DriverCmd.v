(* DriverCmd.v — the executable face of the command-language model (C14) for the correspondence
   check.  Same conventions as Driver.v: a case is a list of numbers, a result a list of lines of
   numbers; strings travel as lists of code points.  The encodings are mirrored by
   `debugger::verif_command` (lace, cfg lace_verif) and harness/src/cmd.rs.

   case  = 0 n (len char*len)*n                    n command lines, each parsed on its own
   lines = one per command line: the verdict

   case  = 1 has_arg alen char*alen blen char*blen  a session: `--command` text and piped stdin
   lines = one verdict per command or rejected line, in order, then `5`

   verdict: 0 kind args..   command (kind: index of the command name)
            1 error..       rejected
            2               panic
            3 code          the process exits
            4               blank line, skipped
   location: 0 r | 1 off | 2 addr | 3 off len char*len     (offsets as 16-bit two's complement)
   error: 0 sug | 1 | 2 parent sug | 3 kind arg-error      (sug: 0 none, 1 + kind)
   arg-error: 0 | 1 exp act | 2 exp act | 3 value-error
   value-error: 0 naive | 1 | 2 | 3 | 4 | 5 max *)
From Coq Require Import List NArith ZArith Bool.
From Lace Require Import CmdSpec Cmd.
Import ListNotations.
Open Scope N_scope.

Fixpoint take (n : nat) (l : list N) : list N * list N :=
  match n, l with
  | O, _ => ([], l)
  | S n', x :: l' => let '(a, b) := take n' l' in (x :: a, b)
  | S _, [] => ([], [])
  end.

Definition hdN (l : list N) : N := match l with x :: _ => x | [] => 0 end.
Definition tlN (l : list N) : list N := match l with _ :: t => t | [] => [] end.

Definition enc_z16 (v : Z) : N := Z.to_N (v mod 65536).
Definition enc_text (s : list N) : list N := N.of_nat (List.length s) :: s.

Definition cname_id (c : cname) : N :=
  match c with
  | Help => 0 | StepOver => 1 | StepInto => 2 | StepOut => 3 | Continue => 4 | Registers => 5
  | Print => 6 | Move => 7 | Goto => 8 | Assembly => 9 | Eval => 10 | Echo => 11 | Reset => 12
  | Quit => 13 | Exit => 14 | BreakList => 15 | BreakAdd => 16 | BreakRemove => 17
  end.

Definition enc_memloc (m : memloc) : list N :=
  match m with
  | MPcOffset o => [1; enc_z16 o]
  | MAddress a => [2; Z.to_N a]
  | MLabel name o => 3 :: enc_z16 o :: enc_text name
  end.

Definition enc_location (l : location) : list N :=
  match l with
  | LRegister r => [0; Z.to_N r]
  | LMemory m => enc_memloc m
  end.

Definition enc_command (c : command) : list N :=
  match c with
  | CHelp => [0] | CStepOver => [1] | CStepInto n => [2; Z.to_N n] | CStepOut => [3]
  | CContinue => [4] | CRegisters => [5]
  | CPrint l => 6 :: enc_location l
  | CMove l v => 7 :: enc_location l ++ [Z.to_N v]
  | CGoto m => 8 :: enc_memloc m
  | CAssembly m => 9 :: enc_memloc m
  | CEval t => 10 :: enc_text t
  | CEcho t => 11 :: enc_text t
  | CReset => [12] | CQuit => [13] | CExit => [14] | CBreakList => [15]
  | CBreakAdd m => 16 :: enc_memloc m
  | CBreakRemove m => 17 :: enc_memloc m
  end.

Definition enc_sug (s : option cname) : N := match s with None => 0 | Some c => 1 + cname_id c end.

Definition enc_naive (n : naive) : N :=
  match n with NInteger => 0 | NRegister => 1 | NLabel => 2 | NPCOffset => 3 end.

Definition enc_verr (e : verr) : list N :=
  match e with
  | MismatchedType n => [0; enc_naive n]
  | MalformedValue => [1] | MalformedInteger => [2] | MalformedLabel => [3]
  | MalformedRegister => [4]
  | IntegerTooLarge m => [5; Z.to_N m]
  end.

Definition enc_aerr (e : aerr) : list N :=
  match e with
  | MissingArgumentList => [0]
  | MissingArgument x a => [1; x; a]
  | TooManyArguments x a => [2; x; a]
  | InvalidValue v => 3 :: enc_verr v
  end.

Definition enc_cerr (e : cerr) : list N :=
  match e with
  | InvalidCommand s => [0; enc_sug s]
  | MissingSubcommand => [1]
  | InvalidSubcommand p s => [2; p; enc_sug s]
  | InvalidArgument c a => 3 :: cname_id c :: enc_aerr a
  end.

Definition enc_verdict (v : option (res cerr command)) : list N :=
  match v with
  | None => [4]
  | Some (Ok c) => 0 :: enc_command c
  | Some (Err e) => 1 :: enc_cerr e
  | Some (Panic _) => [2]
  | Some (ExitP c) => [3; c]
  end.

Definition enc_event (e : event) : list N :=
  match e with
  | EvCommand c => 0 :: enc_command c
  | EvError e => 1 :: enc_cerr e
  | EvPanic _ => [2]
  | EvExit c => [3; c]
  | EvOutOfFuel => [6]
  end.

Fixpoint run_lines (n : nat) (args : list N) : list (list N) :=
  match n with
  | O => []
  | S n' =>
      let '(line, rest) := take (N.to_nat (hdN args)) (tlN args) in
      enc_verdict (parse_line line) :: run_lines n' rest
  end.

Definition run_c14 (args : list N) : list (list N) :=
  match args with
  | 0 :: n :: rest => run_lines (N.to_nat n) rest
  | 1 :: has_arg :: rest =>
      let '(a, rest1) := take (N.to_nat (hdN rest)) (tlN rest) in
      let '(b, _) := take (N.to_nat (hdN rest1)) (tlN rest1) in
      map enc_event (session (if has_arg =? 0 then None else Some a) b) ++ [[5]]
  | _ => [[7]]
  end.
