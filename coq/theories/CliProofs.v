(* CliProofs.v — C06 (object files round-trip, loader), C07 (verdicts agree), C08 (all-or-nothing). *)
From Coq Require Import Arith PeanoNat Lia.
From Lace Require Import Word Machine Isa Vm RunProofs Asm AsmProofs AsmWf Cli.
Open Scope N_scope.

(* ------------------------------------------------------------------ *)
(** * C06 *)

Lemma be16_length w : length (be16 w) = 2%nat.
Proof. reflexivity. Qed.

Lemma flat_map_be16_length ws : length (flat_map be16 ws) = (2 * length ws)%nat.
Proof. induction ws as [|w r IH]; cbn; [reflexivity|]. rewrite IH. lia. Qed.

Lemma compile_bytes_length im : length (compile_bytes im) = (2 * (length (i_words im) + 1))%nat.
Proof.
  unfold compile_bytes. rewrite app_length, flat_map_be16_length. cbn. lia.
Qed.

Lemma be16_back w : w < W -> (w / 256) * 256 + w mod 256 = w.
Proof. intros _. rewrite N.mul_comm. symmetry. apply N.div_mod. discriminate. Qed.

Lemma words_of_bytes_flat ws : Forall (fun w => w < W) ws -> words_of_bytes (flat_map be16 ws) = Some ws.
Proof.
  induction ws as [|w r IH]; intros H; cbn; [reflexivity|].
  inversion H; subst. rewrite IH by assumption. rewrite be16_back by assumption. reflexivity.
Qed.

(** Reading back what `compile` wrote gives the image `run` builds from the source. *)
Lemma roundtrip im : image_orig im < W -> Forall (fun w => w < W) (i_words im) ->
  words_of_bytes (compile_bytes im) = Some (raw_of_image im).
Proof.
  intros Ho Hw. unfold compile_bytes, raw_of_image. cbn [be16 app words_of_bytes].
  rewrite words_of_bytes_flat by assumption. rewrite be16_back by assumption. reflexivity.
Qed.

(** Hence running the object file is running the source: same loaded machine or same rejection. *)
Lemma load_file_compile im inp : image_orig im < W -> Forall (fun w => w < W) (i_words im) ->
  load_file (compile_bytes im) inp = from_raw (raw_of_image im) inp.
Proof. intros Ho Hw. unfold load_file. rewrite roundtrip by assumption. reflexivity. Qed.

(** For every source that assembles, loading its object file is loading the source's image. *)
Lemma load_file_compile_src feat src im sym1 inp :
  assemble feat [] src = (Ok im, sym1) ->
  load_file (compile_bytes im) inp = from_raw (raw_of_image im) inp.
Proof.
  intros H. destruct (assemble_image _ _ _ _ _ H) as (a & _ & _ & _ & _ & Ho & Hw & _).
  apply load_file_compile; [|exact Hw].
  unfold image_orig. destruct (i_orig im); [exact Ho|reflexivity].
Qed.

Lemma words_of_bytes_length : forall n bs ws, (length bs <= n)%nat ->
  words_of_bytes bs = Some ws -> length bs = (2 * length ws)%nat.
Proof.
  induction n as [|n IH]; intros bs ws Hn H.
  - destruct bs; [inversion H; reflexivity|cbn in Hn; lia].
  - destruct bs as [|hi [|lo r]]; cbn in H; [inversion H; reflexivity|discriminate|].
    destruct (words_of_bytes r) as [ws'|] eqn:E; [|discriminate]. inversion H; subst.
    cbn. rewrite (IH r ws'); [lia| cbn in Hn; lia | exact E].
Qed.

Lemma words_of_bytes_none : forall n bs, (length bs <= n)%nat ->
  words_of_bytes bs = None <-> Nat.odd (length bs) = true.
Proof.
  induction n as [|n IH]; intros bs Hn.
  - destruct bs; [cbn; split; discriminate|cbn in Hn; lia].
  - destruct bs as [|hi [|lo r]]; cbn [words_of_bytes length].
    + split; discriminate.
    + split; reflexivity.
    + assert (Hr : (length r <= n)%nat) by (cbn in Hn; lia).
      specialize (IH r Hr). change (Nat.odd (S (S (length r)))) with (Nat.odd (length r)). destruct (words_of_bytes r).
      * split; [discriminate|]. intros H. apply IH in H. discriminate.
      * split; [|reflexivity]. intros _. apply IH. reflexivity.
Qed.

(** The loader accepts exactly the even-length, non-empty files whose image plus the implicit HALT
    fits below 2^16; everything else is an error exit, never a panic. *)
Lemma loader_iff bytes inp :
  (exists st, load_file bytes inp = Loaded st) <->
  (Nat.even (length bytes) = true /\ (2 <= length bytes)%nat /\
   exists hi lo rest, bytes = hi :: lo :: rest /\ hi * 256 + lo + N.of_nat (Nat.div (length rest) 2) + 1 <= W).
Proof.
  unfold load_file. split.
  - intros [st H]. destruct (words_of_bytes bytes) as [raw|] eqn:E; [|discriminate].
    pose proof (words_of_bytes_length (length bytes) bytes raw (le_n _) E) as L.
    rewrite from_raw_load in H.
    destruct (load raw inp) as [st'|] eqn:EL; [|discriminate].
    destruct (proj1 (load_accepts raw inp) (ex_intro _ st' EL)) as (origin & words & -> & Hfit).
    destruct bytes as [|hi [|lo rest]]; cbn in E; try discriminate.
    destruct (words_of_bytes rest) as [ws|] eqn:E2; [|discriminate]. inversion E; subst.
    pose proof (words_of_bytes_length (length rest) rest words (le_n _) E2) as L2.
    split; [|split].
    + cbn [length] in *. rewrite L. rewrite Nat.even_mul. reflexivity.
    + cbn. lia.
    + exists hi, lo, rest. split; [reflexivity|].
      rewrite L2. replace (2 * length words / 2)%nat with (length words); [exact Hfit|].
      rewrite Nat.mul_comm. symmetry. apply Nat.div_mul. discriminate.
  - intros (Hev & Hlen & hi & lo & rest & -> & Hfit).
    cbn [words_of_bytes].
    destruct (words_of_bytes rest) as [ws|] eqn:E2.
    + pose proof (words_of_bytes_length (length rest) rest ws (le_n _) E2) as L2.
      rewrite from_raw_load.
      assert (Hacc : exists st, load (hi * 256 + lo :: ws) inp = Some st).
      { apply load_accepts. exists (hi * 256 + lo), ws. split; [reflexivity|].
        rewrite L2 in Hfit. replace (2 * length ws / 2)%nat with (length ws) in Hfit; [exact Hfit|].
        rewrite Nat.mul_comm. symmetry. apply Nat.div_mul. discriminate. }
      destruct Hacc as [st ->]. exists st. reflexivity.
    + exfalso. apply (words_of_bytes_none (length rest) rest (le_n _)) in E2.
      cbn [length] in Hev. change (Nat.even (S (S (length rest)))) with (Nat.even (length rest)) in Hev.
      rewrite <- Nat.negb_odd in Hev. rewrite E2 in Hev. discriminate.
Qed.

Lemma load_file_never_panics bytes inp : exists r, load_file bytes inp = r /\
  (match r with Loaded _ => True | LoadExit c => c = 1 \/ c = 238 end).
Proof.
  eexists; split; [reflexivity|]. unfold load_file.
  destruct (words_of_bytes bytes) as [raw|]; [|left; reflexivity].
  unfold from_raw. destruct raw as [|o b]; [right; reflexivity|].
  destruct (MEMORY_MAX <? o + N.of_nat (length (o :: b))); [right; reflexivity|exact I].
Qed.

(* ------------------------------------------------------------------ *)
(** * C07 *)

Lemma verdicts_agree feat src :
  (check_exit feat src = 0 <-> compile_exit feat src = 0) /\
  (compile_exit feat src = 0 <-> run_assembles feat src = true).
Proof.
  unfold check_exit, compile_exit, run_assembles, run_cmd, exit_of.
  split; [tauto|].
  destruct (assembles feat src) as [im| |].
  - destruct (from_raw (raw_of_image im) []); split; reflexivity.
  - split; discriminate.
  - split; discriminate.
Qed.

(* ------------------------------------------------------------------ *)
(** * C08 *)

Definition preserving (o : write_outcome) : Prop :=
  match o with WWriteFailTruncated _ => False | _ => True end.

Lemma compile_all_or_nothing feat src dest f o :
  let '(e, f') := compile_cmd feat src dest f o in
  (e = 0 -> exists im, assembles feat src = Ok im /\ f' dest = Some (compile_bytes im)) /\
  (e <> 0 -> preserving o -> forall p, f' p = f p) /\
  (forall p, p <> dest -> f' p = f p).
Proof.
  unfold compile_cmd. destruct (assembles feat src) as [im| |].
  - destruct o; cbn [write_file].
    + split; [|split].
      * intros _. exists im. split; [reflexivity|]. unfold upd. rewrite N.eqb_refl. reflexivity.
      * intros H; congruence.
      * intros p Hp. unfold upd. destruct (N.eqb_spec p dest); [contradiction|reflexivity].
    + split; [discriminate|split; reflexivity].
    + split; [discriminate|split; reflexivity].
    + split; [discriminate|split; reflexivity].
    + split; [discriminate|split].
      * intros _ [].
      * intros p Hp. unfold upd. destruct (N.eqb_spec p dest); [contradiction|reflexivity].
  - split; [discriminate|split; reflexivity].
  - split; [discriminate|split; reflexivity].
Qed.

(** Assembly failure (at whatever statement) never touches the file system. *)
Lemma compile_failure_untouched feat src dest f o d a n :
  assembles feat src = Err d a n -> compile_cmd feat src dest f o = (1, f).
Proof. intros H. unfold compile_cmd. rewrite H. reflexivity. Qed.
