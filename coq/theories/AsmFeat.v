(* AsmFeat.v — the stack-feature flag (C18) and purity of assembling (C19) on the model. *)
From Coq Require Import Lia.
From Lace Require Import Word Machine Isa Asm.
Open Scope N_scope.

(* ------------------------------------------------------------------ *)
(** * The flag only ever turns a result into the stack-extension diagnostic *)

Lemma ident_feat pre rest :
  ident false pre rest = ident true pre rest \/
  exists c, ident false pre rest = LexErr E_lex_stack 0 c.
Proof.
  unfold ident. destruct (take_while is_id rest) as [more rest'].
  destruct (is_stack_word _) eqn:E; cbn [andb negb].
  - right. eexists; reflexivity.
  - left. reflexivity.
Qed.

Lemma advance_token_feat l :
  advance_token false l = advance_token true l \/
  exists c, advance_token false l = Some (LexErr E_lex_stack 0 c).
Proof.
  destruct l as [|c rest]; [left; reflexivity|]. cbn [advance_token].
  destruct (c =? 59); [left; reflexivity|].
  destruct (is_whitespace c); [left; reflexivity|].
  destruct ((c =? 120) || (c =? 88)); [left; reflexivity|].
  assert (ID : forall pre r, Some (ident false pre r) = Some (ident true pre r) \/
                             exists c0, Some (ident false pre r) = Some (LexErr E_lex_stack 0 c0)).
  { intros pre r. destruct (ident_feat pre r) as [->|[c0 ->]]; [left; reflexivity|right; eexists; reflexivity]. }
  destruct (c =? 48).
  { destruct rest as [|x rest']; [apply ID|]. destruct ((x =? 120) || (x =? 88)); [left; reflexivity|apply ID]. }
  destruct ((c =? 114) || (c =? 82)).
  { destruct rest as [|d rest']; [apply ID|]. destruct (is_reg_num d); [|apply ID].
    destruct (take_while is_reg_num (d :: rest')) as [nums rest''].
    match goal with |- context [if ?b then _ else _] => destruct b end; [left; reflexivity|apply ID]. }
  destruct (is_id c); [apply ID|].
  left. reflexivity.
Qed.

Definition stack_err_step (s : lex_step) : Prop := exists a n, s = StepErr E_lex_stack a n.

Lemma lex_at_feat l pos :
  lex_at false l pos = lex_at true l pos \/ stack_err_step (lex_at false l pos).
Proof.
  unfold lex_at. destruct (advance_token_feat l) as [->|[c ->]]; [left; reflexivity|].
  right. eexists; eexists; reflexivity.
Qed.

Lemma advance_real_feat l pos :
  advance_real false l pos = advance_real true l pos \/ stack_err_step (advance_real false l pos).
Proof.
  unfold advance_real. destruct (lex_at_feat l pos) as [->|(a & n & ->)].
  - destruct (lex_at true l pos) as [t rest pos'|]; [|left; reflexivity].
    destruct (tk t); try (left; reflexivity). apply lex_at_feat.
  - right. eexists; eexists; reflexivity.
Qed.

Definition stack_err {A} (r : res A) : Prop := exists a n, r = Err E_lex_stack a n.

Lemma preprocess_feat fuel : forall l pos acc,
  preprocess false fuel l pos acc = preprocess true fuel l pos acc \/
  stack_err (preprocess false fuel l pos acc).
Proof.
  induction fuel as [|fuel IH]; intros l pos acc; [left; reflexivity|].
  cbn [preprocess].
  destruct (advance_real_feat l pos) as [->|(a & n & ->)]; [|right; eexists; eexists; reflexivity].
  destruct (advance_real true l pos) as [t rest pos'|d a n]; [|left; reflexivity].
  destruct (tk t) as [ |i|tr|li|di|r|v| | | | ]; try apply IH; try (left; reflexivity).
  destruct di; try apply IH; try (left; reflexivity).
  - destruct (advance_real_feat rest pos') as [->|(a & n & ->)]; [|right; eexists; eexists; reflexivity].
    destruct (advance_real true rest pos') as [v rest2 pos2|d a n]; [|left; reflexivity].
    destruct (tk v) as [ | | |[x|x| ]| | | | | | | ]; try (left; reflexivity). apply IH.
  - destruct (advance_real_feat rest pos') as [->|(a & n & ->)]; [|right; eexists; eexists; reflexivity].
    destruct (advance_real true rest pos') as [v rest2 pos2|d a n]; [|left; reflexivity].
    destruct (tk v) as [ | | |[x|x| ]| | | | | | | ]; try (left; reflexivity); apply IH.
  - destruct (advance_real_feat rest pos') as [->|(a & n & ->)]; [|right; eexists; eexists; reflexivity].
    destruct (advance_real true rest pos') as [v rest2 pos2|d a n]; [|left; reflexivity].
    destruct (tk v) as [ | | |[x|x| ]| | | | | | | ]; try (left; reflexivity); apply IH.
Qed.

(** With the flag off, assembling gives either exactly what it gives with the flag on (same image
    or same diagnostic, same symbol table), or the diagnostic that names the stack feature. *)
Theorem assemble_feat sym0 src :
  assemble false sym0 src = assemble true sym0 src \/ stack_err (fst (assemble false sym0 src)).
Proof.
  unfold assemble, assemble_air.
  destruct (preprocess_feat (S (length src)) src 0 []) as [->|(a & n & ->)]; [left; reflexivity|].
  right. eexists; eexists; reflexivity.
Qed.

(** The stack-extension diagnostic arises from an identifier spelled push/pop/call/rets (any case). *)
Lemma stack_word_rejected pre rest :
  is_stack_word (List.map to_lower (last pre 0 :: fst (take_while is_id rest))) = true ->
  exists c, ident false pre rest = LexErr E_lex_stack 0 c.
Proof.
  intros H. unfold ident. destruct (take_while is_id rest) as [more rest']. cbn [fst] in H.
  rewrite H. cbn. eexists; reflexivity.
Qed.

(* ------------------------------------------------------------------ *)
(** * The VM side of the flag *)

Definition is_stack_instr (i : instr) : Prop :=
  match i with PUSH _ | POP _ | CALL _ | RETS => True | _ => False end.

Lemma step_feat_irrelevant i st : ~ is_stack_instr i -> step true i st = step false i st.
Proof. destruct i; cbn; intros H; try reflexivity; exfalso; apply H; exact I. Qed.

Lemma decode_stack_opcode w : is_stack_instr (decode w) -> w / 4096 = 13.
Proof.
  unfold decode. cbv zeta.
  destruct (w / 4096) as [|[[[[p|p|]|[p|p|]|]|[[p|p|]|[p|p|]|]|]|[[[p|p|]|[p|p|]|]|[[p|p|]|[p|p|]|]|]|]];
    cbn [is_stack_instr]; try contradiction; try reflexivity;
    repeat match goal with |- context [if ?b then _ else _] => destruct b end;
    cbn [is_stack_instr]; try contradiction; try reflexivity.
Qed.

Lemma run_trace_ext feat fuel : forall st tr, exists pre, snd (run feat fuel st tr) = pre ++ tr.
Proof.
  induction fuel as [|fuel IH]; intros st tr; cbn [run].
  - destruct (s_pc st =? 65535); [exists []; reflexivity|].
    destruct ((s_pc st <? s_orig st) || (USER_END <=? s_pc st)); exists []; reflexivity.
  - destruct (s_pc st =? 65535); [exists []; reflexivity|].
    destruct ((s_pc st <? s_orig st) || (USER_END <=? s_pc st)); [exists []; reflexivity|].
    destruct (step feat (decode (M st (s_pc st))) (set_pc st (addw (s_pc st) 1))) as [st'|c st'|st'|];
      try (exists [(s_pc st, M st (s_pc st))]; reflexivity).
    destruct (IH st' ((s_pc st, M st (s_pc st)) :: tr)) as [pre E]. rewrite E.
    exists (pre ++ [(s_pc st, M st (s_pc st))]). rewrite <- app_assoc. reflexivity.
Qed.

(** A run that never fetches a word of opcode 0xD is the same run under both flag values. *)
Theorem run_feat_irrelevant fuel : forall st tr,
  Forall (fun aw => snd aw / 4096 <> 13) (snd (run true fuel st tr)) ->
  run false fuel st tr = run true fuel st tr.
Proof.
  induction fuel as [|fuel IH]; intros st tr H; cbn [run] in *; [reflexivity|].
  destruct (s_pc st =? 65535); [reflexivity|].
  destruct ((s_pc st <? s_orig st) || (USER_END <=? s_pc st)); [reflexivity|].
  set (w := M st (s_pc st)) in *. set (st1 := set_pc st (addw (s_pc st) 1)) in *.
  assert (Hw : w / 4096 <> 13).
  { destruct (step true (decode w) st1) as [st'|c st'|st'|] eqn:E;
      try (inversion H; subst; assumption).
    destruct (run_trace_ext true fuel st' ((s_pc st, w) :: tr)) as [pre Ep]. rewrite Ep in H.
    apply Forall_app in H. destruct H as [_ H]. inversion H; subst; assumption. }
  assert (Hns : ~ is_stack_instr (decode w)).
  { intros K. apply Hw. apply decode_stack_opcode. exact K. }
  rewrite <- (step_feat_irrelevant (decode w) st1 Hns).
  destruct (step true (decode w) st1) as [st'|c st'|st'|] eqn:E; try reflexivity.
  apply IH. exact H.
Qed.

(* ------------------------------------------------------------------ *)
(** * Purity (C19) *)

(** The documented reset empties the symbol table. *)
Definition reset_state (s : symtab) : symtab := [].

Theorem assemble_pure feat (symA : symtab) srcA srcB :
  let after_A := snd (assemble feat symA srcA) in
  assemble feat (reset_state after_A) srcB = assemble feat [] srcB.
Proof. reflexivity. Qed.

(** Without the reset, an earlier assembly can change the outcome: the hypothesis is not vacuous. *)
Lemma needs_reset :
  let a := [97; 32; 104; 97; 108; 116; 10] in      (* "a halt\n" *)
  fst (assemble false (snd (assemble false [] a)) a) <> fst (assemble false [] a).
Proof. vm_compute. discriminate. Qed.
