(* AsmMeaning.v — SPEC of the assembly LANGUAGE, and the THEOREM that the parser reads it.

   [means] is the table of the LC-3 ISA manual (appendix A: "ADD DR, SR1, SR2", "LDR DR, BaseR,
   offset6", ...) and of lace's stack extension: for a mnemonic and its operands IN THE ORDER
   WRITTEN, the machine instruction that is meant — which register is the destination, which the
   base, what the immediate is (the literal's own 16-bit value: range-checked literals are their
   sign-extended fields), [o] standing for the PC-relative field of a label / offset operand.

   THEOREM ([instr_meaning], [trap_meaning]): whatever statement the parser builds from a mnemonic
   and the tokens that follow it, the instruction that statement stands for ([instr_of], the one the
   emitted word decodes to by C01_emit_decode) is the one the table gives for those operand tokens.
   So "add r1 r2 #-3" yields a word that decodes to ADD with DR = 1, SR1 = 2, imm = -3 — not merely
   "some word that decodes to what the parser happened to build". *)
From Coq Require Import List NArith Bool Lia ZifyBool.
From Lace Require Import Word Machine Isa Vm Asm AsmProofs AsmWf AsmAccept.
Import ListNotations.
Open Scope N_scope.

(* ------------------------------------------------------------------ *)
(** * SPEC *)

Inductive opval := VReg (r : N) | VLit (v : N) | VLabel.

Definition opval_of (t : token) : option opval :=
  match tk t with
  | KReg r => Some (VReg r)
  | KLit (LHex v) | KLit (LDec v) => Some (VLit v)
  | KLabel => Some VLabel
  | _ => None
  end.

Fixpoint opvals (toks : list token) : option (list opval) :=
  match toks with
  | [] => Some []
  | t :: r => match opval_of t, opvals r with Some v, Some vs => Some (v :: vs) | _, _ => None end
  end.

(** The assembly language: mnemonic, operands as written, PC-relative field [o]. *)
Definition means (k : instr_kind) (ops : list opval) (o : N) : option instr :=
  match k, ops with
  | IAdd, [VReg dr; VReg sr1; VReg sr2] => Some (ADDr dr sr1 sr2)
  | IAdd, [VReg dr; VReg sr1; VLit imm] => Some (ADDi dr sr1 imm)
  | IAnd, [VReg dr; VReg sr1; VReg sr2] => Some (ANDr dr sr1 sr2)
  | IAnd, [VReg dr; VReg sr1; VLit imm] => Some (ANDi dr sr1 imm)
  | IBr nzp, [_] => Some (BR nzp (sext 9 o))
  | IJmp, [VReg base] => Some (JMP base)
  | IRet, [] => Some (JMP 7)
  | IJsr, [_] => Some (JSR (sext 11 o))
  | IJsrr, [VReg base] => Some (JSRR base)
  | ILd, [VReg dr; _] => Some (LD dr (sext 9 o))
  | ILdi, [VReg dr; _] => Some (LDI dr (sext 9 o))
  | ILdr, [VReg dr; VReg base; VLit off] => Some (LDR dr base off)
  | ILea, [VReg dr; _] => Some (LEA dr (sext 9 o))
  | INot, [VReg dr; VReg sr] => Some (NOT dr sr)
  | IRti, [] => Some RTI
  | ISt, [VReg sr; _] => Some (ST sr (sext 9 o))
  | ISti, [VReg sr; _] => Some (STI sr (sext 9 o))
  | IStr, [VReg sr; VReg base; VLit off] => Some (STR sr base off)
  | IPush, [VReg sr] => Some (PUSH sr)
  | IPop, [VReg dr] => Some (POP dr)
  | ICall, [_] => Some (CALL (sext 10 o))
  | IRets, [] => Some RETS
  | _, _ => None
  end.

Definition trap_means (k : trap_kind) (ops : list opval) : option instr :=
  match k, ops with
  | TGeneric, [VLit v] => Some (TRAP v)
  | TNamed v, [] => Some (TRAP v)          (* getc x20, out x21, puts x22, in x23, putsp x24, halt x25, putn x26, reg x27 *)
  | _, _ => None
  end.

(* ------------------------------------------------------------------ *)
(** * What the operand readers return *)

Lemma expect_reg_val toks te n x p1 : expect_reg (toks, te) n = Ok (x, p1) ->
  exists t r, toks = t :: r /\ opval_of t = Some (VReg x) /\ p1 = (r, tend t).
Proof.
  unfold expect_reg. cbn [fst]. destruct toks as [|t r]; [discriminate|].
  destruct (tk t) eqn:E; cbn [unexpected]; try discriminate. intros H. inversion H; subst.
  exists t, r. unfold opval_of. rewrite E. auto.
Qed.

Lemma expect_lit_val b toks te n v p1 : expect_lit b (toks, te) n = Ok (v, p1) ->
  exists t r, toks = t :: r /\ opval_of t = Some (VLit v) /\ check_range b v = true /\ p1 = (r, tend t).
Proof.
  unfold expect_lit. cbn [fst]. destruct toks as [|t r]; [discriminate|].
  destruct (tk t) as [| | |[x|x| ]| | | | | | |] eqn:E; cbn [unexpected]; try discriminate;
    (destruct (check_range b x) eqn:Ec; [|discriminate]; intros H; inversion H; subst;
     exists t, r; unfold opval_of; rewrite E; auto).
Qed.

Lemma expect_label_val sym toks te n l p1 : expect_label sym (toks, te) n = Ok (l, p1) ->
  exists t r, toks = t :: r /\ opval_of t = Some VLabel /\ p1 = (r, tend t).
Proof.
  unfold expect_label. cbn [fst]. destruct toks as [|t r]; [discriminate|].
  destruct (tk t) eqn:E; cbn [unexpected]; try discriminate. intros H. inversion H; subst.
  exists t, r. unfold opval_of. rewrite E. auto.
Qed.

Lemma expect_lit_or_label_val sym line nb toks te n l p1 : expect_lit_or_label sym line nb (toks, te) n = Ok (l, p1) ->
  exists t r v, toks = t :: r /\ opval_of t = Some v /\ (v = VLabel \/ exists x, v = VLit x) /\ p1 = (r, tend t).
Proof.
  unfold expect_lit_or_label. cbn [fst]. destruct toks as [|t r]; [discriminate|].
  destruct (tk t) as [| | |lk| | | | | | |] eqn:E; cbn [unexpected]; try discriminate.
  - intros H. destruct (expect_label_val _ _ _ _ _ _ H) as (t' & r' & Et & Ev & Ep). inversion Et; subst.
    exists t', r', VLabel. auto.
  - destruct (expect_lit (Signed nb) (t :: r, te) n) as [[v p']| |] eqn:El; try discriminate.
    intros H. inversion H; subst. destruct (expect_lit_val _ _ _ _ _ _ El) as (t' & r' & Et & Ev & _ & Ep). inversion Et; subst.
    exists t', r', (VLit v). split; [reflexivity|]. split; [exact Ev|]. split; [right; eauto|reflexivity].
Qed.

(** A literal that passed the range test of a signed field of at most 8 bits is its own sign-extended low byte. *)
Lemma sx8_small nb v : nb <= 8 -> 1 <= nb -> v < 65536 -> check_range (Signed nb) v = true -> sx8 (v mod 256) = v.
Proof.
  intros Hn H1 Hv H. unfold check_range in H. unfold sx8.
  assert (P : 2 ^ (nb - 1) <= 128).
  { replace 128 with (2 ^ 7) by reflexivity. apply N.pow_le_mono_r; lia. }
  destruct (v <? 32768) eqn:E.
  - apply N.ltb_lt in H. rewrite N.mod_small by lia.
    destruct (v <? 128) eqn:E2; [reflexivity|]. apply N.ltb_ge in E2. lia.
  - apply N.leb_le in H. apply N.ltb_ge in E.
    assert (Hm : v mod 256 = v - 65280).
    { replace v with ((v - 65280) + 255 * 256) at 1 by lia. rewrite N.mod_add by lia. apply N.mod_small. lia. }
    rewrite Hm. destruct (v - 65280 <? 128) eqn:E2; [apply N.ltb_lt in E2; lia|lia].
Qed.

Lemma expect_lit_or_reg_val toks te n x p1 : Forall tok_wf toks ->
  expect_lit_or_reg (toks, te) n = Ok (x, p1) ->
  exists t r, toks = t :: r /\ p1 = (r, tend t) /\
    ((exists y, opval_of t = Some (VReg y) /\ x = IReg y) \/
     (exists v, opval_of t = Some (VLit v) /\ x = IImm5 (v mod 256) /\ sx8 (v mod 256) = v)).
Proof.
  intros Hwf. unfold expect_lit_or_reg. cbn [fst]. destruct toks as [|t r]; [discriminate|].
  destruct (tk t) as [| | |lk| |rg| | | | |] eqn:E; cbn [unexpected]; try discriminate.
  - destruct (expect_lit (Signed 5) (t :: r, te) n) as [[v p']| |] eqn:El; try discriminate.
    intros H. inversion H; subst. destruct (expect_lit_val _ _ _ _ _ _ El) as (t' & r' & Et & Ev & Hc & Ep). inversion Et; subst.
    exists t', r'. split; [reflexivity|]. split; [reflexivity|]. right. exists v. split; [exact Ev|]. split; [reflexivity|].
    apply (sx8_small 5); try lia; try exact Hc.
    inversion Hwf as [|? ? Ht _]; subst. unfold opval_of in Ev. unfold tok_wf, kind_wf in Ht.
    destruct (tk t') as [| | |[a|a| ]| | | | | | |]; try discriminate; inversion Ev; subst; exact Ht.
  - destruct (expect_reg (t :: r, te) n) as [[y p']| |] eqn:Er; try discriminate.
    intros H. inversion H; subst. destruct (expect_reg_val _ _ _ _ _ Er) as (t' & r' & Et & Ev & Ep). inversion Et; subst.
    exists t', r'. split; [reflexivity|]. split; [reflexivity|]. left. exists y. auto.
Qed.

(* ------------------------------------------------------------------ *)
(** * The parser reads the language *)

Lemma wf_tail t r : Forall tok_wf (t :: r) -> Forall tok_wf r.
Proof. intros H. inversion H; assumption. Qed.

Lemma lit_wf t v : tok_wf t -> opval_of t = Some (VLit v) -> v < 65536.
Proof.
  unfold tok_wf, kind_wf, opval_of. destruct (tk t) as [| | |[a|a| ]| | | | | | |]; try discriminate; intros H E; inversion E; subst; exact H.
Qed.

(** Inverting one reader in a chain of [bind]s. *)
Ltac step_reg H := let t := fresh "t" in let r := fresh "r" in let x := fresh "x" in let p := fresh "p" in
  let E := fresh "E" in let Ev := fresh "Ev" in
  match type of H with bind (expect_reg (?toks, ?te) ?n) _ = _ =>
    destruct (expect_reg (toks, te) n) as [[x p]| |] eqn:E; cbn [bind] in H; try discriminate H;
    destruct (expect_reg_val _ _ _ _ _ E) as (t & r & -> & Ev & ->) end.

Ltac step_lol H := let l := fresh "l" in let p := fresh "p" in let E := fresh "E" in
  let t := fresh "t" in let r := fresh "r" in let v := fresh "v" in let Ev := fresh "Ev" in
  match type of H with bind (expect_lit_or_label ?sy ?ln ?nb (?tk0, ?te0) ?n0) _ = _ =>
    destruct (expect_lit_or_label sy ln nb (tk0, te0) n0) as [[l p]| |] eqn:E; cbn [bind] in H; try discriminate H;
    destruct (expect_lit_or_label_val _ _ _ _ _ _ _ _ E) as (t & r & v & -> & Ev & _ & ->) end.

Ltac finish_plain H := inversion H; subst; cbn [firstn opvals];
  repeat match goal with E : opval_of ?t = Some _ |- context [opval_of ?t] => rewrite E end;
  eexists; (split; [reflexivity|]); intros o; reflexivity.

Theorem instr_meaning sym line k toks te n s p' : Forall tok_wf toks ->
  parse_instr sym line k (toks, te) n = Ok (s, p') ->
  exists ops, opvals (firstn (length (shape k)) toks) = Some ops /\ forall o, means k ops o = Some (instr_of s o).
Proof.
  intros Hwf H. destruct k; cbn [parse_instr shape length] in H |- *.
  (* no operand: ret, rti, rets *)
  all: try solve [inversion H; subst; eexists; (split; [reflexivity|]); intros o; reflexivity].
  (* a label or literal offset: br, jsr *)
  all: try solve [step_lol H; finish_plain H].
  (* one register: jmp, jsrr, push, pop *)
  all: try solve [step_reg H; finish_plain H].
  (* register, then label or literal offset: ld ldi lea st sti *)
  all: try solve [step_reg H; step_lol H; finish_plain H].
  (* two registers: not *)
  all: try solve [step_reg H; step_reg H; finish_plain H].
  (* call: a label *)
  all: try solve [destruct (expect_label sym (toks, te) n) as [[l p1]| |] eqn:E1; cbn [bind] in H; try discriminate H;
                  destruct (expect_label_val _ _ _ _ _ _ E1) as (t1 & r1 & -> & Ev1 & ->); finish_plain H].
  (* ldr / str: reg reg offset6 *)
  all: try solve [step_reg H; step_reg H;
        match type of H with bind (expect_lit ?b (?tk0, ?te0) ?n0) _ = _ =>
          destruct (expect_lit b (tk0, te0) n0) as [[v p3]| |] eqn:E3; cbn [bind] in H; try discriminate H end;
        destruct (expect_lit_val _ _ _ _ _ _ E3) as (t3 & r3 & -> & Ev3 & Hc & ->);
        assert (Hv : v < 65536) by (eapply lit_wf; [|exact Ev3]; apply wf_tail in Hwf; apply wf_tail in Hwf; inversion Hwf; assumption);
        inversion H; subst; cbn [firstn opvals];
        repeat match goal with E : opval_of ?t = Some _ |- context [opval_of ?t] => rewrite E end;
        eexists; (split; [reflexivity|]); intros o; cbn [means instr_of];
        rewrite (sx8_small 6 v) by (try lia; exact Hc); reflexivity].
  (* add / and: reg reg reg-or-imm5 *)
  all: (step_reg H; step_reg H;
        match type of H with bind (expect_lit_or_reg (?tk0, ?te0) ?n0) _ = _ =>
          destruct (expect_lit_or_reg (tk0, te0) n0) as [[y p3]| |] eqn:E3; cbn [bind] in H; try discriminate H end;
        apply expect_lit_or_reg_val in E3; [|apply wf_tail in Hwf; apply wf_tail in Hwf; exact Hwf];
        destruct E3 as (t3 & r3 & -> & -> & [(z & Ez & ->)|(v & Ez & -> & Esx)]);
        inversion H; subst; cbn [firstn opvals];
        repeat match goal with E : opval_of ?t = Some _ |- context [opval_of ?t] => rewrite E end;
        eexists; (split; [reflexivity|]); intros o; cbn [means instr_of]; rewrite ?Esx; reflexivity).
Qed.

Theorem trap_meaning k toks te n s p' : Forall tok_wf toks -> kind_wf (KTrap k) ->
  parse_trap k (toks, te) n = Ok (s, p') ->
  exists ops, opvals (firstn (length (trap_shape k)) toks) = Some ops /\ forall o, trap_means k ops = Some (instr_of s o).
Proof.
  intros Hwf Hk H. destruct k; cbn [parse_trap trap_shape length] in H |- *.
  - destruct (expect_lit (Unsigned 8) (toks, te) n) as [[v p1]| |] eqn:E1; cbn [bind] in H; try discriminate H.
    destruct (expect_lit_val _ _ _ _ _ _ E1) as (t1 & r1 & -> & Ev1 & Hc & ->).
    inversion H; subst. cbn [firstn opvals]. rewrite Ev1. eexists. split; [reflexivity|]. intros o. cbn [trap_means instr_of].
    cbn [check_range] in Hc. apply N.ltb_lt in Hc. change (2 ^ 8) with 256 in Hc. rewrite N.mod_small by lia. reflexivity.
  - inversion H; subst. eexists. split; [reflexivity|]. intros o. reflexivity.
Qed.

(* ------------------------------------------------------------------ *)
(** * Whole programs: every statement of the AIR was read from a mnemonic of the source *)

From Lace Require Import AsmTotal AsmLayout AsmBreaks.

(** Statement [ln] was read from the token [t] of the list - its recorded source offset is [t]'s -
    and the tokens [rest] that follow it. *)
Definition read_from (toks : list token) (ln : asm_line) : Prop :=
  exists pre t rest, toks = pre ++ t :: rest /\ al_offs ln = toffs t /\
    match tk t with
    | KInstr k => exists sym line te n p', parse_instr sym line k (rest, te) n = Ok (al_stmt ln, p')
    | KTrap k => exists te n p', parse_trap k (rest, te) n = Ok (al_stmt ln, p')
    | KByte v => al_stmt ln = SRawWord v
    | _ => False
    end.

Definition reads_ok (all : list token) (ps : parser) (r : res (air * symtab) * symtab) : Prop :=
  (exists pre, all = pre ++ p_toks ps) -> Forall (read_from all) (a_ast (p_air ps)) ->
  match fst r with
  | Ok (a, _) => Forall (read_from all) (a_ast a)
  | _ => True
  end.

Lemma suffix_skipn {A} (all pre : list A) w l : all = pre ++ l -> exists pre', all = pre' ++ skipn w l.
Proof.
  intros ->. exists (pre ++ firstn w l). rewrite <- app_assoc, firstn_skipn. reflexivity.
Qed.

Lemma stmt_part_reads all rec n ps labeled toks1 sym1 :
  (forall q, reads_ok all q (rec q)) ->
  (exists pre, all = pre ++ toks1) -> Forall (read_from all) (a_ast (p_air ps)) ->
  match fst (stmt_part rec n ps labeled toks1 sym1) with
  | Ok (a, _) => Forall (read_from all) (a_ast a)
  | _ => True
  end.
Proof.
  intros Hrec [pre Hall] Hinv. unfold stmt_part.
  destruct toks1 as [|t r]; [destruct labeled; cbn; [exact I|apply lrev_Forall; exact Hinv]|].
  assert (Hfin : forall (x : res (stmt * pst)) w,
     (forall s toks2 te2, x = Ok (s, (toks2, te2)) -> toks2 = skipn w r /\ read_from all (mkLine 0 s (toffs t) 0)) ->
     match fst (match x with
                | Err d a n0 => (Err d a n0, sym1) | Bad w0 => (Bad w0, sym1)
                | Ok (s, (toks2, tok_end2)) =>
                    if p_line ps + 1 <? W
                    then rec (mkParser toks2 (mkAir (a_orig (p_air ps))
                                (mkLine (wrap (p_count ps + 1)) s (toffs t)
                                   (if tok_end2 <=? toffs t then tlen t else tok_end2 - toffs t) :: a_ast (p_air ps))
                                (a_bps (p_air ps))) (p_line ps + 1) tok_end2 sym1 (p_count ps + 1))
                    else (Err E_too_long (n - 1) 0, sym1)
                end) with
     | Ok (a, _) => Forall (read_from all) (a_ast a)
     | _ => True
     end).
  { intros x w Hx. destruct x as [[s [toks2 te2]]| |]; cbn [fst]; try exact I.
    destruct (p_line ps + 1 <? W); [|exact I].
    destruct (Hx s toks2 te2 eq_refl) as [E Hr]. subst toks2.
    match goal with |- context [rec ?q] => pose proof (Hrec q) as K; unfold reads_ok in K; cbn [p_air a_ast p_toks] in K end.
    apply K.
    - destruct (suffix_skipn all (pre ++ [t]) w r) as [pre' Hp]; [rewrite Hall, <- app_assoc; reflexivity|]. exists pre'. exact Hp.
    - constructor; [|exact Hinv].
      destruct Hr as (pr & t0 & rs & E1 & E2 & E3). exists pr, t0, rs. split; [exact E1|]. split; [exact E2|exact E3]. }
  destruct (tk t) as [|k|k|l|d|rg|v| | | | ] eqn:Ek; cbn [unexpected fst]; try exact I.
  - (* instruction *)
    apply (Hfin _ (length (AsmAccept.shape k))). intros s toks2 te2 E. split; [apply (parse_instr_consumes _ _ _ _ _ _ _ _ _ E)|].
    exists pre, t, r. split; [exact Hall|]. split; [reflexivity|]. rewrite Ek. cbn [al_stmt]. eauto 6.
  - (* trap *)
    apply (Hfin _ (length (AsmAccept.trap_shape k))). intros s toks2 te2 E. split; [apply (parse_trap_consumes _ _ _ _ _ _ _ E)|].
    exists pre, t, r. split; [exact Hall|]. split; [reflexivity|]. rewrite Ek. cbn [al_stmt]. eauto.
  - (* .orig *)
    destruct d; cbn [fst]; try exact I.
    destruct (expect_lit (Unsigned 16) (r, p_tok_end ps) n) as [[v [toks2 te2]]| |] eqn:El; cbn [fst]; try exact I.
    destruct (a_orig (p_air ps)); [exact I|].
    pose proof (expect_lit_one _ _ _ _ _ _ _ El) as E. subst toks2.
    match goal with |- context [rec ?q] => pose proof (Hrec q) as K; unfold reads_ok in K; cbn [p_air a_ast p_toks] in K end.
    apply K; [|exact Hinv].
    destruct (suffix_skipn all (pre ++ [t]) 1 r) as [pre' Hp]; [rewrite Hall, <- app_assoc; reflexivity|]. exists pre'. exact Hp.
  - (* data word *)
    apply (Hfin (Ok (SRawWord v, (r, p_tok_end ps))) 0%nat).
    intros s toks2 te2 E. injection E as Es Et Ete. subst s toks2. split; [reflexivity|].
    exists pre, t, r. split; [exact Hall|]. split; [reflexivity|]. rewrite Ek. reflexivity.
  - (* .break *)
    match goal with |- context [rec ?q] => pose proof (Hrec q) as K; unfold reads_ok in K; cbn [p_air a_ast p_toks] in K end.
    apply K; [|exact Hinv]. exists (pre ++ [t]). rewrite <- app_assoc. exact Hall.
Qed.

Theorem parse_reads all : forall fuel n ps, reads_ok all ps (parse fuel n ps).
Proof.
  induction fuel as [|fuel IH]; intros n ps; [intros _ _; exact I|].
  unfold reads_ok. intros [pre Hall] Hinv. rewrite parse_round.
  pose proof (fun lab toks1 sym1 => stmt_part_reads all (parse fuel n) n ps lab toks1 sym1 (IH n)) as S.
  destruct (p_toks ps) as [|t r] eqn:Et; [apply S; [exists pre; exact Hall|exact Hinv]|].
  destruct (tk t) eqn:Ek; try (apply (S false (t :: r) (p_sym ps)); [exists pre; exact Hall|exact Hinv]).
  destruct (sym_get (p_sym ps) (ttext t)); [exact I|].
  apply (S true r (sym_put (p_sym ps) (ttext t) (p_line ps))); [|exact Hinv].
  exists (pre ++ [t]). rewrite <- app_assoc. exact Hall.
Qed.

(* ------------------------------------------------------------------ *)
(** * The image, statement by statement, means what the text says *)

(** Statement [ln] stands for what the table gives for a mnemonic (or data word) of the source and the operand
    tokens behind it; its recorded source offset is that token's. *)
Definition means_ok (toks : list token) (ln : asm_line) : Prop :=
  exists pre t rest, toks = pre ++ t :: rest /\ al_offs ln = toffs t /\
    match tk t with
    | KInstr k => exists ops, opvals (firstn (length (shape k)) rest) = Some ops /\
                              forall o, means k ops o = Some (instr_of (al_stmt ln) o)
    | KTrap k => exists ops, opvals (firstn (length (trap_shape k)) rest) = Some ops /\
                             forall o, trap_means k ops = Some (instr_of (al_stmt ln) o)
    | KByte v => al_stmt ln = SRawWord v
    | _ => False
    end.

Lemma Forall_suffix {A} (P : A -> Prop) pre l : Forall P (pre ++ l) -> Forall P l.
Proof. intros H. apply Forall_app in H. tauto. Qed.

Lemma read_means toks ln : Forall tok_wf toks -> read_from toks ln -> means_ok toks ln.
Proof.
  intros Hwf (pre & t & rest & E & Eo & H). exists pre, t, rest. split; [exact E|]. split; [exact Eo|].
  assert (Hall : Forall tok_wf (t :: rest)) by (rewrite E in Hwf; exact (Forall_suffix _ _ _ Hwf)).
  assert (Hrest : Forall tok_wf rest) by (inversion Hall; assumption).
  assert (Ht : tok_wf t) by (inversion Hall; assumption).
  destruct (tk t) eqn:Ek; try contradiction.
  - destruct H as (sym & line & te & n & p' & Hp). exact (instr_meaning _ _ _ _ _ _ _ _ Hrest Hp).
  - destruct H as (te & n & p' & Hp). unfold tok_wf in Ht. rewrite Ek in Ht. exact (trap_meaning _ _ _ _ _ _ Hrest Ht Hp).
  - exact H.
Qed.

(** Backpatching only fills labels in: the instruction a statement stands for does not change. *)
Lemma backpatch_stmt_instr sym s s' : backpatch_stmt sym s = Ok s' ->
  (forall o, instr_of s' o = instr_of s o) /\ (forall v, s = SRawWord v -> s' = SRawWord v).
Proof.
  destruct s; cbn [backpatch_stmt]; intros H;
    try (inversion H; subst; split; [reflexivity|intros w0 E; exact E]);
    (match type of H with context [fill sym ?x] => destruct (fill sym x) as [l'| |] end;
     cbn [bind] in H; try discriminate; inversion H; subst;
     split; [reflexivity|intros w0 E; discriminate E]).
Qed.

Lemma backpatch_means toks sym : forall ls ls', backpatch sym ls = Ok ls' ->
  Forall (means_ok toks) ls -> Forall (means_ok toks) ls'.
Proof.
  induction ls as [|ln r IH]; intros ls' H Hm; cbn [backpatch] in H; [inversion H; constructor|].
  destruct (backpatch_stmt sym (al_stmt ln)) as [s'| |] eqn:Es; cbn [bind] in H; try discriminate.
  destruct (backpatch sym r) as [r'| |] eqn:Er; cbn [bind] in H; try discriminate.
  inversion H; subst. inversion Hm as [|? ? Hl Hr]; subst. constructor; [|apply IH; [reflexivity|exact Hr]].
  destruct (backpatch_stmt_instr _ _ _ Es) as [Hi Hraw].
  destruct Hl as (pre & t & rest & E & Eo & K). exists pre, t, rest. split; [exact E|]. split; [exact Eo|].
  cbn [al_stmt]. destruct (tk t); try contradiction.
  - destruct K as (ops & Ho & Hmn). exists ops. split; [exact Ho|]. intros o. rewrite Hi. apply Hmn.
  - destruct K as (ops & Ho & Hmn). exists ops. split; [exact Ho|]. intros o. rewrite Hi. apply Hmn.
  - apply Hraw. exact K.
Qed.

(** END TO END.  For every source the assembler accepts: the i-th word of the image decodes, by the ISA's decoder, to
    the instruction that the assembly-language table [means] gives for a mnemonic token of the source and the operand
    tokens written behind it (in the manual's order: destination, sources / base, offset), the PC-relative field being
    the one [bit_offs] computes for the statement; data words are the values written.  The statements appear in the
    order of their source offsets (the i-th AIR line carries the offset of its mnemonic). *)
Theorem program_meaning feat sym0 src toks im sym1 :
  preprocess feat (S (length src)) src 0 [] = Ok toks ->
  assemble feat sym0 src = (Ok im, sym1) ->
  exists a, assemble_air feat sym0 src = (Ok a, sym1) /\
    Forall2 (fun ln w =>
      exists pre t rest, toks = pre ++ t :: rest /\ al_offs ln = toffs t /\
        match tk t with
        | KInstr k => exists ops o, opvals (firstn (length (shape k)) rest) = Some ops /\ means k ops o = Some (decode w) /\
                                    match pcrel_of (al_stmt ln) with
                                    | Some (l, nb) => bit_offs (al_line ln) l nb = Ok o
                                    | None => True
                                    end
        | KTrap k => exists ops, opvals (firstn (length (trap_shape k)) rest) = Some ops /\ trap_means k ops = Some (decode w)
        | KByte v => w = v
        | _ => False
        end) (a_ast a) (i_words im).
Proof.
  intros Hp Ha. destruct (assemble_image _ _ _ _ _ Ha) as (a & Hair & _ & _ & _ & _ & Hlt & Hdec).
  exists a. split; [exact Hair|].
  (* the statements of [a] stand for what the table says *)
  assert (Hm : Forall (means_ok toks) (a_ast a)).
  { unfold assemble_air in Hair. rewrite Hp in Hair.
    pose proof (preprocess_wf feat (S (length src)) src 0 [] (Forall_nil _)) as Hwf. rewrite Hp in Hwf. cbn [all_wf] in Hwf.
    pose proof (parse_reads toks (S (length toks)) (bytes src) (mkParser toks (mkAir None [] []) 1 0 sym0 0)) as R.
    unfold reads_ok in R. cbn [p_toks p_air a_ast] in R.
    specialize (R (ex_intro _ [] eq_refl) (Forall_nil _)).
    destruct (parse _ _ _) as [[[a0 s2]| |] sy]; cbn [fst] in R; try discriminate.
    destruct (backpatch sy (a_ast a0)) as [ast'| |] eqn:Eb; try discriminate.
    inversion Hair; subst. cbn [a_ast].
    eapply backpatch_means; [exact Eb|].
    eapply Forall_impl; [|exact R]. intros ln Hr. apply read_means; assumption. }
  (* combine with "the word decodes to the statement" *)
  clear Hair Ha Hlt. revert Hm. induction Hdec as [|ln w ls ws Hw _ IH]; intros Hm; [constructor|].
  inversion Hm as [|? ? Hl Hr]; subst. constructor; [|apply IH; exact Hr].
  destruct Hw as (o & _ & Hword & Hd & Hpc).
  destruct Hl as (pre & t & rest & E & Eo & K). exists pre, t, rest. split; [exact E|]. split; [exact Eo|].
  destruct (tk t); try contradiction.
  - destruct K as (ops & Ho & Hmn). exists ops, o. split; [exact Ho|]. split; [rewrite Hd; apply Hmn|exact Hpc].
  - destruct K as (ops & Ho & Hmn). exists ops. split; [exact Ho|]. rewrite Hd. apply Hmn.
  - rewrite K in Hword. cbn in Hword. exact Hword.
Qed.

(** Non-vacuity: `add r1 r2 #-3` means ADD DR=1 SR1=2 imm=-3; `ldr r7 r6 x-1` means LDR DR=7 Base=6 off=-1; `str r1 r2 #5` STR
    SR=1 Base=2 off=5; `trap x25` is HALT's trap. *)
Example means_examples :
  means IAdd [VReg 1; VReg 2; VLit 65533] 0 = Some (ADDi 1 2 65533) /\
  means ILdr [VReg 7; VReg 6; VLit 65535] 0 = Some (LDR 7 6 65535) /\
  means IStr [VReg 1; VReg 2; VLit 5] 0 = Some (STR 1 2 5) /\
  means (IBr 5) [VLabel] 511 = Some (BR 5 65535) /\
  trap_means TGeneric [VLit 37] = Some (TRAP 37) /\ means IAdd [VReg 1; VLit 2; VReg 3] 0 = None.
Proof. vm_compute. repeat split. Qed.
