(* CmdProofs.v — THEOREMS for C14: the model of the command language (Cmd.v) against its
   specification (CmdSpec.v).  For all strings; no length bound anywhere. *)
From Coq Require Import List NArith ZArith Bool String Ascii Lia.
From Lace Require Import CmdSpec Cmd.
Import ListNotations.
Open Scope N_scope.

Arguments N.add : simpl never.
Arguments N.sub : simpl never.
Arguments N.mul : simpl never.
Arguments N.eqb : simpl never.
Arguments N.ltb : simpl never.
Arguments N.leb : simpl never.
Arguments Z.add : simpl never.
Arguments Z.sub : simpl never.
Arguments Z.mul : simpl never.
Arguments Z.ltb : simpl never.
Arguments Z.leb : simpl never.
Arguments Z.of_N : simpl never.
Arguments Z.modulo : simpl never.

(** Destruct every comparison in the goal, keeping its meaning as a hypothesis. *)
Ltac cmp :=
  repeat match goal with
  | |- context [N.eqb ?a ?b] => destruct (N.eqb_spec a b)
  | |- context [N.leb ?a ?b] => destruct (N.leb_spec a b)
  | |- context [N.ltb ?a ?b] => destruct (N.ltb_spec a b)
  | |- context [Z.ltb ?a ?b] => destruct (Z.ltb_spec a b)
  | |- context [Z.leb ?a ?b] => destruct (Z.leb_spec a b)
  end.

Ltac cmp_in H :=
  repeat match type of H with
  | context [N.eqb ?a ?b] => destruct (N.eqb_spec a b)
  | context [N.leb ?a ?b] => destruct (N.leb_spec a b)
  | context [N.ltb ?a ?b] => destruct (N.ltb_spec a b)
  | context [Z.ltb ?a ?b] => destruct (Z.ltb_spec a b)
  | context [Z.leb ?a ?b] => destruct (Z.leb_spec a b)
  end.

(* ------------------------------------------------------------------ *)
(** * Digits *)

Lemma digit_agree : forall R c, parse_digit R c = digit_of (radix_val R) c.
Proof.
  intros R c. unfold parse_digit, digit_of, between.
  destruct R; simpl radix_val; cmp; simpl; cmp; simpl; try reflexivity; try lia; f_equal; lia.
Qed.

Lemma digit_range : forall r c d, digit_of r c = Some d -> (0 <= d < r)%Z.
Proof.
  intros r c d. unfold digit_of, between. cmp; simpl; cmp; intros Hd; inversion Hd; subst; lia.
Qed.

Lemma radix_val_range : forall R, (2 <= radix_val R <= 16)%Z.
Proof. destruct R; simpl; lia. Qed.

Lemma digits_value_ge : forall R ds acc m,
  (0 <= acc)%Z -> digits_value (radix_val R) ds acc = Some m -> (acc <= m)%Z.
Proof.
  intros R ds. induction ds as [|c ds IH]; simpl; intros acc m Ha H.
  - inversion H; lia.
  - destruct (digit_of (radix_val R) c) as [d|] eqn:E; [|discriminate].
    apply digit_range in E. apply IH in H.
    + destruct R; simpl radix_val in *; lia.
    + destruct R; simpl radix_val in *; lia.
Qed.

Lemma in_i32_iff : forall z, in_i32 z = true <-> (i32_min <= z <= i32_max)%Z.
Proof.
  intros z. unfold in_i32. rewrite andb_true_iff, !Z.leb_le. tauto.
Qed.

Lemma digit_loop_complete : forall R eoi ds acc m,
  (0 <= acc)%Z -> digits_value (radix_val R) ds acc = Some m -> (m <= i32_max)%Z ->
  digit_loop R eoi ds acc = LDone m [].
Proof.
  intros R eoi ds. induction ds as [|c ds IH]; simpl; intros acc m Ha H Hm.
  - inversion H; reflexivity.
  - rewrite digit_agree.
    destruct (digit_of (radix_val R) c) as [d|] eqn:E; [|discriminate].
    pose proof (digit_range _ _ _ E) as Hd.
    assert (Hge : (acc * radix_val R + d <= m)%Z).
    { apply (digits_value_ge R ds); [|exact H]. destruct R; simpl radix_val in *; lia. }
    assert (Hin1 : in_i32 (acc * radix_val R) = true).
    { apply in_i32_iff. unfold i32_min, i32_max in *. destruct R; simpl radix_val in *; lia. }
    assert (Hin2 : in_i32 (acc * radix_val R + d) = true).
    { apply in_i32_iff. unfold i32_min, i32_max in *. destruct R; simpl radix_val in *; lia. }
    unfold checked_mul. rewrite Hin1. unfold checked_add. rewrite Hin2.
    apply IH; [|exact H|exact Hm]. destruct R; simpl radix_val in *; lia.
Qed.

Lemma digit_loop_done : forall R eoi ds acc m rest,
  (0 <= acc <= i32_max)%Z -> digit_loop R eoi ds acc = LDone m rest ->
  rest = [] /\ digits_value (radix_val R) ds acc = Some m /\ (0 <= m <= i32_max)%Z.
Proof.
  intros R eoi ds. induction ds as [|c ds IH]; simpl; intros acc m rest Ha H.
  - inversion H; subst. auto.
  - rewrite digit_agree in H.
    destruct (digit_of (radix_val R) c) as [d|] eqn:E; [|discriminate].
    pose proof (digit_range _ _ _ E) as Hd.
    unfold checked_mul in H. destruct (in_i32 (acc * radix_val R)) eqn:H1; [|discriminate].
    unfold checked_add in H. destruct (in_i32 (acc * radix_val R + d)) eqn:H2; [|discriminate].
    apply in_i32_iff in H2. apply IH in H; [exact H|].
    split; [|lia]. destruct R; simpl radix_val in *; lia.
Qed.

Lemma digit_loop_early : forall R eoi ds acc r,
  digit_loop R eoi ds acc = LEarly r -> r = eoi \/ r = Err (IntegerTooLarge 32767).
Proof.
  intros R eoi ds. induction ds as [|c ds IH]; simpl; intros acc r H; [discriminate|].
  destruct (parse_digit R c); [|inversion H; auto].
  destruct (checked_mul acc (radix_val R)); [|inversion H; auto].
  destruct (checked_add z0 z); [|inversion H; auto].
  eapply IH; exact H.
Qed.

(* ------------------------------------------------------------------ *)
(** * parse_integer, in two halves: up to the prefix, and after it *)

Definition sv (fs : option sign) : Z := match fs with Some s => sign_val s | None => 1%Z end.
Definition is_none {A} (o : option A) : bool := match o with None => true | Some _ => false end.

Definition pi_tail (first_sign : option sign) (rdx : radix) (leading_zeros : bool) (chars : list N)
  : res verr (option Z) :=
  let '(second_sign, chars) := take_sign chars in
  match first_sign, second_sign with
  | Some _, Some _ => Err MalformedInteger
  | _, _ =>
      let sgn := match first_sign with Some s => Some s | None => second_sign end in
      let end_of_integer_result : res verr (option Z) :=
        if (match sgn with Some _ => true | None => false end)
           || leading_zeros || radix_eqb rdx Decimal
        then Err MalformedInteger else Ok None in
      match chars with
      | [] => end_of_integer_result
      | _ =>
          match digit_loop rdx end_of_integer_result chars 0 with
          | LEarly r => r
          | LDone integer rest =>
              match rest with
              | _ :: _ => Panic 1
              | [] =>
                  match sgn with
                  | None => Ok (Some integer)
                  | Some s =>
                      let v := (integer * sign_val s)%Z in
                      if in_i32 v then Ok (Some v) else Panic 2
                  end
              end
          end
      end
  end.

Lemma pi_unfold : forall s rs,
  parse_integer s rs =
  match s with
  | [] => Ok None
  | _ =>
      let '(first_sign, chars) := take_sign s in
      if rs && is_none first_sign then Err MalformedInteger
      else
        do pc <- take_prefix chars;
        let '(p, chars) := pc in
        match p with
        | PSingleZero => Ok (Some 0%Z)
        | PNonInteger => match first_sign with Some _ => Err MalformedInteger | None => Ok None end
        | PInteger rdx lz => pi_tail first_sign rdx lz chars
        end
  end.
Proof. intros [|c s] rs; reflexivity. Qed.

Definition not_sign (l : list N) : Prop := forall c r, l = c :: r -> c <> 43 /\ c <> 45.

Definition sgn_opt (sg : list N) : option sign :=
  match sg with
  | [c] => if c =? 43 then Some Positive else if c =? 45 then Some Negative else None
  | _ => None
  end.

Lemma SignSyn_cases : forall sg k, SignSyn sg k ->
  (sg = [] /\ k = 1%Z) \/ (sg = [43] /\ k = 1%Z) \/ (sg = [45] /\ k = (-1)%Z).
Proof. intros sg k H. inversion H; auto. Qed.

Lemma take_sign_app : forall sg k rest, SignSyn sg k -> not_sign rest ->
  take_sign (sg ++ rest) = (sgn_opt sg, rest) /\ sv (sgn_opt sg) = k.
Proof.
  intros sg k rest H Hn. destruct (SignSyn_cases _ _ H) as [[-> ->]|[[-> ->]|[-> ->]]];
    [|split; reflexivity|split; reflexivity].
  split; [|reflexivity]. simpl. destruct rest as [|c r]; [reflexivity|].
  destruct (Hn c r eq_refl) as [H1 H2]. unfold take_sign.
  destruct (N.eqb_spec c 43); [contradiction|]. destruct (N.eqb_spec c 45); [contradiction|].
  reflexivity.
Qed.

Lemma take_sign_inv : forall s fs rest, take_sign s = (fs, rest) ->
  exists sg, s = sg ++ rest /\ SignSyn sg (sv fs) /\ sgn_opt sg = fs /\ (fs = None -> not_sign rest).
Proof.
  intros s fs rest H. unfold take_sign in H. destruct s as [|c r].
  - inversion H; subst. exists []. split; [reflexivity|]. split; [constructor|]. split; [reflexivity|].
    intros _ c' r' E; discriminate.
  - destruct (N.eqb_spec c 43).
    { inversion H; subst. exists [43]. split; [reflexivity|]. split; [constructor|].
      split; [reflexivity|discriminate]. }
    destruct (N.eqb_spec c 45).
    { inversion H; subst. exists [45]. split; [reflexivity|]. split; [constructor|].
      split; [reflexivity|discriminate]. }
    inversion H; subst. exists []. split; [reflexivity|]. split; [constructor|]. split; [reflexivity|].
    intros _ c' r' E. inversion E; subst. auto.
Qed.

Lemma digit_not_sign : forall r c d ds, digit_of r c = Some d -> not_sign (c :: ds).
Proof.
  intros r c d ds H c' r' E. inversion E; subst. unfold digit_of, between in H.
  cmp_in H; simpl in H; try discriminate; lia.
Qed.

Lemma digits_head : forall r ds acc m, ds <> [] -> digits_value r ds acc = Some m ->
  exists c ds' d, ds = c :: ds' /\ digit_of r c = Some d.
Proof.
  intros r [|c ds'] acc m Hne H; [contradiction|]. simpl in H.
  destruct (digit_of r c) eqn:E; [|discriminate]. eauto.
Qed.

Lemma pi_tail_complete : forall fs R lz sg2 k2 ds m,
  SignSyn sg2 k2 -> (fs = None \/ sg2 = []) -> ds <> [] ->
  digits_value (radix_val R) ds 0 = Some m -> (m <= i32_max)%Z ->
  pi_tail fs R lz (sg2 ++ ds) = Ok (Some (sv fs * k2 * m)%Z).
Proof.
  intros fs R lz sg2 k2 ds m Hs Hor Hne Hv Hm.
  destruct (digits_head _ _ _ _ Hne Hv) as (c & ds' & d & -> & Hd).
  destruct (take_sign_app sg2 k2 (c :: ds') Hs (digit_not_sign _ _ _ _ Hd)) as [Ets Ek].
  unfold pi_tail. rewrite Ets.
  pose proof (digits_value_ge R _ _ _ (Z.le_refl 0) Hv) as Hge.
  assert (Hin : forall s, in_i32 (m * sign_val s) = true).
  { intros s. apply in_i32_iff. unfold i32_min, i32_max in *. destruct s; simpl; lia. }
  destruct fs as [s1|]; destruct (sgn_opt sg2) as [s2|] eqn:E2.
  - destruct Hor as [Hx|Hx]; [discriminate|subst sg2; discriminate].
  - rewrite (digit_loop_complete R _ _ 0 m (Z.le_refl 0) Hv Hm). rewrite Hin.
    simpl in Ek. subst k2. simpl sv. f_equal. f_equal. lia.
  - rewrite (digit_loop_complete R _ _ 0 m (Z.le_refl 0) Hv Hm). rewrite Hin.
    simpl in Ek. subst k2. simpl sv. f_equal. f_equal. lia.
  - rewrite (digit_loop_complete R _ _ 0 m (Z.le_refl 0) Hv Hm).
    simpl in Ek. subst k2. simpl sv. f_equal. f_equal. lia.
Qed.

Lemma pi_tail_sound : forall fs R lz chars v,
  pi_tail fs R lz chars = Ok (Some v) ->
  exists sg2 k2 ds m, chars = sg2 ++ ds /\ SignSyn sg2 k2 /\ (fs = None \/ sg2 = []) /\ ds <> [] /\
    digits_value (radix_val R) ds 0 = Some m /\ (m <= i32_max)%Z /\ v = (sv fs * k2 * m)%Z.
Proof.
  intros fs R lz chars v H. unfold pi_tail in H.
  destruct (take_sign chars) as [ss c3] eqn:Ets.
  destruct (take_sign_inv _ _ _ Ets) as (sg2 & -> & Hs2 & Eopt & _).
  assert (Hboth : ~ (fs <> None /\ ss <> None)).
  { intros [H1 H2]. destruct fs; [|congruence]. destruct ss; [|congruence]. discriminate. }
  set (sgn := match fs with Some s => Some s | None => ss end) in *.
  set (eoi := if (match sgn with Some _ => true | None => false end) || lz || radix_eqb R Decimal
              then Err MalformedInteger else Ok None : res verr (option Z)) in *.
  assert (Heoi : eoi <> Ok (Some v)). { unfold eoi. destruct (_ || _ || _); discriminate. }
  assert (Hbody :
    match c3 with
    | [] => eoi
    | _ :: _ =>
        match digit_loop R eoi c3 0 with
        | LDone integer rest =>
            match rest with
            | [] => match sgn with
                    | Some s => if in_i32 (integer * sign_val s) then Ok (Some (integer * sign_val s)%Z) else Panic 2
                    | None => Ok (Some integer)
                    end
            | _ :: _ => Panic 1
            end
        | LEarly r => r
        end
    end = Ok (Some v)).
  { destruct fs; destruct ss; try discriminate; exact H. }
  clear H. destruct c3 as [|c c3']; [contradiction|].
  destruct (digit_loop R eoi (c :: c3') 0) as [m rest|r] eqn:EL.
  2:{ destruct (digit_loop_early _ _ _ _ _ EL) as [-> | ->]; [contradiction|discriminate]. }
  assert (H0 : (0 <= 0 <= i32_max)%Z) by (unfold i32_max; lia).
  destruct (digit_loop_done _ _ _ _ _ _ H0 EL) as (-> & Hv & Hm).
  exists sg2, (sv ss), (c :: c3'), m. repeat split; auto; try discriminate; try lia.
  - destruct fs; [right|left; reflexivity]. destruct ss; [exfalso; apply Hboth; split; discriminate|].
    inversion Hs2; subst; try reflexivity; vm_compute in Eopt; discriminate.
  - subst sgn. destruct fs as [s|]; [destruct ss; [exfalso; apply Hboth; split; discriminate|]|destruct ss as [s|]].
    + destruct (in_i32 _); inversion Hbody. simpl. lia.
    + destruct (in_i32 _); inversion Hbody. simpl. lia.
    + inversion Hbody. simpl. lia.
Qed.


Lemma dec_digit_between : forall c d, digit_of 10 c = Some d -> between 48 c 57 = true.
Proof.
  intros c d H. unfold digit_of, between in *. cmp_in H; simpl in *; cmp_in H; try discriminate; try lia.
  all: cmp; try reflexivity; lia.
Qed.

Lemma take_prefix_digit_nz : forall c r, between 48 c 57 = true -> c <> 48 ->
  take_prefix (c :: r) = Ok (PInteger Decimal false, c :: r).
Proof.
  intros c r H Hn. unfold take_prefix, between in *.
  destruct (N.eqb_spec c 48); [contradiction|].
  cmp_in H; try discriminate. cmp; try lia; reflexivity.
Qed.

Lemma take_prefix_zero_digit : forall c r, between 48 c 57 = true ->
  take_prefix (48 :: c :: r) = Ok (PInteger Decimal true, c :: r).
Proof.
  intros c r H. unfold take_prefix, between in *.
  change (48 =? 48) with true. cbv iota beta.
  cmp_in H; try discriminate. cmp; try lia; reflexivity.
Qed.

Lemma take_prefix_radix : forall px r rest, RadixSyn px r ->
  exists R lz, take_prefix (px ++ rest) = Ok (PInteger R lz, rest) /\ radix_val R = r.
Proof.
  intros px r rest H. inversion H; subst.
  - exists Decimal, false. split; reflexivity.
  - unfold radix_letter in H0. cmp_in H0; simpl in H0; inversion H0; subst;
      first [exists Binary, false; split; reflexivity | exists Octal, false; split; reflexivity
            | exists Hex, false; split; reflexivity].
  - unfold radix_letter in H0. cmp_in H0; simpl in H0; inversion H0; subst;
      first [exists Binary, true; split; reflexivity | exists Octal, true; split; reflexivity
            | exists Hex, true; split; reflexivity].
Qed.

Lemma take_prefix_inv : forall c1 p c2, take_prefix c1 = Ok (p, c2) ->
  match p with
  | PSingleZero => c1 = [48] /\ c2 = []
  | PNonInteger => True
  | PInteger R lz =>
      (exists px, RadixSyn px (radix_val R) /\ c1 = px ++ c2) \/
      (R = Decimal /\ c1 = (if lz then [48] else []) ++ c2 /\
       exists d r, c2 = d :: r /\ between 48 d 57 = true)
  end.
Proof.
  intros c1 p c2 H. unfold take_prefix in H.
  assert (L : forall b, radix_letter b = Some 2%Z \/ radix_letter b = Some 8%Z \/ radix_letter b = Some 16%Z ->
              True) by trivial.
  destruct c1 as [|a r].
  { inversion H; subst. exact I. }
  destruct (N.eqb_spec a 48) as [-> |Ha].
  - destruct r as [|b r'].
    { inversion H; subst. auto. }
    destruct ((b =? 98) || (b =? 66)) eqn:E1.
    { inversion H; subst. left. exists [48; b]. split; [|reflexivity].
      apply Rx_zero_letter. unfold radix_letter. rewrite E1. reflexivity. }
    destruct ((b =? 111) || (b =? 79)) eqn:E2.
    { inversion H; subst. left. exists [48; b]. split; [|reflexivity].
      apply Rx_zero_letter. unfold radix_letter. rewrite E1, E2. reflexivity. }
    destruct ((b =? 120) || (b =? 88)) eqn:E3.
    { inversion H; subst. left. exists [48; b]. split; [|reflexivity].
      apply Rx_zero_letter. unfold radix_letter. rewrite E1, E2, E3. reflexivity. }
    destruct (b =? 35); [discriminate|].
    destruct (between 48 b 57) eqn:E5.
    { inversion H; subst. right. split; [reflexivity|]. split; [reflexivity|]. eauto. }
    destruct ((b =? 45) || (b =? 43)); [discriminate|]. discriminate.
  - destruct ((a =? 98) || (a =? 66)) eqn:E1.
    { inversion H; subst. left. exists [a]. split; [|reflexivity].
      apply Rx_letter. unfold radix_letter. rewrite E1. reflexivity. }
    destruct ((a =? 111) || (a =? 79)) eqn:E2.
    { inversion H; subst. left. exists [a]. split; [|reflexivity].
      apply Rx_letter. unfold radix_letter. rewrite E1, E2. reflexivity. }
    destruct ((a =? 120) || (a =? 88)) eqn:E3.
    { inversion H; subst. left. exists [a]. split; [|reflexivity].
      apply Rx_letter. unfold radix_letter. rewrite E1, E2, E3. reflexivity. }
    destruct (N.eqb_spec a 35) as [-> |Hh].
    { inversion H; subst. left. exists [35]. split; [constructor|reflexivity]. }
    destruct (between 48 a 57) eqn:E5.
    { inversion H; subst. right. split; [reflexivity|]. split; [reflexivity|]. eauto. }
    destruct ((a =? 45) || (a =? 43)); [discriminate|]. inversion H; subst. exact I.
Qed.

(* ------------------------------------------------------------------ *)
(** * The integer parser is the integer grammar *)

Lemma digits_value_zero : forall r ds, digit_of r 48 = Some 0%Z ->
  digits_value r (48 :: ds) 0 = digits_value r ds 0.
Proof. intros r ds H. simpl. rewrite H. reflexivity. Qed.

Lemma digit_of_zero_10 : digit_of 10 48 = Some 0%Z.
Proof. reflexivity. Qed.

Lemma RadixSyn_not_sign : forall px r rest, RadixSyn px r -> not_sign (px ++ rest).
Proof.
  intros px r rest H c t E. inversion H; subst; simpl in E; inversion E; subst.
  - split; discriminate.
  - unfold radix_letter in H0. cmp_in H0; simpl in H0; try discriminate; subst; split; discriminate.
  - split; discriminate.
Qed.

Theorem parse_integer_complete : forall s v, IntSyn s v -> parse_integer s false = Ok (Some v).
Proof.
  intros s v H. inversion H as [sg k ds m Hs Hne Hv Hm|sg1 k1 px r sg2 k2 ds m Hs1 Hr Hs2 Hor Hne Hv Hm]; subst.
  - (* plain decimal *)
    destruct (digits_head _ _ _ _ Hne Hv) as (c & ds' & d & -> & Hd).
    pose proof (dec_digit_between _ _ Hd) as Hb.
    destruct (take_sign_app sg k (c :: ds') Hs (digit_not_sign _ _ _ _ Hd)) as [Ets Ek].
    rewrite pi_unfold.
    destruct (sg ++ c :: ds') eqn:Es. { destruct sg; discriminate. }
    rewrite Ets. simpl andb. cbv iota.
    destruct (N.eqb_spec c 48) as [-> |Hnz].
    + destruct ds' as [|c2 ds''].
      * change (take_prefix [48]) with (Ok (PSingleZero, @nil N) : res verr _). simpl.
        simpl in Hv. inversion Hv. subst m. f_equal. f_equal. lia.
      * assert (Hd2 : exists d2, digit_of 10 c2 = Some d2).
        { simpl in Hv. change (digit_of 10 48) with (Some 0%Z) in Hv. simpl in Hv.
          destruct (digit_of 10 c2); [eauto|discriminate]. }
        destruct Hd2 as [d2 Hd2].
        rewrite (take_prefix_zero_digit _ _ (dec_digit_between _ _ Hd2)). simpl bind. cbv iota beta.
        rewrite digits_value_zero in Hv by reflexivity.
        pose proof (pi_tail_complete (sgn_opt sg) Decimal true [] 1 (c2 :: ds'') m Sg_none
                      (or_intror eq_refl) ltac:(discriminate) Hv Hm) as P.
        simpl app in P. rewrite P. rewrite Ek. f_equal. f_equal. lia.
    + rewrite (take_prefix_digit_nz _ _ Hb Hnz). simpl bind. cbv iota beta.
      pose proof (pi_tail_complete (sgn_opt sg) Decimal false [] 1 (c :: ds') m Sg_none
                    (or_intror eq_refl) ltac:(discriminate) Hv Hm) as P.
      simpl app in P. rewrite P. rewrite Ek. f_equal. f_equal. lia.
  - (* with a radix prefix *)
    destruct (take_sign_app sg1 k1 (px ++ sg2 ++ ds) Hs1 (RadixSyn_not_sign _ _ _ Hr)) as [Ets Ek].
    destruct (take_prefix_radix px r (sg2 ++ ds) Hr) as (R & lz & Etp & <-).
    rewrite pi_unfold.
    destruct (sg1 ++ px ++ sg2 ++ ds) eqn:Es.
    { destruct sg1; [|discriminate]. inversion Hr; subst; discriminate. }
    rewrite Ets. simpl andb. cbv iota. rewrite Etp. simpl bind. cbv iota beta.
    rewrite (pi_tail_complete (sgn_opt sg1) R lz sg2 k2 ds m); auto.
    + rewrite Ek. reflexivity.
    + destruct Hor as [-> | ->]; [left; reflexivity|right; reflexivity].
Qed.

Theorem parse_integer_sound : forall s v, parse_integer s false = Ok (Some v) -> IntSyn s v.
Proof.
  intros s v H. rewrite pi_unfold in H. destruct s as [|c0 s0]; [discriminate|].
  destruct (take_sign (c0 :: s0)) as [fs c1] eqn:Ets.
  destruct (take_sign_inv _ _ _ Ets) as (sg1 & Es & Hs1 & Eopt & Hns).
  simpl andb in H. cbv iota in H.
  destruct (take_prefix c1) as [[p c2]|e|w|x] eqn:Etp; simpl in H; try discriminate.
  pose proof (take_prefix_inv _ _ _ Etp) as Hinv.
  destruct p as [R lz| |].
  - apply pi_tail_sound in H.
    destruct H as (sg2 & k2 & ds & m & -> & Hs2 & Hor & Hne & Hv & Hm & ->).
    destruct Hinv as [(px & Hr & ->)|(-> & -> & d & r & Ed & Hb)].
    + rewrite Es. apply (Int_prefixed sg1 (sv fs) px (radix_val R) sg2 k2 ds m); auto.
      destruct Hor as [Hx | Hx]; [|right; exact Hx]. left. subst fs.
      inversion Hs1; subst; try reflexivity; vm_compute in Eopt; discriminate.
    + (* no prefix: the digits start right away, so no second sign *)
      assert (sg2 = []).
      { destruct sg2 as [|x t]; [reflexivity|]. inversion Hs2; subst; simpl in Ed; inversion Ed; subst;
          unfold between in Hb; vm_compute in Hb; discriminate. }
      subst sg2. assert (k2 = 1%Z) by (inversion Hs2; reflexivity). subst k2. simpl app in *.
      rewrite Es. replace (sv fs * 1 * m)%Z with (sv fs * m)%Z by lia.
      destruct lz.
      * apply (Int_plain sg1 (sv fs) (48 :: ds) m); auto; try discriminate.
      * apply (Int_plain sg1 (sv fs) ds m); auto.
  - destruct Hinv as [-> ->]. assert (v = 0%Z) by (inversion H; reflexivity). subst v. rewrite Es.
    replace 0%Z with (sv fs * 0)%Z by lia.
    apply (Int_plain sg1 (sv fs) [48] 0); auto; try discriminate; try reflexivity; unfold i32_max; lia.
  - destruct fs; discriminate.
Qed.

Theorem IntSyn_unambiguous : forall s v v', IntSyn s v -> IntSyn s v' -> v = v'.
Proof.
  intros s v v' H H'. apply parse_integer_complete in H. apply parse_integer_complete in H'.
  rewrite H in H'. inversion H'. reflexivity.
Qed.

(* ------------------------------------------------------------------ *)
(** * Byte offsets and slices *)

Lemma len_utf8_pos : forall c, 1 <= len_utf8 c.
Proof. intros c. unfold len_utf8. cmp; lia. Qed.

Lemma bytes_app : forall a b, bytes (a ++ b) = bytes a + bytes b.
Proof. induction a as [|c a IH]; intros b; simpl; [lia|]. rewrite IH. lia. Qed.

Lemma bytes_zero : forall l, bytes l = 0 -> l = [].
Proof. intros [|c l] H; [reflexivity|]. simpl in H. pose proof (len_utf8_pos c). lia. Qed.

Lemma drop_bytes_app : forall p r, drop_bytes (p ++ r) (bytes p) = Some r.
Proof.
  induction p as [|c p IH]; intros r; simpl.
  - destruct r; reflexivity.
  - pose proof (len_utf8_pos c). destruct (N.eqb_spec (len_utf8 c + bytes p) 0); [lia|].
    destruct (N.leb_spec (len_utf8 c) (len_utf8 c + bytes p)); [|lia].
    replace (len_utf8 c + bytes p - len_utf8 c) with (bytes p) by lia. apply IH.
Qed.

Lemma take_bytes_app : forall p r, take_bytes (p ++ r) (bytes p) = Some p.
Proof.
  induction p as [|c p IH]; intros r; simpl.
  - destruct r; reflexivity.
  - pose proof (len_utf8_pos c). destruct (N.eqb_spec (len_utf8 c + bytes p) 0); [lia|].
    destruct (N.leb_spec (len_utf8 c) (len_utf8 c + bytes p)); [|lia].
    replace (len_utf8 c + bytes p - len_utf8 c) with (bytes p) by lia. rewrite IH. reflexivity.
Qed.

Lemma slice_app : forall p m q, slice (p ++ m ++ q) (bytes p) (bytes p + bytes m) = Some m.
Proof.
  intros p m q. unfold slice. destruct (N.leb_spec (bytes p) (bytes p + bytes m)); [|lia].
  rewrite drop_bytes_app. replace (bytes p + bytes m - bytes p) with (bytes m) by lia.
  apply take_bytes_app.
Qed.

(* ------------------------------------------------------------------ *)
(** * Scripts: the two readers cut a text into the same lines *)

Definition nodelim (l : list N) : Prop := forallb (fun c => negb (is_delim c)) l = true.

Lemma is_delim_model : forall c, ((c =? 10) || (c =? 59)) = is_delim c.
Proof. intros c. unfold is_delim. apply orb_comm. Qed.

Lemma is_delim_len : forall c, is_delim c = true -> len_utf8 c = 1.
Proof. intros c H. unfold is_delim in H. cmp_in H; try discriminate; subst; reflexivity. Qed.

Lemma rev_nonempty : forall (c : N) l, rev (c :: l) <> [].
Proof. intros c l H. simpl in H. destruct (rev l); discriminate. Qed.

(** Shape of a text: a first line without separators, then the end or a separator. *)
Lemma split_aux_shape : forall s cur,
  (nodelim s /\ split_aux s cur = match rev cur ++ s with [] => [] | _ => [rev cur ++ s] end) \/
  (exists line d tail, s = line ++ d :: tail /\ nodelim line /\ is_delim d = true /\
     split_aux s cur = (rev cur ++ line) :: split_aux tail []).
Proof.
  induction s as [|c s IH]; intros cur.
  - left. split; [reflexivity|]. simpl. rewrite app_nil_r. destruct cur as [|x cur]; [reflexivity|].
    destruct (rev (x :: cur)) eqn:E; [exfalso; eapply rev_nonempty; exact E|reflexivity].
  - simpl. destruct (is_delim c) eqn:Ed.
    + right. exists [], c, s. repeat split; auto. rewrite app_nil_r. reflexivity.
    + destruct (IH (c :: cur)) as [[Hn E]|(line & d & tail & -> & Hn & Hd & E)].
      * left. split. { unfold nodelim. simpl. rewrite Ed. exact Hn. }
        rewrite E. simpl rev. rewrite <- app_assoc. reflexivity.
      * right. exists (c :: line), d, tail. repeat split; auto.
        { unfold nodelim. simpl. rewrite Ed. exact Hn. }
        rewrite E. simpl rev. rewrite <- app_assoc. reflexivity.
Qed.

Lemma argument_scan_line : forall line tail cur, nodelim line ->
  (tail = [] \/ exists d t, tail = d :: t /\ is_delim d = true) ->
  argument_scan (line ++ tail) cur = cur + bytes line.
Proof.
  induction line as [|c line IH]; intros tail cur Hn Ht.
  - simpl. destruct Ht as [->|(d & t & -> & Hd)]; simpl; [lia|].
    rewrite is_delim_model, Hd. lia.
  - unfold nodelim in Hn. simpl in Hn. apply andb_true_iff in Hn. destruct Hn as [Hc Hn].
    simpl. rewrite is_delim_model. destruct (is_delim c); [discriminate|].
    rewrite IH by assumption. lia.
Qed.

(** The part of the `--command` text that is still to be read. *)
Definition ArgState (a : argument) (rest : list N) : Prop :=
  (rest = [] /\ bytes (a_buffer a) <= a_cursor a) \/
  (exists p, a_buffer a = p ++ rest /\ a_cursor a = bytes p).

Lemma argument_read_spec : forall a rest, ArgState a rest ->
  match split_script rest with
  | [] => argument_read a = Ok (None, a)
  | l :: ls => exists a' rest', argument_read a = Ok (Some l, a') /\ ArgState a' rest' /\
                                split_script rest' = ls /\ a_buffer a' = a_buffer a
  end.
Proof.
  intros a rest Hst. unfold split_script.
  destruct rest as [|c0 rest0].
  { simpl. unfold argument_read. destruct Hst as [[_ H]|(p & Hb & Hc)].
    - destruct (N.leb_spec (bytes (a_buffer a)) (a_cursor a)); [reflexivity|lia].
    - rewrite Hb, Hc, app_nil_r. destruct (N.leb_spec (bytes p) (bytes p)); [reflexivity|lia]. }
  destruct Hst as [[H _]|(p & Hb & Hc)]; [discriminate|].
  set (rest := c0 :: rest0) in *.
  assert (Hlt : a_cursor a < bytes (a_buffer a)).
  { rewrite Hb, Hc, bytes_app. subst rest. simpl. pose proof (len_utf8_pos c0). lia. }
  assert (Hread : forall line tail, rest = line ++ tail -> nodelim line ->
            (tail = [] \/ exists d t, tail = d :: t /\ is_delim d = true) ->
            argument_read a = Ok (Some line, mkArgument (a_buffer a) (bytes p + bytes line + 1))).
  { intros line tail E Hn Ht. unfold argument_read.
    destruct (N.leb_spec (bytes (a_buffer a)) (a_cursor a)); [lia|].
    rewrite Hb, Hc, drop_bytes_app. rewrite E, argument_scan_line by assumption.
    rewrite slice_app. reflexivity. }
  destruct (split_aux_shape rest []) as [[Hn E]|(line & d & tail & Er & Hn & Hd & E)].
  - simpl rev in E. simpl app in E. rewrite E. unfold rest at 1.
    exists (mkArgument (a_buffer a) (bytes p + bytes rest + 1)), [].
    split. { apply (Hread rest []); auto. rewrite app_nil_r. reflexivity. }
    split. { left. split; [reflexivity|]. cbn [a_buffer a_cursor]. rewrite Hb, bytes_app. lia. }
    split; reflexivity.
  - simpl rev in E. simpl app in E. rewrite E.
    exists (mkArgument (a_buffer a) (bytes p + bytes line + 1)), tail.
    split. { apply (Hread line (d :: tail)); eauto. }
    split. { right. exists (p ++ line ++ [d]). cbn [a_buffer a_cursor]. split.
             - rewrite Hb, Er, <- !app_assoc. reflexivity.
             - rewrite !bytes_app. simpl. rewrite (is_delim_len d Hd). lia. }
    split; reflexivity.
Qed.

Lemma stdin_loop_spec : forall input buf,
  match split_aux input buf with
  | [] => stdin_loop input buf = (None, [])
  | l :: ls => exists rest, stdin_loop input buf = (Some l, rest) /\ split_aux rest [] = ls
  end.
Proof.
  induction input as [|c input IH]; intros buf; simpl.
  - destruct buf; [reflexivity|]. exists []. split; reflexivity.
  - rewrite is_delim_model. destruct (is_delim c).
    + exists input. split; reflexivity.
    + apply IH.
Qed.

(** What a session makes of a list of raw lines. *)
Fixpoint run_raw (ls : list (list N)) : list event :=
  match ls with
  | [] => []
  | raw :: r =>
      match parse_line raw with
      | None => run_raw r
      | Some (Ok c) => EvCommand c :: run_raw r
      | Some (Err e) => EvError e :: run_raw r
      | Some (ExitP c) => [EvExit c]
      | Some (Panic w) => [EvPanic w]
      end
  end.

Definition RState (r : reader) (la : list N) : Prop :=
  match r_argument r with
  | None => la = []
  | Some a => ArgState a la
  end.

Lemma session_loop_spec : forall fuel r la, RState r la ->
  (List.length (split_script la) + List.length (split_script (r_stdin r)) < fuel)%nat ->
  session_loop fuel r = run_raw (split_script la ++ split_script (r_stdin r)).
Proof.
  induction fuel as [|fuel IH]; intros r la Hst Hf; [lia|].
  assert (Hstream : forall r0, r_stdin r0 = r_stdin r -> r_argument r0 = r_argument r -> split_script la = [] ->
     match (let '(l, rest) := stdin_read (r_stdin r0) in
            Ok (l, mkReader (r_argument r0) rest) : res unit (option (list N) * reader)) with
     | Panic w => [EvPanic w] | ExitP c => [EvExit c] | Err _ => [EvPanic 16]
     | Ok (None, _) => []
     | Ok (Some raw, r') =>
         match parse_line raw with
         | None => session_loop fuel r'
         | Some (Ok c) => EvCommand c :: session_loop fuel r'
         | Some (Err e) => EvError e :: session_loop fuel r'
         | Some (ExitP c) => [EvExit c]
         | Some (Panic w) => [EvPanic w]
         end
     end = run_raw (split_script (r_stdin r))).
  { intros r0 E1 E2 Ela. rewrite E1. unfold stdin_read.
    pose proof (stdin_loop_spec (r_stdin r) []) as Hs. unfold split_script in *.
    destruct (split_aux (r_stdin r) []) as [|l ls] eqn:Esp.
    - rewrite Hs. reflexivity.
    - destruct Hs as (rest & -> & Els).
      assert (Hrec : session_loop fuel (mkReader (r_argument r0) rest) = run_raw ls).
      { rewrite (IH _ la).
        - simpl r_stdin. unfold split_script. rewrite Ela, Els. reflexivity.
        - unfold RState in *. simpl. rewrite E2. exact Hst.
        - simpl r_stdin. unfold split_script in *. rewrite Ela, Els. rewrite Ela in Hf. simpl in Hf. simpl. lia. }
      simpl run_raw. destruct (parse_line l) as [[c|e|w|x]|]; rewrite ?Hrec; reflexivity. }
  simpl session_loop. unfold reader_read.
  destruct (r_argument r) as [a|] eqn:Ea.
  - unfold RState in Hst. rewrite Ea in Hst.
    pose proof (argument_read_spec a la Hst) as Har.
    destruct (split_script la) as [|l ls] eqn:Ela.
    + rewrite Har. simpl bind. cbv iota beta.
      exact (Hstream (mkReader (Some a) (r_stdin r)) eq_refl eq_refl eq_refl).
    + destruct Har as (a' & rest' & -> & Hst' & Els & _). simpl bind. cbv iota beta.
      assert (Hrec : session_loop fuel (mkReader (Some a') (r_stdin r)) = run_raw (ls ++ split_script (r_stdin r))).
      { rewrite (IH _ rest').
        - simpl r_stdin. rewrite Els. reflexivity.
        - exact Hst'.
        - simpl r_stdin. rewrite Els. simpl in Hf. lia. }
      simpl app. simpl run_raw. destruct (parse_line l) as [[c|e|w|x]|]; rewrite ?Hrec; reflexivity.
  - unfold RState in Hst. rewrite Ea in Hst. subst la. simpl app.
    assert (E0 : split_script [] = []) by reflexivity.
    pose proof (Hstream r eq_refl) as Hs. rewrite Ea in Hs. exact (Hs eq_refl E0).
Qed.

Lemma split_aux_length : forall s cur,
  (List.length (split_aux s cur) <= List.length s + match cur with [] => 0 | _ => 1 end)%nat.
Proof.
  induction s as [|c s IH]; intros cur; simpl.
  - destruct cur; simpl; lia.
  - destruct (is_delim c).
    + simpl. specialize (IH []). simpl in IH. lia.
    + specialize (IH (c :: cur)). simpl in IH. lia.
Qed.

Definition arg_text (arg : option (list N)) : list N := match arg with Some s => s | None => [] end.

(** A session reads the lines of the argument, then the lines of standard input. *)
Theorem session_raw : forall arg stdin,
  session arg stdin = run_raw (split_script (arg_text arg) ++ split_script stdin).
Proof.
  intros arg stdin. unfold session.
  rewrite (session_loop_spec _ _ (arg_text arg)).
  - reflexivity.
  - unfold RState, reader_from. destruct arg as [s|]; simpl; [|reflexivity].
    right. exists []. split; reflexivity.
  - unfold reader_size, reader_from. simpl r_stdin.
    pose proof (split_aux_length (arg_text arg) []) as H1.
    pose proof (split_aux_length stdin []) as H2. unfold split_script.
    destruct arg as [s|]; simpl in *; lia.
Qed.

(* ------------------------------------------------------------------ *)
(** * Transport independence *)

(** The meaning of a list of (trimmed, non-blank) command lines. *)
Fixpoint events (ls : list (list N)) : list event :=
  match ls with
  | [] => []
  | l :: r =>
      match try_from l with
      | Ok c => EvCommand c :: events r
      | Err e => EvError e :: events r
      | ExitP c => [EvExit c]
      | Panic w => [EvPanic w]
      end
  end.

Lemma run_raw_events : forall ls,
  run_raw ls = events (map trim (filter (fun l => negb (is_blank l)) ls)).
Proof.
  induction ls as [|raw ls IH]; [reflexivity|].
  simpl. unfold parse_line, is_blank. destruct (trim raw) as [|c t] eqn:E; simpl.
  - exact IH.
  - rewrite E. destruct (try_from (c :: t)); rewrite ?IH; reflexivity.
Qed.

Theorem session_meaning : forall arg stdin,
  session arg stdin = events (script_lines (arg_text arg) ++ script_lines stdin).
Proof.
  intros. rewrite session_raw, run_raw_events. unfold script_lines.
  rewrite filter_app, map_app. reflexivity.
Qed.

Lemma filter_split_app : forall d b, is_delim d = true -> forall a cur,
  filter (fun l => negb (is_blank l)) (split_aux (a ++ d :: b) cur) =
  filter (fun l => negb (is_blank l)) (split_aux a cur) ++
  filter (fun l => negb (is_blank l)) (split_aux b []).
Proof.
  intros d b Hd. induction a as [|c a IH]; intros cur.
  - simpl. rewrite Hd. destruct cur as [|x cur]; [reflexivity|].
    change (rev (x :: cur) :: split_aux b []) with ([rev (x :: cur)] ++ split_aux b []).
    rewrite filter_app. reflexivity.
  - simpl. destruct (is_delim c).
    + simpl. rewrite IH. destruct (negb (is_blank (rev cur))); reflexivity.
    + apply IH.
Qed.

Lemma script_lines_delim : forall a d b, is_delim d = true ->
  script_lines (a ++ d :: b) = script_lines a ++ script_lines b.
Proof.
  intros a d b Hd. unfold script_lines, split_script.
  rewrite (filter_split_app d b Hd a []), map_app. reflexivity.
Qed.

(** A renaming of separators: maps separators to separators and leaves everything else alone. *)
Definition sep_renaming (f : N -> N) : Prop :=
  (forall c, is_delim c = true -> is_delim (f c) = true) /\ (forall c, is_delim c = false -> f c = c).

Lemma split_aux_renaming : forall f, sep_renaming f -> forall s cur,
  split_aux (map f s) cur = split_aux s cur.
Proof.
  intros f [H1 H2]. induction s as [|c s IH]; intros cur; [reflexivity|].
  simpl. destruct (is_delim c) eqn:E.
  - rewrite (H1 c E), IH. reflexivity.
  - rewrite (H2 c E), E. apply IH.
Qed.

Lemma script_lines_renaming : forall f, sep_renaming f -> forall s,
  script_lines (map f s) = script_lines s.
Proof.
  intros f Hf s. unfold script_lines, split_script. rewrite (split_aux_renaming f Hf). reflexivity.
Qed.

(** `;` for newline and newline for `;` *)
Definition swap_separators (c : N) : N := if c =? 59 then 10 else if c =? 10 then 59 else c.
Definition all_newlines (c : N) : N := if c =? 59 then 10 else c.
Definition all_semicolons (c : N) : N := if c =? 10 then 59 else c.

Lemma swap_separators_renaming : sep_renaming swap_separators.
Proof.
  split; intros c; unfold is_delim, swap_separators; cmp; simpl; intros; try discriminate; try reflexivity; try lia.
Qed.
Lemma all_newlines_renaming : sep_renaming all_newlines.
Proof.
  split; intros c; unfold is_delim, all_newlines; cmp; simpl; intros; try discriminate; try reflexivity; try lia.
Qed.
Lemma all_semicolons_renaming : sep_renaming all_semicolons.
Proof.
  split; intros c; unfold is_delim, all_semicolons; cmp; simpl; intros; try discriminate; try reflexivity; try lia.
Qed.

Theorem transport_independent :
  (* the meaning of a session is the meaning of its command lines, the argument's first *)
  (forall arg stdin,
     session arg stdin = events (script_lines (arg_text arg) ++ script_lines stdin)) /\
  (* --command and standard input are the same transport *)
  (forall s, session (Some s) [] = session None s) /\
  (* a script may be split at any separator between the argument and standard input *)
  (forall a d b, is_delim d = true ->
     session (Some a) b = session None (a ++ d :: b) /\
     session (Some a) b = session (Some (a ++ d :: b)) [] /\
     session (Some (a ++ [d])) b = session (Some a) b) /\
  (* `;` and newline are interchangeable *)
  (forall f, sep_renaming f -> forall arg stdin,
     session (option_map (map f) arg) (map f stdin) = session arg stdin).
Proof.
  split; [exact session_meaning|]. split; [|split].
  - intros s. rewrite !session_meaning. simpl. rewrite app_nil_r. reflexivity.
  - intros a d b Hd. rewrite !session_meaning. simpl arg_text.
    rewrite (script_lines_delim a d b Hd). change (script_lines []) with (@nil (list N)).
    rewrite app_nil_r. repeat split; try reflexivity.
    rewrite (script_lines_delim a d [] Hd). change (script_lines []) with (@nil (list N)).
    rewrite app_nil_r. reflexivity.
  - intros f Hf arg stdin. rewrite !session_meaning.
    rewrite (script_lines_renaming f Hf). destruct arg as [s|]; simpl; [|reflexivity].
    rewrite (script_lines_renaming f Hf). reflexivity.
Qed.

(** A rejected line has no effect on what the debugger is given to execute. *)
Fixpoint commands_of (evs : list event) : list command :=
  match evs with
  | [] => []
  | EvCommand c :: r => c :: commands_of r
  | _ :: r => commands_of r
  end.

Theorem rejected_line_no_effect : forall ls1 l e ls2, try_from l = Err e ->
  commands_of (events (ls1 ++ l :: ls2)) = commands_of (events (ls1 ++ ls2)).
Proof.
  induction ls1 as [|x ls1 IH]; intros l e ls2 H; simpl.
  - rewrite H. reflexivity.
  - destruct (try_from x); simpl; try reflexivity; rewrite (IH l e ls2 H); reflexivity.
Qed.

(* ------------------------------------------------------------------ *)
(** * Totality: no panic site of the model is reachable *)

(** [post r P]: [r] is neither a panic nor an exit, and if it is a value, the value satisfies [P].
    [postx] allows the exit. *)
Definition post {E A} (r : res E A) (P : A -> Prop) : Prop :=
  match r with Ok a => P a | Err _ => True | ExitP _ => False | Panic _ => False end.
Definition postx {E A} (r : res E A) (P : A -> Prop) : Prop :=
  match r with Ok a => P a | Err _ => True | ExitP _ => True | Panic _ => False end.

Lemma post_postx : forall {E A} (r : res E A) (P : A -> Prop), post r P -> postx r P.
Proof. intros E A [a|e|w|c] P H; simpl in *; auto. Qed.

Lemma postx_bind : forall {E A B} (r : res E A) (f : A -> res E B) (P : A -> Prop) (Q : B -> Prop),
  postx r P -> (forall a, P a -> postx (f a) Q) -> postx (bind r f) Q.
Proof. intros E A B [a|e|w|c] f P Q H HF; simpl in *; auto. Qed.

Lemma postx_map_err : forall {E F A} (g : E -> F) (r : res E A) (P : A -> Prop),
  postx r P -> postx (map_err g r) P.
Proof. intros E F A g [a|e|w|c] P H; simpl in *; auto. Qed.

Lemma post_bind : forall {E A B} (r : res E A) (f : A -> res E B) (P : A -> Prop) (Q : B -> Prop),
  post r P -> (forall a, P a -> post (f a) Q) -> post (bind r f) Q.
Proof. intros E A B [a|e|w|c] f P Q H HF; simpl in *; auto. Qed.

Lemma post_map_err : forall {E F A} (g : E -> F) (r : res E A) (P : A -> Prop),
  post r P -> post (map_err g r) P.
Proof. intros E F A g [a|e|w|c] P H; simpl in *; auto. Qed.

Lemma post_weaken : forall {E A} (r : res E A) (P Q : A -> Prop),
  post r P -> (forall a, P a -> Q a) -> post r Q.
Proof. intros E A [a|e|w|c] P Q H HF; simpl in *; auto. Qed.

Definition any {A} : A -> Prop := fun _ => True.

Ltac ifs := repeat match goal with |- context [if ?b then _ else _] => destruct b end.

Lemma take_prefix_post : forall c, post (take_prefix c) any.
Proof.
  intros c. unfold take_prefix. destruct c as [|a r]; [exact I|].
  destruct (a =? 48); [destruct r as [|b r']; [exact I|]|]; ifs; exact I.
Qed.

Lemma pi_inner_post : forall R (eoi : res verr (option Z)) sgn c3, post eoi any ->
  post (match c3 with
        | [] => eoi
        | _ :: _ =>
            match digit_loop R eoi c3 0 with
            | LDone integer rest =>
                match rest with
                | [] => match sgn with
                        | Some s => if in_i32 (integer * sign_val s)
                                    then Ok (Some (integer * sign_val s)%Z) else Panic 2
                        | None => Ok (Some integer)
                        end
                | _ :: _ => Panic 1
                end
            | LEarly r => r
            end
        end) any.
Proof.
  intros R eoi sgn c3 He. destruct c3 as [|c c3']; [exact He|].
  destruct (digit_loop R eoi (c :: c3') 0) as [m rest|r] eqn:EL.
  - assert (H0 : (0 <= 0 <= i32_max)%Z) by (unfold i32_max; lia).
    destruct (digit_loop_done _ _ _ _ _ _ H0 EL) as (-> & _ & Hm).
    destruct sgn as [s|]; [|exact I].
    assert (Hin : in_i32 (m * sign_val s) = true).
    { apply in_i32_iff. unfold i32_min, i32_max in *. destruct s; simpl; lia. }
    rewrite Hin. exact I.
  - destruct (digit_loop_early _ _ _ _ _ EL) as [-> | ->]; [exact He|exact I].
Qed.

Lemma pi_tail_post : forall fs R lz chars, post (pi_tail fs R lz chars) any.
Proof.
  intros fs R lz chars. unfold pi_tail. destruct (take_sign chars) as [ss c3].
  destruct fs as [s1|]; destruct ss as [s2|]; try exact I.
  - match goal with |- post (match c3 with [] => ?e | _ :: _ => _ end) any =>
      assert (He : post e any) by (ifs; exact I); exact (pi_inner_post R e (Some s1) c3 He) end.
  - match goal with |- post (match c3 with [] => ?e | _ :: _ => _ end) any =>
      assert (He : post e any) by (ifs; exact I); exact (pi_inner_post R e (Some s2) c3 He) end.
  - match goal with |- post (match c3 with [] => ?e | _ :: _ => _ end) any =>
      assert (He : post e any) by (ifs; exact I); exact (pi_inner_post R e None c3 He) end.
Qed.

Lemma parse_integer_post : forall s rs, post (parse_integer s rs) any.
Proof.
  intros s rs. rewrite pi_unfold. destruct s as [|c s]; [exact I|].
  destruct (take_sign (c :: s)) as [fs c1]. destruct (rs && is_none fs); [exact I|].
  apply (post_bind _ _ any); [apply take_prefix_post|].
  intros [p c2] _. destruct p; [apply pi_tail_post|exact I|destruct fs; exact I].
Qed.

Lemma as_i16_post : forall v, post (as_i16 v) any.
Proof. intros v. unfold as_i16. ifs; exact I. Qed.
Lemma as_u16_post : forall v, post (as_u16 v) any.
Proof. intros v. unfold as_u16. ifs; exact I. Qed.
Lemma as_u16_cast_post : forall v, post (as_u16_cast v) any.
Proof.
  intros v. unfold as_u16_cast. destruct (v <? 0)%Z; [|apply as_u16_post].
  apply (post_bind _ _ any); [apply as_i16_post|]. intros; exact I.
Qed.

Lemma label_scan_spec : forall rest n, exists pre suf, rest = pre ++ suf /\ label_scan rest n = n + bytes pre.
Proof.
  induction rest as [|c rest IH]; intros n.
  - exists [], []. split; [reflexivity|]. simpl. lia.
  - simpl. destruct (can_contain c).
    + destruct (IH (n + len_utf8 c)) as (pre & suf & -> & E). exists (c :: pre), suf.
      split; [reflexivity|]. rewrite E. simpl. lia.
    + exists [], (c :: rest). split; [reflexivity|]. simpl. lia.
Qed.

Lemma split_at_app : forall p r, split_at (p ++ r) (bytes p) = Some (p, r).
Proof. intros p r. unfold split_at. rewrite take_bytes_app, drop_bytes_app. reflexivity. Qed.

Lemma label_try_parse_post : forall s, post (label_try_parse s) any.
Proof.
  intros s. unfold label_try_parse. destruct s as [|c rest]; [exact I|].
  destruct (negb (can_start_with c)); [exact I|].
  destruct (label_scan_spec rest (len_utf8 c)) as (pre & suf & -> & ->).
  change (c :: pre ++ suf) with ((c :: pre) ++ suf).
  change (len_utf8 c + bytes pre) with (bytes (c :: pre)).
  rewrite split_at_app. destruct suf as [|x suf]; [exact I|].
  apply (post_bind _ _ any); [apply parse_integer_post|].
  intros [o|] _; [|exact I]. apply (post_bind _ _ any); [apply as_i16_post|]. intros; exact I.
Qed.

Lemma register_try_parse_post : forall s, post (register_try_parse s) any.
Proof.
  intros s. unfold register_try_parse. destruct s as [|c [|d [|e r]]]; ifs; exact I.
Qed.

Lemma drop_bytes_one : forall c t, len_utf8 c = 1 -> drop_bytes (c :: t) 1 = Some t.
Proof.
  intros c t H. simpl. rewrite H. change (1 =? 0) with false. change (1 <=? 1) with true.
  change (1 - 1) with 0. destruct t; reflexivity.
Qed.

Lemma pcoffset_try_parse_post : forall s, post (pcoffset_try_parse s) any.
Proof.
  intros s. unfold pcoffset_try_parse. destruct s as [|c t]; [exact I|].
  destruct (N.eqb_spec c 94) as [->|]; simpl negb; cbv iota; [|exact I].
  rewrite drop_bytes_one by reflexivity. destruct t as [|x t]; [exact I|].
  apply (post_bind _ _ any); [apply parse_integer_post|].
  intros [o|] _; [|exact I]. apply (post_bind _ _ any); [apply as_i16_post|]. intros; exact I.
Qed.

Lemma memory_location_try_parse_post : forall s, post (memory_location_try_parse s) any.
Proof.
  intros s. unfold memory_location_try_parse.
  apply (post_bind _ _ any); [apply pcoffset_try_parse_post|]. intros [o|] _; [exact I|].
  apply (post_bind _ _ any); [apply parse_integer_post|]. intros [v|] _.
  - apply (post_bind _ _ any); [apply as_u16_post|]. intros; exact I.
  - apply (post_bind _ _ any); [apply label_try_parse_post|]. intros [[n o]|] _; exact I.
Qed.

Lemma location_try_parse_post : forall s, post (location_try_parse s) any.
Proof.
  intros s. unfold location_try_parse.
  apply (post_bind _ _ any); [apply register_try_parse_post|]. intros [r|] _; [exact I|].
  apply (post_bind _ _ any); [apply memory_location_try_parse_post|]. intros; exact I.
Qed.

(** ** The argument iterator *)

Lemma nodelim_app : forall a b, nodelim (a ++ b) <-> nodelim a /\ nodelim b.
Proof. intros a b. unfold nodelim. rewrite forallb_app, andb_true_iff. tauto. Qed.

Lemma nodelim_cons : forall c l, nodelim (c :: l) -> is_delim c = false /\ nodelim l.
Proof.
  intros c l H. unfold nodelim in H. simpl in H. apply andb_true_iff in H. destruct H as [H1 H2].
  split; [|exact H2]. destruct (is_delim c); [discriminate|reflexivity].
Qed.

Lemma token_loop_false_spec : forall chars start len, nodelim chars ->
  exists tok rest, chars = tok ++ rest /\ token_loop chars start len false = Some (start, len + bytes tok).
Proof.
  induction chars as [|c chars IH]; intros start len Hn.
  - exists [], []. split; [reflexivity|]. simpl. f_equal. f_equal. lia.
  - destruct (nodelim_cons _ _ Hn) as [Hc Hn']. simpl.
    unfold is_delim in Hc. rewrite Hc. simpl andb.
    destruct (N.eqb_spec c 32).
    + exists [], (c :: chars). split; [reflexivity|]. simpl. f_equal. f_equal. lia.
    + simpl orb. apply orb_false_iff in Hc. destruct Hc as [-> ->]. simpl orb. cbv iota.
      destruct (IH start (len + len_utf8 c) Hn') as (tok & rest & -> & E).
      exists (c :: tok), rest. split; [reflexivity|]. rewrite E. simpl. f_equal. f_equal. lia.
Qed.

Lemma token_loop_true_spec : forall chars start, nodelim chars ->
  exists sp tok rest, chars = sp ++ tok ++ rest /\
    token_loop chars start 0 true = Some (start + bytes sp, bytes tok) /\
    (forall c r, chars = c :: r -> c <> 32 -> tok <> []).
Proof.
  induction chars as [|c chars IH]; intros start Hn.
  - exists [], [], []. split; [reflexivity|]. split; [|intros; discriminate]. simpl. f_equal. f_equal. lia.
  - destruct (nodelim_cons _ _ Hn) as [Hc Hn']. simpl.
    unfold is_delim in Hc. rewrite Hc. simpl andb.
    destruct (N.eqb_spec c 32).
    + destruct (IH (start + len_utf8 c) Hn') as (sp & tok & rest & -> & E & _).
      exists (c :: sp), tok, rest. split; [reflexivity|]. split.
      * rewrite E. simpl. f_equal. f_equal. lia.
      * intros c' r' E' Hc'. inversion E'; subst. contradiction.
    + simpl orb. apply orb_false_iff in Hc. destruct Hc as [-> ->]. simpl orb. cbv iota.
      destruct (token_loop_false_spec chars start (0 + len_utf8 c) Hn') as (tok & rest & -> & E).
      exists [], (c :: tok), rest. split; [reflexivity|]. split.
      * rewrite E. simpl. f_equal. f_equal; lia.
      * intros; discriminate.
Qed.

Definition AWf (a : arguments) : Prop :=
  nodelim (buffer a) /\ exists p r, buffer a = p ++ r /\ cursor a = bytes p.

Lemma next_token_str_spec : forall E a p r,
  nodelim (buffer a) -> buffer a = p ++ r -> cursor a = bytes p ->
  exists t a', @next_token_str E a = Ok (t, a') /\ AWf a' /\ arg_count a' = arg_count a /\
               buffer a' = buffer a /\
               (forall c r', r = c :: r' -> c <> 32 -> t <> None) /\
               (r = [] -> t = None /\ a' = a).
Proof.
  intros E a p r Hn Hb Hc. unfold next_token_str. rewrite Hc.
  replace (drop_bytes (buffer a) (bytes p)) with (Some r) by (rewrite Hb; symmetry; apply drop_bytes_app).
  assert (Hnr : nodelim r). { rewrite Hb in Hn. apply nodelim_app in Hn. tauto. }
  destruct (token_loop_true_spec r (bytes p) Hnr) as (sp & tok & rest & Er & -> & Hne).
  destruct (N.eqb_spec (bytes p + bytes sp) (bytes p + bytes sp + bytes tok)) as [Heq|Hneq].
  - assert (tok = []) by (apply bytes_zero; lia). subst tok.
    exists None, a. split; [reflexivity|]. split.
    { split; [exact Hn|]. exists p, r. auto. }
    split; [reflexivity|]. split; [reflexivity|]. split.
    + intros c r' E' Hc'. exfalso. exact (Hne c r' E' Hc' eq_refl).
    + intros _. split; reflexivity.
  - assert (Hs : slice (buffer a) (bytes p + bytes sp) (bytes p + bytes sp + bytes tok) = Some tok).
    { rewrite Hb, Er. replace (p ++ sp ++ tok ++ rest) with ((p ++ sp) ++ tok ++ rest) by (rewrite <- app_assoc; reflexivity).
      rewrite <- bytes_app. apply slice_app. }
    rewrite Hs.
    exists (Some tok), (mkArgs (buffer a) (bytes p + bytes sp + bytes tok) (arg_count a)).
    split; [reflexivity|]. split.
    { split; [exact Hn|]. exists (p ++ sp ++ tok), rest. cbn [buffer cursor]. split.
      - rewrite Hb, Er, <- !app_assoc. reflexivity.
      - rewrite !bytes_app. lia. }
    split; [reflexivity|]. split; [reflexivity|]. split; [intros; discriminate|].
    intros E0. subst r. destruct sp; destruct tok; try discriminate. simpl in Hneq. lia.
Qed.

Lemma next_token_str_post : forall E a, AWf a ->
  post (@next_token_str E a) (fun ta => AWf (snd ta) /\ arg_count (snd ta) = arg_count a).
Proof.
  intros E a [Hn (p & r & Hb & Hc)].
  destruct (next_token_str_spec E a p r Hn Hb Hc) as (t & a' & -> & Hw & Hcount & _).
  simpl. auto.
Qed.

Lemma next_argument_str_post : forall E a, AWf a -> arg_count a < 255 ->
  post (@next_argument_str E a) (fun ta => AWf (snd ta) /\ arg_count (snd ta) <= arg_count a + 1).
Proof.
  intros E a Hw Hlt. unfold next_argument_str.
  apply (post_bind _ _ _ _ (next_token_str_post E a Hw)).
  intros [t a'] [Hw' Hc']. simpl in *. destruct t as [tok|]; simpl.
  - destruct (N.leb_spec (arg_count a' + 1) 255); [|lia]. simpl. split; [|lia].
    destruct Hw' as [Hn Hp]. split; simpl; assumption.
  - split; [exact Hw'|lia].
Qed.

Lemma check_naive_type_post : forall acc s, post (check_naive_type acc s) any.
Proof. intros. unfold check_naive_type. destruct (naive_try_from s); [|exact I]. ifs; exact I. Qed.

Definition arg_post {A} (a : arguments) (xa : A * arguments) : Prop :=
  AWf (snd xa) /\ arg_count (snd xa) <= arg_count a + 1.

Lemma next_integer_or_post : forall a d, AWf a -> arg_count a < 255 -> post d any ->
  post (next_integer_or a d) (arg_post a).
Proof.
  intros a d Hw Hlt Hd. unfold next_integer_or.
  apply (post_bind _ _ _ _ (next_argument_str_post aerr a Hw Hlt)).
  intros [t a'] [Hw' Hc']. simpl in *. destruct t as [tok|].
  - apply (post_bind _ _ any); [apply check_naive_type_post|]. intros _ _.
    apply (post_bind _ _ any); [apply post_map_err, parse_integer_post|]. intros [v|] _; [|exact I].
    apply (post_bind _ _ any); [apply post_map_err, as_u16_cast_post|]. intros x _.
    split; assumption.
  - apply (post_bind _ _ any); [exact Hd|]. intros x _. split; assumption.
Qed.

Lemma next_memory_location_or_post : forall a d, AWf a -> arg_count a < 255 -> post d any ->
  post (next_memory_location_or a d) (arg_post a).
Proof.
  intros a d Hw Hlt Hd. unfold next_memory_location_or.
  apply (post_bind _ _ _ _ (next_argument_str_post aerr a Hw Hlt)).
  intros [t a'] [Hw' Hc']. simpl in *. destruct t as [tok|].
  - apply (post_bind _ _ any); [apply check_naive_type_post|]. intros _ _.
    apply (post_bind _ _ any); [apply post_map_err, memory_location_try_parse_post|].
    intros [m|] _; [|exact I]. split; assumption.
  - apply (post_bind _ _ any); [exact Hd|]. intros x _. split; assumption.
Qed.

Lemma next_location_or_post : forall a d, AWf a -> arg_count a < 255 -> post d any ->
  post (next_location_or a d) (arg_post a).
Proof.
  intros a d Hw Hlt Hd. unfold next_location_or.
  apply (post_bind _ _ _ _ (next_argument_str_post aerr a Hw Hlt)).
  intros [t a'] [Hw' Hc']. simpl in *. destruct t as [tok|].
  - apply (post_bind _ _ any); [apply post_map_err, location_try_parse_post|].
    intros [m|] _; [|exact I]. split; assumption.
  - apply (post_bind _ _ any); [exact Hd|]. intros x _. split; assumption.
Qed.

Lemma finish_post : forall a n c, AWf a -> arg_count a < 254 -> post (finish a n c) any.
Proof.
  intros a n c Hw Hlt. unfold finish. destruct (N.leb_spec (arg_count a + 1) 255); [|lia].
  apply (post_bind _ _ any); [|intros; exact I]. unfold expect_end.
  assert (Hlt' : arg_count a < 255) by lia.
  apply (post_bind _ _ _ _ (next_argument_str_post aerr a Hw Hlt')).
  intros [t a'] _. destruct t; exact I.
Qed.

Lemma get_rest_then_end : forall a, AWf a ->
  exists s a', @get_rest aerr a = Ok (s, a') /\ expect_end a' 0 0 = Ok (tt, a').
Proof.
  intros a [Hn (p & r & Hb & Hc)]. unfold get_rest. rewrite Hb, Hc, drop_bytes_app.
  eexists. eexists. split; [reflexivity|]. rewrite <- Hb.
  set (a' := mkArgs (buffer a) (bytes (buffer a)) (arg_count a)).
  destruct (next_token_str_spec aerr a' (buffer a) [] Hn) as (t & a'' & E & _ & _ & _ & _ & Hnone).
  { simpl. rewrite app_nil_r. reflexivity. } { reflexivity. }
  destruct (Hnone eq_refl) as [-> ->]. unfold expect_end, next_argument_str. rewrite E. reflexivity.
Qed.

Lemma parse_arguments_post : forall name a, AWf a -> arg_count a = 0 ->
  post (parse_arguments name a) any.
Proof.
  intros name a Hw H0.
  assert (H255 : arg_count a < 255) by lia. assert (H254 : arg_count a < 254) by lia.
  assert (Hfin : forall (a' : arguments) n c, AWf a' -> arg_count a' <= 2 -> post (finish a' n c) any).
  { intros a' n c Hw' Hc'. apply finish_post; [exact Hw'|lia]. }
  unfold parse_arguments, next_location_or_default, next_location, next_memory_location,
    next_memory_location_or_default, next_integer, next_positive_integer_or_default.
  destruct name; try exact I; try (apply finish_post; assumption).
  - (* step into *)
    apply (post_bind _ _ (arg_post a) any).
    + eapply post_bind; [apply next_integer_or_post; [exact Hw|exact H255|exact I]|].
      intros [v a'] Hp. exact Hp.
    + intros [v a'] [Hw' Hc']. simpl in *. apply Hfin; [exact Hw'|lia].
  - (* print *)
    eapply post_bind; [apply next_location_or_post; [exact Hw|exact H255|exact I]|].
    intros [v a'] [Hw' Hc']. simpl in *. apply Hfin; [exact Hw'|lia].
  - (* move *)
    eapply post_bind; [apply next_location_or_post; [exact Hw|exact H255|exact I]|].
    intros [l a1] [Hw1 Hc1]. simpl in *.
    assert (H1 : arg_count a1 < 255) by lia.
    eapply post_bind; [apply next_integer_or_post; [exact Hw1|exact H1|exact I]|].
    intros [v a2] [Hw2 Hc2]. simpl in *. apply Hfin; [exact Hw2|lia].
  - eapply post_bind; [apply next_memory_location_or_post; [exact Hw|exact H255|exact I]|].
    intros [v a'] [Hw' Hc']. simpl in *. apply Hfin; [exact Hw'|lia].
  - eapply post_bind; [apply next_memory_location_or_post; [exact Hw|exact H255|exact I]|].
    intros [v a'] [Hw' Hc']. simpl in *. apply Hfin; [exact Hw'|lia].
  - (* eval *)
    destruct (get_rest_then_end a Hw) as (s & a' & -> & E). simpl. destruct s; [exact I|].
    rewrite E. exact I.
  - (* echo *)
    destruct (get_rest_then_end a Hw) as (s & a' & -> & E). simpl. destruct s; [exact I|].
    rewrite E. exact I.
  - eapply post_bind; [apply next_memory_location_or_post; [exact Hw|exact H255|exact I]|].
    intros [v a'] [Hw' Hc']. simpl in *. apply Hfin; [exact Hw'|lia].
  - eapply post_bind; [apply next_memory_location_or_post; [exact Hw|exact H255|exact I]|].
    intros [v a'] [Hw' Hc']. simpl in *. apply Hfin; [exact Hw'|lia].
Qed.

Definition name_post (na : cname * arguments) : Prop := AWf (snd na) /\ arg_count (snd na) = 0.

Lemma name_matches_with_subcommand_post : forall a cn cmds parent subs dflt,
  AWf a -> arg_count a = 0 ->
  post (name_matches_with_subcommand a cn cmds parent subs dflt)
       (fun oa => AWf (snd oa) /\ arg_count (snd oa) = 0).
Proof.
  intros a cn cmds parent subs dflt Hw H0. unfold name_matches_with_subcommand.
  destruct (negb (name_matches cn cmds)); [simpl; auto|].
  apply (post_bind _ _ _ _ (next_token_str_post cerr a Hw)).
  intros [t a'] [Hw' Hc']. simpl in *. destruct t as [sub|].
  - destruct (find_name_match sub subs); simpl; [split; [assumption|lia]|exact I].
  - destruct dflt; simpl; [split; [assumption|lia]|exact I].
Qed.

Lemma get_command_name_post : forall c line, nodelim (c :: line) -> c <> 32 ->
  postx (get_command_name (arguments_from (c :: line))) name_post.
Proof.
  intros c line Hn Hc. unfold get_command_name. simpl cursor. change (0 =? 0) with true. simpl negb. cbv iota.
  set (a := arguments_from (c :: line)).
  destruct (next_token_str_spec cerr a [] (c :: line) Hn eq_refl eq_refl)
    as (t & a1 & -> & Hw1 & Hc1 & _ & Hsome & _).
  simpl bind. cbv iota beta. destruct t as [cn|]; [|exfalso; exact (Hsome c line eq_refl Hc eq_refl)].
  assert (H10 : arg_count a1 = 0) by (rewrite Hc1; reflexivity).
  apply (postx_bind _ _ _ _ (post_postx _ _ (name_matches_with_subcommand_post a1 cn _ _ _ _ Hw1 H10))).
  intros [s a2] [Hw2 Hc2]. simpl in *. destruct s as [x|]; [split; assumption|].
  apply (postx_bind _ _ _ _ (post_postx _ _ (name_matches_with_subcommand_post a2 cn _ _ _ _ Hw2 Hc2))).
  intros [b a3] [Hw3 Hc3]. simpl in *. destruct b as [x|]; [split; assumption|].
  destruct (find_name_match cn COMMANDS); [split; assumption|].
  destruct (leqb cn (str "sudo")); exact I.
Qed.

Lemma try_from_post : forall c line, nodelim (c :: line) -> c <> 32 -> postx (try_from (c :: line)) any.
Proof.
  intros c line Hn Hc. unfold try_from.
  apply (postx_bind _ _ _ _ (get_command_name_post c line Hn Hc)).
  intros [name a] [Hw H0]. simpl in *. apply postx_map_err. apply post_postx. apply parse_arguments_post; assumption.
Qed.

(** ** Trimming *)

Lemma drop_while_suffix : forall p l, exists a, l = a ++ drop_while p l.
Proof.
  intros p. induction l as [|c l IH]; [exists []; reflexivity|].
  simpl. destruct (p c).
  - destruct IH as [a E]. exists (c :: a). simpl. rewrite <- E. reflexivity.
  - exists []. reflexivity.
Qed.

Lemma drop_while_head : forall p l c r, drop_while p l = c :: r -> p c = false.
Proof.
  intros p. induction l as [|x l IH]; intros c r H; [discriminate|].
  simpl in H. destruct (p x) eqn:E; [eapply IH; exact H|]. inversion H; subst. exact E.
Qed.

Lemma trim_shape : forall l, exists a b, l = a ++ trim l ++ b.
Proof.
  intros l. unfold trim.
  destruct (drop_while_suffix is_white l) as [a Ea].
  destruct (drop_while_suffix is_white (rev (drop_while is_white l))) as [b Eb].
  exists a, (rev b). rewrite Ea at 1. f_equal.
  rewrite <- rev_app_distr, <- Eb, rev_involutive. reflexivity.
Qed.

Lemma trim_head : forall l c r, trim l = c :: r -> is_white c = false.
Proof.
  intros l c r H. unfold trim in H.
  destruct (drop_while_suffix is_white (rev (drop_while is_white l))) as [b Eb].
  set (x := drop_while is_white l) in *. set (y := drop_while is_white (rev x)) in *.
  assert (Ex : x = rev y ++ rev b). { rewrite <- rev_app_distr, <- Eb, rev_involutive. reflexivity. }
  rewrite H in Ex. simpl in Ex. apply (drop_while_head is_white l c (r ++ rev b)). exact Ex.
Qed.

Lemma trim_nodelim : forall l, nodelim l -> nodelim (trim l).
Proof.
  intros l H. destruct (trim_shape l) as (a & b & E). rewrite E in H.
  apply nodelim_app in H. destruct H as [_ H]. apply nodelim_app in H. tauto.
Qed.

Theorem parse_line_total : forall raw, nodelim raw -> forall w, parse_line raw <> Some (Panic w).
Proof.
  intros raw Hn w. unfold parse_line. destruct (trim raw) as [|c t] eqn:E; [discriminate|].
  assert (Hc : c <> 32). { intros ->. apply trim_head in E. discriminate. }
  assert (Hn' : nodelim (c :: t)). { rewrite <- E. apply trim_nodelim. exact Hn. }
  pose proof (try_from_post c t Hn' Hc) as Hp. intros Heq. inversion Heq as [Heq']. rewrite Heq' in Hp. exact Hp.
Qed.

(** ** Whole sessions *)

Lemma split_aux_nodelim : forall s cur, nodelim cur -> Forall nodelim (split_aux s cur).
Proof.
  assert (Hrev : forall l, nodelim l -> nodelim (rev l)).
  { intros l H. unfold nodelim in *. rewrite forallb_forall in *. intros x Hx. apply H. apply in_rev. exact Hx. }
  induction s as [|c s IH]; intros cur Hc; simpl.
  - destruct cur; [constructor|]. constructor; [apply Hrev; exact Hc|constructor].
  - destruct (is_delim c) eqn:E.
    + constructor; [apply Hrev; exact Hc|]. apply IH. reflexivity.
    + apply IH. unfold nodelim in *. simpl. rewrite E. exact Hc.
Qed.

Lemma run_raw_total : forall ls, Forall nodelim ls ->
  forall e, In e (run_raw ls) -> (forall w, e <> EvPanic w) /\ e <> EvOutOfFuel.
Proof.
  induction ls as [|raw ls IH]; intros HF e Hin; [contradiction|].
  inversion HF as [|? ? Hraw Hls]; subst. simpl in Hin.
  pose proof (parse_line_total raw Hraw) as Htot.
  destruct (parse_line raw) as [[c|er|w|x]|].
  - destruct Hin as [<-|Hin]; [split; [intros; discriminate|discriminate]|apply IH; assumption].
  - destruct Hin as [<-|Hin]; [split; [intros; discriminate|discriminate]|apply IH; assumption].
  - exfalso. exact (Htot w eq_refl).
  - destruct Hin as [<-|[]]. split; [intros; discriminate|discriminate].
  - apply IH; assumption.
Qed.

(** No script, however it is delivered, makes the command reader or the parser panic (and the
    model's fuel is never exhausted). *)
Theorem session_total : forall arg stdin e, In e (session arg stdin) ->
  (forall w, e <> EvPanic w) /\ e <> EvOutOfFuel.
Proof.
  intros arg stdin e Hin. rewrite session_raw in Hin.
  apply (run_raw_total _) in Hin; [exact Hin|].
  apply Forall_app. split; apply split_aux_nodelim; reflexivity.
Qed.

(* ------------------------------------------------------------------ *)
(** * Arguments: registers, labels, PC offsets, locations, values *)

Theorem register_iff : forall s r, register_try_parse s = Ok (Some r) <-> RegSyn s r.
Proof.
  intros s r. split.
  - unfold register_try_parse. intros H. destruct s as [|c [|d [|e t]]]; try discriminate.
    + destruct ((c =? 114) || (c =? 82)); discriminate.
    + destruct ((c =? 114) || (c =? 82)) eqn:Ec; [|discriminate].
      destruct (between 48 d 55) eqn:Ed; [|discriminate]. inversion H; subst.
      constructor; [|exact Ed]. apply orb_true_iff in Ec. destruct Ec as [Ec|Ec]; apply N.eqb_eq in Ec; auto.
    + destruct ((c =? 114) || (c =? 82)); [|discriminate].
      destruct (between 48 d 55); [|discriminate]. destruct (can_contain e); discriminate.
  - intros H. inversion H as [c d Hc Hd]; subst. unfold register_try_parse.
    assert (Ec : (c =? 114) || (c =? 82) = true).
    { destruct Hc as [-> | ->]; reflexivity. }
    rewrite Ec, Hd. reflexivity.
Qed.

Lemma IntSyn_nonempty : forall s v, IntSyn s v -> s <> [].
Proof. intros s v H ->. apply parse_integer_complete in H. discriminate. Qed.

Lemma as_i16_iff : forall x v, as_i16 x = Ok v <-> (x = v /\ fits_i16 v).
Proof.
  intros x v. unfold as_i16, fits_i16.
  destruct (Z.leb_spec (-32768) x) as [H1|H1]; destruct (Z.leb_spec x 32767) as [H2|H2]; simpl;
    (split; [intros Hx; first [discriminate | inversion Hx; subst; split; [reflexivity|lia]]
            |intros [-> Hx]; try reflexivity; lia]).
Qed.

Lemma as_u16_iff : forall x v, as_u16 x = Ok v <-> (x = v /\ fits_u16 v).
Proof.
  intros x v. unfold as_u16, fits_u16.
  destruct (Z.leb_spec 0 x) as [H1|H1]; destruct (Z.leb_spec x 65535) as [H2|H2]; simpl;
    (split; [intros Hx; first [discriminate | inversion Hx; subst; split; [reflexivity|lia]]
            |intros [-> Hx]; try reflexivity; lia]).
Qed.

Theorem pcoffset_iff : forall s v, pcoffset_try_parse s = Ok (Some v) <-> PcOffSyn s v.
Proof.
  intros s v. split.
  - unfold pcoffset_try_parse. intros H. destruct s as [|c t]; [discriminate|].
    destruct (N.eqb_spec c 94) as [->|]; simpl negb in H; cbv iota in H; [|discriminate].
    rewrite drop_bytes_one in H by reflexivity. destruct t as [|x t].
    { inversion H; subst. constructor. }
    destruct (parse_integer (x :: t) false) as [[o|]|e|w|q] eqn:E; simpl in H; try discriminate.
    destruct (as_i16 o) as [o'| | |] eqn:E2; simpl in H; try discriminate. inversion H; subst.
    apply as_i16_iff in E2. destruct E2 as [-> Hf].
    apply Pc_offset; [apply parse_integer_sound; exact E|exact Hf].
  - intros H. inversion H as [|t v' Hi Hf]; subst; [reflexivity|].
    pose proof (IntSyn_nonempty _ _ Hi) as Hne.
    unfold pcoffset_try_parse. change (94 =? 94) with true. simpl negb. cbv iota.
    rewrite drop_bytes_one by reflexivity. destruct t as [|x t]; [contradiction|].
    rewrite (parse_integer_complete _ _ Hi). simpl.
    assert (E : as_i16 v = Ok v) by (apply as_i16_iff; auto). rewrite E. reflexivity.
Qed.

Lemma label_char_eq : forall c, can_contain c = label_char c.
Proof.
  intros c. unfold can_contain, label_char, label_start, is_lower, is_upper, is_decimal.
  destruct (between 97 c 122), (between 65 c 90), (between 48 c 57), (c =? 95); reflexivity.
Qed.

Lemma label_start_eq : forall c, can_start_with c = label_start c.
Proof. reflexivity. Qed.

(** The scan stops at the end of the longest run of label characters. *)
Lemma label_scan_spec2 : forall rest n, exists pre suf,
  rest = pre ++ suf /\ label_scan rest n = n + bytes pre /\ forallb label_char pre = true /\
  (forall x t, suf = x :: t -> label_char x = false).
Proof.
  induction rest as [|c rest IH]; intros n.
  - exists [], []. repeat split; try reflexivity; [simpl; lia|intros; discriminate].
  - simpl. rewrite label_char_eq. destruct (label_char c) eqn:Ec.
    + destruct (IH (n + len_utf8 c)) as (pre & suf & -> & E & Hp & Hs). exists (c :: pre), suf.
      repeat split; auto; [rewrite E; simpl; lia|simpl; rewrite Ec; exact Hp].
    + exists [], (c :: rest). repeat split; try reflexivity; [simpl; lia|].
      intros x t E. inversion E; subst. exact Ec.
Qed.

Lemma label_scan_all : forall cs suf n, forallb label_char cs = true ->
  (forall x t, suf = x :: t -> label_char x = false) ->
  label_scan (cs ++ suf) n = n + bytes cs.
Proof.
  induction cs as [|c cs IH]; intros suf n Hc Hs; simpl.
  - destruct suf as [|x t]; simpl; [lia|]. rewrite label_char_eq, (Hs x t eq_refl). lia.
  - simpl in Hc. apply andb_true_iff in Hc. destruct Hc as [Hc1 Hc2].
    rewrite label_char_eq, Hc1. rewrite IH by assumption. lia.
Qed.

Lemma parse_integer_signed : forall s v,
  parse_integer s true = Ok (Some v) <-> SignedIntSyn s v.
Proof.
  intros s v. unfold SignedIntSyn. split.
  - intros H. assert (H2 := H). rewrite pi_unfold in H. destruct s as [|c t]; [discriminate|].
    unfold take_sign in H.
    destruct (N.eqb_spec c 43) as [->|].
    { split; [|exists 43, t; auto]. apply parse_integer_sound. rewrite pi_unfold. exact H. }
    destruct (N.eqb_spec c 45) as [->|].
    { split; [|exists 45, t; auto]. apply parse_integer_sound. rewrite pi_unfold. exact H. }
    discriminate.
  - intros [Hi (c & t & -> & Hc)]. apply parse_integer_complete in Hi.
    rewrite pi_unfold in *. unfold take_sign in *.
    destruct Hc as [-> | ->]; exact Hi.
Qed.

Lemma app_same_prefix_len : forall (a b c d : list N), a ++ b = c ++ d ->
  forallb label_char a = true -> forallb label_char c = true ->
  (forall x t, b = x :: t -> label_char x = false) ->
  (forall x t, d = x :: t -> label_char x = false) -> a = c /\ b = d.
Proof.
  induction a as [|x a IH]; intros b c d E Ha Hc Hb Hd.
  - destruct c as [|y c]; [auto|]. simpl in E. subst b. simpl in Hc. apply andb_true_iff in Hc.
    rewrite (Hb y (c ++ d) eq_refl) in Hc. destruct Hc; discriminate.
  - destruct c as [|y c].
    + simpl in E. subst d. simpl in Ha. apply andb_true_iff in Ha.
      rewrite (Hd x (a ++ b) eq_refl) in Ha. destruct Ha; discriminate.
    + simpl in E. inversion E; subst. simpl in Ha, Hc. apply andb_true_iff in Ha, Hc.
      destruct (IH b c d H1) as [-> ->]; tauto.
Qed.

Theorem label_iff : forall s name off,
  label_try_parse s = Ok (Some (name, off)) <-> LabelSyn s name off.
Proof.
  intros s name off. split.
  - unfold label_try_parse. intros H. destruct s as [|c rest]; [discriminate|].
    destruct (can_start_with c) eqn:Ec; simpl negb in H; cbv iota in H; [|discriminate].
    destruct (label_scan_spec2 rest (len_utf8 c)) as (pre & suf & -> & E & Hp & Hs). rewrite E in H.
    change (c :: pre ++ suf) with ((c :: pre) ++ suf) in *.
    change (len_utf8 c + bytes pre) with (bytes (c :: pre)) in H.
    rewrite split_at_app in H. destruct suf as [|x suf].
    { inversion H; subst. rewrite app_nil_r. constructor; assumption. }
    destruct (parse_integer (x :: suf) true) as [[o|]|e|w|q] eqn:Ei; simpl in H; try discriminate.
    destruct (as_i16 o) as [o'| | |] eqn:E2; simpl in H; try discriminate. inversion H; subst.
    apply as_i16_iff in E2. destruct E2 as [-> Hf].
    apply Lbl_offset; auto. apply parse_integer_signed. exact Ei.
  - intros H. inversion H as [c cs Hc Hcs|c cs offs v Hc Hcs Hsi Hf]; subst.
    + unfold label_try_parse. rewrite label_start_eq, Hc. simpl negb. cbv iota.
      pose proof (label_scan_all cs [] (len_utf8 c) Hcs ltac:(intros; discriminate)) as E.
      rewrite app_nil_r in E. rewrite E.
      change (len_utf8 c + bytes cs) with (bytes (c :: cs)).
      pose proof (split_at_app (c :: cs) []) as E2. rewrite app_nil_r in E2. rewrite E2. reflexivity.
    + destruct Hsi as [Hi (x & t & -> & Hx)].
      assert (Hnl : forall y u, x :: t = y :: u -> label_char y = false).
      { intros y u E. inversion E; subst. destruct Hx as [-> | ->]; reflexivity. }
      change ((c :: cs) ++ x :: t) with (c :: (cs ++ x :: t)). unfold label_try_parse.
      rewrite label_start_eq, Hc. simpl negb. cbv iota.
      rewrite label_scan_all by assumption.
      change (len_utf8 c + bytes cs) with (bytes (c :: cs)).
      change (c :: cs ++ x :: t) with ((c :: cs) ++ x :: t).
      rewrite split_at_app.
      assert (Es : parse_integer (x :: t) true = Ok (Some off)).
      { apply parse_integer_signed. split; [exact Hi|eauto]. }
      rewrite Es. simpl. assert (E : as_i16 off = Ok off) by (apply as_i16_iff; auto).
      rewrite E. reflexivity.
Qed.

(** A value argument is the 16-bit pattern of an integer in [-32768, 65535]. *)
Theorem value_iff : forall s v,
  (exists x, parse_integer s false = Ok (Some x) /\ as_u16_cast x = Ok v) <-> ValueSyn s v.
Proof.
  intros s v. split.
  - intros (x & Hp & Hc). apply parse_integer_sound in Hp. unfold as_u16_cast in Hc.
    destruct (Z.ltb_spec x 0).
    + destruct (as_i16 x) as [y| | |] eqn:E; simpl in Hc; try discriminate. inversion Hc; subst.
      apply as_i16_iff in E. destruct E as [-> Hf]. unfold fits_i16 in Hf.
      replace (y mod 65536)%Z with (y + 65536)%Z.
      * apply Val_neg; [exact Hp|lia].
      * apply Z.mod_unique with (q := (-1)%Z); lia.
    + apply as_u16_iff in Hc. destruct Hc as [-> Hf]. apply Val_nonneg; assumption.
  - intros H. inversion H as [s' v' Hi Hr|s' x Hi Hr]; subst.
    + exists v. split; [apply parse_integer_complete; exact Hi|]. unfold as_u16_cast.
      destruct (Z.ltb_spec v 0); [lia|]. apply as_u16_iff. split; [reflexivity|exact Hr].
    + exists x. split; [apply parse_integer_complete; exact Hi|]. unfold as_u16_cast.
      destruct (Z.ltb_spec x 0); [|lia].
      assert (E : as_i16 x = Ok x) by (apply as_i16_iff; unfold fits_i16; split; [reflexivity|lia]).
      rewrite E. simpl. f_equal. symmetry. apply Z.mod_unique with (q := (-1)%Z); lia.
Qed.

(** ** When is a label-shaped token not an integer? *)

Lemma digit_loop_overflow : forall R eoi ds rest acc m,
  (0 <= acc <= i32_max)%Z -> digits_value (radix_val R) ds acc = Some m -> (m > i32_max)%Z ->
  digit_loop R eoi (ds ++ rest) acc = LEarly (Err (IntegerTooLarge 32767)).
Proof.
  intros R eoi ds rest. induction ds as [|c ds IH]; intros acc m Ha Hv Hm.
  - simpl in Hv. inversion Hv. lia.
  - simpl in *. rewrite digit_agree.
    destruct (digit_of (radix_val R) c) as [d|] eqn:E; [|discriminate].
    pose proof (digit_range _ _ _ E) as Hd. pose proof (radix_val_range R) as HR.
    unfold checked_mul. destruct (in_i32 (acc * radix_val R)) eqn:H1; [|reflexivity].
    unfold checked_add. destruct (in_i32 (acc * radix_val R + d)) eqn:H2; [|reflexivity].
    apply in_i32_iff in H2. apply (IH _ m); auto.
    split; [|lia]. destruct R; simpl radix_val in *; lia.
Qed.

Lemma digit_loop_too_large_inv : forall R eoi cs acc,
  (0 <= acc <= i32_max)%Z -> eoi <> Err (IntegerTooLarge 32767) ->
  digit_loop R eoi cs acc = LEarly (Err (IntegerTooLarge 32767)) ->
  exists ds rest m, cs = ds ++ rest /\ digits_value (radix_val R) ds acc = Some m /\ (m > i32_max)%Z.
Proof.
  intros R eoi cs. induction cs as [|c cs IH]; intros acc Ha He H; [discriminate|].
  simpl in H. rewrite digit_agree in H.
  destruct (digit_of (radix_val R) c) as [d|] eqn:E; [|inversion H; contradiction].
  pose proof (digit_range _ _ _ E) as Hd.
  assert (Hnn : (0 <= acc * radix_val R)%Z) by (destruct R; simpl radix_val in *; lia).
  unfold checked_mul in H. destruct (in_i32 (acc * radix_val R)) eqn:H1.
  - unfold checked_add in H. destruct (in_i32 (acc * radix_val R + d)) eqn:H2.
    + apply in_i32_iff in H2. destruct (IH (acc * radix_val R + d)%Z ltac:(lia) He H) as (ds & rest & m & -> & Hv & Hm).
      exists (c :: ds), rest, m. split; [reflexivity|]. split; [|exact Hm]. simpl. rewrite E. exact Hv.
    + exists [c], cs, (acc * radix_val R + d)%Z. split; [reflexivity|]. split; [simpl; rewrite E; reflexivity|].
      assert (~ (i32_min <= acc * radix_val R + d <= i32_max)%Z).
      { intros Hx. apply in_i32_iff in Hx. congruence. }
      unfold i32_min in *. lia.
  - exists [c], cs, (acc * radix_val R + d)%Z. split; [reflexivity|]. split; [simpl; rewrite E; reflexivity|].
    assert (~ (i32_min <= acc * radix_val R <= i32_max)%Z).
    { intros Hx. apply in_i32_iff in Hx. congruence. }
    unfold i32_min in *. lia.
Qed.

Definition radix_of_letter (c : N) : option radix :=
  if (c =? 98) || (c =? 66) then Some Binary
  else if (c =? 111) || (c =? 79) then Some Octal
  else if (c =? 120) || (c =? 88) then Some Hex
  else None.

Lemma radix_of_letter_spec : forall c,
  radix_letter c = match radix_of_letter c with Some R => Some (radix_val R) | None => None end.
Proof. intros c. unfold radix_letter, radix_of_letter. ifs; reflexivity. Qed.

Lemma radix_of_letter_not_decimal : forall c R, radix_of_letter c = Some R -> radix_eqb R Decimal = false.
Proof. intros c R. unfold radix_of_letter. ifs; intros H; inversion H; reflexivity. Qed.

(** A token that starts with a label character: the integer parser's first half. *)
Lemma pi_label_shaped : forall c t, label_start c = true ->
  parse_integer (c :: t) false =
  match radix_of_letter c with
  | Some R => pi_tail None R false t
  | None => Ok None
  end.
Proof.
  intros c t Hc. rewrite pi_unfold.
  assert (Hcls : c <> 43 /\ c <> 45 /\ c <> 48 /\ c <> 35 /\ between 48 c 57 = false).
  { unfold label_start, is_lower, is_upper, between in *. cmp_in Hc; simpl in Hc; try discriminate;
      repeat split; try lia; cmp; try reflexivity; lia. }
  destruct Hcls as (H1 & H2 & H3 & H4 & H5).
  unfold take_sign. destruct (N.eqb_spec c 43); [contradiction|]. destruct (N.eqb_spec c 45); [contradiction|].
  simpl andb. cbv iota. unfold take_prefix. destruct (N.eqb_spec c 48); [contradiction|].
  unfold radix_of_letter.
  destruct ((c =? 98) || (c =? 66)); [reflexivity|].
  destruct ((c =? 111) || (c =? 79)); [reflexivity|].
  destruct ((c =? 120) || (c =? 88)); [reflexivity|].
  destruct (N.eqb_spec c 35); [contradiction|]. rewrite H5.
  destruct (N.eqb_spec c 45); [contradiction|]. destruct (N.eqb_spec c 43); [contradiction|]. reflexivity.
Qed.

Lemma pi_tail_signed_not_none : forall R lz x t, (x = 43 \/ x = 45) ->
  pi_tail None R lz (x :: t) <> Ok None.
Proof.
  intros R lz x t Hx. unfold pi_tail, take_sign.
  assert (E : exists s, (if x =? 43 then (Some Positive, t) else if x =? 45 then (Some Negative, t) else (None, x :: t))
                        = (Some s, t)).
  { destruct Hx as [-> | ->]; eexists; reflexivity. }
  destruct E as [s ->]. simpl orb. cbv iota.
  destruct t as [|c t']; [discriminate|].
  destruct (digit_loop R (Err MalformedInteger) (c :: t') 0) as [m rest|r] eqn:EL.
  - destruct rest; [|discriminate]. destruct (in_i32 (m * sign_val s)); discriminate.
  - destruct (digit_loop_early _ _ _ _ _ EL) as [-> | ->]; discriminate.
Qed.

Lemma pi_none_iff : forall c t, label_start c = true ->
  (parse_integer (c :: t) false = Ok None <->
   (forall v, ~ IntSyn (c :: t) v) /\ ~ PrefixedLike (c :: t) /\ ~ TooLargeLike (c :: t)).
Proof.
  intros c t Hc. pose proof (pi_label_shaped c t Hc) as Hp.
  pose proof (radix_of_letter_spec c) as Hrl.
  split.
  - intros H. split; [|split].
    + intros v Hv. apply parse_integer_complete in Hv. congruence.
    + intros (c' & r & sg & rest & Hr & E & Hsg). inversion E; subst c' t.
      rewrite Hrl in Hr. destruct (radix_of_letter c) as [R|]; [|discriminate].
      rewrite Hp in H. exact (pi_tail_signed_not_none R false sg rest Hsg H).
    + intros (c' & r & ds & rest & m & Hr & E & Hv & Hm). inversion E; subst c' t.
      rewrite Hrl in Hr. destruct (radix_of_letter c) as [R|] eqn:ER; [|discriminate].
      inversion Hr; subst r. rewrite Hp in H.
      assert (Hds : exists d ds', ds = d :: ds' /\ exists dv, digit_of (radix_val R) d = Some dv).
      { destruct ds as [|d ds']; [simpl in Hv; inversion Hv; unfold i32_max in *; lia|].
        simpl in Hv. destruct (digit_of (radix_val R) d) eqn:Ed; [eauto|discriminate]. }
      destruct Hds as (d & ds' & -> & dv & Hd).
      assert (Ets : take_sign ((d :: ds') ++ rest) = (None, (d :: ds') ++ rest)).
      { exact (proj1 (take_sign_app [] 1 ((d :: ds') ++ rest) Sg_none
                        (digit_not_sign _ _ _ (ds' ++ rest) Hd))). }
      unfold pi_tail in H. rewrite Ets in H.
      rewrite (digit_loop_overflow R _ (d :: ds') rest 0 m) in H; auto; [|unfold i32_max; lia].
      simpl app in H. discriminate.
  - intros (Hni & Hnp & Hnt). rewrite Hp. destruct (radix_of_letter c) as [R|] eqn:ER; [|reflexivity].
    assert (Hrc : radix_letter c = Some (radix_val R)) by (rewrite Hrl; reflexivity).
    unfold pi_tail. destruct (take_sign t) as [ss c3] eqn:Ets.
    destruct (take_sign_inv _ _ _ Ets) as (sg2 & -> & Hs2 & Eopt & _).
    destruct ss as [s|].
    { exfalso. apply Hnp. inversion Hs2; subst; try discriminate.
      - exists c, (radix_val R), 43, c3. auto.
      - exists c, (radix_val R), 45, c3. auto. }
    assert (sg2 = []) by (inversion Hs2; subst; try reflexivity; vm_compute in Eopt; discriminate).
    subst sg2. simpl app in *.
    rewrite (radix_of_letter_not_decimal c R ER). simpl orb. cbv iota.
    destruct c3 as [|x c3']; [reflexivity|].
    destruct (digit_loop R (Ok None) (x :: c3') 0) as [m rest|r] eqn:EL.
    + exfalso. assert (H0 : (0 <= 0 <= i32_max)%Z) by (unfold i32_max; lia).
      destruct (digit_loop_done _ _ _ _ _ _ H0 EL) as (-> & Hv & Hm).
      apply (Hni m). replace m with (1 * 1 * m)%Z by lia.
      apply (Int_prefixed [] 1 [c] (radix_val R) [] 1 (x :: c3') m); auto; try constructor; try discriminate; try lia.
      exact Hrc.
    + destruct (digit_loop_early _ _ _ _ _ EL) as [-> | ->]; [reflexivity|].
      exfalso. apply Hnt.
      destruct (digit_loop_too_large_inv R (Ok None) (x :: c3') 0) as (ds & rest & m & E & Hv & Hm);
        [unfold i32_max; lia|discriminate|exact EL|].
      exists c, (radix_val R), ds, rest, m. rewrite E. auto.
Qed.

(** ** Memory locations and locations *)

Lemma pi_other_head : forall c t,
  c <> 43 -> c <> 45 -> c <> 35 -> between 48 c 57 = false -> radix_of_letter c = None ->
  parse_integer (c :: t) false = Ok None.
Proof.
  intros c t H1 H2 H3 H4 H5. rewrite pi_unfold. unfold take_sign.
  destruct (N.eqb_spec c 43); [contradiction|]. destruct (N.eqb_spec c 45); [contradiction|].
  simpl andb. cbv iota. unfold take_prefix.
  assert (c <> 48). { intros ->. vm_compute in H4. discriminate. }
  destruct (N.eqb_spec c 48); [contradiction|].
  unfold radix_of_letter in H5.
  destruct ((c =? 98) || (c =? 66)); [discriminate|].
  destruct ((c =? 111) || (c =? 79)); [discriminate|].
  destruct ((c =? 120) || (c =? 88)); [discriminate|].
  destruct (N.eqb_spec c 35); [contradiction|]. rewrite H4.
  destruct (N.eqb_spec c 45); [contradiction|]. destruct (N.eqb_spec c 43); [contradiction|]. reflexivity.
Qed.

(** The first character of an integer: a sign, `#`, a decimal digit or a radix letter. *)
Lemma IntSyn_head : forall s v, IntSyn s v -> exists c t, s = c :: t /\
  (c = 43 \/ c = 45 \/ c = 35 \/ between 48 c 57 = true \/ radix_of_letter c <> None).
Proof.
  intros s v H. pose proof (IntSyn_nonempty _ _ H) as Hne. destruct s as [|c t]; [contradiction|].
  exists c, t. split; [reflexivity|].
  destruct (N.eqb_spec c 43); [auto|]. destruct (N.eqb_spec c 45); [auto|]. destruct (N.eqb_spec c 35); [auto|].
  destruct (between 48 c 57) eqn:Eb; [auto|]. destruct (radix_of_letter c) eqn:Er; [right; right; right; right; discriminate|].
  exfalso. apply parse_integer_complete in H. rewrite pi_other_head in H by assumption. discriminate.
Qed.

Lemma IntSyn_head_facts : forall s v, IntSyn s v -> exists c t, s = c :: t /\
  c <> 94 /\ c <> 114 /\ c <> 82.
Proof.
  intros s v H. destruct (IntSyn_head s v H) as (c & t & -> & Hc). exists c, t. split; [reflexivity|].
  destruct Hc as [-> |[-> |[-> |[Hb|Hr]]]]; try (repeat split; discriminate).
  - unfold between in Hb. cmp_in Hb; try discriminate. repeat split; lia.
  - unfold radix_of_letter in Hr. repeat split; intros ->; apply Hr; reflexivity.
Qed.

Lemma pcoffset_head : forall c t, c <> 94 -> pcoffset_try_parse (c :: t) = Ok None.
Proof. intros c t H. unfold pcoffset_try_parse. destruct (N.eqb_spec c 94); [contradiction|reflexivity]. Qed.

Lemma LabelSyn_head : forall s name off, LabelSyn s name off ->
  exists c t, s = c :: t /\ label_start c = true.
Proof. intros s name off H. inversion H; subst; simpl; eauto. Qed.

Lemma label_start_facts : forall c, label_start c = true -> c <> 94.
Proof. intros c H ->. vm_compute in H. discriminate. Qed.

(** What `MemoryLocation::try_parse` accepts (it does not look at register names). *)
Inductive MemCoreSyn : list N -> memloc -> Prop :=
| MC_pc : forall s v, PcOffSyn s v -> MemCoreSyn s (MPcOffset v)
| MC_addr : forall s v, IntSyn s v -> fits_u16 v -> MemCoreSyn s (MAddress v)
| MC_label : forall s name off,
    LabelSyn s name off -> (forall v, ~ IntSyn s v) -> ~ PrefixedLike s -> ~ TooLargeLike s ->
    MemCoreSyn s (MLabel name off).

Theorem memloc_core_iff : forall s m,
  memory_location_try_parse s = Ok (Some m) <-> MemCoreSyn s m.
Proof.
  intros s m. split.
  - unfold memory_location_try_parse. intros H.
    destruct (pcoffset_try_parse s) as [[o|]|e|w|q] eqn:Ep; simpl in H; try discriminate.
    { inversion H; subst. apply MC_pc. apply pcoffset_iff. exact Ep. }
    destruct (parse_integer s false) as [[a|]|e|w|q] eqn:Ei; simpl in H; try discriminate.
    { destruct (as_u16 a) as [a'| | |] eqn:Ea; simpl in H; try discriminate. inversion H; subst.
      apply as_u16_iff in Ea. destruct Ea as [-> Hf]. apply MC_addr; [apply parse_integer_sound; exact Ei|exact Hf]. }
    destruct (label_try_parse s) as [[[n o]|]|e|w|q] eqn:El; simpl in H; try discriminate.
    inversion H; subst. apply label_iff in El.
    destruct (LabelSyn_head _ _ _ El) as (c & t & -> & Hc).
    apply (pi_none_iff c t Hc) in Ei. destruct Ei as (H1 & H2 & H3). apply MC_label; assumption.
  - intros H. unfold memory_location_try_parse. inversion H as [s' v Hp|s' v Hi Hf|s' n o Hl H1 H2 H3]; subst.
    + apply pcoffset_iff in Hp. rewrite Hp. reflexivity.
    + destruct (IntSyn_head_facts _ _ Hi) as (c & t & -> & Hc & _).
      rewrite (pcoffset_head c t Hc), (parse_integer_complete _ _ Hi). unfold bind. cbv iota beta.
      assert (E : as_u16 v = Ok v) by (apply as_u16_iff; auto). rewrite E. reflexivity.
    + destruct (LabelSyn_head _ _ _ Hl) as (c & t & -> & Hc).
      assert (Ei : parse_integer (c :: t) false = Ok None) by (apply pi_none_iff; auto).
      apply label_iff in Hl.
      rewrite (pcoffset_head c t (label_start_facts c Hc)), Ei, Hl. reflexivity.
Qed.

Lemma register_none_iff : forall s, register_try_parse s = Ok None <-> is_str_register s = false.
Proof.
  intros s. unfold register_try_parse, is_str_register.
  destruct s as [|c [|d [|e t]]]; simpl.
  - tauto.
  - destruct ((c =? 114) || (c =? 82)); tauto.
  - destruct ((c =? 114) || (c =? 82)); simpl; [|tauto]. destruct (between 48 d 55); simpl; [|tauto].
    split; discriminate.
  - destruct ((c =? 114) || (c =? 82)); simpl; [|tauto]. destruct (between 48 d 55); simpl; [|tauto].
    destruct (can_contain e); simpl; [tauto|]. split; discriminate.
Qed.

Lemma sign_not_label_char : forall x, x = 43 \/ x = 45 -> can_contain x = false /\ between 48 x 55 = false.
Proof. intros x [-> | ->]; split; reflexivity. Qed.

(** A label token looks like a register exactly when its name is a register name. *)
Lemma is_str_register_label : forall s name off, LabelSyn s name off ->
  (is_str_register s = true <-> exists r, RegSyn name r).
Proof.
  intros s name off H.
  assert (Hshape : exists c cs offs, s = c :: cs ++ offs /\ name = c :: cs /\ forallb label_char cs = true /\
                    (offs = [] \/ exists x t, offs = x :: t /\ (x = 43 \/ x = 45))).
  { inversion H as [c cs Hc Hcs|c cs offs v Hc Hcs [Hi (x & t & -> & Hx)] Hf]; subst.
    - exists c, cs, []. rewrite app_nil_r. auto.
    - exists c, cs, (x :: t). repeat split; auto. right. eauto. }
  destruct Hshape as (c & cs & offs & -> & -> & Hcs & Hoffs).
  assert (Hreg : forall l r, RegSyn l r -> exists a b, l = [a; b] /\ ((a =? 114) || (a =? 82)) = true /\ between 48 b 55 = true).
  { intros l r Hr. inversion Hr as [a b Ha Hb]; subst. exists a, b. repeat split; auto.
    destruct Ha as [-> | ->]; reflexivity. }
  destruct cs as [|d cs'].
  - simpl app. split.
    + intros Hs. exfalso. destruct Hoffs as [-> |(x & t & -> & Hx)]; [discriminate|].
      unfold is_str_register in Hs. destruct (sign_not_label_char x Hx) as [_ Hb]. rewrite Hb in Hs.
      rewrite andb_false_r in Hs. discriminate.
    + intros [r Hr]. destruct (Hreg _ _ Hr) as (a & b & E & _). discriminate.
  - simpl in Hcs. apply andb_true_iff in Hcs. destruct Hcs as [Hd Hcs'].
    destruct cs' as [|e cs''].
    + simpl app. unfold is_str_register.
      assert (Hrest : negb (match offs with ch :: _ => can_contain ch | [] => false end) = true).
      { destruct Hoffs as [-> |(x & t & -> & Hx)]; [reflexivity|].
        destruct (sign_not_label_char x Hx) as [Hc _]. rewrite Hc. reflexivity. }
      rewrite Hrest, andb_true_r. split.
      * intros Hs. apply andb_true_iff in Hs. destruct Hs as [Hc Hb].
        exists (Z.of_N d - 48)%Z. constructor; [|exact Hb].
        apply orb_true_iff in Hc. destruct Hc as [Hc|Hc]; apply N.eqb_eq in Hc; auto.
      * intros [r Hr]. destruct (Hreg _ _ Hr) as (a & b & E & Ha & Hb). inversion E; subst.
        rewrite Ha, Hb. reflexivity.
    + split.
      * intros Hs. exfalso. simpl app in Hs. unfold is_str_register in Hs.
        simpl in Hcs'. apply andb_true_iff in Hcs'. destruct Hcs' as [He _].
        rewrite label_char_eq, He in Hs. simpl in Hs. rewrite andb_false_r in Hs. discriminate.
      * intros [r Hr]. destruct (Hreg _ _ Hr) as (a & b & E & _). discriminate.
Qed.

Lemma naive_accept_memloc : forall s,
  check_naive_type [NInteger; NLabel; NPCOffset] s = Ok tt <->
  (is_str_pc_offset s = true \/ is_str_register s = false).
Proof.
  intros s. unfold check_naive_type, naive_try_from.
  destruct (is_str_pc_offset s); simpl; [tauto|].
  destruct (is_str_register s); simpl.
  - split; [discriminate|intros [H|H]; discriminate].
  - destruct (is_str_integer s); simpl; [tauto|]. destruct (is_str_label s); simpl; tauto.
Qed.

Lemma MemCoreSyn_not_register : forall s m, MemCoreSyn s m ->
  (is_str_pc_offset s = true \/ is_str_register s = false) <->
  (forall name off, m = MLabel name off -> forall r, ~ RegSyn name r).
Proof.
  intros s m H. inversion H as [s' v Hp|s' v Hi Hf|s' n o Hl H1 H2 H3]; subst.
  - split; [intros _ name off E; discriminate|]. intros _. left. inversion Hp; reflexivity.
  - split; [intros _ name off E; discriminate|]. intros _. right.
    destruct (IntSyn_head_facts _ _ Hi) as (c & t & -> & _ & Hr1 & Hr2).
    unfold is_str_register. destruct t as [|d t]; [reflexivity|].
    destruct (N.eqb_spec c 114); [contradiction|]. destruct (N.eqb_spec c 82); [contradiction|]. reflexivity.
  - pose proof (is_str_register_label _ _ _ Hl) as Hreg.
    destruct (LabelSyn_head _ _ _ Hl) as (c & t & -> & Hc).
    assert (Hpc : is_str_pc_offset (c :: t) = false).
    { unfold is_str_pc_offset. destruct (N.eqb_spec c 94); [|reflexivity]. exfalso. exact (label_start_facts c Hc e). }
    rewrite Hpc. split.
    + intros [Hx|Hx]; [discriminate|]. intros name off E r Hr. inversion E; subst.
      assert (is_str_register (c :: t) = true) by (apply Hreg; eauto). congruence.
    + intros Hn. right. destruct (is_str_register (c :: t)) eqn:E; [|reflexivity].
      exfalso. destruct (proj1 Hreg eq_refl) as [r Hr]. exact (Hn n o eq_refl r Hr).
Qed.

Lemma MemLocSyn_core : forall s m,
  MemLocSyn s m <-> (MemCoreSyn s m /\ forall name off, m = MLabel name off -> forall r, ~ RegSyn name r).
Proof.
  intros s m. split.
  - intros H. inversion H; subst.
    + split; [apply MC_pc; assumption|intros ? ? E; discriminate].
    + split; [apply MC_addr; assumption|intros ? ? E; discriminate].
    + split; [apply MC_label; assumption|]. intros ? ? E; inversion E; subst; assumption.
  - intros [H Hn]. inversion H; subst.
    + apply ML_pc; assumption.
    + apply ML_addr; assumption.
    + apply ML_label; auto. exact (Hn name off eq_refl).
Qed.

(** An `Address+` argument (goto, assembly, break add, break remove): the preliminary type check
    and the parse together accept exactly the documented forms, with the documented values. *)
Theorem memloc_iff : forall s m,
  (check_naive_type [NInteger; NLabel; NPCOffset] s = Ok tt /\ memory_location_try_parse s = Ok (Some m))
  <-> MemLocSyn s m.
Proof.
  intros s m. rewrite MemLocSyn_core, naive_accept_memloc, memloc_core_iff.
  split.
  - intros [Hn Hc]. split; [exact Hc|]. apply (MemCoreSyn_not_register s m Hc). exact Hn.
  - intros [Hc Hn]. split; [|exact Hc]. apply (MemCoreSyn_not_register s m Hc). exact Hn.
Qed.

(** A `Register | Address+` argument (print, move). *)
Theorem location_iff : forall s l, location_try_parse s = Ok (Some l) <-> LocSyn s l.
Proof.
  intros s l. split.
  - unfold location_try_parse. intros H.
    destruct (register_try_parse s) as [[r|]|e|w|q] eqn:Er; simpl in H; try discriminate.
    { inversion H; subst. apply Loc_reg. apply register_iff. exact Er. }
    destruct (memory_location_try_parse s) as [[m|]|e|w|q] eqn:Em; simpl in H; try discriminate.
    inversion H; subst. apply Loc_mem. apply MemLocSyn_core. apply memloc_core_iff in Em.
    split; [exact Em|]. apply (MemCoreSyn_not_register s m Em). right. apply register_none_iff. exact Er.
  - intros H. unfold location_try_parse. inversion H as [s' r Hr|s' m Hm]; subst.
    + apply register_iff in Hr. rewrite Hr. reflexivity.
    + apply MemLocSyn_core in Hm. destruct Hm as [Hc Hn].
      assert (Er : register_try_parse s = Ok None).
      { apply register_none_iff. apply (MemCoreSyn_not_register s m Hc) in Hn.
        destruct Hn as [Hpc|Hx]; [|exact Hx].
        unfold is_str_pc_offset in Hpc. destruct s as [|c t]; [discriminate|]. apply N.eqb_eq in Hpc. subst c.
        destruct t; reflexivity. }
      rewrite Er. simpl. apply memloc_core_iff in Hc. rewrite Hc. reflexivity.
Qed.

Lemma all_digits_of_value : forall R ds acc m, digits_value (radix_val R) ds acc = Some m -> all_digits R ds = true.
Proof.
  intros R ds. induction ds as [|c ds IH]; intros acc m H; [reflexivity|].
  simpl in *. rewrite digit_agree. destruct (digit_of (radix_val R) c); [|discriminate]. eapply IH; exact H.
Qed.

(** Every integer is classified as an integer by the preliminary type check. *)
Lemma is_str_integer_letter : forall c R sg2 k2 ds m,
  radix_of_letter c = Some R -> SignSyn sg2 k2 -> ds <> [] ->
  digits_value (radix_val R) ds 0 = Some m ->
  is_str_integer (c :: sg2 ++ ds) = true.
Proof.
  intros c R sg2 k2 ds m Hl Hs2 Hne Hv.
  destruct (digits_head _ _ _ _ Hne Hv) as (d & ds' & dv & -> & Hd).
  pose proof (digit_not_sign _ _ _ ds' Hd d ds' eq_refl) as [Nd1 Nd2].
  pose proof (all_digits_of_value R _ _ _ Hv) as Had.
  unfold is_str_integer.
  destruct ((c =? 45) || (c =? 43) || (c =? 35) || between 48 c 57); [reflexivity|].
  unfold radix_of_letter in Hl.
  assert (Hskip :
    match (match sg2 ++ d :: ds' with
           | s0 :: rest2 => if (s0 =? 45) || (s0 =? 43) then rest2 else sg2 ++ d :: ds'
           | [] => sg2 ++ d :: ds' end) with
    | [] => false
    | _ :: _ => all_digits R (match sg2 ++ d :: ds' with
           | s0 :: rest2 => if (s0 =? 45) || (s0 =? 43) then rest2 else sg2 ++ d :: ds'
           | [] => sg2 ++ d :: ds' end)
    end = true).
  { inversion Hs2; subst; cbv beta iota delta [app].
    - rewrite (proj2 (N.eqb_neq d 45) Nd2), (proj2 (N.eqb_neq d 43) Nd1). cbv beta iota delta [orb]. exact Had.
    - change (43 =? 45) with false. change (43 =? 43) with true. cbv beta iota delta [orb]. exact Had.
    - change (45 =? 45) with true. cbv beta iota delta [orb]. exact Had. }
  destruct ((c =? 98) || (c =? 66)); [inversion Hl; subst R; exact Hskip|].
  destruct ((c =? 111) || (c =? 79)); [inversion Hl; subst R; exact Hskip|].
  destruct ((c =? 120) || (c =? 88)); [inversion Hl; subst R; exact Hskip|discriminate].
Qed.

Lemma IntSyn_is_str_integer : forall s v, IntSyn s v -> is_str_integer s = true.
Proof.
  intros s v H.
  inversion H as [sg k ds m Hs Hne Hv Hm Es Ev|sg1 k1 px r sg2 k2 ds m Hs1 Hrx Hs2 Hor Hne Hv Hm Es Ev].
  - destruct (digits_head _ _ _ _ Hne Hv) as (d & ds' & dv & -> & Hd).
    apply dec_digit_between in Hd.
    inversion Hs; subst; simpl app; unfold is_str_integer; try reflexivity.
    rewrite Hd. rewrite !orb_true_r. reflexivity.
  - inversion Hs1; subst; simpl app; try reflexivity.
    inversion Hrx as [|c0 r0 Hl|c0 r0 Hl]; subst; simpl app; try reflexivity.
    rewrite radix_of_letter_spec in Hl. destruct (radix_of_letter c0) as [R|] eqn:ER; [|discriminate].
    inversion Hl; subst. eapply is_str_integer_letter; eauto.
Qed.

(** Every integer is classified as an integer by the preliminary type check. *)
Lemma IntSyn_naive : forall s v, IntSyn s v -> check_naive_type [NInteger] s = Ok tt.
Proof.
  intros s v H.
  pose proof (IntSyn_is_str_integer _ _ H) as Hint.
  destruct (IntSyn_head_facts _ _ H) as (c & t & E & Hpc & Hr1 & Hr2).
  unfold check_naive_type, naive_try_from. rewrite Hint.
  assert (Hp : is_str_pc_offset s = false).
  { rewrite E. unfold is_str_pc_offset. destruct (N.eqb_spec c 94); [contradiction|reflexivity]. }
  assert (Hr : is_str_register s = false).
  { rewrite E. unfold is_str_register. destruct t; [reflexivity|].
    destruct (N.eqb_spec c 114); [contradiction|]. destruct (N.eqb_spec c 82); [contradiction|]. reflexivity. }
  rewrite Hp, Hr. reflexivity.
Qed.

(** An integer value argument (move's VALUE, step into's COUNT). *)
Theorem value_arg_iff : forall s v,
  (check_naive_type [NInteger] s = Ok tt /\
   exists x, parse_integer s false = Ok (Some x) /\ as_u16_cast x = Ok v) <-> ValueSyn s v.
Proof.
  intros s v. split.
  - intros [_ H]. apply value_iff. exact H.
  - intros H. split; [|apply value_iff; exact H].
    inversion H as [s' v' Hi _|s' x Hi _]; subst; eapply IntSyn_naive; exact Hi.
Qed.

(* ------------------------------------------------------------------ *)
(** * Whole lines: words, names, arity *)

Definition all_space (l : list N) : Prop := forallb (fun c => c =? 32) l = true.
Definition no_space (l : list N) : Prop := forallb (fun c => negb (c =? 32)) l = true.

Lemma words_aux_nospace : forall tok rest cur, no_space tok ->
  words_aux (tok ++ rest) cur = words_aux rest (rev tok ++ cur).
Proof.
  induction tok as [|c tok IH]; intros rest cur H; [reflexivity|].
  unfold no_space in H. simpl in H. apply andb_true_iff in H. destruct H as [Hc Ht].
  simpl. destruct (c =? 32); [discriminate|]. rewrite IH by exact Ht. rewrite <- app_assoc. reflexivity.
Qed.

Lemma words_aux_space : forall sp rest, all_space sp -> words_aux (sp ++ rest) [] = words_aux rest [].
Proof.
  induction sp as [|c sp IH]; intros rest H; [reflexivity|].
  unfold all_space in H. simpl in H. apply andb_true_iff in H. destruct H as [Hc Ht].
  simpl. rewrite Hc. apply IH. exact Ht.
Qed.

Lemma rev_nonempty' : forall (l : list N), l <> [] -> exists x t, rev l = x :: t.
Proof.
  intros l H. destruct (rev l) as [|x t] eqn:E; [|eauto].
  exfalso. apply H. rewrite <- (rev_involutive l), E. reflexivity.
Qed.

Lemma words_token : forall sp tok rest, all_space sp -> no_space tok -> tok <> [] ->
  (rest = [] \/ exists r', rest = 32 :: r') -> words (sp ++ tok ++ rest) = tok :: words rest.
Proof.
  intros sp tok rest Hsp Htok Hne Hrest. unfold words.
  rewrite words_aux_space by exact Hsp. rewrite words_aux_nospace by exact Htok. rewrite app_nil_r.
  destruct (rev_nonempty' tok Hne) as (x & t & E).
  destruct Hrest as [-> |(r' & ->)]; simpl; rewrite E, <- E, rev_involutive; reflexivity.
Qed.

Lemma words_all_space : forall sp, all_space sp -> words sp = [].
Proof.
  intros sp H. unfold words. rewrite <- (app_nil_r sp). rewrite words_aux_space by exact H. reflexivity.
Qed.

Lemma token_loop_false_spec3 : forall chars start len, nodelim chars ->
  exists tok rest, chars = tok ++ rest /\ token_loop chars start len false = Some (start, len + bytes tok) /\
    no_space tok /\ (rest = [] \/ exists r', rest = 32 :: r').
Proof.
  induction chars as [|c chars IH]; intros start len Hn.
  - exists [], []. repeat split; auto. simpl. f_equal. f_equal. lia.
  - destruct (nodelim_cons _ _ Hn) as [Hc Hn']. simpl.
    unfold is_delim in Hc. rewrite Hc. simpl andb.
    destruct (N.eqb_spec c 32) as [->|Hne].
    + exists [], (32 :: chars). repeat split; eauto. simpl. f_equal. f_equal. lia.
    + simpl orb. apply orb_false_iff in Hc. destruct Hc as [-> ->]. simpl orb. cbv iota.
      destruct (IH start (len + len_utf8 c) Hn') as (tok & rest & -> & E & Ht & Hr).
      exists (c :: tok), rest. split; [reflexivity|]. split; [rewrite E; simpl; f_equal; f_equal; lia|].
      split; [|exact Hr]. unfold no_space. simpl. rewrite (proj2 (N.eqb_neq c 32) Hne). exact Ht.
Qed.

Lemma token_loop_true_spec3 : forall chars start, nodelim chars ->
  exists sp tok rest, chars = sp ++ tok ++ rest /\
    token_loop chars start 0 true = Some (start + bytes sp, bytes tok) /\
    all_space sp /\ no_space tok /\ (rest = [] \/ exists r', rest = 32 :: r') /\ (tok = [] -> rest = []).
Proof.
  induction chars as [|c chars IH]; intros start Hn.
  - exists [], [], []. repeat split; auto. simpl. f_equal. f_equal. lia.
  - destruct (nodelim_cons _ _ Hn) as [Hc Hn']. simpl.
    unfold is_delim in Hc. rewrite Hc. simpl andb.
    destruct (N.eqb_spec c 32) as [->|Hne].
    + destruct (IH (start + len_utf8 32) Hn') as (sp & tok & rest & -> & E & Hs & Ht & Hr & He).
      exists (32 :: sp), tok, rest. split; [reflexivity|]. split; [rewrite E; simpl; f_equal; f_equal; lia|].
      repeat split; auto.
    + simpl orb. apply orb_false_iff in Hc. destruct Hc as [-> ->]. simpl orb. cbv iota.
      destruct (token_loop_false_spec3 chars start (0 + len_utf8 c) Hn') as (tok & rest & -> & E & Ht & Hr).
      exists [], (c :: tok), rest. split; [reflexivity|]. split; [rewrite E; simpl; f_equal; f_equal; lia|].
      split; [reflexivity|]. split; [|split; [exact Hr|intros; discriminate]].
      unfold no_space. simpl. rewrite (proj2 (N.eqb_neq c 32) Hne). exact Ht.
Qed.

Lemma drop_while_all : forall p a b, forallb p a = true -> drop_while p (a ++ b) = drop_while p b.
Proof.
  induction a as [|c a IH]; intros b H; [reflexivity|]. simpl in *. apply andb_true_iff in H.
  destruct H as [-> H]. apply IH. exact H.
Qed.

(** The text still to be read by the argument iterator. *)
Definition Stream (a : arguments) (r : list N) : Prop :=
  nodelim (buffer a) /\ exists p, buffer a = p ++ r /\ cursor a = bytes p.

Definition after_word (r : list N) : list N :=
  drop_while (fun c => negb (c =? 32)) (drop_while (fun c => c =? 32) r).

Lemma next_token_stream : forall E a r, Stream a r ->
  match words r with
  | [] => @next_token_str E a = Ok (None, a)
  | w :: ws => exists a', @next_token_str E a = Ok (Some w, a') /\ Stream a' (after_word r) /\
                          words (after_word r) = ws /\ arg_count a' = arg_count a
  end.
Proof.
  intros E a r [Hn (p & Hb & Hc)]. unfold next_token_str. rewrite Hc.
  replace (drop_bytes (buffer a) (bytes p)) with (Some r) by (rewrite Hb; symmetry; apply drop_bytes_app).
  assert (Hnr : nodelim r). { rewrite Hb in Hn. apply nodelim_app in Hn. tauto. }
  destruct (token_loop_true_spec3 r (bytes p) Hnr) as (sp & tok & rest & Er & -> & Hsp & Htok & Hrest & Hemp).
  destruct tok as [|t0 tok'].
  - rewrite (Hemp eq_refl) in Er. simpl in Er. rewrite app_nil_r in Er. subst r.
    rewrite (words_all_space sp Hsp). simpl bytes.
    destruct (N.eqb_spec (bytes p + bytes sp) (bytes p + bytes sp + 0)); [reflexivity|lia].
  - set (tok := t0 :: tok') in *.
    assert (Hw : words r = tok :: words rest). { rewrite Er. apply words_token; auto. discriminate. }
    rewrite Hw.
    assert (Haw : after_word r = rest).
    { unfold after_word. rewrite Er. rewrite drop_while_all by exact Hsp.
      assert (E1 : drop_while (fun c => c =? 32) (tok ++ rest) = tok ++ rest).
      { subst tok. unfold no_space in Htok. simpl in Htok. apply andb_true_iff in Htok. destruct Htok as [H0 _].
        simpl. destruct (t0 =? 32); [discriminate|reflexivity]. }
      rewrite E1. rewrite drop_while_all by exact Htok.
      destruct Hrest as [-> |(r' & ->)]; reflexivity. }
    rewrite Haw.
    assert (Hpos : bytes tok <> 0). { subst tok. simpl. pose proof (len_utf8_pos t0). lia. }
    destruct (N.eqb_spec (bytes p + bytes sp) (bytes p + bytes sp + bytes tok)); [lia|].
    assert (Hs : slice (buffer a) (bytes p + bytes sp) (bytes p + bytes sp + bytes tok) = Some tok).
    { rewrite Hb, Er. replace (p ++ sp ++ tok ++ rest) with ((p ++ sp) ++ tok ++ rest) by (rewrite <- app_assoc; reflexivity).
      rewrite <- bytes_app. apply slice_app. }
    rewrite Hs. eexists. split; [reflexivity|]. split; [|split; reflexivity].
    split; [exact Hn|]. exists (p ++ sp ++ tok). cbn [buffer cursor]. split.
    + rewrite Hb, Er, <- !app_assoc. reflexivity.
    + rewrite !bytes_app. lia.
Qed.

(** ** Names *)

Lemma name_matches_in_words : forall w l, name_matches w l = in_words w l.
Proof.
  intros w. induction l as [|s l IH]; [reflexivity|]. simpl. unfold eq_ignore_ascii_case.
  destruct (ieq w (str s)); [reflexivity|exact IH].
Qed.

Definition flatten (es : list entry) : list (string * cname) :=
  flat_map (fun e => map (fun s => (s, e_name e)) (candidates e)) es.

Lemma lookup_entry : forall w name cands rest,
  lookup w (map (fun s => (s, name)) cands ++ rest) =
  if name_matches w cands then Some name else lookup w rest.
Proof.
  intros w name. induction cands as [|s cands IH]; intros rest; [reflexivity|].
  simpl. unfold eq_ignore_ascii_case. destruct (ieq w (str s)); [reflexivity|apply IH].
Qed.

Lemma find_candidate_lookup : forall w es, find_candidate w es = lookup w (flatten es).
Proof.
  intros w. induction es as [|e es IH]; [reflexivity|].
  simpl. rewrite lookup_entry. destruct (name_matches w (candidates e)); [reflexivity|exact IH].
Qed.

Lemma flatten_commands : flatten COMMANDS = word_table.
Proof. reflexivity. Qed.
Lemma flatten_step : flatten SUBCOMMANDS_STEP = step_table.
Proof. reflexivity. Qed.
Lemma flatten_break : flatten SUBCOMMANDS_BREAK = break_table.
Proof. reflexivity. Qed.

(** No two keys of a table are equal up to letter case, so the order of a table is immaterial. *)
Fixpoint keys_distinct (keys : list string) : bool :=
  match keys with
  | [] => true
  | k :: r => negb (existsb (fun k' => ieq (str k) (str k')) r) && keys_distinct r
  end.

Lemma tables_keys_distinct :
  keys_distinct (map fst word_table ++ step_words ++ break_words) = true /\
  keys_distinct (map fst step_table) = true /\ keys_distinct (map fst break_table) = true.
Proof. vm_compute. repeat split; reflexivity. Qed.

Lemma NameSyn_functional : forall ws c n c' n', NameSyn ws c n -> NameSyn ws c' n' -> c = c' /\ n = n'.
Proof.
  intros ws c n c' n' H H'.
  inversion H; subst; inversion H'; subst; try congruence; split; congruence.
Qed.

Lemma find_name_match_inl : forall w es c,
  find_name_match w es = inl c <-> lookup w (flatten es) = Some c.
Proof.
  intros w es c. unfold find_name_match. rewrite find_candidate_lookup.
  destruct (lookup w (flatten es)); split; intros H; inversion H; reflexivity.
Qed.

(** The command name of a line, and the text that remains after it. *)
Lemma get_command_name_spec : forall line, nodelim line ->
  match get_command_name (arguments_from line) with
  | Ok (c, a') => exists n r', NameSyn (words line) c n /\ Stream a' r' /\ arg_count a' = 0 /\
                               words r' = skipn n (words line) /\ (n = 1%nat -> r' = after_word line)
  | _ => forall c n, ~ NameSyn (words line) c n
  end.
Proof.
  intros line Hn. unfold get_command_name. simpl cursor. change (0 =? 0) with true. simpl negb. cbv iota.
  assert (Hs0 : Stream (arguments_from line) line).
  { split; [exact Hn|]. exists []. split; reflexivity. }
  pose proof (next_token_stream cerr _ _ Hs0) as Ht.
  destruct (words line) as [|w ws] eqn:Ew.
  { rewrite Ht. simpl. intros c n H. inversion H. }
  destruct Ht as (a1 & -> & Hs1 & Ew1 & Hc1). simpl bind. cbv iota beta.
  assert (Hc10 : arg_count a1 = 0) by (rewrite Hc1; reflexivity).
  pose proof (next_token_stream cerr _ _ Hs1) as Ht2. rewrite Ew1 in Ht2.
  unfold name_matches_with_subcommand at 1. rewrite name_matches_in_words.
  change COMMAND_STEP with step_words.
  destruct (in_words w step_words) eqn:Estep; simpl negb; cbv iota.
  - (* step ... *)
    destruct ws as [|w2 ws'].
    + rewrite Ht2. simpl. exists 1%nat, (after_word line).
      split; [apply Name_step; exact Estep|]. split; [exact Hs1|]. split; [exact Hc10|]. split; [exact Ew1|reflexivity].
    + destruct Ht2 as (a2 & -> & Hs2 & Ew2 & Hc2). simpl bind. cbv iota beta.
      destruct (find_name_match w2 SUBCOMMANDS_STEP) as [c|sug] eqn:Ef.
      * apply find_name_match_inl in Ef. rewrite flatten_step in Ef. simpl.
        exists 2%nat, (after_word (after_word line)).
        split; [apply Name_step_sub; assumption|]. split; [exact Hs2|]. split; [lia|]. split; [exact Ew2|].
        intros Hx; discriminate.
      * simpl. intros c n H. inversion H; subst; try congruence.
        assert (Hx : find_name_match w2 SUBCOMMANDS_STEP = inl c) by (apply find_name_match_inl; rewrite flatten_step; assumption).
        congruence.
  - (* not step *)
    simpl bind. cbv iota beta.
    unfold name_matches_with_subcommand. rewrite name_matches_in_words. change COMMAND_BREAK with break_words.
    destruct (in_words w break_words) eqn:Ebreak; simpl negb; cbv iota.
    + destruct ws as [|w2 ws'].
      * rewrite Ht2. simpl. intros c n H. inversion H; subst; congruence.
      * destruct Ht2 as (a2 & -> & Hs2 & Ew2 & Hc2). simpl bind. cbv iota beta.
        destruct (find_name_match w2 SUBCOMMANDS_BREAK) as [c|sug] eqn:Ef.
        -- apply find_name_match_inl in Ef. rewrite flatten_break in Ef. simpl.
           exists 2%nat, (after_word (after_word line)).
           split; [apply Name_break_sub; assumption|]. split; [exact Hs2|]. split; [lia|]. split; [exact Ew2|].
           intros Hx; discriminate.
        -- simpl. intros c n H. inversion H; subst; try congruence.
           assert (Hx : find_name_match w2 SUBCOMMANDS_BREAK = inl c) by (apply find_name_match_inl; rewrite flatten_break; assumption).
           congruence.
    + simpl bind. cbv iota beta.
      destruct (find_name_match w COMMANDS) as [c|sug] eqn:Ef.
      * apply find_name_match_inl in Ef. rewrite flatten_commands in Ef.
        exists 1%nat, (after_word line).
        split; [apply Name_word; assumption|]. split; [exact Hs1|]. split; [exact Hc10|]. split; [exact Ew1|reflexivity].
      * assert (Hno : forall c n, ~ NameSyn (w :: ws) c n).
        { intros c n H. inversion H; subst; try congruence.
          assert (Hx : find_name_match w COMMANDS = inl c) by (apply find_name_match_inl; rewrite flatten_commands; assumption).
          congruence. }
        destruct (leqb w (str "sudo")); exact Hno.
Qed.

(** ** Arguments of a command *)

Lemma next_argument_stream : forall E a r, Stream a r -> arg_count a < 255 ->
  match words r with
  | [] => @next_argument_str E a = Ok (None, a)
  | w :: ws => exists a', @next_argument_str E a = Ok (Some w, a') /\ Stream a' (after_word r) /\
                          words (after_word r) = ws /\ arg_count a' = arg_count a + 1
  end.
Proof.
  intros E a r Hs Hlt. unfold next_argument_str. pose proof (next_token_stream E a r Hs) as Ht.
  destruct (words r) as [|w ws].
  - rewrite Ht. reflexivity.
  - destruct Ht as (a1 & -> & Hs1 & Ew & Hc). simpl bind. cbv iota beta.
    destruct (N.leb_spec (arg_count a1 + 1) 255); [|lia].
    eexists. split; [reflexivity|]. split; [|split; [exact Ew|simpl; lia]].
    destruct Hs1 as [Hn Hp]. split; assumption.
Qed.

(** What is done with one argument token. *)
Definition P_int (w : list N) : res aerr Z :=
  do _ <- check_naive_type [NInteger] w;
  do io <- map_err InvalidValue (parse_integer w false);
  match io with
  | Some i => map_err InvalidValue (as_u16_cast i)
  | None => Err (InvalidValue MalformedValue)
  end.

Definition P_mem (w : list N) : res aerr memloc :=
  do _ <- check_naive_type [NInteger; NLabel; NPCOffset] w;
  do mo <- map_err InvalidValue (memory_location_try_parse w);
  match mo with
  | Some m => Ok m
  | None => Err (InvalidValue MalformedValue)
  end.

Definition P_loc (w : list N) : res aerr location :=
  do lo <- map_err InvalidValue (location_try_parse w);
  match lo with
  | Some l => Ok l
  | None => Err (InvalidValue MalformedValue)
  end.

Lemma P_int_iff : forall w v, P_int w = Ok v <-> ValueSyn w v.
Proof.
  intros w v. rewrite <- value_arg_iff. unfold P_int. split.
  - intros H. destruct (check_naive_type [NInteger] w) as [[]|e|p|q]; simpl in H; try discriminate.
    split; [reflexivity|].
    destruct (parse_integer w false) as [[i|]|e|p|q]; simpl in H; try discriminate.
    exists i. split; [reflexivity|]. destruct (as_u16_cast i); simpl in H; try discriminate.
    inversion H; reflexivity.
  - intros [Hc (x & Hp & Hx)]. rewrite Hc, Hp. simpl. rewrite Hx. reflexivity.
Qed.

Lemma P_mem_iff : forall w m, P_mem w = Ok m <-> MemLocSyn w m.
Proof.
  intros w m. rewrite <- memloc_iff. unfold P_mem. split.
  - intros H. destruct (check_naive_type _ w) as [[]|e|p|q]; simpl in H; try discriminate.
    split; [reflexivity|].
    destruct (memory_location_try_parse w) as [[x|]|e|p|q]; simpl in H; try discriminate.
    inversion H; reflexivity.
  - intros [Hc Hm]. rewrite Hc, Hm. reflexivity.
Qed.

Lemma P_loc_iff : forall w l, P_loc w = Ok l <-> LocSyn w l.
Proof.
  intros w l. rewrite <- location_iff. unfold P_loc. split.
  - intros H. destruct (location_try_parse w) as [[x|]|e|p|q]; simpl in H; try discriminate.
    inversion H; reflexivity.
  - intros Hl. rewrite Hl. reflexivity.
Qed.

Lemma next_integer_or_stream : forall a r d, Stream a r -> arg_count a < 255 ->
  match words r with
  | [] => next_integer_or a d = (do x <- d; Ok (x, a))
  | w :: ws => exists a', Stream a' (after_word r) /\ words (after_word r) = ws /\
                          arg_count a' = arg_count a + 1 /\
                          next_integer_or a d = (do x <- P_int w; Ok (x, a'))
  end.
Proof.
  intros a r d Hs Hlt. unfold next_integer_or. pose proof (next_argument_stream aerr a r Hs Hlt) as Ht.
  destruct (words r) as [|w ws].
  - rewrite Ht. reflexivity.
  - destruct Ht as (a' & -> & Hs' & Ew & Hc). exists a'. split; [exact Hs'|]. split; [exact Ew|]. split; [exact Hc|].
    cbn [bind]. unfold P_int.
    destruct (check_naive_type [NInteger] w) as [[]|e|p|q]; simpl; try reflexivity.
    destruct (parse_integer w false) as [[i|]|e|p|q]; simpl; try reflexivity.
    all: try (destruct (as_u16_cast i); reflexivity).
Qed.

Lemma next_memory_location_or_stream : forall a r d, Stream a r -> arg_count a < 255 ->
  match words r with
  | [] => next_memory_location_or a d = (do x <- d; Ok (x, a))
  | w :: ws => exists a', Stream a' (after_word r) /\ words (after_word r) = ws /\
                          arg_count a' = arg_count a + 1 /\
                          next_memory_location_or a d = (do x <- P_mem w; Ok (x, a'))
  end.
Proof.
  intros a r d Hs Hlt. unfold next_memory_location_or.
  pose proof (next_argument_stream aerr a r Hs Hlt) as Ht.
  destruct (words r) as [|w ws].
  - rewrite Ht. reflexivity.
  - destruct Ht as (a' & -> & Hs' & Ew & Hc). exists a'. split; [exact Hs'|]. split; [exact Ew|]. split; [exact Hc|].
    cbn [bind]. unfold P_mem.
    destruct (check_naive_type _ w) as [[]|e|p|q]; simpl; try reflexivity.
    destruct (memory_location_try_parse w) as [[i|]|e|p|q]; reflexivity.
Qed.

Lemma next_location_or_stream : forall a r d, Stream a r -> arg_count a < 255 ->
  match words r with
  | [] => next_location_or a d = (do x <- d; Ok (x, a))
  | w :: ws => exists a', Stream a' (after_word r) /\ words (after_word r) = ws /\
                          arg_count a' = arg_count a + 1 /\
                          next_location_or a d = (do x <- P_loc w; Ok (x, a'))
  end.
Proof.
  intros a r d Hs Hlt. unfold next_location_or.
  pose proof (next_argument_stream aerr a r Hs Hlt) as Ht.
  destruct (words r) as [|w ws].
  - rewrite Ht. reflexivity.
  - destruct Ht as (a' & -> & Hs' & Ew & Hc). exists a'. split; [exact Hs'|]. split; [exact Ew|]. split; [exact Hc|].
    cbn [bind]. unfold P_loc.
    destruct (location_try_parse w) as [[i|]|e|p|q]; reflexivity.
Qed.

Lemma finish_stream : forall a r n c, Stream a r -> arg_count a < 254 ->
  finish a n c = match words r with
                 | [] => Ok c
                 | _ :: _ => Err (TooManyArguments n (arg_count a + 1))
                 end.
Proof.
  intros a r n c Hs Hlt. unfold finish. destruct (N.leb_spec (arg_count a + 1) 255); [|lia].
  unfold expect_end. assert (Hlt' : arg_count a < 255) by lia.
  pose proof (next_argument_stream aerr a r Hs Hlt') as Ht.
  destruct (words r) as [|w ws].
  - rewrite Ht. reflexivity.
  - destruct Ht as (a' & -> & _). reflexivity.
Qed.

Section OneArgument.
  Variable T : Type.
  Variable next : arguments -> res aerr T -> res aerr (T * arguments).
  Variable P : list N -> res aerr T.
  Hypothesis next_stream : forall a r d, Stream a r -> arg_count a < 255 ->
    match words r with
    | [] => next a d = (do x <- d; Ok (x, a))
    | w :: ws => exists a', Stream a' (after_word r) /\ words (after_word r) = ws /\
                            arg_count a' = arg_count a + 1 /\
                            next a d = (do x <- P w; Ok (x, a'))
    end.

  (** A command with one (optional or mandatory) argument. *)
  Lemma one_argument : forall (mk : T -> command) a r d n, Stream a r -> arg_count a < 250 ->
    (do la <- next a d; let '(l, a') := la in finish a' n (mk l)) =
    match words r with
    | [] => do x <- d; Ok (mk x)
    | [w] => do x <- P w; Ok (mk x)
    | w :: _ :: _ => do x <- P w; Err (TooManyArguments n (arg_count a + 1 + 1))
    end.
  Proof.
    intros mk a r d n Hs H0. assert (Hlt : arg_count a < 255) by lia.
    pose proof (next_stream a r d Hs Hlt) as Hn.
    destruct (words r) as [|w ws] eqn:Ew.
    - rewrite Hn. destruct d as [x|e|p|q]; simpl; try reflexivity.
      rewrite (finish_stream a r) by (auto; lia). rewrite Ew. reflexivity.
    - destruct Hn as (a' & Hs' & Ew' & Hc' & ->). destruct (P w) as [x|e|p|q]; simpl; try (destruct ws; reflexivity).
      rewrite (finish_stream a' (after_word r)) by (auto; lia). rewrite Ew'.
      destruct ws; [reflexivity|]. rewrite Hc'. reflexivity.
  Qed.
End OneArgument.

Lemma ValueSyn_functional : forall w v v', ValueSyn w v -> ValueSyn w v' -> v = v'.
Proof. intros w v v' H H'. apply P_int_iff in H, H'. congruence. Qed.
Lemma MemLocSyn_functional : forall w m m', MemLocSyn w m -> MemLocSyn w m' -> m = m'.
Proof. intros w m m' H H'. apply P_mem_iff in H, H'. congruence. Qed.
Lemma LocSyn_functional : forall w l l', LocSyn w l -> LocSyn w l' -> l = l'.
Proof. intros w l l' H H'. apply P_loc_iff in H, H'. congruence. Qed.

Lemma ArgsSyn_functional : forall c ws cmd cmd', ArgsSyn c ws cmd -> ArgsSyn c ws cmd' -> cmd = cmd'.
Proof.
  intros c ws cmd cmd' H H'. inversion H; subst; inversion H'; subst; try reflexivity;
    repeat match goal with
    | A : ValueSyn ?w _, B : ValueSyn ?w _ |- _ => rewrite (ValueSyn_functional _ _ _ A B) in *; clear A
    | A : MemLocSyn ?w _, B : MemLocSyn ?w _ |- _ => rewrite (MemLocSyn_functional _ _ _ A B) in *; clear A
    | A : LocSyn ?w _, B : LocSyn ?w _ |- _ => rewrite (LocSyn_functional _ _ _ A B) in *; clear A
    end; reflexivity.
Qed.

(** [r] is what the model answers, [S] what the grammar allows: an accepted answer is allowed, and
    if the model does not accept then nothing is allowed. *)
Definition decides {E A} (r : res E A) (S : A -> Prop) : Prop :=
  match r with
  | Ok a => S a
  | _ => forall a, ~ S a
  end.

Lemma decides_no_arg : forall a r c name, Stream a r -> arg_count a = 0 ->
  ArgsSyn name [] c -> (forall w ws cmd, ~ ArgsSyn name (w :: ws) cmd) ->
  decides (finish a 0 c) (ArgsSyn name (words r)).
Proof.
  intros a r c name Hs H0 Hyes Hno. rewrite (finish_stream a r) by (auto; lia).
  destruct (words r); simpl; [exact Hyes|]. intros cmd. apply Hno.
Qed.

Lemma decides_one : forall T (P : list N -> res aerr T) (S : list N -> T -> Prop) (mk : T -> command)
    (name : cname) (d : res aerr T) (ws : list (list N)),
  (forall w x, P w = Ok x <-> S w x) ->
  (forall cmd, ArgsSyn name [] cmd <-> exists x, d = Ok x /\ cmd = mk x) ->
  (forall w cmd, ArgsSyn name [w] cmd <-> exists x, S w x /\ cmd = mk x) ->
  (forall w w' ws cmd, ~ ArgsSyn name (w :: w' :: ws) cmd) ->
  forall n k,
  decides (match ws with
           | [] => do x <- d; Ok (mk x)
           | [w] => do x <- P w; Ok (mk x)
           | w :: _ :: _ => do x <- P w; Err (TooManyArguments n k)
           end) (ArgsSyn name ws).
Proof.
  intros T P S mk name d ws HP H0 H1 H2 n k. destruct ws as [|w [|w' ws']].
  - destruct d as [x|e|p|q]; simpl; try (apply H0; eauto; fail);
      intros cmd Hc; apply H0 in Hc; destruct Hc as (x & Hx & _); discriminate.
  - destruct (P w) as [x|e|p|q] eqn:E; simpl;
      try (apply H1; exists x; split; [apply HP; exact E|reflexivity]);
      intros cmd Hc; apply H1 in Hc; destruct Hc as (x & Hx & _); apply HP in Hx; congruence.
  - destruct (P w); simpl; intros cmd; apply H2.
Qed.

Ltac no_args_case Hs H0 :=
  apply decides_no_arg; [exact Hs|exact H0|constructor|intros w ws cmd Hx; inversion Hx].

Lemma parse_arguments_spec : forall name a r, Stream a r -> arg_count a = 0 ->
  name <> Eval -> name <> Echo ->
  decides (parse_arguments name a) (ArgsSyn name (words r)).
Proof.
  intros name a r Hs H0 HnE HnC. assert (H250 : arg_count a < 250) by lia.
  unfold parse_arguments, next_location_or_default, next_location, next_memory_location,
    next_memory_location_or_default, next_integer, next_positive_integer_or_default.
  destruct name; try congruence.
  - simpl. constructor.
  - no_args_case Hs H0.
  - (* step into *)
    assert (Eassoc :
      (do ca <- (do va <- next_integer_or a (Ok 1%Z); let '(v, a') := va in Ok (Z.max v 1, a'));
       let '(count, a') := ca in finish a' 1 (CStepInto count)) =
      (do la <- next_integer_or a (Ok 1%Z); let '(l, a') := la in finish a' 1 (CStepInto (Z.max l 1)))).
    { destruct (next_integer_or a (Ok 1%Z)) as [[v a']|e|p|q]; reflexivity. }
    rewrite Eassoc.
    rewrite (one_argument Z next_integer_or P_int next_integer_or_stream (fun v => CStepInto (Z.max v 1)) a r _ 1 Hs H250).
    apply (decides_one Z P_int ValueSyn (fun v => CStepInto (Z.max v 1)) StepInto (Ok 1%Z)).
    + exact P_int_iff.
    + intros cmd. split.
      * intros Hx. inversion Hx; subst. exists 1%Z. split; reflexivity.
      * intros (x & Hx & ->). inversion Hx; subst. apply A_stepinto_default.
    + intros w cmd. split.
      * intros Hx. inversion Hx; subst. eauto.
      * intros (x & Hx & ->). constructor. exact Hx.
    + intros w w' ws cmd Hx. inversion Hx.
  - no_args_case Hs H0.
  - no_args_case Hs H0.
  - no_args_case Hs H0.
  - (* print *)
    rewrite (one_argument location next_location_or P_loc next_location_or_stream CPrint a r _ 1 Hs H250).
    apply (decides_one location P_loc LocSyn CPrint Print (Ok (LMemory (MPcOffset 0)))).
    + exact P_loc_iff.
    + intros cmd. split.
      * intros Hx. inversion Hx; subst. eexists. split; reflexivity.
      * intros (x & Hx & ->). inversion Hx; subst. constructor.
    + intros w cmd. split.
      * intros Hx. inversion Hx; subst. eauto.
      * intros (x & Hx & ->). constructor. exact Hx.
    + intros w w' ws cmd Hx. inversion Hx.
  - (* move *)
    assert (Hlt : arg_count a < 255) by lia.
    pose proof (next_location_or_stream a r (Err (MissingArgument 2 (arg_count a))) Hs Hlt) as Hn.
    destruct (words r) as [|w ws] eqn:Ew.
    { rewrite Hn. simpl. intros cmd Hx. inversion Hx. }
    destruct Hn as (a1 & Hs1 & Ew1 & Hc1 & ->).
    destruct (P_loc w) as [l|e|p|q] eqn:El; simpl;
      try (intros cmd Hx; inversion Hx; subst;
           match goal with Hl : LocSyn w _ |- _ => apply P_loc_iff in Hl; congruence end).
    assert (H1 : arg_count a1 < 250) by lia.
    rewrite (one_argument Z next_integer_or P_int next_integer_or_stream (CMove l) a1 (after_word r) _ 2 Hs1 H1).
    rewrite Ew1. apply P_loc_iff in El.
    destruct ws as [|u [|u' ws']].
    + simpl. intros cmd Hx. inversion Hx.
    + destruct (P_int u) as [v|e|p|q] eqn:Ev; simpl;
        try (intros cmd Hx; inversion Hx; subst;
             match goal with Hv : ValueSyn u _ |- _ => apply P_int_iff in Hv; congruence end).
      constructor; [exact El|apply P_int_iff; exact Ev].
    + destruct (P_int u); simpl; intros cmd Hx; inversion Hx.
  - (* goto *)
    rewrite (one_argument memloc next_memory_location_or P_mem next_memory_location_or_stream CGoto a r _ 1 Hs H250).
    apply (decides_one memloc P_mem MemLocSyn CGoto Goto (Err (MissingArgument 1 (arg_count a)))).
    + exact P_mem_iff.
    + intros cmd. split; [intros Hx; inversion Hx|intros (x & Hx & _); discriminate].
    + intros w cmd. split.
      * intros Hx. inversion Hx; subst. eauto.
      * intros (x & Hx & ->). constructor. exact Hx.
    + intros w w' ws cmd Hx. inversion Hx.
  - (* assembly *)
    rewrite (one_argument memloc next_memory_location_or P_mem next_memory_location_or_stream CAssembly a r _ 1 Hs H250).
    apply (decides_one memloc P_mem MemLocSyn CAssembly Assembly (Ok (MPcOffset 0))).
    + exact P_mem_iff.
    + intros cmd. split.
      * intros Hx. inversion Hx; subst. eexists. split; reflexivity.
      * intros (x & Hx & ->). inversion Hx; subst. constructor.
    + intros w cmd. split.
      * intros Hx. inversion Hx; subst. eauto.
      * intros (x & Hx & ->). constructor. exact Hx.
    + intros w w' ws cmd Hx. inversion Hx.
  - no_args_case Hs H0.
  - no_args_case Hs H0.
  - no_args_case Hs H0.
  - no_args_case Hs H0.
  - (* break add *)
    rewrite (one_argument memloc next_memory_location_or P_mem next_memory_location_or_stream CBreakAdd a r _ 1 Hs H250).
    apply (decides_one memloc P_mem MemLocSyn CBreakAdd BreakAdd (Err (MissingArgument 1 (arg_count a)))).
    + exact P_mem_iff.
    + intros cmd. split; [intros Hx; inversion Hx|intros (x & Hx & _); discriminate].
    + intros w cmd. split.
      * intros Hx. inversion Hx; subst. eauto.
      * intros (x & Hx & ->). constructor. exact Hx.
    + intros w w' ws cmd Hx. inversion Hx.
  - (* break remove *)
    rewrite (one_argument memloc next_memory_location_or P_mem next_memory_location_or_stream CBreakRemove a r _ 1 Hs H250).
    apply (decides_one memloc P_mem MemLocSyn CBreakRemove BreakRemove (Err (MissingArgument 1 (arg_count a)))).
    + exact P_mem_iff.
    + intros cmd. split; [intros Hx; inversion Hx|intros (x & Hx & _); discriminate].
    + intros w cmd. split.
      * intros Hx. inversion Hx; subst. eauto.
      * intros (x & Hx & ->). constructor. exact Hx.
    + intros w w' ws cmd Hx. inversion Hx.
Qed.

(** ** The line theorem *)

Lemma get_rest_stream : forall a r, Stream a r ->
  exists a', @get_rest aerr a = Ok (trim r, a') /\ expect_end a' 0 0 = Ok (tt, a').
Proof.
  intros a r [Hn (p & Hb & Hc)]. unfold get_rest. rewrite Hc.
  replace (drop_bytes (buffer a) (bytes p)) with (Some r) by (rewrite Hb; symmetry; apply drop_bytes_app).
  eexists. split; [reflexivity|].
  set (a' := mkArgs (buffer a) (bytes (buffer a)) (arg_count a)).
  destruct (next_token_str_spec aerr a' (buffer a) [] Hn) as (t & a'' & E & _ & _ & _ & _ & Hnone).
  { simpl. rewrite app_nil_r. reflexivity. } { reflexivity. }
  destruct (Hnone eq_refl) as [-> ->]. unfold expect_end, next_argument_str. rewrite E. reflexivity.
Qed.

Lemma lookup_step_range : forall s c, lookup s step_table = Some c -> c = StepInto \/ c = StepOut.
Proof.
  intros s c. unfold step_table. simpl.
  repeat match goal with |- context [if ?b then _ else _] => destruct b end;
    intros H; inversion H; auto.
Qed.

Lemma lookup_break_range : forall s c, lookup s break_table = Some c ->
  c = BreakList \/ c = BreakAdd \/ c = BreakRemove.
Proof.
  intros s c. unfold break_table. simpl.
  repeat match goal with |- context [if ?b then _ else _] => destruct b end;
    intros H; inversion H; auto.
Qed.

Lemma NameSyn_text_command : forall ws c n, NameSyn ws c n -> c = Eval \/ c = Echo -> n = 1%nat.
Proof.
  intros ws c n H Hc. inversion H; subst; try reflexivity.
  - apply lookup_step_range in H1. destruct Hc as [-> | ->]; destruct H1; discriminate.
  - apply lookup_break_range in H2. destruct Hc as [-> | ->]; destruct H2 as [?|[?|?]]; discriminate.
Qed.

(** A line is accepted exactly when the documented grammar gives it a meaning, and then with that
    meaning. *)
Theorem try_from_iff : forall line cmd, nodelim line ->
  (try_from line = Ok cmd <-> LineSyn line cmd).
Proof.
  intros line cmd Hn. unfold try_from.
  pose proof (get_command_name_spec line Hn) as Hg.
  destruct (get_command_name (arguments_from line)) as [[c a']|e|p|q]; simpl bind; cbv iota beta.
  2,3,4: (split; [discriminate|]; intros H; inversion H; subst;
          match goal with Hx : NameSyn _ _ _ |- _ => exfalso; exact (Hg _ _ Hx) end).
  destruct Hg as (n & r' & Hname & Hs & H0 & Hw & Hr).
  assert (Htext : forall c0 n0, NameSyn (words line) c0 n0 -> c0 = c /\ n0 = n).
  { intros c0 n0 Hx. exact (NameSyn_functional _ _ _ _ _ Hx Hname). }
  destruct (cname_eqb c Eval) eqn:EE; [|destruct (cname_eqb c Echo) eqn:EC].
  - (* eval *)
    assert (c = Eval) by (destruct c; try discriminate; reflexivity). subst c.
    assert (n = 1%nat) by (eapply NameSyn_text_command; eauto). subst n. rewrite (Hr eq_refl) in Hs.
    destruct (get_rest_stream a' _ Hs) as (a'' & Eg & Ee). simpl parse_arguments. rewrite Eg. simpl bind. cbv iota beta.
    change (trim (after_word line)) with (after_words 1 line).
    split.
    + intros H. destruct (after_words 1 line) as [|x t] eqn:Et; [discriminate|]. rewrite Ee in H.
      simpl in H. inversion H; subst. rewrite <- Et. apply Line_eval; [exact Hname|]. rewrite Et. discriminate.
    + intros H. inversion H as [l c0 n0 cmd0 Hn0 HnE HnC Ha|l Hn0 Hne|l Hn0 Hne]; subst.
      * destruct (Htext _ _ Hn0) as [-> _]. congruence.
      * destruct (after_words 1 line) as [|x t] eqn:Et; [congruence|]. rewrite Ee. reflexivity.
      * destruct (Htext _ _ Hn0) as [Hx _]. discriminate.
  - (* echo *)
    assert (c = Echo) by (destruct c; try discriminate; reflexivity). subst c.
    assert (n = 1%nat) by (eapply NameSyn_text_command; eauto). subst n. rewrite (Hr eq_refl) in Hs.
    destruct (get_rest_stream a' _ Hs) as (a'' & Eg & Ee). simpl parse_arguments. rewrite Eg. simpl bind. cbv iota beta.
    change (trim (after_word line)) with (after_words 1 line).
    split.
    + intros H. destruct (after_words 1 line) as [|x t] eqn:Et; [discriminate|]. rewrite Ee in H.
      simpl in H. inversion H; subst. rewrite <- Et. apply Line_echo; [exact Hname|]. rewrite Et. discriminate.
    + intros H. inversion H as [l c0 n0 cmd0 Hn0 HnE HnC Ha|l Hn0 Hne|l Hn0 Hne]; subst.
      * destruct (Htext _ _ Hn0) as [-> _]. congruence.
      * destruct (Htext _ _ Hn0) as [Hx _]. discriminate.
      * destruct (after_words 1 line) as [|x t] eqn:Et; [congruence|]. rewrite Ee. reflexivity.
  - (* every other command *)
    assert (HnE : c <> Eval) by (intros ->; discriminate).
    assert (HnC : c <> Echo) by (intros ->; discriminate).
    pose proof (parse_arguments_spec c a' r' Hs H0 HnE HnC) as Hd. rewrite Hw in Hd.
    split.
    + intros H. destruct (parse_arguments c a') as [cmd'|e|p|q]; simpl in H; try discriminate.
      inversion H; subst. simpl in Hd. eapply Line_args; eauto.
    + intros H. inversion H as [l c0 n0 cmd0 Hn0 HnE0 HnC0 Ha|l Hn0 Hne|l Hn0 Hne]; subst.
      * destruct (Htext _ _ Hn0) as [-> ->].
        destruct (parse_arguments c a') as [cmd'|e|p|q]; simpl in Hd; try (exfalso; exact (Hd _ Ha)).
        simpl. f_equal. eapply ArgsSyn_functional; eauto.
      * destruct (Htext _ _ Hn0) as [Hx _]. congruence.
      * destruct (Htext _ _ Hn0) as [Hx _]. congruence.
Qed.

(** Exactly one command per line. *)
Theorem LineSyn_unambiguous : forall line cmd cmd', nodelim line ->
  LineSyn line cmd -> LineSyn line cmd' -> cmd = cmd'.
Proof.
  intros line cmd cmd' Hn H H'. apply (try_from_iff line cmd Hn) in H. apply (try_from_iff line cmd' Hn) in H'.
  congruence.
Qed.


(** ** Rejection *)

Lemma leqb_eq : forall a b, leqb a b = true -> a = b.
Proof.
  induction a as [|x a IH]; intros [|y b] H; simpl in H; try discriminate; [reflexivity|].
  apply andb_true_iff in H. destruct H as [H1 H2]. apply N.eqb_eq in H1. subst y. f_equal. apply IH. exact H2.
Qed.

Lemma Stream_AWf : forall a r, Stream a r -> AWf a.
Proof. intros a r [Hn (p & Hb & Hc)]. split; [exact Hn|]. exists p, r. auto. Qed.

(** The process leaves only on the first word `sudo` (the known finding). *)
Lemma get_command_name_exit : forall line code, nodelim line ->
  get_command_name (arguments_from line) = ExitP code ->
  code = 0 /\ exists ws, words line = str "sudo" :: ws.
Proof.
  intros line code Hn. unfold get_command_name. simpl cursor. change (0 =? 0) with true. simpl negb. cbv iota.
  assert (Hs0 : Stream (arguments_from line) line).
  { split; [exact Hn|]. exists []. split; reflexivity. }
  pose proof (next_token_stream cerr _ _ Hs0) as Ht.
  destruct (words line) as [|w ws] eqn:Ew.
  { rewrite Ht. simpl. discriminate. }
  destruct Ht as (a1 & -> & Hs1 & Ew1 & Hc1). simpl bind. cbv iota beta.
  assert (Hc10 : arg_count a1 = 0) by (rewrite Hc1; reflexivity).
  pose proof (name_matches_with_subcommand_post a1 w COMMAND_STEP 0 SUBCOMMANDS_STEP (Some StepOver)
                (Stream_AWf _ _ Hs1) Hc10) as Hp1.
  destruct (name_matches_with_subcommand a1 w COMMAND_STEP 0 SUBCOMMANDS_STEP (Some StepOver))
    as [[s a2]|e|p|q]; simpl in *; try discriminate; try contradiction.
  destruct Hp1 as [Hw2 Hc2]. destruct s as [x|]; [discriminate|].
  pose proof (name_matches_with_subcommand_post a2 w COMMAND_BREAK 1 SUBCOMMANDS_BREAK None Hw2 Hc2) as Hp2.
  destruct (name_matches_with_subcommand a2 w COMMAND_BREAK 1 SUBCOMMANDS_BREAK None)
    as [[b a3]|e|p|q]; simpl in *; try discriminate; try contradiction.
  destruct b as [x|]; [discriminate|].
  destruct (find_name_match w COMMANDS); [discriminate|].
  destruct (leqb w (str "sudo")) eqn:El; [|discriminate].
  intros H. split; [congruence|]. exists ws. apply leqb_eq in El. rewrite El. reflexivity.
Qed.

(** Every line that the grammar gives no meaning is rejected with an error and nothing else
    happens — except that a line whose first word is `sudo` makes the process exit (F15). *)
Theorem try_from_rejects : forall c line, nodelim (c :: line) -> c <> 32 ->
  (forall cmd, ~ LineSyn (c :: line) cmd) ->
  (exists e, try_from (c :: line) = Err e) \/
  (try_from (c :: line) = ExitP 0 /\ exists ws, words (c :: line) = str "sudo" :: ws).
Proof.
  intros c line Hn Hc Hno.
  pose proof (try_from_post c line Hn Hc) as Hp.
  destruct (try_from (c :: line)) as [cmd|e|p|q] eqn:Et.
  - exfalso. apply (Hno cmd). apply try_from_iff; assumption.
  - left. eauto.
  - contradiction.
  - right. unfold try_from in Et.
    pose proof (get_command_name_post c line Hn Hc) as Hg.
    destruct (get_command_name (arguments_from (c :: line))) as [[name a]|e|p|q'] eqn:Eg; simpl in Et; try discriminate.
    + exfalso. destruct Hg as [Hw H0]. simpl in *.
      pose proof (parse_arguments_post name a Hw H0) as Hpa.
      destruct (parse_arguments name a); simpl in *; try discriminate; contradiction.
    + inversion Et; subst. destruct (get_command_name_exit _ _ Hn Eg) as [-> Hws]. auto.
Qed.

(** Exactly the lines without the word `sudo` in front are covered by the documented grammar. *)
Corollary sudo_not_in_grammar : forall ws cmd line, words line = str "sudo" :: ws -> ~ LineSyn line cmd.
Proof.
  intros ws cmd line Hw H.
  assert (Hn : forall c n, ~ NameSyn (str "sudo" :: ws) c n).
  { intros c n Hx. inversion Hx; subst; vm_compute in *; discriminate. }
  inversion H; subst; match goal with Hx : NameSyn _ _ _ |- _ => rewrite Hw in Hx; exact (Hn _ _ Hx) end.
Qed.

Lemma try_from_exit : forall c line q, nodelim (c :: line) -> c <> 32 ->
  try_from (c :: line) = ExitP q -> q = 0 /\ exists ws, words (c :: line) = str "sudo" :: ws.
Proof.
  intros c line q Hn Hc Et. unfold try_from in Et.
  pose proof (get_command_name_post c line Hn Hc) as Hg.
  destruct (get_command_name (arguments_from (c :: line))) as [[name a]|e|p|q'] eqn:Eg; simpl in Et; try discriminate.
  - exfalso. destruct Hg as [Hw H0]. simpl in *.
    pose proof (parse_arguments_post name a Hw H0) as Hpa.
    destruct (parse_arguments name a); simpl in *; try discriminate; contradiction.
  - inversion Et; subst. exact (get_command_name_exit _ _ Hn Eg).
Qed.

(** Everything the parser can do with a line handed over by a reader, in one statement. *)
Theorem parse_line_classified : forall raw, nodelim raw ->
  match parse_line raw with
  | None => trim raw = []
  | Some (Ok cmd) => LineSyn (trim raw) cmd
  | Some (Err _) => forall cmd, ~ LineSyn (trim raw) cmd
  | Some (ExitP code) => code = 0 /\ (exists ws, words (trim raw) = str "sudo" :: ws) /\
                         forall cmd, ~ LineSyn (trim raw) cmd
  | Some (Panic _) => False
  end.
Proof.
  intros raw Hn. unfold parse_line. destruct (trim raw) as [|c t] eqn:E; [reflexivity|].
  assert (Hc : c <> 32). { intros ->. apply trim_head in E. discriminate. }
  assert (Hn' : nodelim (c :: t)). { rewrite <- E. apply trim_nodelim. exact Hn. }
  pose proof (try_from_post c t Hn' Hc) as Hp.
  destruct (try_from (c :: t)) as [cmd|e|p|q] eqn:Et.
  - apply try_from_iff; assumption.
  - intros cmd H. apply (try_from_iff _ _ Hn') in H. congruence.
  - exact Hp.
  - destruct (try_from_exit c t q Hn' Hc Et) as [-> [ws Hws]].
    split; [reflexivity|]. split; [eauto|]. intros cmd. eapply sudo_not_in_grammar; exact Hws.
Qed.
