(* AsmLex.v — THEOREM: the lexer and the preprocessor read a source WORD BY WORD.

   SPEC ([source_words]): a source text is a sequence of words.  Separators are the ASCII white
   space characters, `,` and `:`, and comments (`;` to the end of the line); a word starting with
   a double quote runs to its closing quote, any other word to the next separator or `;`.  `.end` ends the
   text; after `.fill`, `.blkw`, `.stringz` the operand is the next word on the far side of white
   space only (a comment there is not skipped, as in lace).

   THEOREM ([preprocess_words]): if every word, taken on its own, lexes as exactly one token, then
   what the preprocessor hands to the parser is a function of the words' kinds and texts alone —
   [apre] over the classified words: where the words stand (offsets), what separates them, how
   many blank lines or comments there are, cannot matter.

   COROLLARY ([relayout]): two sources whose words are pairwise similar — same keyword up to
   letter case, same register, same VALUE of a literal whatever its radix or spelling, same label,
   same string — assemble to the same origin, words, breakpoints and symbol table, or are both
   rejected with the same diagnostic class.  With [word_sim_case] (changing the letter case of any
   word that is not a label or a string gives a similar word) this is the property's "re-laying out
   the text never changes the image", stated on the TEXT and proved down to the characters. *)
From Coq Require Import List NArith Bool Lia String.
From Lace Require Import Word Machine Isa Vm Asm AsmTotal AsmLayout.
Import ListNotations.
Open Scope N_scope.

(* ------------------------------------------------------------------ *)
(** * SPEC: the words of a source *)

Definition nte (c : N) : bool := negb (is_token_end c).

(** Drop leading separators: white space and comments ([inc]: inside a comment). *)
Fixpoint skip (inc : bool) (l : list N) : list N :=
  match l with
  | [] => []
  | c :: r =>
      if inc then (if c =? 10 then skip false r else skip true r)
      else if c =? 59 then skip true r
      else if is_whitespace c then skip false r
      else l
  end.

(** The word at the head of [l] and what follows it. *)
Definition word_at (l : list N) : list N * list N :=
  match l with
  | [] => ([], [])
  | c :: r => if c =? 34 then let '(_, a, b) := str_scan r in (c :: a, b)
              else take_while (fun x => negb (is_token_end x)) l
  end.

Definition skip_ws (l : list N) : list N := snd (take_while is_whitespace l).

Fixpoint words (fuel : nat) (l : list N) : list (list N) :=
  match fuel with
  | O => []
  | S f =>
      match skip false l with
      | [] => []
      | c :: r =>
          let '(w, b) := word_at (c :: r) in
          match check_directive (List.map to_lower w) with
          | Some DEnd => [w]
          | Some DFill | Some DBlkw | Some DStringz =>
              match skip_ws b with
              | [] => [w]
              | c2 :: r2 => let '(w2, b2) := word_at (c2 :: r2) in w :: w2 :: words f b2
              end
          | _ => w :: words f b
          end
      end
  end.

Definition source_words (src : list N) : list (list N) := words (S (length src)) src.

(** What a word is, by itself: the kind of the one token it lexes to. *)
Definition lex_word (feat : bool) (w : list N) : option tkind :=
  match advance_token feat w with
  | Some (LexTok k _ []) => Some k
  | _ => None
  end.

(* ------------------------------------------------------------------ *)
(** * Abstract tokens and the preprocessor over classified words *)

Definition atok := (tkind * list N)%type.
Definition abs (t : token) : atok := (tk t, ttext t).

Definition classify (feat : bool) (w : list N) : option atok :=
  match lex_word feat w with Some k => Some (k, w) | None => None end.

Fixpoint classify_all (feat : bool) (ws : list (list N)) : option (list atok) :=
  match ws with
  | [] => Some []
  | w :: r => match classify feat w, classify_all feat r with
              | Some a, Some ar => Some (a :: ar)
              | _, _ => None
              end
  end.

Definition abyte (v : N) : atok := (KByte v, []).

Fixpoint apre (ws : list atok) (acc : list atok) : res (list atok) :=
  match ws with
  | [] => Ok (lrev acc)
  | (k, w) :: rest =>
      match k with
      | KDir DEnd => Ok (lrev acc)
      | KDir DFill =>
          match rest with
          | (KLit (LHex x), _) :: rest' => apre rest' (abyte x :: acc)
          | (KLit (LDec x), _) :: rest' => apre rest' (abyte x :: acc)
          | _ => Err E_pre_bad_lit 0 0
          end
      | KDir DBlkw =>
          match rest with
          | (KLit (LHex x), _) :: rest' => apre rest' (repeat (abyte 0) (N.to_nat x) ++ acc)
          | (KLit (LDec x), _) :: rest' => apre rest' (repeat (abyte 0) (N.to_nat x) ++ acc)
          | _ => Err E_pre_bad_lit 0 0
          end
      | KDir DStringz =>
          match rest with
          | (KLit LStr, s) :: rest' =>
              apre rest' (abyte 0 :: lrev (List.map (fun c => abyte (c mod 65536)) (unescape (strip_quotes s))) ++ acc)
          | _ => Err E_pre_no_str 0 0
          end
      | KDir DBreak => apre rest ((KBreakpoint, []) :: acc)
      | KComment | KWhitespace | KEof => Bad 2
      | _ => apre rest ((k, w) :: acc)
      end
  end.

Definition abs_res (r : res (list token)) : res (list atok) :=
  match r with
  | Ok toks => Ok (List.map abs toks)
  | Err d _ _ => Err d 0 0
  | Bad w => Bad w
  end.

(* ------------------------------------------------------------------ *)
(** * take_while, skip *)

Definition delim (p : N -> bool) (b : list N) : Prop :=
  match b with [] => True | c :: _ => p c = false end.

Lemma tw_ext p : forall l a r b, take_while p l = (a, r) -> (r = [] -> delim p b) ->
  take_while p (l ++ b) = (a, r ++ b).
Proof.
  induction l as [|c l IH]; intros a r b H Hd; cbn [take_while app] in *.
  - inversion H; subst. cbn [app]. specialize (Hd eq_refl).
    destruct b as [|x b]; [reflexivity|]. cbn [take_while]. cbn in Hd. rewrite Hd. reflexivity.
  - destruct (p c) eqn:E.
    + destruct (take_while p l) as [a' r'] eqn:E2. inversion H; subst.
      rewrite (IH a' r b eq_refl Hd). reflexivity.
    + inversion H; subst. reflexivity.
Qed.

Lemma tw_all p : forall l a, take_while p l = (a, []) -> a = l /\ forallb p l = true.
Proof.
  induction l as [|c l IH]; intros a H; cbn [take_while] in H.
  - inversion H. split; reflexivity.
  - destruct (p c) eqn:E; [|discriminate].
    destruct (take_while p l) as [a' r'] eqn:E2. inversion H; subst.
    destruct (IH a' eq_refl) as [-> F]. split; [reflexivity|]. cbn. rewrite E, F. reflexivity.
Qed.

Lemma tw_of_all p : forall l, forallb p l = true -> take_while p l = (l, []).
Proof.
  induction l as [|c l IH]; intros H; cbn in *; [reflexivity|].
  apply andb_true_iff in H as [H1 H2]. rewrite H1, (IH H2). reflexivity.
Qed.

Lemma tw_snd_head p : forall l, delim p (snd (take_while p l)).
Proof.
  induction l as [|c l IH]; cbn [take_while]; [exact I|].
  destruct (p c) eqn:E; [|cbn; exact E].
  destruct (take_while p l) as [a b]. exact IH.
Qed.

Lemma tw_fst_all p : forall l, forallb p (fst (take_while p l)) = true.
Proof.
  induction l as [|c l IH]; cbn [take_while]; [reflexivity|].
  destruct (p c) eqn:E; [|reflexivity].
  destruct (take_while p l) as [a b]. cbn in *. rewrite E, IH. reflexivity.
Qed.

Lemma tw_length p : forall l, (length (snd (take_while p l)) <= length l)%nat.
Proof.
  induction l as [|c l IH]; cbn [take_while]; [cbn; lia|].
  destruct (p c); [|cbn; lia]. destruct (take_while p l) as [a b]. cbn in *. lia.
Qed.

Lemma skip_length : forall l inc, (length (skip inc l) <= length l)%nat.
Proof.
  induction l as [|c l IH]; intros inc; cbn [skip]; [cbn; lia|].
  destruct inc.
  - destruct (c =? 10); [specialize (IH false)|specialize (IH true)]; cbn; lia.
  - destruct (c =? 59); [specialize (IH true); cbn; lia|].
    destruct (is_whitespace c); [specialize (IH false); cbn; lia|cbn; lia].
Qed.

Lemma skip_head : forall l inc c r, skip inc l = c :: r -> is_whitespace c = false /\ (c =? 59) = false.
Proof.
  induction l as [|x l IH]; intros inc c r H; cbn [skip] in H; [discriminate|].
  destruct inc.
  - destruct (x =? 10); eapply IH; exact H.
  - destruct (x =? 59) eqn:E1; [eapply IH; exact H|].
    destruct (is_whitespace x) eqn:E2; [eapply IH; exact H|].
    inversion H; subst. split; assumption.
Qed.

Lemma skip_fix : forall l c r, skip false l = c :: r -> skip false (c :: r) = c :: r.
Proof.
  intros l c r H. destruct (skip_head _ _ _ _ H) as [H1 H2]. cbn [skip]. rewrite H2, H1. reflexivity.
Qed.

(** A comment: everything up to (not including) the newline. *)
Lemma skip_comment : forall r, skip true r = skip false (snd (take_while (fun x => negb (x =? 10)) r)).
Proof.
  induction r as [|c r IH]; cbn [take_while skip]; [reflexivity|].
  destruct (c =? 10) eqn:E; cbn [negb].
  - apply N.eqb_eq in E. subst c. reflexivity.
  - destruct (take_while _ r) as [a b]. exact IH.
Qed.

Lemma ws_not_semicolon c : is_whitespace c = true -> (c =? 59) = false.
Proof.
  unfold is_whitespace, is_ascii_ws. intros H. destruct (c =? 59) eqn:E; [|reflexivity].
  apply N.eqb_eq in E. subst c. discriminate H.
Qed.

Lemma skip_ws_run : forall r, skip false r = skip false (snd (take_while is_whitespace r)).
Proof.
  induction r as [|c r IH]; cbn [take_while]; [reflexivity|].
  destruct (is_whitespace c) eqn:E; [|reflexivity].
  destruct (take_while is_whitespace r) as [a b] eqn:E2. cbn [snd] in *.
  cbn [skip]. rewrite (ws_not_semicolon c E), E. exact IH.
Qed.

(* ------------------------------------------------------------------ *)
(** * The lexer looks at one word only *)

Definition delimited (b : list N) : Prop :=
  match b with [] => True | c :: _ => is_token_end c = true end.

Ltac te_cases H :=
  unfold is_token_end, is_whitespace, is_ascii_ws in H;
  repeat (apply orb_true_iff in H; destruct H as [H|H]);
  apply N.eqb_eq in H; subst.

Lemma te_not_id c : is_token_end c = true -> is_id c = false.
Proof. intros H. te_cases H; reflexivity. Qed.

Lemma te_not_regnum c : is_token_end c = true -> is_reg_num c = false.
Proof. intros H. te_cases H; reflexivity. Qed.

Lemma te_not_x c : is_token_end c = true -> (c =? 120) || (c =? 88) = false.
Proof. intros H. te_cases H; reflexivity. Qed.

Lemma delimited_nte b : delimited b -> delim (fun x => negb (is_token_end x)) b.
Proof. destruct b as [|c b]; cbn; [auto|]. intros ->. reflexivity. Qed.

Lemma delimited_id b : delimited b -> delim is_id b.
Proof. destruct b as [|c b]; cbn; [auto|]. apply te_not_id. Qed.

Lemma delimited_regnum b : delimited b -> delim is_reg_num b.
Proof. destruct b as [|c b]; cbn; [auto|]. apply te_not_regnum. Qed.

Lemma hex_ext pre l k cs b : hex pre l = LexTok k cs [] -> delimited b -> hex pre (l ++ b) = LexTok k cs b.
Proof.
  unfold hex. intros H Hd.
  destruct (take_while (fun c => negb (is_token_end c)) l) as [digits rest'] eqn:E.
  rewrite (tw_ext _ l digits rest' b E (fun _ => delimited_nte b Hd)).
  destruct (parse_i16 16 digits); [inversion H; subst; reflexivity|].
  destruct (parse_u16 16 digits) as [v|[]]; inversion H; subst; reflexivity.
Qed.

Lemma dec_ext pre l k cs b : dec pre l = LexTok k cs [] -> delimited b -> dec pre (l ++ b) = LexTok k cs b.
Proof.
  unfold dec. intros H Hd.
  destruct (take_while (fun c => negb (is_token_end c)) l) as [digits rest'] eqn:E.
  rewrite (tw_ext _ l digits rest' b E (fun _ => delimited_nte b Hd)).
  destruct (parse_i16 10 digits); [inversion H; subst; reflexivity|].
  destruct (parse_u16 10 digits); inversion H; subst; reflexivity.
Qed.

Lemma ident_ext feat pre l k cs b :
  ident feat pre l = LexTok k cs [] -> delimited b -> ident feat pre (l ++ b) = LexTok k cs b.
Proof.
  unfold ident. intros H Hd.
  destruct (take_while is_id l) as [more rest'] eqn:E.
  rewrite (tw_ext _ l more rest' b E (fun _ => delimited_id b Hd)).
  destruct (is_stack_word _ && negb feat); [discriminate|].
  inversion H; subst. reflexivity.
Qed.

Lemma dir_ext pre l k cs b : dir pre l = LexTok k cs [] -> delimited b -> dir pre (l ++ b) = LexTok k cs b.
Proof.
  unfold dir. intros H Hd.
  destruct (take_while is_id l) as [more rest'] eqn:E.
  rewrite (tw_ext _ l more rest' b E (fun _ => delimited_id b Hd)).
  destruct (check_directive _); [|discriminate].
  inversion H; subst. reflexivity.
Qed.

Lemma str_scan_ext : forall n l, (length l <= n)%nat -> forall a r b,
  str_scan l = (true, a, r) -> str_scan (l ++ b) = (true, a, r ++ b).
Proof.
  induction n as [|n IH]; intros l Hn a r b H.
  - destruct l; [cbn in H; discriminate|cbn in Hn; lia].
  - destruct l as [|c l']; [cbn in H; discriminate|].
    cbn [str_scan app] in *. cbn [length] in Hn.
    destruct (c =? 10); [discriminate|].
    destruct (c =? 34); [inversion H; subst; reflexivity|].
    destruct (c =? 92).
    + destruct l' as [|c2 l2]; [discriminate|]. cbn [app].
      destruct (str_scan l2) as [[t' a'] b'] eqn:E. injection H as Ht Ha Hr. subst t' a r.
      rewrite (IH l2 ltac:(cbn [length] in Hn; lia) a' b' b E). reflexivity.
    + destruct (str_scan l') as [[t' a'] b'] eqn:E. injection H as Ht Ha Hr. subst t' a r.
      rewrite (IH l' ltac:(lia) a' b' b E). reflexivity.
Qed.

(** A word that lexes as one token on its own lexes as the same token when followed by a
    separator, a comment or the end of the text. *)
Lemma advance_token_ext feat c w k cs b :
  advance_token feat (c :: w) = Some (LexTok k cs []) ->
  is_token_end c = false -> (c =? 34) = false -> delimited b ->
  advance_token feat ((c :: w) ++ b) = Some (LexTok k cs b).
Proof.
  cbn [advance_token app]. intros H Hte H34 Hd.
  injection H as H. f_equal.
  unfold is_token_end in Hte. apply orb_false_iff in Hte as [Ews E59].
  rewrite E59, Ews in *.
  destruct ((c =? 120) || (c =? 88)); [apply hex_ext; assumption|].
  destruct (c =? 48).
  { destruct w as [|x w'].
    - cbn [app]. destruct b as [|y b']; [exact H|].
      cbn in Hd. rewrite (te_not_x y Hd). apply (ident_ext feat [c] [] k cs (y :: b') H Hd).
    - cbn [app]. destruct ((x =? 120) || (x =? 88)); [apply hex_ext; assumption|].
      apply (ident_ext feat [c] (x :: w') k cs b H Hd). }
  destruct ((c =? 114) || (c =? 82)).
  { destruct w as [|d w'].
    - cbn [app]. destruct b as [|y b']; [exact H|].
      cbn in Hd. rewrite (te_not_regnum y Hd). apply (ident_ext feat [c] [] k cs (y :: b') H Hd).
    - cbn [app]. destruct (is_reg_num d); [|apply (ident_ext feat [c] (d :: w') k cs b H Hd)].
      change (d :: w' ++ b) with ((d :: w') ++ b).
      destruct (take_while is_reg_num (d :: w')) as [nums rest'] eqn:E.
      rewrite (tw_ext _ (d :: w') nums rest' b E (fun _ => delimited_regnum b Hd)).
      destruct rest' as [|n rest''].
      + cbn [app].
        assert (Hnext : match b with [] => true | n :: _ => is_token_end n || (n =? 0) end = true).
        { destruct b as [|y b']; [reflexivity|]. cbn in Hd. rewrite Hd. reflexivity. }
        rewrite Hnext.
        destruct ((N.of_nat (length nums) =? 1) && true).
        * inversion H; subst. reflexivity.
        * apply (ident_ext feat (c :: nums) [] k cs b H Hd).
      + cbn [app].
        destruct ((N.of_nat (length nums) =? 1) && (is_token_end n || (n =? 0))).
        * discriminate H.
        * apply (ident_ext feat (c :: nums) (n :: rest'') k cs b H Hd). }
  destruct (is_id c); [apply ident_ext; assumption|].
  destruct (c =? 35); [apply dec_ext; assumption|].
  destruct (c =? 46); [apply dir_ext; assumption|].
  rewrite H34 in *.
  destruct (take_while _ w). discriminate H.
Qed.

(** A string literal ends at its closing quote, whatever follows. *)
Lemma advance_token_str_ext feat a k cs b :
  advance_token feat (34 :: a) = Some (LexTok k cs []) ->
  advance_token feat (34 :: a ++ b) = Some (LexTok k cs b).
Proof.
  cbn. intros H.
  destruct (str_scan a) as [[t a'] r] eqn:E. destruct t; [|discriminate].
  inversion H; subst.
  rewrite (str_scan_ext (length a) a (le_n _) a' [] b E). reflexivity.
Qed.

(** What kind of token can start with which character. *)
Definition class_ok (c : N) (k : tkind) : Prop :=
  match k with
  | KComment => c = 59
  | KWhitespace => is_whitespace c = true
  | KDir _ => c = 46
  | KLit LStr => c = 34
  | KEof | KByte _ | KBreakpoint => False
  | _ => True
  end.

Lemma check_instruction_class id : match check_instruction id with KInstr _ | KLabel => True | _ => False end.
Proof.
  unfold check_instruction.
  repeat match goal with |- context [if ?b then _ else _] => destruct b; [exact I|] end. exact I.
Qed.

Lemma check_trap_class id : match check_trap id with KTrap _ | KLabel => True | _ => False end.
Proof.
  unfold check_trap.
  repeat match goal with |- context [if ?b then _ else _] => destruct b; [exact I|] end. exact I.
Qed.

Lemma ident_class feat pre l k cs r c : ident feat pre l = LexTok k cs r -> class_ok c k.
Proof.
  unfold ident. destruct (take_while is_id l) as [more rest'].
  destruct (is_stack_word _ && negb feat); [discriminate|].
  intros H. inversion H; subst.
  pose proof (check_instruction_class (List.map to_lower (last pre 0 :: more))) as K.
  destruct (check_instruction _); try contradiction; try exact I.
  pose proof (check_trap_class (List.map to_lower (last pre 0 :: more))) as K2.
  destruct (check_trap _); try contradiction; exact I.
Qed.

Lemma hex_class pre l k cs r c : hex pre l = LexTok k cs r -> class_ok c k.
Proof.
  unfold hex. destruct (take_while _ l) as [digits rest'].
  destruct (parse_i16 16 digits); [intros H; inversion H; exact I|].
  destruct (parse_u16 16 digits) as [v|[]]; intros H; inversion H; exact I.
Qed.

Lemma dec_class pre l k cs r c : dec pre l = LexTok k cs r -> class_ok c k.
Proof.
  unfold dec. destruct (take_while _ l) as [digits rest'].
  destruct (parse_i16 10 digits); [intros H; inversion H; exact I|].
  destruct (parse_u16 10 digits); intros H; inversion H; exact I.
Qed.

Lemma advance_token_class feat c w k cs r :
  advance_token feat (c :: w) = Some (LexTok k cs r) -> class_ok c k.
Proof.
  cbn [advance_token]. intros H. injection H as H.
  destruct (c =? 59) eqn:E59.
  { destruct (take_while _ w). inversion H; subst. apply N.eqb_eq. exact E59. }
  destruct (is_whitespace c) eqn:Ews.
  { destruct (take_while _ w). inversion H; subst. exact Ews. }
  destruct ((c =? 120) || (c =? 88)); [eapply hex_class; exact H|].
  destruct (c =? 48).
  { destruct w as [|x w']; [eapply ident_class; exact H|].
    destruct ((x =? 120) || (x =? 88)); [eapply hex_class; exact H|eapply ident_class; exact H]. }
  destruct ((c =? 114) || (c =? 82)).
  { destruct w as [|d w']; [eapply ident_class; exact H|].
    destruct (is_reg_num d); [|eapply ident_class; exact H].
    destruct (take_while is_reg_num (d :: w')) as [nums rest'].
    match type of H with (if ?b then _ else _) = _ => destruct b end;
      [inversion H; exact I|eapply ident_class; exact H]. }
  destruct (is_id c); [eapply ident_class; exact H|].
  destruct (c =? 35); [eapply dec_class; exact H|].
  destruct (c =? 46) eqn:E46.
  { unfold dir in H. destruct (take_while is_id w) as [more rest'].
    destruct (check_directive _); [|discriminate]. inversion H; subst. apply N.eqb_eq. exact E46. }
  destruct (c =? 34) eqn:E34.
  { destruct (str_scan w) as [[t a] b]. destruct t; [|discriminate]. inversion H; subst. apply N.eqb_eq. exact E34. }
  destruct (take_while _ w). discriminate H.
Qed.

(* ------------------------------------------------------------------ *)
(** * Words and the lexer *)

Lemma word_at_split l w b : word_at l = (w, b) -> l = w ++ b.
Proof.
  destruct l as [|c r]; cbn [word_at]; [intros H; inversion H; reflexivity|].
  destruct (c =? 34).
  - destruct (str_scan r) as [[t a] b0] eqn:E. intros H. inversion H; subst.
    cbn. f_equal. exact (str_scan_app (length r) r (le_n _) _ _ _ E).
  - apply take_while_app.
Qed.

Lemma lex_word_consumed feat w k : lex_word feat w = Some k -> advance_token feat w = Some (LexTok k w []).
Proof.
  unfold lex_word. destruct (advance_token feat w) as [[k0 cs rs|]|] eqn:E; try discriminate.
  destruct rs; [|discriminate]. intros H. inversion H; subst k0.
  pose proof (advance_token_splits _ _ _ E) as [S _]. rewrite app_nil_r in S. subst cs. reflexivity.
Qed.

Lemma lex_word_nonempty feat k : lex_word feat [] = Some k -> False.
Proof. discriminate. Qed.

Lemma lex_word_at feat c r w b k :
  is_whitespace c = false -> (c =? 59) = false ->
  word_at (c :: r) = (w, b) -> lex_word feat w = Some k ->
  advance_token feat (c :: r) = Some (LexTok k w b).
Proof.
  intros Hws H59 Hw Hk. apply lex_word_consumed in Hk.
  cbn [word_at] in Hw. destruct (c =? 34) eqn:E34.
  - destruct (str_scan r) as [[t a] b0] eqn:Es. inversion Hw; subst w b.
    apply N.eqb_eq in E34. subst c.
    rewrite (str_scan_app (length r) r (le_n _) _ _ _ Es).
    apply advance_token_str_ext. exact Hk.
  - pose proof (take_while_app _ _ _ _ Hw) as Hl.
    destruct w as [|c' w']; [discriminate Hk|].
    cbn [app] in Hl. injection Hl as <- Hr. rewrite Hr.
    change (c :: w' ++ b) with ((c :: w') ++ b).
    apply advance_token_ext; try assumption.
    + unfold is_token_end. rewrite Hws, H59. reflexivity.
    + pose proof (tw_snd_head (fun x => negb (is_token_end x)) (c :: r)) as D. rewrite Hw in D. cbn [snd] in D.
      destruct b as [|y b']; [exact I|]. cbn in *. apply negb_false_iff in D. exact D.
Qed.

Lemma lex_at_word feat c r w b k pos :
  is_whitespace c = false -> (c =? 59) = false ->
  word_at (c :: r) = (w, b) -> lex_word feat w = Some k ->
  lex_at feat (c :: r) pos = StepTok (mkTok k pos (bytes w) w) b (pos + bytes w).
Proof.
  intros Hws H59 Hw Hk. unfold lex_at. rewrite (lex_word_at feat c r w b k Hws H59 Hw Hk). reflexivity.
Qed.

Lemma advance_real_nonws feat c r pos :
  is_whitespace c = false -> advance_real feat (c :: r) pos = lex_at feat (c :: r) pos.
Proof.
  intros Hws. unfold advance_real. destruct (lex_at feat (c :: r) pos) as [t rest pos'|] eqn:E; [|reflexivity].
  destruct (tk t) eqn:Ek; try reflexivity.
  exfalso. unfold lex_at in E. destruct (advance_token feat (c :: r)) as [[k cs rs|]|] eqn:Ea; try discriminate.
  inversion E; subst. cbn in Ek. subst k. apply advance_token_class in Ea. cbn in Ea. congruence.
Qed.

Lemma advance_real_nil feat pos : advance_real feat [] pos = StepTok (mkTok KEof 0 0 []) [] pos.
Proof. reflexivity. Qed.

(** The first character of a word decides what it cannot be. *)
Lemma lex_word_class feat c w k : lex_word feat (c :: w) = Some k -> class_ok c k.
Proof. intros H. apply lex_word_consumed in H. eapply advance_token_class. exact H. Qed.

Lemma to_lower_dot c : to_lower c = 46 -> c = 46.
Proof.
  unfold to_lower, between. destruct ((65 <=? c) && (c <=? 90)) eqn:E; [|auto].
  apply andb_true_iff in E as [E1 E2]. apply N.leb_le in E1. intros H. lia.
Qed.

Lemma leqb_head x t y s : leqb (x :: t) (y :: s) = true -> x = y.
Proof. cbn [leqb]. intros H. apply andb_true_iff in H as [H _]. apply N.eqb_eq. exact H. Qed.

Lemma check_directive_dot x t d : check_directive (x :: t) = Some d -> x = 46.
Proof.
  unfold check_directive.
  repeat match goal with
  | |- context [leqb (x :: t) ?s] =>
      let E := fresh "E" in destruct (leqb (x :: t) s) eqn:E;
      [change s with (46 :: tl s) in E; apply leqb_head in E; intros _; exact E|]
  end.
  intros H. discriminate H.
Qed.

(** A word is a directive exactly when the lexer says so. *)
Lemma lex_word_dir feat w k : lex_word feat w = Some k ->
  check_directive (List.map to_lower w) = match k with KDir d => Some d | _ => None end.
Proof.
  intros H. destruct w as [|c w']; [discriminate|].
  pose proof (lex_word_class feat c w' k H) as Hc.
  apply lex_word_consumed in H.
  destruct (N.eq_dec c 46) as [->|Hne].
  - change (advance_token feat (46 :: w')) with (Some (dir [46] w')) in H.
    unfold dir in H. destruct (take_while is_id w') as [more rest'] eqn:E.
    destruct (check_directive (List.map to_lower ([46] ++ more))) eqn:Ed; [|discriminate].
    inversion H; subst. exact Ed.
  - destruct k; cbn in Hc; try congruence;
      (destruct (check_directive (List.map to_lower (c :: w'))) eqn:Ed; [|reflexivity];
       cbn [List.map] in Ed; apply check_directive_dot in Ed; apply to_lower_dot in Ed; congruence).
Qed.

(* ------------------------------------------------------------------ *)
(** * The preprocessor skips separators *)

Lemma pre_comment feat pf c r pos acc : (c =? 59) = true ->
  exists pos', preprocess feat (S pf) (c :: r) pos acc =
               preprocess feat pf (snd (take_while (fun x => negb (x =? 10)) r)) pos' acc.
Proof.
  intros E. cbn [preprocess]. unfold advance_real, lex_at. cbn [advance_token]. rewrite E.
  destruct (take_while (fun x => negb (x =? 10)) r) as [a b]. cbn. eexists. reflexivity.
Qed.

Lemma advance_real_head_nonws feat b pos : delim is_whitespace b -> advance_real feat b pos = lex_at feat b pos.
Proof.
  destruct b as [|c r]; [reflexivity|]. cbn. apply advance_real_nonws.
Qed.

Lemma pre_ws feat pf c r pos acc : is_whitespace c = true ->
  exists pos', preprocess feat (S pf) (c :: r) pos acc =
               preprocess feat (S pf) (snd (take_while is_whitespace r)) pos' acc.
Proof.
  intros E. cbn [preprocess].
  pose proof (tw_snd_head is_whitespace r) as D.
  assert (exists pos', advance_real feat (c :: r) pos = advance_real feat (snd (take_while is_whitespace r)) pos') as [pos' ->].
  { unfold advance_real at 1. unfold lex_at at 1. cbn [advance_token]. rewrite (ws_not_semicolon c E), E.
    destruct (take_while is_whitespace r) as [a b]. cbn [snd] in *. cbn [tk].
    eexists. rewrite (advance_real_head_nonws feat b _ D). reflexivity. }
  exists pos'. reflexivity.
Qed.

Lemma pre_skip feat : forall pf l pos acc, (length l < pf)%nat ->
  exists pf2 pos2, (length (skip false l) < pf2)%nat /\
    preprocess feat pf l pos acc = preprocess feat pf2 (skip false l) pos2 acc.
Proof.
  induction pf as [|pf IH]; intros l pos acc Hl; [lia|].
  destruct l as [|c r]; [exists (S pf), pos; split; [cbn; lia|reflexivity]|].
  cbn [length] in Hl. cbn [skip]. destruct (c =? 59) eqn:E59.
  - rewrite skip_comment. destruct (pre_comment feat pf c r pos acc E59) as [pos' ->].
    pose proof (tw_length (fun x => negb (x =? 10)) r) as Hb.
    apply IH. lia.
  - destruct (is_whitespace c) eqn:Ews.
    + rewrite skip_ws_run. destruct (pre_ws feat pf c r pos acc Ews) as [pos' ->].
      pose proof (tw_length is_whitespace r) as Hb. pose proof (tw_snd_head is_whitespace r) as D.
      destruct (snd (take_while is_whitespace r)) as [|c2 r2]; [exists (S pf), pos'; split; [cbn; lia|reflexivity]|].
      cbn in D. cbn [length] in Hb. cbn [skip]. rewrite D.
      destruct (c2 =? 59) eqn:E2.
      * rewrite skip_comment. destruct (pre_comment feat pf c2 r2 pos' acc E2) as [pos'' ->].
        pose proof (tw_length (fun x => negb (x =? 10)) r2) as Hb2.
        apply IH. lia.
      * exists (S pf), pos'. split; [cbn [length]; lia|reflexivity].
    + exists (S pf), pos. split; [cbn [length]; lia|reflexivity].
Qed.

(** The operand of a data directive: white space only is skipped. *)
Lemma advance_real_operand feat b pos :
  exists p, advance_real feat b pos = lex_at feat (skip_ws b) p.
Proof.
  unfold skip_ws. destruct b as [|c r]; [exists pos; reflexivity|].
  cbn [take_while]. destruct (is_whitespace c) eqn:E.
  - pose proof (tw_snd_head is_whitespace r) as D.
    unfold advance_real at 1. unfold lex_at at 1. cbn [advance_token]. rewrite (ws_not_semicolon c E), E.
    destruct (take_while is_whitespace r) as [a b']. cbn [snd tk] in *. eexists. reflexivity.
  - cbn [snd]. exists pos. apply advance_real_nonws. exact E.
Qed.

Lemma skip_ws_length b : (length (skip_ws b) <= length b)%nat.
Proof. apply tw_length. Qed.

Lemma skip_ws_head b : delim is_whitespace (skip_ws b).
Proof. apply tw_snd_head. Qed.

(* ------------------------------------------------------------------ *)
(** * The preprocessor is a function of the words *)

Lemma map_lrev {A B} (f : A -> B) l : List.map f (lrev l) = lrev (List.map f l).
Proof. unfold lrev. rewrite !rev_append_rev, !app_nil_r. apply map_rev. Qed.

Lemma map_repeat {A B} (f : A -> B) x n : List.map f (repeat x n) = repeat (f x) n.
Proof. induction n; cbn; [reflexivity|]. rewrite IHn. reflexivity. Qed.

Lemma word_first feat c r w b k : word_at (c :: r) = (w, b) -> lex_word feat w = Some k ->
  exists w', w = c :: w' /\ (length b < length (c :: r))%nat.
Proof.
  intros Hw Hk. pose proof (word_at_split _ _ _ Hw) as S.
  destruct w as [|c' w']; [discriminate Hk|]. cbn [app] in S. injection S as <- S.
  exists w'. split; [reflexivity|]. cbn [length]. rewrite S, app_length. lia.
Qed.

Lemma classify_cons feat w ws ats : classify_all feat (w :: ws) = Some ats ->
  exists k ats1, lex_word feat w = Some k /\ classify_all feat ws = Some ats1 /\ ats = (k, w) :: ats1.
Proof.
  cbn [classify_all]. unfold classify. destruct (lex_word feat w) as [k|]; [|discriminate].
  destruct (classify_all feat ws) as [ats1|]; [|discriminate]. intros H. inversion H; subst. eauto.
Qed.

Lemma word_at_semicolon r : word_at (59 :: r) = ([], 59 :: r).
Proof. reflexivity. Qed.

Theorem preprocess_words feat : forall fuel l pf pos acc ats,
  (length l < fuel)%nat -> (length l < pf)%nat ->
  classify_all feat (words fuel l) = Some ats ->
  abs_res (preprocess feat pf l pos acc) = apre ats (List.map abs acc).
Proof.
  induction fuel as [|f IH]; intros l pf pos acc ats Hf Hpf Hc; [lia|].
  destruct (pre_skip feat pf l pos acc Hpf) as (pf2 & pos2 & Hlen2 & ->).
  cbn [words] in Hc.
  pose proof (skip_length l false) as Hsl.
  destruct (skip false l) as [|c r] eqn:Es.
  { cbn in Hc. inversion Hc; subst ats. destruct pf2; [cbn in Hlen2; lia|]. cbn. rewrite map_lrev. reflexivity. }
  destruct (skip_head _ _ _ _ Es) as [Hws H59].
  destruct (word_at (c :: r)) as [w b] eqn:Ew.
  (* the first word lexes *)
  assert (Hk : exists k, lex_word feat w = Some k).
  { destruct (lex_word feat w) as [k|] eqn:Ek; [eauto|]. exfalso.
    assert (N : forall ws, classify_all feat (w :: ws) = None).
    { intros ws. cbn [classify_all]. unfold classify. rewrite Ek. reflexivity. }
    repeat match type of Hc with context [match ?x with _ => _ end] => destruct x end;
      rewrite N in Hc; discriminate. }
  destruct Hk as [k Hk].
  rewrite (lex_word_dir feat w k Hk) in Hc.
  destruct (word_first feat c r w b k Ew Hk) as (w' & -> & Hb).
  pose proof (lex_word_class feat c w' k Hk) as Hcl.
  destruct pf2 as [|pf3]; [cbn in Hlen2; lia|]. cbn [length] in Hlen2, Hb, Hsl.
  cbn [preprocess]. rewrite (advance_real_nonws feat c r pos2 Hws), (lex_at_word feat c r _ b k pos2 Hws H59 Ew Hk).
  cbn [tk toffs tlen].
  assert (Hplain : forall ats, classify_all feat ((c :: w') :: words f b) = Some ats ->
            abs_res (preprocess feat pf3 b (pos2 + bytes (c :: w')) (mkTok k pos2 (bytes (c :: w')) (c :: w') :: acc)) =
            match ats with [] => Bad 0 | _ :: ats1 => apre ats1 ((k, c :: w') :: List.map abs acc) end).
  { intros ats0 H0. destruct (classify_cons _ _ _ _ H0) as (k0 & ats1 & Hk0 & Hr & ->).
    apply (IH b pf3 _ (mkTok k pos2 (bytes (c :: w')) (c :: w') :: acc) ats1); [lia|lia|exact Hr]. }
  destruct k as [ |i|tr|li|di|rg|bv| | | | ]; cbn in Hcl; try contradiction;
    try (destruct (classify_cons _ _ _ _ Hc) as (k0 & ats1 & Hk0 & Hr & ->);
         rewrite Hk in Hk0; inversion Hk0; subst k0;
         rewrite (Hplain _ Hc); reflexivity).
  - (* a directive *)
    destruct di.
    + (* .orig *)
      destruct (classify_cons _ _ _ _ Hc) as (k0 & ats1 & Hk0 & Hr & ->).
      rewrite Hk in Hk0; inversion Hk0; subst k0. rewrite (Hplain _ Hc). reflexivity.
    + (* .end *)
      destruct (classify_cons _ _ _ _ Hc) as (k0 & ats1 & Hk0 & Hr & ->).
      rewrite Hk in Hk0; inversion Hk0; subst k0. cbn. rewrite map_lrev. reflexivity.
    + (* .stringz *)
      destruct (advance_real_operand feat b (pos2 + bytes (c :: w'))) as [p ->].
      pose proof (skip_ws_length b) as Hsw. pose proof (skip_ws_head b) as Hsh.
      destruct (skip_ws b) as [|c2 r2] eqn:Eb.
      { destruct (classify_cons _ _ _ _ Hc) as (k0 & ats1 & Hk0 & Hr & ->).
        rewrite Hk in Hk0; inversion Hk0; subst k0. cbn in Hr. inversion Hr; subst. reflexivity. }
      cbn in Hsh. cbn [length] in Hsw.
      destruct (word_at (c2 :: r2)) as [w2 b2] eqn:Ew2.
      destruct (classify_cons _ _ _ _ Hc) as (k0 & ats1 & Hk0 & Hr & ->).
      rewrite Hk in Hk0; inversion Hk0; subst k0.
      destruct (classify_cons _ _ _ _ Hr) as (k2 & ats2 & Hk2 & Hr2 & ->).
      assert (H592 : (c2 =? 59) = false).
      { destruct (c2 =? 59) eqn:E; [|reflexivity]. apply N.eqb_eq in E. subst c2.
        rewrite word_at_semicolon in Ew2. inversion Ew2; subst. discriminate Hk2. }
      destruct (word_first feat c2 r2 w2 b2 k2 Ew2 Hk2) as (w2' & -> & Hb2). cbn [length] in Hb2.
      rewrite (lex_at_word feat c2 r2 _ b2 k2 p Hsh H592 Ew2 Hk2). cbn [tk toffs tlen ttext].
      destruct k2 as [ | | |[x|x| ]| | | | | | | ]; try reflexivity.
      cbn [apre].
      rewrite (IH b2 pf3 _ _ ats2 ltac:(lia) ltac:(lia) Hr2).
      cbn [List.map]. rewrite map_app, map_lrev, map_map. reflexivity.
    + (* .blkw *)
      destruct (advance_real_operand feat b (pos2 + bytes (c :: w'))) as [p ->].
      pose proof (skip_ws_length b) as Hsw. pose proof (skip_ws_head b) as Hsh.
      destruct (skip_ws b) as [|c2 r2] eqn:Eb.
      { destruct (classify_cons _ _ _ _ Hc) as (k0 & ats1 & Hk0 & Hr & ->).
        rewrite Hk in Hk0; inversion Hk0; subst k0. cbn in Hr. inversion Hr; subst. reflexivity. }
      cbn in Hsh. cbn [length] in Hsw.
      destruct (word_at (c2 :: r2)) as [w2 b2] eqn:Ew2.
      destruct (classify_cons _ _ _ _ Hc) as (k0 & ats1 & Hk0 & Hr & ->).
      rewrite Hk in Hk0; inversion Hk0; subst k0.
      destruct (classify_cons _ _ _ _ Hr) as (k2 & ats2 & Hk2 & Hr2 & ->).
      assert (H592 : (c2 =? 59) = false).
      { destruct (c2 =? 59) eqn:E; [|reflexivity]. apply N.eqb_eq in E. subst c2.
        rewrite word_at_semicolon in Ew2. inversion Ew2; subst. discriminate Hk2. }
      destruct (word_first feat c2 r2 w2 b2 k2 Ew2 Hk2) as (w2' & -> & Hb2). cbn [length] in Hb2.
      rewrite (lex_at_word feat c2 r2 _ b2 k2 p Hsh H592 Ew2 Hk2). cbn [tk toffs tlen ttext].
      destruct k2 as [ | | |[x|x| ]| | | | | | | ]; try reflexivity;
        (cbn [apre]; rewrite (IH b2 pf3 _ _ ats2 ltac:(lia) ltac:(lia) Hr2);
         rewrite map_app, map_repeat; reflexivity).
    + (* .fill *)
      destruct (advance_real_operand feat b (pos2 + bytes (c :: w'))) as [p ->].
      pose proof (skip_ws_length b) as Hsw. pose proof (skip_ws_head b) as Hsh.
      destruct (skip_ws b) as [|c2 r2] eqn:Eb.
      { destruct (classify_cons _ _ _ _ Hc) as (k0 & ats1 & Hk0 & Hr & ->).
        rewrite Hk in Hk0; inversion Hk0; subst k0. cbn in Hr. inversion Hr; subst. reflexivity. }
      cbn in Hsh. cbn [length] in Hsw.
      destruct (word_at (c2 :: r2)) as [w2 b2] eqn:Ew2.
      destruct (classify_cons _ _ _ _ Hc) as (k0 & ats1 & Hk0 & Hr & ->).
      rewrite Hk in Hk0; inversion Hk0; subst k0.
      destruct (classify_cons _ _ _ _ Hr) as (k2 & ats2 & Hk2 & Hr2 & ->).
      assert (H592 : (c2 =? 59) = false).
      { destruct (c2 =? 59) eqn:E; [|reflexivity]. apply N.eqb_eq in E. subst c2.
        rewrite word_at_semicolon in Ew2. inversion Ew2; subst. discriminate Hk2. }
      destruct (word_first feat c2 r2 w2 b2 k2 Ew2 Hk2) as (w2' & -> & Hb2). cbn [length] in Hb2.
      rewrite (lex_at_word feat c2 r2 _ b2 k2 p Hsh H592 Ew2 Hk2). cbn [tk toffs tlen ttext].
      destruct k2 as [ | | |[x|x| ]| | | | | | | ]; try reflexivity;
        (cbn [apre]; rewrite (IH b2 pf3 _ _ ats2 ltac:(lia) ltac:(lia) Hr2); reflexivity).
    + (* .break *)
      destruct (classify_cons _ _ _ _ Hc) as (k0 & ats1 & Hk0 & Hr & ->).
      rewrite Hk in Hk0; inversion Hk0; subst k0. cbn [apre].
      exact (IH b pf3 _ (mkTok KBreakpoint pos2 (bytes (c :: w')) [] :: acc) ats1 ltac:(lia) ltac:(lia) Hr).
  - (* white space cannot start a word *) congruence.
  - (* nor a comment *) apply N.eqb_neq in H59. congruence.
Qed.

(* ------------------------------------------------------------------ *)
(** * Similar words, similar token lists *)

Definition keeps_text (k : tkind) : bool := match k with KLabel | KLit LStr => true | _ => false end.

(** Two words mean the same: the same kind of token up to the radix of a literal, and the same
    text where the text matters (label names, string literals). *)
Definition word_sim (feat : bool) (w w' : list N) : Prop :=
  exists k k', lex_word feat w = Some k /\ lex_word feat w' = Some k' /\ kind_sim k k' /\
               (keeps_text k = true -> w = w').

Definition nrm (a : atok) : atok := (knorm (fst a), if keeps_text (fst a) then snd a else []).

Definition rmap {A B} (f : A -> B) (r : res A) : res B :=
  match r with Ok a => Ok (f a) | Err d a n => Err d a n | Bad w => Bad w end.

Lemma nrm_abyte v : nrm (abyte v) = abyte v.
Proof. reflexivity. Qed.

Lemma apre_nrm : forall n ats acc, (length ats <= n)%nat ->
  apre (List.map nrm ats) (List.map nrm acc) = rmap (List.map nrm) (apre ats acc).
Proof.
  induction n as [|n IH]; intros ats acc Hn.
  { destruct ats; [|cbn in Hn; lia]. cbn. rewrite map_lrev. reflexivity. }
  destruct ats as [|[k w] rest]; [cbn; rewrite map_lrev; reflexivity|].
  cbn [length] in Hn.
  assert (Hplain : forall a, apre (List.map nrm rest) (nrm a :: List.map nrm acc) = rmap (List.map nrm) (apre rest (a :: acc))).
  { intros a. exact (IH rest (a :: acc) ltac:(lia)). }
  destruct k as [ |i|tr|[x|x| ]|[ | | | | | ]|rg|bv| | | | ]; cbn [List.map nrm fst snd knorm keeps_text apre];
    try reflexivity;
    try (match goal with |- apre _ (_ :: _) = rmap _ (apre _ (?b :: _)) => exact (Hplain b) end);
    try (cbn; rewrite map_lrev; reflexivity).
  - (* .stringz *)
    destruct rest as [|[k2 w2] rest2]; [reflexivity|]. cbn [length] in Hn.
    destruct k2 as [ | | |[y|y| ]| | | | | | | ]; cbn [List.map nrm fst snd knorm keeps_text apre]; try reflexivity.
    rewrite <- (IH rest2 _ ltac:(lia)). f_equal. cbn [List.map]. rewrite nrm_abyte. f_equal.
    rewrite map_app, map_lrev, map_map. reflexivity.
  - (* .blkw *)
    destruct rest as [|[k2 w2] rest2]; [reflexivity|]. cbn [length] in Hn.
    destruct k2 as [ | | |[y|y| ]| | | | | | | ]; cbn [List.map nrm fst snd knorm keeps_text apre]; try reflexivity;
      (rewrite <- (IH rest2 _ ltac:(lia)); f_equal; rewrite map_app, map_repeat; reflexivity).
  - (* .fill *)
    destruct rest as [|[k2 w2] rest2]; [reflexivity|]. cbn [length] in Hn.
    destruct k2 as [ | | |[y|y| ]| | | | | | | ]; cbn [List.map nrm fst snd knorm keeps_text apre]; try reflexivity;
      (rewrite <- (IH rest2 _ ltac:(lia)); reflexivity).
Qed.

Lemma word_sim_nrm feat w w' : word_sim feat w w' ->
  exists a a', classify feat w = Some a /\ classify feat w' = Some a' /\ nrm a = nrm a'.
Proof.
  intros (k & k' & H1 & H2 & K & T). exists (k, w), (k', w'). unfold classify. rewrite H1, H2.
  split; [reflexivity|]. split; [reflexivity|].
  unfold nrm, kind_sim in *. cbn [fst snd]. rewrite K. f_equal.
  assert (E : keeps_text k' = keeps_text k).
  { destruct k as [ | | |[ | | ]| | | | | | | ], k' as [ | | |[ | | ]| | | | | | | ]; cbn in K; try discriminate; reflexivity. }
  rewrite E. destruct (keeps_text k) eqn:Ek; [rewrite T; reflexivity|reflexivity].
Qed.

Lemma classify_sim feat : forall ws ws', Forall2 (word_sim feat) ws ws' ->
  exists ats ats', classify_all feat ws = Some ats /\ classify_all feat ws' = Some ats' /\
                   List.map nrm ats = List.map nrm ats'.
Proof.
  induction 1 as [|w w' ws ws' Hw _ IH].
  - exists [], []. repeat split.
  - destruct IH as (ats & ats' & H1 & H2 & H3).
    destruct (word_sim_nrm feat w w' Hw) as (a & a' & A1 & A2 & A3).
    exists (a :: ats), (a' :: ats'). cbn [classify_all]. rewrite A1, A2, H1, H2.
    repeat split. cbn [List.map]. rewrite A3, H3. reflexivity.
Qed.

Lemma nrm_toks_sim : forall toks toks',
  List.map nrm (List.map abs toks) = List.map nrm (List.map abs toks') -> toks_sim toks toks'.
Proof.
  induction toks as [|t toks IH]; intros [|t' toks'] H; cbn in H; try discriminate; [constructor|].
  injection H as H1 H2 H3. constructor; [|apply IH; exact H3].
  split; [exact H1|]. intros L. rewrite L in *. cbn in H1, H2.
  assert (L' : tk t' = KLabel). { destruct (tk t') as [ | | |[ | | ]| | | | | | | ]; cbn in H1; try discriminate; reflexivity. }
  rewrite L' in H2. exact H2.
Qed.

(* ------------------------------------------------------------------ *)
(** * Re-laying out the text never changes the image *)

Lemma preprocess_source feat src ats :
  classify_all feat (source_words src) = Some ats ->
  abs_res (preprocess feat (S (length src)) src 0 []) = apre ats [].
Proof.
  intros H. exact (preprocess_words feat (S (length src)) src (S (length src)) 0 [] ats
                     (le_n _) (le_n _) H).
Qed.

Theorem relayout feat sym0 src src' :
  Forall2 (word_sim feat) (source_words src) (source_words src') ->
  res_sim image_sim (fst (assemble feat sym0 src)) (fst (assemble feat sym0 src')) /\
  snd (assemble feat sym0 src) = snd (assemble feat sym0 src').
Proof.
  intros H. destruct (classify_sim feat _ _ H) as (ats & ats' & C1 & C2 & E).
  pose proof (preprocess_source feat src ats C1) as P1.
  pose proof (preprocess_source feat src' ats' C2) as P2.
  pose proof (apre_nrm (length ats) ats [] (le_n _)) as N1.
  pose proof (apre_nrm (length ats') ats' [] (le_n _)) as N2.
  cbn [List.map] in N1, N2. rewrite E in N1. rewrite N1 in N2. rewrite <- P1, <- P2 in N2. clear N1 P1 P2.
  rewrite !assemble_split.
  destruct (preprocess feat (S (length src)) src 0 []) as [toks|d a n|b],
           (preprocess feat (S (length src')) src' 0 []) as [toks'|d' a' n'|b']; cbn in N2; try discriminate.
  - apply assemble_toks_layout. apply nrm_toks_sim. injection N2 as N2. exact N2.
  - injection N2 as ->. split; reflexivity.
  - injection N2 as ->. split; reflexivity.
Qed.

(* ------------------------------------------------------------------ *)
(** * Non-vacuity: the two layouts of AsmLayout.v, word by word *)

Example layouts_words :
  List.length (source_words layout_a) = 13%nat /\
  Forall2 (word_sim false) (source_words layout_a) (source_words layout_b).
Proof.
  split; [vm_compute; reflexivity|].
  vm_compute source_words.
  repeat (constructor;
          [eexists; eexists; split; [vm_compute; reflexivity|split; [vm_compute; reflexivity|
             split; [reflexivity|cbn; intros HH; first [discriminate HH|reflexivity]]]]|]).
  constructor.
Qed.

Definition w_loop : list N := str "loop".
Definition w_Loop : list N := str "Loop".

(** Spellings of one literal, cases of one keyword, of one register. *)
Example word_sim_examples :
  word_sim false (str "#16") (str "x10") /\ word_sim false (str "0X0010") (str "#+16") /\
  word_sim false (str "x-1") (str "#65535") /\ word_sim false (str "xFFFF") (str "#-1") /\
  word_sim false (str "BRnzp") (str "br") /\ word_sim false (str "R7") (str "r7") /\
  word_sim false (str ".StringZ") (str ".stringz") /\ word_sim true (str "PUSH") (str "push") /\
  ~ word_sim false w_loop w_Loop /\ ~ word_sim false (str "r7") (str "r6").
Proof.
  repeat split;
    try (eexists; eexists; split; [vm_compute; reflexivity|split; [vm_compute; reflexivity|
           split; [reflexivity|cbn; intros HH; first [discriminate HH|reflexivity]]]]).
  - intros (k & k' & H1 & H2 & K & T). vm_compute in H1. inversion H1; subst k. specialize (T eq_refl). discriminate T.
  - intros (k & k' & H1 & H2 & K & T). vm_compute in H1, H2. inversion H1; inversion H2; subst. discriminate K.
Qed.
