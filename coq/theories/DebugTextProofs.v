(* DebugTextProofs.v — THEOREMS about the joined model DebugText.v (script text -> readers ->
   command parser -> debugger -> VM). *)
From Coq Require Import List NArith ZArith Bool Lia.
From Lace Require Import Word Machine Isa Vm Asm Dbg DbgProofs DebugText.
From Lace Require CmdSpec Cmd CmdProofs DbgBad.
Import ListNotations.
Open Scope N_scope.

(* ------------------------------------------------------------------ *)
(** * The script the debugger sees is the list of its command lines *)

Fixpoint script_of_lines (ls : list (list N)) : list cmd :=
  match ls with
  | [] => []
  | l :: r =>
      match Cmd.try_from l with
      | Cmd.Ok c => conv_cmd c :: script_of_lines r
      | Cmd.Err _ => CBad :: script_of_lines r
      | _ => []
      end
  end.

Lemma script_of_events_lines ls : script_of_events (CmdProofs.events ls) = script_of_lines ls.
Proof.
  induction ls as [|l r IH]; [reflexivity|]. cbn [CmdProofs.events script_of_lines].
  destruct (Cmd.try_from l); cbn [script_of_events]; try rewrite IH; reflexivity.
Qed.

Theorem script_of_text_lines arg stdin :
  script_of_text arg stdin =
  script_of_lines (CmdSpec.script_lines (CmdProofs.arg_text arg) ++ CmdSpec.script_lines stdin).
Proof.
  unfold script_of_text. rewrite (proj1 CmdProofs.transport_independent). apply script_of_events_lines.
Qed.

(** One accepted line is one debugger command — the one the documented grammar gives it — and one
    rejected line is one [CBad]. *)
Theorem line_is_command line c : CmdProofs.nodelim line -> CmdSpec.LineSyn line c ->
  script_of_lines [line] = [conv_cmd c].
Proof.
  intros Hn Hs. cbn [script_of_lines]. rewrite (proj2 (CmdProofs.try_from_iff line c Hn) Hs). reflexivity.
Qed.

Theorem line_is_rejected line e : Cmd.try_from line = Cmd.Err e -> script_of_lines [line] = [CBad].
Proof. intros H. cbn [script_of_lines]. rewrite H. reflexivity. Qed.

(* ------------------------------------------------------------------ *)
(** * Transport independence of the whole debugger *)

(** `lace debug` behaves the same — machine, console, breakpoints, debugger output, counters —
    whether the script arrives in `--command`, on standard input, or split across both at any
    separator, and whether `;` or newlines separate the commands. *)
Theorem debug_text_transport feat src inp fuel :
  (forall s, debug_text feat src inp (Some s) [] fuel = debug_text feat src inp None s fuel) /\
  (forall a d b, CmdSpec.is_delim d = true ->
     debug_text feat src inp (Some a) b fuel = debug_text feat src inp None (a ++ d :: b) fuel /\
     debug_text feat src inp (Some a) b fuel = debug_text feat src inp (Some (a ++ d :: b)) [] fuel /\
     debug_text feat src inp (Some (a ++ [d])) b fuel = debug_text feat src inp (Some a) b fuel) /\
  (forall f, CmdProofs.sep_renaming f -> forall arg stdin,
     debug_text feat src inp (option_map (map f) arg) (map f stdin) fuel = debug_text feat src inp arg stdin fuel).
Proof.
  destruct CmdProofs.transport_independent as (_ & H1 & H2 & H3).
  unfold debug_text, script_of_text. split; [|split].
  - intros s. rewrite H1. reflexivity.
  - intros a d b Hd. destruct (H2 a d b Hd) as (E1 & E2 & E3). rewrite <- E1, <- E2, E3. repeat split.
  - intros f Hf arg stdin. rewrite (H3 f Hf). reflexivity.
Qed.

(** The same for the domain predicate. *)
Lemma text_in_domain_transport :
  (forall s, text_in_domain (Some s) [] = text_in_domain None s) /\
  (forall a d b, CmdSpec.is_delim d = true ->
     text_in_domain (Some a) b = text_in_domain None (a ++ d :: b)).
Proof.
  destruct CmdProofs.transport_independent as (_ & H1 & H2 & _). unfold text_in_domain. split.
  - intros s. rewrite H1. reflexivity.
  - intros a d b Hd. rewrite (proj1 (H2 a d b Hd)). reflexivity.
Qed.

(** Inside the domain nothing is cut off: every line of the text reaches the debugger. *)
Lemma script_of_events_length evs : forallb event_in_domain evs = true ->
  length (script_of_events evs) = length evs.
Proof.
  induction evs as [|e r IH]; [reflexivity|]. cbn [forallb]. intros H. apply andb_prop in H as [He Hr].
  destruct e; try discriminate; cbn [script_of_events length]; rewrite IH by exact Hr; reflexivity.
Qed.

(* ------------------------------------------------------------------ *)
(** * What one rejected line does to the debugger *)

(** It reports `CommandError`; machine, breakpoints, status, saved initial state are untouched, it
    raises no action, and it is not counted as a command read. *)
Theorem bad_line_step env d st :
  run_command env CBad d st = CmdNone (say (set_icount d 0) L_COMMAND_ERROR) st /\ cmd_cost CBad = 0.
Proof. split; reflexivity. Qed.

(* ------------------------------------------------------------------ *)
(** * Transparency for script TEXT (C09 composed with C14) *)

Definition readonly_cmdb (c : cmd) : bool :=
  match c with
  | CStepOver | CStepInto _ | CStepOut | CContinue | CRegisters | CPrint _ | CAssembly _ | CEcho _
  | CHelp | CBreakList | CBreakAdd _ | CBreakRemove _ | CQuit | CBad => true
  | _ => false
  end.

Lemma readonly_cmdb_spec c : readonly_cmdb c = true -> readonly_cmd c.
Proof. destruct c; cbn; intros H; try discriminate; exact I. Qed.

Lemma readonly_script_spec s : forallb readonly_cmdb s = true -> Forall readonly_cmd s.
Proof.
  induction s as [|c r IH]; intros H; [constructor|]. cbn [forallb] in H. apply andb_prop in H as [Hc Hr].
  constructor; [apply readonly_cmdb_spec; exact Hc|apply IH; exact Hr].
Qed.

(** A script text all of whose accepted lines are execution-control or inspection commands —
    whatever else it contains: blank lines, rejected lines, any spelling — is transparent: if the
    session ends, a plain run from the same state ends the same way. *)
Theorem text_transparent env fuel arg stdin d st t e c :
  forallb readonly_cmdb (script_of_text arg stdin) = true ->
  sr_kind (session env fuel (script_of_text arg stdin) d st t e c) <> 4 ->
  exists k, same_end (session env fuel (script_of_text arg stdin) d st t e c) (fst (vm_run (e_feat env) k st [])).
Proof. intros H. apply session_transparent. apply readonly_script_spec. exact H. Qed.

(* ------------------------------------------------------------------ *)
(** * A rejected line has no effect on the session (C14, for the whole debugger) *)

Lemma script_of_lines_ins ls1 l e ls2 : Cmd.try_from l = Cmd.Err e ->
  DbgBad.ins (script_of_lines (ls1 ++ l :: ls2)) (script_of_lines (ls1 ++ ls2)).
Proof.
  intros H. induction ls1 as [|a ls1 IH]; cbn [app script_of_lines].
  - rewrite H. apply DbgBad.ins_here.
  - destruct (Cmd.try_from a); try apply DbgBad.ins_later; try exact IH; apply DbgBad.ins_eq.
Qed.

(** Wherever a rejected line stands among the lines of a script, the session with it and the
    session without it end the same way: same stop, exit status, machine (registers, PC, condition
    code, memory, console), same iteration / instruction / command counts, same breakpoints,
    status and saved initial state.  Only the debugger's stderr differs (by the report). *)
Theorem rejected_line_session env fuel ls1 l e ls2 d st t e0 c : Cmd.try_from l = Cmd.Err e ->
  DbgBad.same_but_stderr (session env fuel (script_of_lines (ls1 ++ l :: ls2)) d st t e0 c)
                         (session env fuel (script_of_lines (ls1 ++ ls2)) d st t e0 c).
Proof.
  intros H. apply DbgBad.session_ins; [apply (script_of_lines_ins ls1 l e ls2 H)|apply DbgBad.eqd_refl].
Qed.
