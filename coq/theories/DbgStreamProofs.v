(* DbgStreamProofs.v — THEOREM: with no console input the one-stream model (DbgStream.v, what the
   process does) and the two-channel model (Dbg.v, on which the debugger theorems are stated)
   coincide: same session, in every field. *)
From Coq Require Import List NArith Bool Lia.
From Lace Require Import Word Machine Isa Vm Asm Dbg DbgProofs DebugText VmInput DbgStream.
From Lace Require Cmd.
Import ListNotations.
Open Scope N_scope.

Definition embed (r : na_result) : sna_result :=
  match r with
  | NaAction a d st rest n => SnaAction a d st rest n
  | NaStop x d rest n => SnaStop x d rest n
  end.

Lemma set_inp_same st : set_inp st (s_inp st) = st.
Proof. destruct st; reflexivity. Qed.

Lemma fetch_empty fuel : fetch (S fuel) [] = FEof [].
Proof. reflexivity. Qed.

Lemma wait_stream_empty env sf d st n : s_inp st = [] ->
  wait_stream env (S sf) d st n = SnaAction StopDebugger (set_icount d 0) st [] (n + 1).
Proof.
  intros E. cbn [wait_stream]. unfold fetch_from. rewrite E. cbn [length]. rewrite fetch_empty.
  rewrite <- E at 1. rewrite set_inp_same. reflexivity.
Qed.

(** Commands never create console input. *)
Lemma eval_no_input env st text : s_inp st = [] ->
  match eval env st text with
  | EvalDone st' => s_inp st' = []
  | _ => True
  end.
Proof.
  intros E. unfold eval.
  destruct (lex_simple _ _ _ _ _) as [toks| |]; try exact I.
  destruct (parse_simple _ _ _) as [s| |]; try exact I.
  destruct s; try exact I;
    try (destruct (backpatch_stmt _ _) as [s'| |]; try exact I; destruct (emit _) as [w| |]; try exact I);
    try (destruct (_ =? 37); try exact I; destruct ((_ <? 32) || (39 <? _)); try exact I);
    match goal with
    | |- context [execute ?f ?w ?s] =>
        destruct (execute f w s) eqn:X; try exact I; exact (execute_no_input _ _ _ _ X E)
    end.
Qed.

Lemma run_command_no_input env c d st : s_inp st = [] ->
  match run_command env c d st with
  | CmdAction _ _ st' | CmdNone _ st' => s_inp st' = []
  | CmdStop _ _ => True
  end.
Proof.
  intros E. pose proof (eval_no_input env st) as Hev.
  destruct c as [ | |count| | | |l|l v|m|m|text|text| | | | |m|m| ]; unfold run_command;
    try (specialize (Hev text E); destruct (eval env st text); cbv beta iota; first [exact I | exact Hev | exact E]);
    repeat match goal with
    | |- context [match ?x with _ => _ end] =>
        lazymatch x with
        | context [match _ with _ => _ end] => fail
        | context [if _ then _ else _] => fail
        | _ => destruct x
        end
    | |- context [if ?x then _ else _] =>
        lazymatch x with
        | context [match _ with _ => _ end] => fail
        | context [if _ then _ else _] => fail
        | _ => destruct x
        end
    end; try exact I; try exact E; try reflexivity.
Qed.

Lemma swait_loop_no_input env : forall script d st n, s_inp st = [] ->
  swait_loop env script d st n = embed (wait_loop env script d st n).
Proof.
  induction script as [|c rest IH]; intros d st n E; cbn [swait_loop wait_loop embed].
  - apply wait_stream_empty. exact E.
  - pose proof (run_command_no_input env c d st E) as K.
    destruct (run_command env c d st) as [a d1 st1|d1 st1|x d1]; try reflexivity.
    destruct (dispatch_status d1 st1) as [[a|] d2]; [reflexivity|]. apply IH. exact K.
Qed.

Lemma snext_action_no_input env script d st : s_inp st = [] ->
  snext_action env script d st = embed (next_action env script d st).
Proof.
  intros E. unfold snext_action, next_action.
  destruct (dispatch_status _ st) as [[a|] d3]; [reflexivity|]. apply swait_loop_no_input. exact E.
Qed.

Definition embed_tick (r : tick_result) : stick_result :=
  match r with
  | TStop k c st d e n => STStop k c st d e n
  | TDetach d st n => STDetach d st n
  | TNext rest d st e n => STNext rest d st e n
  end.

Lemma next_action_no_input env script d st : s_inp st = [] ->
  match next_action env script d st with
  | NaAction _ _ st' _ _ => s_inp st' = []
  | NaStop _ _ _ _ => True
  end.
Proof.
  intros E. unfold next_action. destruct (dispatch_status _ st) as [[a|] d3]; [exact E|].
  generalize 0. revert d3 st E. induction script as [|c rest IH]; intros d3 st E n; cbn [wait_loop]; [exact E|].
  pose proof (run_command_no_input env c d3 st E) as K.
  destruct (run_command env c d3 st) as [a d1 st1|d1 st1|x d1]; try exact K; try exact I.
  destruct (dispatch_status d1 st1) as [[a|] d2]; [exact K|]. apply IH. exact K.
Qed.

Lemma stick_no_input env script d st : s_inp st = [] ->
  stick env script d st = embed_tick (tick env script d st) /\
  match tick env script d st with
  | TNext _ _ st' _ _ | TDetach _ st' _ => s_inp st' = []
  | TStop _ _ _ _ _ _ => True
  end.
Proof.
  intros E. unfold stick, tick. rewrite (snext_action_no_input env script d st E).
  pose proof (next_action_no_input env script d st E) as K.
  destruct (next_action env script d st) as [a d1 st1 rest n|x d1 rest n]; cbn [embed].
  - destruct a.
    + destruct (at_halt st1); [split; [reflexivity|exact K]|].
      destruct ((s_pc st1 <? s_orig st1) || (65024 <=? s_pc st1)); [split; [reflexivity|exact K]|].
      destruct (W <=? s_pc st1 + 1); [split; [reflexivity|exact I]|].
      destruct (execute _ _ _) eqn:X; (split; [reflexivity|]); try exact I.
      apply (execute_no_input _ _ _ _ X). exact K.
    + split; [reflexivity|exact K].
    + split; [reflexivity|exact I].
  - destruct x; split; try reflexivity; exact I.
Qed.

(** With no console input, the process (one stream) is the two-channel model: the debugger reads
    end-of-input where its script ends, the program reads end-of-input where it asks. *)
Theorem ssession_no_input env : forall fuel script d st t e c, s_inp st = [] ->
  ssession env fuel script d st t e c = Some (session env fuel script d st t e c).
Proof.
  induction fuel as [|fuel IH]; intros script d st t e c E; cbn [ssession session]; [reflexivity|].
  destruct (stick_no_input env script d st E) as [H K]. rewrite H.
  destruct (tick env script d st) as [k cd st1 d1 e1 n|d1 st1 n|rest d1 st1 e1 n]; cbn [embed_tick]; try reflexivity.
  apply IH. exact K.
Qed.

(* ------------------------------------------------------------------ *)
(** * Scripts that end the debugging themselves *)

(** A script in the `--command` argument whose last command is `quit` or `exit` never lets the
    debugger reach the console stream: whatever the console input is, the process (one stream) is
    the two-channel model. *)
Definition stops (c : cmd) : Prop := c = CQuit \/ c = CExit.

Lemma run_command_stops env c d st : stops c ->
  exists a, run_command env c d st = CmdAction a (set_icount d 0) st /\ a <> Proceed.
Proof. intros [-> | ->]; eexists; (split; [reflexivity|discriminate]). Qed.

Definition keeps_stop (c : cmd) (r : na_result) : Prop :=
  match r with
  | NaAction Proceed _ _ rest _ => exists pre, rest = pre ++ [c]
  | _ => True
  end.

Lemma swait_loop_stops env c : stops c -> forall pre d st n,
  swait_loop env (pre ++ [c]) d st n = embed (wait_loop env (pre ++ [c]) d st n) /\
  keeps_stop c (wait_loop env (pre ++ [c]) d st n).
Proof.
  intros Hc. induction pre as [|x pre IH]; intros d st n; cbn [app swait_loop wait_loop].
  - destruct (run_command_stops env c d st Hc) as (a & -> & Ha). cbn [embed keeps_stop]. split; [reflexivity|].
    destruct a; [contradiction|exact I|exact I].
  - destruct (run_command env x d st) as [a d1 st1|d1 st1|r d1]; cbn [embed keeps_stop].
    + split; [reflexivity|]. destruct a; try exact I. exists pre. reflexivity.
    + destruct (dispatch_status d1 st1) as [[a|] d2]; cbn [embed keeps_stop].
      * split; [reflexivity|]. destruct a; try exact I. exists pre. reflexivity.
      * apply IH.
    + split; [reflexivity|exact I].
Qed.

Lemma snext_action_stops env c pre d st : stops c ->
  snext_action env (pre ++ [c]) d st = embed (next_action env (pre ++ [c]) d st) /\
  keeps_stop c (next_action env (pre ++ [c]) d st).
Proof.
  intros Hc. unfold snext_action, next_action.
  destruct (dispatch_status _ st) as [[a|] d3]; cbn [embed keeps_stop].
  - split; [reflexivity|]. destruct a; try exact I. exists pre. reflexivity.
  - apply swait_loop_stops. exact Hc.
Qed.

Lemma stick_stops env c pre d st : stops c ->
  stick env (pre ++ [c]) d st = embed_tick (tick env (pre ++ [c]) d st) /\
  match tick env (pre ++ [c]) d st with
  | TNext rest _ _ _ _ => exists pre', rest = pre' ++ [c]
  | _ => True
  end.
Proof.
  intros Hc. unfold stick, tick. destruct (snext_action_stops env c pre d st Hc) as [H K]. rewrite H.
  destruct (next_action env (pre ++ [c]) d st) as [a d1 st1 rest n|x d1 rest n]; cbn [embed keeps_stop] in *.
  - destruct a.
    + destruct (at_halt st1); [split; [reflexivity|exact K]|].
      destruct ((s_pc st1 <? s_orig st1) || (65024 <=? s_pc st1)); [split; [reflexivity|exact K]|].
      destruct (W <=? s_pc st1 + 1); [split; [reflexivity|exact I]|].
      destruct (execute _ _ _); (split; [reflexivity|]); try exact I. exact K.
    + split; [reflexivity|exact I].
    + split; [reflexivity|exact I].
  - destruct x; split; try reflexivity; exact I.
Qed.

Theorem ssession_stopping_script env c : stops c -> forall fuel pre d st t e n,
  ssession env fuel (pre ++ [c]) d st t e n = Some (session env fuel (pre ++ [c]) d st t e n).
Proof.
  intros Hc. induction fuel as [|fuel IH]; intros pre d st t e n; cbn [ssession session]; [reflexivity|].
  destruct (stick_stops env c pre d st Hc) as [H K]. rewrite H.
  destruct (tick env (pre ++ [c]) d st) as [k cd st1 d1 e1 m|d1 st1 m|rest d1 st1 e1 m]; cbn [embed_tick]; try reflexivity.
  destruct K as (pre' & ->). apply IH.
Qed.
