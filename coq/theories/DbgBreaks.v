(* DbgBreaks.v — THEOREM: `.break`, end to end.  For every source the assembler accepts and the
   loader loads, the breakpoint table the debugger starts with ([Breakpoints::with_orig] applied to
   the assembler's table: `address += orig`) holds exactly the addresses origin + m, m the number of
   statements in front of a `.break` ([marks] of the token list) — the addition never leaves 16 bits
   (no overflow in the u16 `+=`), because a mark names a statement of the image or the word just
   behind it and the loader has checked that the image and its implicit HALT fit below x10000.
   With C11_fires: whenever the PC is origin + m, the debugger waits before that instruction. *)
From Coq Require Import List NArith Bool Lia String.
From Lace Require Import Word Machine Isa Vm RunProofs Asm AsmLayout AsmAccept AsmBreaks AsmCount Cli Dbg DbgProofs.
Import ListNotations.
Open Scope N_scope.

Lemma bp_get_in l a : bp_get l a <> None <-> In a (map fst l).
Proof.
  induction l as [|b l IH]; cbn [bp_get map In]; [split; [congruence|contradiction]|].
  destruct (fst b =? a) eqn:E.
  - apply N.eqb_eq in E. split; [auto|discriminate].
  - apply N.eqb_neq in E. rewrite IH. split; [auto|]. intros [H|H]; [contradiction|exact H].
Qed.

Lemma with_orig_addrs l o a : In a (map fst (with_orig l o)) <-> exists x, In x (map fst l) /\ a = x + o.
Proof.
  unfold with_orig. rewrite map_map. cbn [fst]. rewrite in_map_iff. split.
  - intros (b & <- & Hb). exists (fst b). split; [apply in_map; exact Hb|reflexivity].
  - intros (x & Hx & ->). apply in_map_iff in Hx as (b & <- & Hb). exists b. split; [reflexivity|exact Hb].
Qed.

Theorem break_relocated feat src inp toks im sym st :
  preprocess feat (S (length src)) src 0 [] = Ok toks ->
  assemble feat [] src = (Ok im, sym) ->
  from_raw (raw_of_image im) inp = Loaded st ->
  s_pc st = image_orig im /\
  (forall m, In m (marks 0 toks 0) -> m <= N.of_nat (length (i_words im)) /\ image_orig im + m < W) /\
  (forall a, bp_get (with_orig (i_bps im) (s_pc st)) a <> None <->
             exists m, In m (marks 0 toks 0) /\ a = image_orig im + m).
Proof.
  intros Hp Ha Hl. rewrite from_raw_load in Hl. unfold raw_of_image in Hl.
  destruct (load (image_orig im :: i_words im) inp) as [st'|] eqn:El; [|discriminate]. inversion Hl; subst st'.
  destruct (load_shape _ _ _ _ El) as (Hpc & _).
  assert (Hfit : image_orig im + N.of_nat (length (i_words im)) + 1 <= W).
  { destruct (proj1 (load_accepts _ inp) (ex_intro _ st El)) as (o & ws & E & H). inversion E; subst. exact H. }
  pose proof (assemble_count feat [] src toks im sym Hp Ha) as Hn.
  assert (Hm : forall m, In m (marks 0 toks 0) -> m <= N.of_nat (length (i_words im))).
  { intros m Hin. destruct (marks_bounds _ _ _ _ Hin) as [_ H]. rewrite Hn. exact H. }
  split; [exact Hpc|]. split.
  - intros m Hin. specialize (Hm m Hin). split; [exact Hm|lia].
  - intros a. rewrite bp_get_in, with_orig_addrs, Hpc. split.
    + intros (x & Hx & ->). apply (break_iff feat [] src toks im sym x Hp Ha) in Hx.
      apply in_map_iff in Hx as (m & <- & Hin). exists m. split; [exact Hin|].
      specialize (Hm m Hin). unfold wrap. rewrite N.mod_small by (unfold W in *; lia). lia.
    + intros (m & Hin & ->). exists m. split; [|lia].
      apply (break_iff feat [] src toks im sym m Hp Ha). apply in_map_iff. exists m. split; [|exact Hin].
      specialize (Hm m Hin). unfold wrap. apply N.mod_small. unfold W in *. lia.
Qed.

(** Hence the pause: with the table the session starts with, the debugger waits whenever the PC
    stands on a statement marked by `.break`. *)
Corollary break_pauses feat src inp toks im sym st env script d st' m :
  preprocess feat (S (length src)) src 0 [] = Ok toks ->
  assemble feat [] src = (Ok im, sym) ->
  from_raw (raw_of_image im) inp = Loaded st ->
  d_bps d = with_orig (i_bps im) (s_pc st) ->
  In m (marks 0 toks 0) -> s_pc st' = image_orig im + m ->
  exists d', d_status d' = WaitForAction /\ next_action env script d st' = wait_loop env script d' st' 0.
Proof.
  intros Hp Ha Hl Hd Hin Hpc. apply breakpoint_pauses. rewrite Hd, Hpc.
  destruct (break_relocated feat src inp toks im sym st Hp Ha Hl) as (_ & _ & H).
  apply H. exists m. split; [exact Hin|reflexivity].
Qed.
