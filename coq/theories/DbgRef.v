(* DbgRef.v — SPEC of the stepping commands on the plain reference machine, and the THEOREM that
   the debugger model refines it.

   The spec knows nothing of the debugger's record, its messages, scripts or counters: it is the
   plain machine ([vm_step]) driven by a "mode" (how much is still to run) and the three pause
   conditions of the property (breakpoint at PC, HALT at PC, PC outside user space).  The
   refinement theorem covers every count, every machine state, every breakpoint set; the
   declarative reading ("the least i such that ...") is [ref_at_least]. *)
From Coq Require Import List Arith NArith Bool Lia.
From Lace Require Import Word Machine Isa Vm Asm Dbg DbgProofs.
Import ListNotations.
Open Scope N_scope.

(* ------------------------------------------------------------------ *)
(** * The reference *)

Inductive mode :=
| MWait                  (* nothing left to run: pause *)
| MInto (n : nat)        (* this instruction and [n] more *)
| MOver (ra : N)         (* until PC is [ra] *)
| MOut                   (* until a RET/RETS has executed *)
| MCont.                 (* until something pauses it *)

Definition oob (st : state) : bool := (s_pc st <? s_orig st) || (65024 <=? s_pc st).

(** The property's pause conditions. *)
Definition pause_cond (bps : list (N * bool)) (st : state) : bool :=
  match bp_get bps (s_pc st) with Some _ => true | None => false end || at_halt st || oob st.

(** What a mode does with the instruction at PC: [None] pause now, [Some m'] execute it and go on
    in mode [m']. *)
Definition mode_next (m : mode) (st : state) : option mode :=
  match m with
  | MWait => None
  | MInto O => Some MWait
  | MInto (S n) => Some (MInto n)
  | MOver ra => if s_pc st =? ra then None else Some (MOver ra)
  | MOut => Some (if is_sig (significant (M st (s_pc st))) SigReturn then MWait else MOut)
  | MCont => Some MCont
  end.

Inductive phase_end :=
| PEPaused (st : state) (k : nat)                  (* paused at [st] after [k] instructions *)
| PEStopped (kind code : N) (st : state) (k : nat) (* the [k]-th instruction stopped the machine *)
| PEFuel.

(** From a state at which a pause may happen (every state but the one a command resumes from). *)
Fixpoint ref_at (feat : bool) (bps : list (N * bool)) (fuel : nat) (m : mode) (st : state) (k : nat) : phase_end :=
  match fuel with
  | O => PEFuel
  | S fuel' =>
      if pause_cond bps st then PEPaused st k
      else match mode_next m st with
           | None => PEPaused st k
           | Some m' =>
               match vm_step feat st with
               | Running st' => ref_at feat bps fuel' m' st' (S k)
               | Exited c s => PEStopped 1 c s (S k)
               | Panicked s => PEStopped 2 0 s (S k)
               | Diverged => PEStopped 3 0 st (S k)
               end
           end
  end.

(** The mode a resuming command arms. *)
Definition mode_of_cmd (feat : bool) (c : cmd) (st : state) : option mode :=
  match c with
  | CStepInto n => Some (MInto (N.to_nat (n - 1)))
  | CContinue => Some MCont
  | CStepOver => Some (if is_sig (significant (M st (s_pc st))) SigCall
                       then MOver (wrapping_add (s_pc st) 1) else MInto 0)
  | CStepOut => if feat then Some MOut else None
  | _ => None
  end.

(** A resuming command issued at [st]: refused on HALT, without effect outside user space;
    otherwise the instruction at PC executes whatever sits there (a breakpoint at PC does not hold
    it back: "resuming executes the marked instruction once"), then [ref_at] takes over. *)
Definition ref_cmd (feat : bool) (bps : list (N * bool)) (fuel : nat) (c : cmd) (st : state) : phase_end :=
  match mode_of_cmd feat c st with
  | None => PEPaused st 0
  | Some m =>
      if at_halt st || oob st then PEPaused st 0
      else match mode_next m st with
           | None => PEPaused st 0
           | Some m' =>
               match vm_step feat st with
               | Running st' => ref_at feat bps fuel m' st' 1
               | Exited c s => PEStopped 1 c s 1
               | Panicked s => PEStopped 2 0 s 1
               | Diverged => PEStopped 3 0 st 1
               end
           end
  end.

(* ------------------------------------------------------------------ *)
(** * The debugger refines the reference *)

Definition status_of (m : mode) : status :=
  match m with
  | MWait => WaitForAction
  | MInto n => StepIntoS (N.of_nat n)
  | MOver ra => StepOverS ra
  | MOut => FinishS
  | MCont => ContinueS
  end.

(** "The debugger is paused at (d, st)": the next iteration reads a command before anything
    executes, with the breakpoints it had. *)
Definition paused_at (env : dbg_env) (script : list cmd) (d : dbg) (st : state) : Prop :=
  exists d', d_status d' = WaitForAction /\ d_bps d' = d_bps d /\
             next_action env script d st = wait_loop env script d' st 0.

Lemma pause_cond_false bps st : pause_cond bps st = false ->
  bp_get bps (s_pc st) = None /\ at_halt st = false /\ runnable st.
Proof.
  unfold pause_cond, runnable, oob. intros H. apply orb_false_iff in H as [H H3]. apply orb_false_iff in H as [H1 H2].
  split; [destruct (bp_get bps (s_pc st)); [discriminate|reflexivity]|]. split; assumption.
Qed.

Lemma pause_cond_true bps st : pause_cond bps st = true ->
  bp_get bps (s_pc st) <> None \/ at_halt st = true \/ (s_pc st <? s_orig st) || (65024 <=? s_pc st) = true.
Proof.
  unfold pause_cond, oob. intros H. apply orb_true_iff in H as [H|H]; [apply orb_true_iff in H as [H|H]|].
  - left. destruct (bp_get bps (s_pc st)); [discriminate|discriminate].
  - right. left. exact H.
  - right. right. exact H.
Qed.

(** dispatch_status follows mode_next. *)
Lemma dispatch_mode d st m : d_status d = status_of m ->
  match mode_next m st with
  | None => exists d', dispatch_status d st = (None, d') /\ d_bps d' = d_bps d /\ d_status d' = WaitForAction
  | Some m' => exists d', dispatch_status d st = (Some Proceed, d') /\ d_bps d' = d_bps d /\ d_status d' = status_of m'
  end.
Proof.
  intros Hs. unfold dispatch_status. rewrite Hs. destruct m as [|n|ra| |]; cbn [status_of mode_next].
  - eexists. split; [reflexivity|]. split; [reflexivity|exact Hs].
  - destruct n as [|n].
    + cbn. eexists. split; [reflexivity|]. split; reflexivity.
    + assert (H : (0 <? N.of_nat (S n)) = true) by (apply N.ltb_lt; lia). rewrite H.
      eexists. split; [reflexivity|]. split; [reflexivity|]. cbn [set_status d_status status_of]. f_equal. lia.
  - destruct (s_pc st =? ra).
    + eexists. split; [reflexivity|]. split; [|reflexivity]. destruct (1 <? d_icount d); reflexivity.
    + eexists. split; [reflexivity|]. split; [reflexivity|exact Hs].
  - destruct (is_sig _ SigReturn).
    + eexists. split; [reflexivity|]. split; reflexivity.
    + eexists. split; [reflexivity|]. split; [reflexivity|exact Hs].
  - eexists. split; [reflexivity|]. split; [reflexivity|exact Hs].
Qed.

(** A tick that stops the machine. *)
Definition stops_with (env : dbg_env) (script : list cmd) (d : dbg) (st : state) (kind code : N) (s : state) : Prop :=
  exists d', tick env script d st = TStop kind code s d' 1 0.

(** Refinement, for the ticks after the resuming one. *)
Theorem ref_at_refined env script : forall fuel m st k d,
  d_status d = status_of m ->
  match ref_at (e_feat env) (d_bps d) fuel m st k with
  | PEPaused st' k' =>
      exists d', iter_tick env (k' - k) script d st = Some (d', st') /\ d_bps d' = d_bps d /\
                 paused_at env script d' st' /\ (k <= k')%nat
  | PEStopped kind code s k' =>
      exists d' st1, iter_tick env (k' - S k) script d st = Some (d', st1) /\ d_bps d' = d_bps d /\
                     stops_with env script d' st1 kind code s /\ (S k <= k')%nat
  | PEFuel => True
  end.
Proof.
  induction fuel as [|fuel IH]; intros m st k d Hs; cbn [ref_at]; [exact I|].
  destruct (pause_cond (d_bps d) st) eqn:Ep.
  - (* a pause condition holds *)
    exists d. rewrite Nat.sub_diag. split; [reflexivity|]. split; [reflexivity|]. split; [|lia].
    destruct (pause_forces_wait env script d st (pause_cond_true _ _ Ep)) as (d' & H1 & H2 & H3).
    exists d'. repeat split; assumption.
  - destruct (pause_cond_false _ _ Ep) as (Hb & Hh & Hr).
    assert (Hfree : free d st) by (repeat split; assumption).
    pose proof (dispatch_mode d st m Hs) as K.
    destruct (mode_next m st) as [m'|].
    + destruct K as (d1 & Hd & Hb1 & Hs1).
      pose proof (tick_proceed env script d d1 st Hfree Hd) as T. unfold after_exec in T.
      destruct (vm_step (e_feat env) st) as [st1|c s|s|] eqn:Ev.
      * (* one instruction, then on *)
        set (d2 := set_icount d1 (d_icount d1 + 1)) in *.
        assert (Hs2 : d_status d2 = status_of m') by exact Hs1.
        assert (Hb2 : d_bps d2 = d_bps d) by exact Hb1.
        specialize (IH m' st1 (S k) d2 Hs2). rewrite Hb2 in IH.
        destruct (ref_at (e_feat env) (d_bps d) fuel m' st1 (S k)) as [st' k'|kind code s k'|].
        -- destruct IH as (d' & Hi & Hbd & Hp & Hk). exists d'.
           replace (k' - k)%nat with (S (k' - S k)) by lia. rewrite iter_tick_S, T, Nat.eqb_refl.
           split; [exact Hi|]. split; [congruence|]. split; [exact Hp|lia].
        -- destruct IH as (d' & st2 & Hi & Hbd & Hp & Hk). exists d', st2.
           replace (k' - S k)%nat with (S (k' - S (S k))) by lia. rewrite iter_tick_S, T, Nat.eqb_refl.
           split; [exact Hi|]. split; [congruence|]. split; [exact Hp|lia].
        -- exact I.
      * exists d, st. rewrite Nat.sub_diag. split; [reflexivity|]. split; [reflexivity|]. split; [|lia].
        eexists. exact T.
      * exists d, st. rewrite Nat.sub_diag. split; [reflexivity|]. split; [reflexivity|]. split; [|lia].
        eexists. exact T.
      * exists d, st. rewrite Nat.sub_diag. split; [reflexivity|]. split; [reflexivity|]. split; [|lia].
        eexists. exact T.
    + (* the mode itself pauses here *)
      destruct K as (d1 & Hd & Hb1 & Hs1).
      exists d. rewrite Nat.sub_diag. split; [reflexivity|]. split; [reflexivity|]. split; [|lia].
      exists d1. split; [exact Hs1|]. split; [exact Hb1|].
      rewrite next_action_free by exact Hfree. rewrite Hd. reflexivity.
Qed.

(* ------------------------------------------------------------------ *)
(** * The resuming command itself *)

Lemma check_interrupts_bps d st : d_bps (check_interrupts d st) = d_bps d.
Proof. unfold check_interrupts. repeat break_match; reflexivity. Qed.

Lemma pc_not_next pc : (pc =? wrapping_add pc 1) = false.
Proof.
  apply N.eqb_neq. unfold wrapping_add, wrap. intros E.
  assert (HW : W <> 0) by (unfold W; lia).
  pose proof (N.mod_upper_bound (pc + 1) W HW) as Hu.
  destruct (N.lt_ge_cases (pc + 1) W) as [Hlt|Hge].
  - rewrite N.mod_small in E by exact Hlt. lia.
  - destruct (N.eq_dec (pc + 1) W) as [Heq|Hne].
    + rewrite Heq, N.mod_same in E by exact HW. unfold W in *. lia.
    + lia.
Qed.

Lemma armed_mode_next feat c st m : mode_of_cmd feat c st = Some m -> exists m', mode_next m st = Some m'.
Proof.
  intros H. destruct c; cbn [mode_of_cmd] in H; try discriminate.
  - inversion H; subst. destruct (is_sig _ SigCall); cbn [mode_next]; [|eexists; reflexivity].
    rewrite pc_not_next. eexists; reflexivity.
  - inversion H; subst. destruct (N.to_nat (count - 1)); eexists; reflexivity.
  - destruct feat; [|discriminate]. inversion H; subst. eexists; reflexivity.
  - inversion H; subst. eexists; reflexivity.
Qed.

Lemma run_command_arms env c d st m : mode_of_cmd (e_feat env) c st = Some m -> at_halt st = false ->
  run_command env c d st = CmdNone (set_status (set_icount d 0) (status_of m)) st.
Proof.
  intros H Hh. destruct (resume_commands env d st Hh) as (H1 & H2 & H3 & H4).
  destruct c; cbn [mode_of_cmd] in H; try discriminate.
  - inversion H; subst. rewrite H3. destruct (is_sig _ SigCall); reflexivity.
  - inversion H; subst. rewrite H1. cbn [status_of]. rewrite Nnat.N2Nat.id. reflexivity.
  - destruct (e_feat env) eqn:Ef; [|discriminate]. inversion H; subst. apply H4. reflexivity.
  - inversion H; subst. exact H2.
Qed.

(** Refinement for a resuming command read by a waiting debugger at a state in user space that is
    not on HALT — whether or not a breakpoint sits at PC. *)
Theorem ref_cmd_refined env fuel c rest d st m :
  d_status d = WaitForAction -> mode_of_cmd (e_feat env) c st = Some m -> at_halt st = false -> runnable st ->
  match ref_cmd (e_feat env) (d_bps d) fuel c st with
  | PEPaused st' k =>
      exists d1 st1 d', tick env (c :: rest) d st = TNext rest d1 st1 1 1 /\
        iter_tick env (k - 1) rest d1 st1 = Some (d', st') /\ d_bps d' = d_bps d /\
        paused_at env rest d' st' /\ (1 <= k)%nat
  | PEStopped kind code s k =>
      (k = 1%nat /\ exists d', tick env (c :: rest) d st = TStop kind code s d' 1 1) \/
      (exists d1 st1 d' st2, tick env (c :: rest) d st = TNext rest d1 st1 1 1 /\
         iter_tick env (k - 2) rest d1 st1 = Some (d', st2) /\ d_bps d' = d_bps d /\
         stops_with env rest d' st2 kind code s /\ (2 <= k)%nat)
  | PEFuel => True
  end.
Proof.
  intros Hs Hm Hh Hr. unfold ref_cmd. rewrite Hm, Hh. unfold runnable in Hr. unfold oob. rewrite Hr. cbn [orb].
  destruct (armed_mode_next _ _ _ _ Hm) as (m' & Hn). rewrite Hn.
  set (d0 := check_interrupts d st).
  pose proof (run_command_arms env c d0 st m Hm Hh) as Hc.
  set (d1 := set_status (set_icount d0 0) (status_of m)) in *.
  assert (Hs1 : d_status d1 = status_of m) by reflexivity.
  pose proof (dispatch_mode d1 st m Hs1) as K. rewrite Hn in K. destruct K as (d2 & Hd & Hb2 & Hs2).
  pose proof (tick_resume env c rest d st d1 d2 Hs Hh Hr Hc Hd) as T. unfold after_exec1 in T.
  assert (Hbd : d_bps d2 = d_bps d).
  { rewrite Hb2. unfold d1. cbn [set_status set_icount d_bps]. apply check_interrupts_bps. }
  destruct (vm_step (e_feat env) st) as [st1|cd s|s|] eqn:Ev.
  - set (d3 := set_icount d2 (d_icount d2 + 1)) in *.
    assert (Hs3 : d_status d3 = status_of m') by exact Hs2.
    assert (Hb3 : d_bps d3 = d_bps d) by exact Hbd.
    pose proof (ref_at_refined env rest fuel m' st1 1 d3 Hs3) as R. rewrite Hb3 in R.
    destruct (ref_at (e_feat env) (d_bps d) fuel m' st1 1) as [st' k'|kind code s k'|]; [| |exact I].
    + destruct R as (d' & Hi & Hbd' & Hp & Hk). exists d3, st1, d'. repeat split; try assumption; congruence.
    + destruct R as (d' & st2 & Hi & Hbd' & Hp & Hk). right. exists d3, st1, d', st2.
      repeat split; try assumption; congruence.
  - left. split; [reflexivity|]. eexists. exact T.
  - left. split; [reflexivity|]. eexists. exact T.
  - left. split; [reflexivity|]. eexists. exact T.
Qed.

(** Outside user space a resuming command executes nothing: the debugger is paused again at once. *)
Theorem resume_outside env c rest d st m :
  d_status d = WaitForAction -> mode_of_cmd (e_feat env) c st = Some m -> at_halt st = false -> oob st = true ->
  exists d1, tick env (c :: rest) d st = TNext rest d1 st 0 1 /\ d_bps d1 = d_bps d /\ paused_at env rest d1 st.
Proof.
  intros Hs Hm Hh Ho. unfold tick, next_action. unfold oob in Ho. rewrite Ho.
  set (d0 := check_interrupts (set_status (say d L_OOB_PC) WaitForAction) st).
  assert (Hs0 : d_status d0 = WaitForAction) by (apply check_interrupts_wait; reflexivity).
  assert (Hb0 : d_bps d0 = d_bps d) by (unfold d0; rewrite check_interrupts_bps; reflexivity).
  unfold dispatch_status at 1. rewrite Hs0. cbn [wait_loop].
  rewrite (run_command_arms env c d0 st m Hm Hh).
  set (d1 := set_status (set_icount d0 0) (status_of m)).
  assert (Hs1 : d_status d1 = status_of m) by reflexivity.
  assert (Hcost : cmd_cost c = 1) by (destruct c; cbn in Hm; try discriminate; reflexivity).
  pose proof (dispatch_mode d1 st m Hs1) as K.
  destruct (armed_mode_next _ _ _ _ Hm) as (m' & Hn). rewrite Hn in K.
  destruct K as (d2 & Hd & Hb2 & Hs2). rewrite Hd, Hh, Ho, Hcost. eexists. split; [reflexivity|].
  split; [rewrite Hb2; exact Hb0|].
  destruct (pause_forces_wait env rest d2 st (or_intror (or_intror Ho))) as (d' & H1 & H2 & H3).
  exists d'. repeat split; assumption.
Qed.

(* ------------------------------------------------------------------ *)
(** * The declarative reading of the reference *)

(** Wherever the reference pauses, it got there by executing instructions of the plain machine one
    after the other from states at which no pause condition held. *)
Lemma ref_at_path feat bps : forall fuel m st k st' k', ref_at feat bps fuel m st k = PEPaused st' k' ->
  (k <= k')%nat /\ steps feat (k' - k) st = Some st' /\
  (forall i, (i < k' - k)%nat -> exists si, steps feat i st = Some si /\ pause_cond bps si = false).
Proof.
  induction fuel as [|fuel IH]; intros m st k st' k' H; cbn [ref_at] in H; [discriminate|].
  destruct (pause_cond bps st) eqn:Ep.
  - inversion H; subst. rewrite Nat.sub_diag. split; [lia|]. split; [reflexivity|]. intros i Hi; lia.
  - destruct (mode_next m st) as [m'|].
    + destruct (vm_step feat st) as [st1| | |] eqn:Ev; try discriminate.
      destruct (IH m' st1 (S k) st' k' H) as (Hk & Hsteps & Hfree).
      split; [lia|]. replace (k' - k)%nat with (S (k' - S k)) by lia. split.
      * rewrite steps_S, Ev. exact Hsteps.
      * intros [|i] Hi; [exists st; split; [reflexivity|exact Ep]|].
        destruct (Hfree i ltac:(lia)) as (si & H1 & H2). exists si. rewrite steps_S, Ev. split; assumption.
    + inversion H; subst. rewrite Nat.sub_diag. split; [lia|]. split; [reflexivity|]. intros i Hi; lia.
Qed.

(** `continue` pauses only where a pause condition holds. *)
Lemma ref_at_cont feat bps : forall fuel st k st' k', ref_at feat bps fuel MCont st k = PEPaused st' k' ->
  pause_cond bps st' = true.
Proof.
  induction fuel as [|fuel IH]; intros st k st' k' H; cbn [ref_at mode_next] in H; [discriminate|].
  destruct (pause_cond bps st) eqn:Ep; [inversion H; subst; exact Ep|].
  destruct (vm_step feat st); try discriminate. exact (IH _ _ _ _ H).
Qed.

(** `step into` with [n] more to go: at most [n+1] instructions, and fewer only at a pause condition. *)
Lemma ref_at_into feat bps : forall fuel n st k st' k', ref_at feat bps fuel (MInto n) st k = PEPaused st' k' ->
  (k' - k <= S n)%nat /\ ((k' - k = S n)%nat \/ pause_cond bps st' = true).
Proof.
  induction fuel as [|fuel IH]; intros n st k st' k' H; cbn [ref_at] in H; [discriminate|].
  destruct (pause_cond bps st) eqn:Ep.
  - inversion H; subst. rewrite Nat.sub_diag. split; [lia|]. right. exact Ep.
  - destruct n as [|n]; cbn [mode_next] in H.
    + destruct (vm_step feat st) as [st1| | |]; try discriminate.
      (* mode MWait at st1: pauses there *)
      destruct fuel as [|fuel]; cbn [ref_at mode_next] in H; [discriminate|].
      destruct (pause_cond bps st1); inversion H; subst; (split; [lia|left; lia]).
    + destruct (vm_step feat st) as [st1| | |]; try discriminate.
      destruct (ref_at_path feat bps fuel (MInto n) st1 (S k) st' k' H) as (Hk & _).
      destruct (IH n st1 (S k) st' k' H) as (H1 & H2). split; [lia|]. destruct H2 as [H2|H2]; [left; lia|right; exact H2].
Qed.

(** `step` over a call: pauses where PC is the return address, or at a pause condition; no state
    passed on the way had PC at the return address. *)
Lemma ref_at_over feat bps ra : forall fuel st k st' k', ref_at feat bps fuel (MOver ra) st k = PEPaused st' k' ->
  (s_pc st' = ra \/ pause_cond bps st' = true) /\
  (forall i, (i < k' - k)%nat -> exists si, steps feat i st = Some si /\ s_pc si <> ra).
Proof.
  induction fuel as [|fuel IH]; intros st k st' k' H; cbn [ref_at] in H; [discriminate|].
  destruct (pause_cond bps st) eqn:Ep.
  - inversion H; subst. rewrite Nat.sub_diag. split; [right; exact Ep|]. intros i Hi; lia.
  - cbn [mode_next] in H. destruct (N.eqb_spec (s_pc st) ra) as [E|E].
    + inversion H; subst. rewrite Nat.sub_diag. split; [left; reflexivity|]. intros i Hi; lia.
    + destruct (vm_step feat st) as [st1| | |] eqn:Ev; try discriminate.
      destruct (ref_at_path feat bps fuel (MOver ra) st1 (S k) st' k' H) as (Hk & _).
      destruct (IH st1 (S k) st' k' H) as (H1 & H2). split; [exact H1|].
      intros [|i] Hi; [exists st; split; [reflexivity|exact E]|].
      destruct (H2 i ltac:(lia)) as (si & A & B). exists si. rewrite steps_S, Ev. split; assumption.
Qed.

(** `step out`: pauses right after the first RET/RETS it executed, or at a pause condition; none of
    the instructions executed before was a RET/RETS. *)
Definition at_return (st : state) : bool := is_sig (significant (M st (s_pc st))) SigReturn.

Lemma ref_at_out feat bps : forall fuel st k st' k', ref_at feat bps fuel MOut st k = PEPaused st' k' ->
  (pause_cond bps st' = true \/
   exists j sj, k' - k = S j /\ steps feat j st = Some sj /\ at_return sj = true)%nat /\
  (forall i, (S i < k' - k)%nat -> exists si, steps feat i st = Some si /\ at_return si = false).
Proof.
  induction fuel as [|fuel IH]; intros st k st' k' H; cbn [ref_at] in H; [discriminate|].
  destruct (pause_cond bps st) eqn:Ep.
  - inversion H; subst. rewrite Nat.sub_diag. split; [left; exact Ep|]. intros i Hi; lia.
  - cbn [mode_next] in H. destruct (vm_step feat st) as [st1| | |] eqn:Ev; try discriminate.
    fold (at_return st) in H. destruct (at_return st) eqn:Er.
    + (* the RET executes, then MWait pauses at st1 *)
      destruct fuel as [|fuel]; cbn [ref_at mode_next] in H; [discriminate|].
      assert (E : st' = st1 /\ k' = S k) by (destruct (pause_cond bps st1); inversion H; subst; split; reflexivity).
      destruct E as (-> & ->). replace (S k - k)%nat with 1%nat by lia. split.
      * right. exists 0%nat, st. split; [reflexivity|]. split; [reflexivity|exact Er].
      * intros i Hi; lia.
    + destruct (ref_at_path feat bps fuel MOut st1 (S k) st' k' H) as (Hk & _).
      destruct (IH st1 (S k) st' k' H) as (H1 & H2). split.
      * destruct H1 as [H1|(j & sj & A & B & C)]; [left; exact H1|].
        right. exists (S j), sj. split; [lia|]. split; [rewrite steps_S, Ev; exact B|exact C].
      * intros [|i] Hi; [exists st; split; [reflexivity|exact Er]|].
        destruct (H2 i ltac:(lia)) as (si & A & B). exists si. rewrite steps_S, Ev. split; assumption.
Qed.

(* ------------------------------------------------------------------ *)
(** * Breakpoints in the reference (C11) *)

(** Reaching an address that carries a breakpoint pauses before the instruction there executes,
    whatever was running ... *)
Lemma ref_at_breakpoint feat bps fuel m st k : bp_get bps (s_pc st) <> None ->
  ref_at feat bps (S fuel) m st k = PEPaused st k.
Proof.
  intros H. cbn [ref_at]. unfold pause_cond. destruct (bp_get bps (s_pc st)); [reflexivity|congruence].
Qed.

(** ... an address without one (not HALT, in user space) never pauses `continue` ... *)
Lemma ref_at_no_breakpoint feat bps fuel st k :
  bp_get bps (s_pc st) = None -> at_halt st = false -> oob st = false ->
  ref_at feat bps (S fuel) MCont st k =
  match vm_step feat st with
  | Running st' => ref_at feat bps fuel MCont st' (S k)
  | Exited c s => PEStopped 1 c s (S k)
  | Panicked s => PEStopped 2 0 s (S k)
  | Diverged => PEStopped 3 0 st (S k)
  end.
Proof.
  intros Hb Hh Ho. cbn [ref_at mode_next]. unfold pause_cond. rewrite Hb, Hh, Ho. reflexivity.
Qed.

(** ... and resuming from a breakpoint executes the marked instruction (once: the count starts at
    1 and the next arrival at the address is an ordinary [ref_at] state, where it fires again). *)
Lemma ref_cmd_leaves_breakpoint feat bps fuel c st m :
  mode_of_cmd feat c st = Some m -> at_halt st = false -> oob st = false ->
  exists m', mode_next m st = Some m' /\
  ref_cmd feat bps fuel c st =
  match vm_step feat st with
  | Running st' => ref_at feat bps fuel m' st' 1
  | Exited cd s => PEStopped 1 cd s 1
  | Panicked s => PEStopped 2 0 s 1
  | Diverged => PEStopped 3 0 st 1
  end.
Proof.
  intros Hm Hh Ho. destruct (armed_mode_next _ _ _ _ Hm) as (m' & Hn). exists m'. split; [exact Hn|].
  unfold ref_cmd. rewrite Hm, Hh, Ho, Hn. reflexivity.
Qed.
