(* DbgStreamLines.v — THEOREM: the one-stream debugger model's reader ([DbgStream.fetch]: cut the BYTES of the
   stream at the first newline / `;`, decode the line) is the reader in the order the code works in
   ([fetch_chars]: [Utf8Lines.read_line], one decoded character at a time, tested for the separators) - for
   every byte stream and every fuel.  A rewriting of [fetch] with [Utf8Lines.read_line_eq]. *)
From Coq Require Import List NArith Bool.
From Lace Require Import Word Machine Isa Vm Asm Dbg DebugText DbgStream.
From Lace Require Utf8 Utf8Lines Cmd.
Import ListNotations.
Open Scope N_scope.

(** [fetch], reading as `Stdin::read` does. *)
Fixpoint fetch_chars (fuel : nat) (inp : list N) : fetched :=
  match fuel with
  | O => FLeave
  | S fuel' =>
      match Utf8Lines.read_line (S (length inp)) inp [] with
      | (None, rest) => FEof rest
      | (Some line, rest) =>
          match Cmd.parse_line line with
          | None => fetch_chars fuel' rest
          | Some (Cmd.Ok c) => FCmd (conv_cmd c) rest
          | Some (Cmd.Err _) => FCmd CBad rest
          | Some _ => FLeave
          end
      end
  end.

Theorem fetch_in_code_order : forall fuel inp, fetch fuel inp = fetch_chars fuel inp.
Proof.
  induction fuel as [|fuel IH]; intros inp; [reflexivity|].
  cbn [fetch fetch_chars]. rewrite (Utf8Lines.read_line_eq inp).
  destruct (Cmd.stdin_read inp) as [[raw|] rest]; cbn [fst snd]; [|reflexivity].
  destruct (Cmd.parse_line (Utf8.decode_lossy raw)) as [[c|e|x|y]|]; try reflexivity. apply IH.
Qed.
