(* Word.v — 16-bit words on N, the exhaustive-sweep combinator and its lifting lemma.
   Shared by SPEC and MODEL.  Stdlib only. *)
From Coq Require Export NArith List Bool Lia.
Export ListNotations.
Open Scope N_scope.

Arguments N.add : simpl never.
Arguments N.sub : simpl never.
Arguments N.mul : simpl never.
Arguments N.div : simpl never.
Arguments N.modulo : simpl never.
Arguments N.eqb : simpl never.
Arguments N.ltb : simpl never.
Arguments N.leb : simpl never.
Arguments N.land : simpl never.
Arguments N.lor : simpl never.
Arguments N.lxor : simpl never.
Arguments N.shiftr : simpl never.
Arguments N.shiftl : simpl never.
Arguments N.pow : simpl never.

Definition W : N := 65536.

(** [wrap x] is [x] as a [u16] (Rust [as u16] / [wrapping_*]). *)
Definition wrap (x : N) : N := x mod W.

Lemma wrap_lt x : wrap x < W.
Proof. unfold wrap, W. apply N.mod_lt. discriminate. Qed.

Lemma wrap_small x : x < W -> wrap x = x.
Proof. intros H. unfold wrap. apply N.mod_small. exact H. Qed.

(** Bitwise complement of a 16-bit value (Rust [!x] on [u16]). *)
Definition not16 (x : N) : N := N.lxor x 65535.

(* ------------------------------------------------------------------ *)
(** * Exhaustive sweep over all n-bit numbers, by binary splitting. *)

Fixpoint allbits (n : nat) (acc : N) (f : N -> bool) : bool :=
  match n with
  | O => f acc
  | S n' => allbits n' (2 * acc) f && allbits n' (2 * acc + 1) f
  end.

Lemma allbits_spec n : forall acc f,
  allbits n acc f = true ->
  forall x, x < 2 ^ N.of_nat n -> f (acc * 2 ^ N.of_nat n + x) = true.
Proof.
  induction n as [|n IH]; intros acc f H x Hx.
  - cbn in Hx. assert (x = 0) by lia. subst x.
    cbn [allbits] in H. replace (acc * 2 ^ N.of_nat 0 + 0) with acc; [exact H|].
    cbn. lia.
  - cbn [allbits] in H. apply andb_true_iff in H. destruct H as [H0 H1].
    rewrite Nat2N.inj_succ, N.pow_succ_r' in *.
    set (p := 2 ^ N.of_nat n) in *.
    destruct (N.ltb_spec x p) as [Hlt|Hge].
    + specialize (IH _ _ H0 x Hlt). fold p in IH.
      replace (acc * (2 * p) + x) with (2 * acc * p + x) by ring. exact IH.
    + assert (Hx' : x - p < p) by lia.
      specialize (IH _ _ H1 (x - p) Hx'). fold p in IH.
      replace (acc * (2 * p) + x) with ((2 * acc + 1) * p + (x - p)); [exact IH|].
      assert (x = p + (x - p)) by lia.
      rewrite H at 2. ring.
Qed.

Definition all16 (f : N -> bool) : bool := allbits 16 0 f.

Lemma all16_spec f : all16 f = true -> forall x, x < W -> f x = true.
Proof.
  intros H x Hx. unfold all16 in H.
  pose proof (allbits_spec 16 0 f H x) as K.
  change (2 ^ N.of_nat 16) with W in K. rewrite N.mul_0_l, N.add_0_l in K. auto.
Qed.

Definition all8 (f : N -> bool) : bool := allbits 8 0 f.
Lemma all8_spec f : all8 f = true -> forall x, x < 256 -> f x = true.
Proof.
  intros H x Hx. unfold all8 in H.
  pose proof (allbits_spec 8 0 f H x) as K.
  change (2 ^ N.of_nat 8) with 256 in K. rewrite N.mul_0_l, N.add_0_l in K. auto.
Qed.

(* ------------------------------------------------------------------ *)
(** * Sign extension: arithmetic (SPEC) form. *)

(** The low [k] bits of [x], read as a two's-complement number, as a 16-bit word. *)
Definition sext (k : N) (x : N) : N :=
  let v := x mod 2 ^ k in
  if v <? 2 ^ (k - 1) then v else v + (W - 2 ^ k).

(** A 16-bit word read as a signed number is negative. *)
Definition is_neg (x : N) : bool := 32768 <=? x.

(** [addw a b] = 16-bit wrap-around addition. *)
Definition addw (a b : N) : N := (a + b) mod W.

Lemma addw_lt a b : addw a b < W.
Proof. apply wrap_lt. Qed.
