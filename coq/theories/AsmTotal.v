(* AsmTotal.v — the assembler model never reaches a panic ([Bad]) and its loops are exhausted by
   the fuel the top level hands them: C05's totality, for every source text. *)
From Coq Require Import ZArith Lia.
From Lace Require Import Word Asm.
Open Scope N_scope.

(* ------------------------------------------------------------------ *)
(** * The lexer consumes what it says it consumes *)

Lemma take_while_app p l : forall a b, take_while p l = (a, b) -> l = a ++ b.
Proof.
  induction l as [|c r IH]; intros a b H; cbn in H.
  - inversion H; reflexivity.
  - destruct (p c).
    + destruct (take_while p r) as [a' b'] eqn:E. inversion H; subst. cbn. f_equal. apply IH. reflexivity.
    + inversion H; subst. reflexivity.
Qed.

Lemma str_scan_app : forall n l, (length l <= n)%nat -> forall t a b, str_scan l = (t, a, b) -> l = a ++ b.
Proof.
  induction n as [|n IH]; intros l Hn t a b H.
  - destruct l; [cbn in H; inversion H; reflexivity|cbn in Hn; lia].
  - destruct l as [|c r]; [cbn in H; inversion H; reflexivity|].
    cbn [str_scan] in H. cbn in Hn.
    destruct (c =? 10); [inversion H; reflexivity|].
    destruct (c =? 34); [inversion H; reflexivity|].
    destruct (c =? 92).
    + destruct r as [|c2 r2]; [inversion H; reflexivity|].
      destruct (str_scan r2) as [[t' a'] b'] eqn:E. inversion H; subst.
      cbn. do 2 f_equal. eapply IH; [|exact E]. cbn in Hn. lia.
    + destruct (str_scan r) as [[t' a'] b'] eqn:E. inversion H; subst.
      cbn. f_equal. eapply IH; [|exact E]. lia.
Qed.

(** What [advance_token] returns splits its input, and it consumes at least one character. *)
Definition splits (l : list N) (x : lexed) : Prop :=
  match x with
  | LexTok _ consumed rest => l = consumed ++ rest /\ consumed <> []
  | LexErr _ _ _ => True
  end.

Lemma ident_splits feat pre rest : pre <> [] -> splits (pre ++ rest) (ident feat pre rest).
Proof.
  intros Hp. unfold ident. destruct (take_while is_id rest) as [more rest'] eqn:E.
  apply take_while_app in E. subst rest.
  destruct (is_stack_word _ && negb feat); [exact I|].
  cbn. split; [rewrite app_assoc; reflexivity|]. destruct pre; [congruence|discriminate].
Qed.

Lemma hex_splits pre rest : pre <> [] -> splits (pre ++ rest) (hex pre rest).
Proof.
  intros Hp. unfold hex. destruct (take_while _ rest) as [digits rest'] eqn:E.
  apply take_while_app in E. subst rest.
  assert (K : (pre ++ digits ++ rest' = (pre ++ digits) ++ rest') /\ pre ++ digits <> []).
  { split; [apply app_assoc|]. destruct pre; [congruence|discriminate]. }
  destruct (parse_i16 16 digits); [exact K|].
  destruct (parse_u16 16 digits) as [v|[]]; try exact K; exact I.
Qed.

Lemma dec_splits pre rest : pre <> [] -> splits (pre ++ rest) (dec pre rest).
Proof.
  intros Hp. unfold dec. destruct (take_while _ rest) as [digits rest'] eqn:E.
  apply take_while_app in E. subst rest.
  assert (K : (pre ++ digits ++ rest' = (pre ++ digits) ++ rest') /\ pre ++ digits <> []).
  { split; [apply app_assoc|]. destruct pre; [congruence|discriminate]. }
  destruct (parse_i16 10 digits); [exact K|].
  destruct (parse_u16 10 digits); [exact K|exact I].
Qed.

Lemma dir_splits pre rest : pre <> [] -> splits (pre ++ rest) (dir pre rest).
Proof.
  intros Hp. unfold dir. destruct (take_while is_id rest) as [more rest'] eqn:E.
  apply take_while_app in E. subst rest.
  destruct (check_directive _); [|exact I].
  cbn. split; [apply app_assoc|]. destruct pre; [congruence|discriminate].
Qed.

Lemma advance_token_splits feat l x : advance_token feat l = Some x -> splits l x.
Proof.
  destruct l as [|c rest]; [discriminate|]. cbn [advance_token]. intros H. inversion H; subst x; clear H.
  destruct (c =? 59).
  { destruct (take_while _ rest) as [a b] eqn:E. apply take_while_app in E. subst rest.
    cbn. split; [reflexivity|discriminate]. }
  destruct (is_whitespace c).
  { destruct (take_while _ rest) as [a b] eqn:E. apply take_while_app in E. subst rest.
    cbn. split; [reflexivity|discriminate]. }
  destruct ((c =? 120) || (c =? 88)).
  { apply (hex_splits [c] rest). discriminate. }
  destruct (c =? 48).
  { destruct rest as [|x rest']; [apply (ident_splits feat [c] []); discriminate|].
    destruct ((x =? 120) || (x =? 88)).
    - apply (hex_splits [c; x] rest'). discriminate.
    - apply (ident_splits feat [c] (x :: rest')). discriminate. }
  destruct ((c =? 114) || (c =? 82)).
  { destruct rest as [|d rest']; [apply (ident_splits feat [c] []); discriminate|].
    destruct (is_reg_num d); [|apply (ident_splits feat [c] (d :: rest')); discriminate].
    destruct (take_while is_reg_num (d :: rest')) as [nums rest''] eqn:E.
    pose proof (take_while_app _ _ _ _ E) as Happ.
    match goal with |- splits _ (if ?b then _ else _) => destruct b end.
    - cbn. rewrite Happ. split; [reflexivity|discriminate].
    - rewrite Happ. apply (ident_splits feat (c :: nums) rest''). discriminate. }
  destruct (is_id c).
  { apply (ident_splits feat [c] rest). discriminate. }
  destruct (c =? 35).
  { apply (dec_splits [c] rest). discriminate. }
  destruct (c =? 46).
  { apply (dir_splits [c] rest). discriminate. }
  destruct (c =? 34).
  { destruct (str_scan rest) as [[t a] b] eqn:E.
    apply (str_scan_app (length rest) rest (le_n _)) in E. subst rest.
    destruct t; [|exact I]. cbn. split; [reflexivity|discriminate]. }
  destruct (take_while _ rest) as [a b]. exact I.
Qed.

(** The lexer itself never produces the end-of-input, raw-word or breakpoint kinds. *)
Definition lexer_kind (k : tkind) : Prop :=
  match k with KEof | KByte _ | KBreakpoint => False | _ => True end.

Lemma check_instruction_kind id : lexer_kind (check_instruction id).
Proof.
  unfold check_instruction.
  repeat match goal with |- context [if ?b then _ else _] => destruct b; [exact I|] end. exact I.
Qed.

Lemma check_trap_kind id : lexer_kind (check_trap id).
Proof.
  unfold check_trap.
  repeat match goal with |- context [if ?b then _ else _] => destruct b; [exact I|] end. exact I.
Qed.

Definition lexed_kind (x : lexed) : Prop :=
  match x with LexTok k _ _ => lexer_kind k | LexErr _ _ _ => True end.

Lemma ident_kind feat pre rest : lexed_kind (ident feat pre rest).
Proof.
  unfold ident. destruct (take_while is_id rest) as [more rest'].
  destruct (is_stack_word _ && negb feat); [exact I|]. cbn.
  pose proof (check_instruction_kind (List.map to_lower (last pre 0 :: more))) as K.
  destruct (check_instruction _); try exact K. apply check_trap_kind.
Qed.

Lemma hex_kind pre rest : lexed_kind (hex pre rest).
Proof.
  unfold hex. destruct (take_while _ rest) as [digits rest'].
  destruct (parse_i16 16 digits); [exact I|].
  destruct (parse_u16 16 digits) as [v|[]]; exact I.
Qed.

Lemma dec_kind pre rest : lexed_kind (dec pre rest).
Proof.
  unfold dec. destruct (take_while _ rest) as [digits rest'].
  destruct (parse_i16 10 digits); [exact I|]. destruct (parse_u16 10 digits); exact I.
Qed.

Lemma dir_kind pre rest : lexed_kind (dir pre rest).
Proof.
  unfold dir. destruct (take_while is_id rest) as [more rest']. destruct (check_directive _); exact I.
Qed.

Lemma advance_token_kind feat l x : advance_token feat l = Some x -> lexed_kind x.
Proof.
  destruct l as [|c rest]; [discriminate|]. cbn [advance_token]. intros H. inversion H; subst x; clear H.
  destruct (c =? 59); [destruct (take_while _ rest); exact I|].
  destruct (is_whitespace c); [destruct (take_while _ rest); exact I|].
  destruct ((c =? 120) || (c =? 88)); [apply hex_kind|].
  destruct (c =? 48).
  { destruct rest as [|x rest']; [apply ident_kind|].
    destruct ((x =? 120) || (x =? 88)); [apply hex_kind|apply ident_kind]. }
  destruct ((c =? 114) || (c =? 82)).
  { destruct rest as [|d rest']; [apply ident_kind|].
    destruct (is_reg_num d); [|apply ident_kind].
    destruct (take_while is_reg_num (d :: rest')) as [nums rest''].
    match goal with |- lexed_kind (if ?b then _ else _) => destruct b end; [exact I|apply ident_kind]. }
  destruct (is_id c); [apply ident_kind|].
  destruct (c =? 35); [apply dec_kind|].
  destruct (c =? 46); [apply dir_kind|].
  destruct (c =? 34); [destruct (str_scan rest) as [[t a] b]; destruct t; exact I|].
  destruct (take_while _ rest). exact I.
Qed.

(** One lexing step yields a strictly shorter rest, unless it is the end-of-input token. *)
Lemma lex_at_shorter feat l pos t rest pos' :
  lex_at feat l pos = StepTok t rest pos' ->
  (tk t = KEof /\ rest = [] /\ l = []) \/ (lexer_kind (tk t) /\ (length rest < length l)%nat).
Proof.
  unfold lex_at. destruct (advance_token feat l) as [x|] eqn:E.
  - pose proof (advance_token_splits _ _ _ E) as S.
    pose proof (advance_token_kind _ _ _ E) as K.
    destruct x as [k consumed r|d back consumed]; [|discriminate].
    intros H. inversion H; subst; clear H. cbn in S, K. destruct S as [Hl Hne].
    right. split; [exact K|]. rewrite Hl, app_length. destruct consumed; [congruence|cbn; lia].
  - intros H. inversion H; subst. left. destruct l; [auto|discriminate].
Qed.

Lemma advance_real_shorter feat l pos t rest pos' :
  advance_real feat l pos = StepTok t rest pos' ->
  (tk t = KEof /\ rest = []) \/ (lexer_kind (tk t) /\ (length rest < length l)%nat).
Proof.
  unfold advance_real. destruct (lex_at feat l pos) as [t1 r1 p1|] eqn:E1; [|discriminate].
  destruct (lex_at_shorter _ _ _ _ _ _ E1) as [(K & -> & ->)|(K & Hlen)].
  - rewrite K. intros H. inversion H; subst. left. auto.
  - destruct (tk t1) eqn:Ek; try (intros H; inversion H; subst; right; rewrite Ek; auto; fail).
    intros H. destruct (lex_at_shorter _ _ _ _ _ _ H) as [(K2 & -> & ->)|(K2 & Hlen2)].
    + left; auto.
    + right. split; [exact K2|lia].
Qed.

(* ------------------------------------------------------------------ *)
(** * Preprocessing: enough fuel, and only parser-ready tokens come out *)

Definition ptok_ok (t : token) : Prop :=
  match tk t with
  | KLabel | KInstr _ | KTrap _ | KLit _ | KDir DOrig | KReg _ | KByte _ | KBreakpoint => True
  | _ => False
  end.

Lemma lrev_Forall {A} (P : A -> Prop) l : Forall P l -> Forall P (lrev l).
Proof. intros H. unfold lrev. rewrite <- rev_alt. apply Forall_rev. exact H. Qed.

Lemma repeat_Forall {A} (P : A -> Prop) x n : P x -> Forall P (repeat x n).
Proof. intros H. induction n; cbn; constructor; assumption. Qed.

Definition good (r : res (list token)) : Prop :=
  match r with Ok toks => Forall ptok_ok toks | Err _ _ _ => True | Bad _ => False end.

Lemma preprocess_good feat fuel : forall l pos acc,
  (length l < fuel)%nat -> Forall ptok_ok acc -> good (preprocess feat fuel l pos acc).
Proof.
  induction fuel as [|fuel IH]; intros l pos acc Hf Hacc; [lia|].
  cbn [preprocess].
  destruct (advance_real feat l pos) as [t rest pos'|d a n] eqn:E; [|exact I].
  destruct (advance_real_shorter _ _ _ _ _ _ E) as [(K & ->)|(K & Hlen)].
  { rewrite K. cbn. apply lrev_Forall. exact Hacc. }
  assert (Hrest : (length rest < fuel)%nat) by lia.
  (* operand-taking directives read one more token *)
  assert (Hnext : forall v rest2 pos2, advance_real feat rest pos' = StepTok v rest2 pos2 ->
                                        (length rest2 < fuel)%nat).
  { intros v rest2 pos2 E2. destruct (advance_real_shorter _ _ _ _ _ _ E2) as [(_ & ->)|(_ & H2)]; cbn; lia. }
  destruct (tk t) as [ |i|tr|li|di|r|v| | | | ] eqn:Ek; cbn in K; try contradiction.
  - apply IH; [exact Hrest|]. constructor; [unfold ptok_ok; rewrite Ek; exact I|exact Hacc].
  - apply IH; [exact Hrest|]. constructor; [unfold ptok_ok; rewrite Ek; exact I|exact Hacc].
  - apply IH; [exact Hrest|]. constructor; [unfold ptok_ok; rewrite Ek; exact I|exact Hacc].
  - apply IH; [exact Hrest|]. constructor; [unfold ptok_ok; rewrite Ek; exact I|exact Hacc].
  - destruct di.
    + apply IH; [exact Hrest|]. constructor; [unfold ptok_ok; rewrite Ek; exact I|exact Hacc].
    + cbn. apply lrev_Forall. exact Hacc.
    + (* stringz *)
      destruct (advance_real feat rest pos') as [v rest2 pos2|d a n] eqn:E2; [|exact I].
      specialize (Hnext _ _ _ eq_refl).
      destruct (tk v) as [ | | |[x|x| ]| | | | | | | ]; try exact I.
      apply IH; [exact Hnext|].
      constructor; [exact I|]. apply Forall_app. split; [|exact Hacc].
      apply lrev_Forall. apply Forall_forall. intros tkn Hin.
      apply in_map_iff in Hin. destruct Hin as (c & <- & _). exact I.
    + (* blkw *)
      destruct (advance_real feat rest pos') as [v rest2 pos2|d a n] eqn:E2; [|exact I].
      specialize (Hnext _ _ _ eq_refl).
      destruct (tk v) as [ | | |[x|x| ]| | | | | | | ]; try exact I;
        (apply IH; [exact Hnext|]; apply Forall_app; split; [apply repeat_Forall; exact I|exact Hacc]).
    + (* fill *)
      destruct (advance_real feat rest pos') as [v rest2 pos2|d a n] eqn:E2; [|exact I].
      specialize (Hnext _ _ _ eq_refl).
      destruct (tk v) as [ | | |[x|x| ]| | | | | | | ]; try exact I;
        (apply IH; [exact Hnext|]; constructor; [exact I|exact Hacc]).
    + apply IH; [exact Hrest|]. constructor; [exact I|exact Hacc].
  - apply IH; [exact Hrest|]. constructor; [unfold ptok_ok; rewrite Ek; exact I|exact Hacc].
  - apply IH; [exact Hrest|exact Hacc].
  - apply IH; [exact Hrest|exact Hacc].
Qed.

(* ------------------------------------------------------------------ *)
(** * Parsing *)

Definition is_suffix (s l : list token) : Prop := exists pre, l = pre ++ s.

Lemma is_suffix_refl l : is_suffix l l.
Proof. exists []. reflexivity. Qed.

Lemma is_suffix_trans a b c : is_suffix a b -> is_suffix b c -> is_suffix a c.
Proof. intros [p ->] [q ->]. exists (q ++ p). rewrite app_assoc. reflexivity. Qed.

Lemma is_suffix_cons t r : is_suffix r (t :: r).
Proof. exists [t]. reflexivity. Qed.

Lemma is_suffix_len s l : is_suffix s l -> (length s <= length l)%nat.
Proof. intros [p ->]. rewrite app_length. lia. Qed.

Lemma is_suffix_Forall (P : token -> Prop) s l : is_suffix s l -> Forall P l -> Forall P s.
Proof. intros [p ->] H. apply Forall_app in H. apply H. Qed.

(** "never [Bad]; if [Ok], the remaining tokens are a suffix of the given ones". *)
Definition step_ok {A} (toks : list token) (r : res (A * pst)) : Prop :=
  match r with
  | Ok (_, (toks', _)) => is_suffix toks' toks
  | Err _ _ _ => True
  | Bad _ => False
  end.

Lemma expect_lit_ok b p srclen : step_ok (fst p) (expect_lit b p srclen).
Proof.
  unfold expect_lit. destruct (fst p) as [|t r]; [exact I|].
  destruct (tk t) as [ | | |[x|x| ]| | | | | | | ]; try exact I;
    destruct (check_range b x); try exact I; apply is_suffix_cons.
Qed.

Lemma expect_reg_ok p srclen : step_ok (fst p) (expect_reg p srclen).
Proof.
  unfold expect_reg. destruct (fst p) as [|t r]; [exact I|].
  destruct (tk t); try exact I. apply is_suffix_cons.
Qed.

Lemma expect_label_ok sym p srclen : step_ok (fst p) (expect_label sym p srclen).
Proof.
  unfold expect_label. destruct (fst p) as [|t r]; [exact I|].
  destruct (tk t); try exact I. apply is_suffix_cons.
Qed.

Lemma expect_lit_or_reg_ok p srclen : step_ok (fst p) (expect_lit_or_reg p srclen).
Proof.
  unfold expect_lit_or_reg. destruct (fst p) as [|t r] eqn:E; [exact I|].
  destruct (tk t); try exact I.
  - pose proof (expect_lit_ok (Signed 5) p srclen) as K. rewrite E in K.
    destruct (expect_lit (Signed 5) p srclen) as [[v [? ?]]| |]; exact K.
  - pose proof (expect_reg_ok p srclen) as K. rewrite E in K.
    destruct (expect_reg p srclen) as [[v [? ?]]| |]; exact K.
Qed.

Lemma expect_lit_or_label_ok sym line nb p srclen :
  step_ok (fst p) (expect_lit_or_label sym line nb p srclen).
Proof.
  unfold expect_lit_or_label. destruct (fst p) as [|t r] eqn:E; [exact I|].
  destruct (tk t); try exact I.
  - pose proof (expect_label_ok sym p srclen) as K. rewrite E in K. exact K.
  - pose proof (expect_lit_ok (Signed nb) p srclen) as K. rewrite E in K.
    destruct (expect_lit (Signed nb) p srclen) as [[v [? ?]]| |]; exact K.
Qed.

(** Chaining: bind of two good steps is a good step. *)
Lemma bind_step_ok {A B} toks (x : res (A * pst)) (f : A * pst -> res (B * pst)) :
  step_ok toks x ->
  (forall a (p' : pst), is_suffix (fst p') toks -> step_ok (fst p') (f (a, p'))) ->
  step_ok toks (bind x f).
Proof.
  intros Hx Hf. destruct x as [[a p']| |]; cbn [bind]; [|exact I|exact Hx].
  specialize (Hf a p'). revert Hf. generalize (f (a, p')). intros y Hy.
  destruct p' as [toks' te]. cbn [step_ok fst] in *. specialize (Hy Hx).
  destruct y as [[b [toks2 te2]]| |]; cbn [step_ok] in *; [|exact I|contradiction].
  eapply is_suffix_trans; eassumption.
Qed.

Ltac step_tac :=
  repeat first
    [ apply bind_step_ok;
      [ first [ apply expect_reg_ok | apply expect_lit_ok | apply expect_label_ok
              | apply expect_lit_or_reg_ok | apply expect_lit_or_label_ok ]
      | let a := fresh "a" in let p' := fresh "p'" in let H := fresh "H" in
        intros a p' H; destruct p' as [? ?]; cbn [fst] in * ]
    | (cbn [step_ok]; apply is_suffix_refl) ].

Lemma parse_instr_ok sym line k p srclen : step_ok (fst p) (parse_instr sym line k p srclen).
Proof.
  destruct p as [toks te]. cbn [fst].
  destruct k; cbn [parse_instr]; step_tac.
Qed.

Lemma parse_trap_ok k p srclen : step_ok (fst p) (parse_trap k p srclen).
Proof.
  destruct p as [toks te]. cbn [fst]. destruct k; cbn [parse_trap]; step_tac.
Qed.

Definition not_bad {A} (r : res A) : Prop := match r with Bad _ => False | _ => True end.

Lemma parse_not_bad fuel srclen : forall ps,
  (length (p_toks ps) < fuel)%nat -> Forall ptok_ok (p_toks ps) ->
  not_bad (fst (parse fuel srclen ps)).
Proof.
  induction fuel as [|fuel IH]; intros ps Hf Hok; [lia|].
  cbn [parse].
  (* the optional label *)
  destruct (p_toks ps) as [|t0 r0] eqn:Et.
  { cbn. exact I. }
  assert (Hok0 : ptok_ok t0 /\ Forall ptok_ok r0) by (inversion Hok; auto).
  destruct Hok0 as [Hk0 Hr0]. cbn [length] in Hf.
  destruct (tk t0) eqn:Ek0; unfold ptok_ok in Hk0; rewrite Ek0 in Hk0; try contradiction;
    cbv beta iota zeta; rewrite ?Ek0; cbv beta iota zeta.
  - (* label first *)
    destruct (sym_get (p_sym ps) (ttext t0)); [exact I|].
    destruct r0 as [|t r]; [exact I|].
    assert (Hok1 : ptok_ok t /\ Forall ptok_ok r) by (inversion Hr0; auto).
    destruct Hok1 as [Hk Hr]. cbn [length] in Hf.
    cbv beta iota zeta.
    destruct (tk t) eqn:Ek; unfold ptok_ok in Hk; rewrite Ek in Hk; try contradiction; try exact I;
      cbv beta iota zeta.
    + pose proof (parse_instr_ok (sym_put (p_sym ps) (ttext t0) (p_line ps)) (p_line ps) i (r, p_tok_end ps) srclen) as K.
      destruct (parse_instr _ _ _ _ _) as [[s [toks2 te2]]| |]; cbn [step_ok fst] in K; [|exact I|contradiction].
      destruct (p_line ps + 1 <? W); [|exact I].
      apply IH; cbn [p_toks]; [apply is_suffix_len in K; lia|eapply is_suffix_Forall; eassumption].
    + pose proof (parse_trap_ok t1 (r, p_tok_end ps) srclen) as K.
      destruct (parse_trap _ _ _) as [[s [toks2 te2]]| |]; cbn [step_ok fst] in K; [|exact I|contradiction].
      destruct (p_line ps + 1 <? W); [|exact I].
      apply IH; cbn [p_toks]; [apply is_suffix_len in K; lia|eapply is_suffix_Forall; eassumption].
    + destruct d; try contradiction.
      pose proof (expect_lit_ok (Unsigned 16) (r, p_tok_end ps) srclen) as K.
      destruct (expect_lit _ _ _) as [[v [toks2 te2]]| |]; cbn [step_ok fst] in K; [|exact I|contradiction].
      destruct (a_orig (p_air ps)); [exact I|].
      apply IH; cbn [p_toks]; [apply is_suffix_len in K; lia|eapply is_suffix_Forall; eassumption].
    + destruct (p_line ps + 1 <? W); [|exact I].
      apply IH; cbn [p_toks]; [lia|exact Hr].
    + apply IH; cbn [p_toks]; [lia|exact Hr].
  - (* instruction first *)
    pose proof (parse_instr_ok (p_sym ps) (p_line ps) i (r0, p_tok_end ps) srclen) as K.
    destruct (parse_instr _ _ _ _ _) as [[s [toks2 te2]]| |]; cbn [step_ok fst] in K; [|exact I|contradiction].
    destruct (p_line ps + 1 <? W); [|exact I].
    apply IH; cbn [p_toks]; [apply is_suffix_len in K; lia|eapply is_suffix_Forall; eassumption].
  - pose proof (parse_trap_ok t (r0, p_tok_end ps) srclen) as K.
    destruct (parse_trap _ _ _) as [[s [toks2 te2]]| |]; cbn [step_ok fst] in K; [|exact I|contradiction].
    destruct (p_line ps + 1 <? W); [|exact I].
    apply IH; cbn [p_toks]; [apply is_suffix_len in K; lia|eapply is_suffix_Forall; eassumption].
  - exact I.
  - destruct d; try contradiction.
    pose proof (expect_lit_ok (Unsigned 16) (r0, p_tok_end ps) srclen) as K.
    destruct (expect_lit _ _ _) as [[v [toks2 te2]]| |]; cbn [step_ok fst] in K; [|exact I|contradiction].
    destruct (a_orig (p_air ps)); [exact I|].
    apply IH; cbn [p_toks]; [apply is_suffix_len in K; lia|eapply is_suffix_Forall; eassumption].
  - exact I.
  - destruct (p_line ps + 1 <? W); [|exact I].
    apply IH; cbn [p_toks]; [lia|exact Hr0].
  - apply IH; cbn [p_toks]; [lia|exact Hr0].
Qed.

(* ------------------------------------------------------------------ *)
(** * Backpatching and emission *)

Definition label_filled (l : label) : Prop := match l with LRef _ => True | LUnfilled _ => False end.

Definition stmt_filled (s : stmt) : Prop :=
  match s with
  | SBranch _ l | SJumpSub l | SLoad _ l | SLoadInd _ l | SLoadEAddr _ l
  | SStore _ l | SStoreInd _ l | SCall l => label_filled l
  | _ => True
  end.

Lemma fill_filled sym l l' : fill sym l = Ok l' -> label_filled l'.
Proof.
  destruct l as [r|name]; cbn.
  - intros H; inversion H; exact I.
  - destruct (sym_get sym name); intros H; inversion H; exact I.
Qed.

Lemma fill_not_bad sym l : not_bad (fill sym l).
Proof. destruct l as [r|name]; cbn; [exact I|]. destruct (sym_get sym name); exact I. Qed.

Lemma backpatch_stmt_ok sym s :
  match backpatch_stmt sym s with Ok s' => stmt_filled s' | Err _ _ _ => True | Bad _ => False end.
Proof.
  destruct s; cbn [backpatch_stmt]; try exact I;
    match goal with |- context [fill sym ?l] =>
      pose proof (fill_filled sym l) as F; pose proof (fill_not_bad sym l) as NB;
      destruct (fill sym l) as [l'| |]; cbn [bind]; [apply (F l' eq_refl)|exact I|exact NB]
    end.
Qed.

Lemma backpatch_ok sym ls :
  match backpatch sym ls with
  | Ok ls' => Forall (fun ln => stmt_filled (al_stmt ln)) ls'
  | Err _ _ _ => True | Bad _ => False end.
Proof.
  induction ls as [|ln r IH]; cbn [backpatch]; [constructor|].
  pose proof (backpatch_stmt_ok sym (al_stmt ln)) as K.
  destruct (backpatch_stmt sym (al_stmt ln)) as [s'| |]; cbn [bind]; [|exact I|exact K].
  destruct (backpatch sym r) as [r'| |]; cbn [bind]; [|exact I|exact IH].
  constructor; [exact K|exact IH].
Qed.

Lemma bit_offs_not_bad line l k : label_filled l -> not_bad (bit_offs line l k).
Proof.
  destruct l as [r|name]; [|contradiction]. intros _. unfold bit_offs.
  match goal with |- not_bad (if ?c then _ else _) => destruct c end; exact I.
Qed.

Lemma emit_not_bad ln : stmt_filled (al_stmt ln) -> not_bad (emit ln).
Proof.
  intros H. unfold emit. destruct (al_stmt ln); cbn [stmt_filled] in H; try exact I;
    match goal with |- context [bit_offs ?a ?l ?k] =>
      pose proof (bit_offs_not_bad a l k H) as NB; destruct (bit_offs a l k); cbn [bind]; [exact I|exact I|exact NB]
    end.
Qed.

Lemma emit_all_not_bad ls : Forall (fun ln => stmt_filled (al_stmt ln)) ls -> not_bad (emit_all ls).
Proof.
  induction ls as [|ln r IH]; intros H; cbn [emit_all]; [exact I|].
  inversion H; subst.
  pose proof (emit_not_bad ln H2) as K.
  destruct (emit ln); cbn [bind]; [|exact I|exact K].
  specialize (IH H3). destruct (emit_all r); cbn [bind]; [exact I|exact I|exact IH].
Qed.

(* ------------------------------------------------------------------ *)
(** * The assembler is total *)

Theorem assemble_air_not_bad feat sym0 src : not_bad (fst (assemble_air feat sym0 src)).
Proof.
  unfold assemble_air.
  pose proof (preprocess_good feat (S (length src)) src 0 [] (Nat.lt_succ_diag_r _) (Forall_nil _)) as G.
  destruct (preprocess feat (S (length src)) src 0 []) as [toks| |]; cbn [good] in G; [|exact I|contradiction].
  pose proof (parse_not_bad (S (length toks)) (bytes src)
                (mkParser toks (mkAir None [] []) 1 0 sym0 0) (Nat.lt_succ_diag_r _) G) as P.
  destruct (parse _ _ _) as [r sym1]. cbn [fst] in P.
  destruct r as [[a s2]| |]; cbn [fst]; [|exact I|exact P].
  pose proof (backpatch_ok sym1 (a_ast a)) as B.
  destruct (backpatch sym1 (a_ast a)); cbn [fst]; [exact I|exact I|exact B].
Qed.

Theorem assemble_not_bad feat sym0 src : not_bad (fst (assemble feat sym0 src)).
Proof.
  unfold assemble, assemble_air.
  pose proof (preprocess_good feat (S (length src)) src 0 [] (Nat.lt_succ_diag_r _) (Forall_nil _)) as G.
  destruct (preprocess feat (S (length src)) src 0 []) as [toks| |]; cbn [good] in G; [|exact I|contradiction].
  pose proof (parse_not_bad (S (length toks)) (bytes src)
                (mkParser toks (mkAir None [] []) 1 0 sym0 0) (Nat.lt_succ_diag_r _) G) as P.
  destruct (parse _ _ _) as [r sym1]. cbn [fst] in P.
  destruct r as [[a s2]| |]; cbn [fst]; [|exact I|exact P].
  pose proof (backpatch_ok sym1 (a_ast a)) as B.
  destruct (backpatch sym1 (a_ast a)) as [ast'| |]; cbn [fst a_ast]; [|exact I|exact B].
  pose proof (emit_all_not_bad ast' B) as E.
  destruct (emit_all ast'); cbn [fst]; [exact I|exact I|exact E].
Qed.
