(* VmProofs.v — MODEL (Vm.v) refines SPEC (Isa.v): one instruction. *)
From Lace Require Import Word Machine Isa Vm VmFields.

(* ------------------------------------------------------------------ *)
(** * State facts *)

Lemma R_lt st r : wf st -> R st r < W.
Proof. intros (H&_). apply rget_wf. exact H. Qed.

Lemma M_lt st a : wf st -> M st a < W.
Proof. intros (_&_&_&H&_). apply H. Qed.

Lemma emit_M st c a : M (emit st c) a = M st a.
Proof. unfold emit. destruct (c =? 27); reflexivity. Qed.

Lemma emit_wf st c : wf st -> wf (emit st c).
Proof. unfold emit. destruct (c =? 27); [auto|]. intros H. exact H. Qed.

(** The string loops of the code are the walks of the SPEC. *)
Lemma puts_loop_walk fuel : forall st a, wf st ->
  puts_loop fuel st a = string_walk fuel puts_word st a.
Proof.
  induction fuel as [|fuel IH]; intros st a Hwf; [reflexivity|].
  cbn [puts_loop string_walk]. unfold puts_word.
  rewrite (v_lowbyte (M st a)) by (apply M_lt; exact Hwf).
  destruct (M st a mod 256 =? 0); [reflexivity|].
  apply IH. apply emit_wf. exact Hwf.
Qed.

Lemma putsp_loop_walk fuel : forall st a, wf st ->
  putsp_loop fuel st a = string_walk fuel putsp_word st a.
Proof.
  induction fuel as [|fuel IH]; intros st a Hwf; [reflexivity|].
  cbn [putsp_loop string_walk]. unfold putsp_word.
  rewrite (v_lowbyte (M st a)) by (apply M_lt; exact Hwf).
  rewrite (v_highbyte (M st a)) by (apply M_lt; exact Hwf).
  destruct (M st a mod 256 =? 0); [reflexivity|].
  destruct ((M st a / 256) mod 256 =? 0); [reflexivity|].
  apply IH. apply emit_wf. apply emit_wf. exact Hwf.
Qed.

Lemma print_registers_dump st : wf st -> print_registers_min st = reg_dump st.
Proof.
  intros Hwf. unfold print_registers_min, reg_dump, reg_line. cbn [flat_map].
  rewrite !v_fmt_04x by (first [apply R_lt; exact Hwf | apply Hwf]).
  rewrite v_fmt_03b by apply Hwf.
  repeat (rewrite <- ?app_assoc; cbn [app]). reflexivity.
Qed.

(* ------------------------------------------------------------------ *)
(** * Handlers *)

Section Handlers.
Variable feat : bool.
Variable w : N.
Variable st : state.
Hypothesis Hw : w < W.
Hypothesis Hwf : wf st.

Lemma add_ok : h_add w st =
  (if fld w 5 1 =? 0 then step feat (ADDr (fld w 9 3) (fld w 6 3) (fld w 0 3)) st
   else step feat (ADDi (fld w 9 3) (fld w 6 3) (sext 5 w)) st).
Proof.
  unfold h_add. rewrite f_dr, f_sr, f_sr2, f_immbit, f_sext5 by exact Hw.
  destruct (fld w 5 1 =? 0); cbn [step]; unfold write_cc, set_flags, wrapping_add, addw, wrap;
    rewrite v_flags; reflexivity.
Qed.

Lemma and_ok : h_and w st =
  (if fld w 5 1 =? 0 then step feat (ANDr (fld w 9 3) (fld w 6 3) (fld w 0 3)) st
   else step feat (ANDi (fld w 9 3) (fld w 6 3) (sext 5 w)) st).
Proof.
  unfold h_and. rewrite f_dr, f_sr, f_sr2, f_immbit, f_sext5 by exact Hw.
  destruct (fld w 5 1 =? 0); cbn [step]; unfold write_cc, set_flags, andw, band;
    rewrite v_flags; reflexivity.
Qed.

Lemma br_ok : h_br w st = step feat (BR (fld w 9 3) (sext 9 w)) st.
Proof.
  unfold h_br. rewrite f_dr, f_sext9 by exact Hw. cbn [step]. unfold band.
  rewrite (N.land_comm (s_cc st)).
  destruct (N.land (fld w 9 3) (s_cc st) =? 0); reflexivity.
Qed.

Lemma jmp_ok : h_jmp w st = step feat (JMP (fld w 6 3)) st.
Proof. unfold h_jmp. rewrite f_sr by exact Hw. reflexivity. Qed.

Lemma jsr_ok : h_jsr w st =
  (if fld w 11 1 =? 0 then step feat (JSRR (fld w 6 3)) st else step feat (JSR (sext 11 w)) st).
Proof.
  unfold h_jsr. rewrite f_sr, f_jsrbit, f_sext11 by exact Hw.
  destruct (fld w 11 1 =? 0); reflexivity.
Qed.

Lemma ld_ok : h_ld w st = step feat (LD (fld w 9 3) (sext 9 w)) st.
Proof.
  unfold h_ld. rewrite f_dr, f_sext9 by exact Hw. cbn [step].
  unfold write_cc, set_flags. rewrite v_flags. reflexivity.
Qed.

Lemma ldi_ok : h_ldi w st = step feat (LDI (fld w 9 3) (sext 9 w)) st.
Proof.
  unfold h_ldi. rewrite f_dr, f_sext9 by exact Hw. cbn [step].
  unfold write_cc, set_flags. rewrite v_flags. reflexivity.
Qed.

Lemma ldr_ok : h_ldr w st = step feat (LDR (fld w 9 3) (fld w 6 3) (sext 6 w)) st.
Proof.
  unfold h_ldr. rewrite f_dr, f_sr, f_sext6 by exact Hw. cbn [step].
  unfold write_cc, set_flags. rewrite v_flags. reflexivity.
Qed.

Lemma lea_ok : h_lea w st = step feat (LEA (fld w 9 3) (sext 9 w)) st.
Proof.
  unfold h_lea. rewrite f_dr, f_sext9 by exact Hw. cbn [step].
  unfold write_cc, set_flags. rewrite v_flags. reflexivity.
Qed.

Lemma not_ok : h_not w st = step feat (NOT (fld w 9 3) (fld w 6 3)) st.
Proof.
  unfold h_not. rewrite f_dr, f_sr by exact Hw. cbn [step].
  rewrite v_not16 by (apply R_lt; exact Hwf).
  unfold write_cc, set_flags. rewrite v_flags. reflexivity.
Qed.

Lemma st_ok : h_st w st = step feat (ST (fld w 9 3) (sext 9 w)) st.
Proof. unfold h_st. rewrite f_dr, f_sext9 by exact Hw. reflexivity. Qed.

Lemma sti_ok : h_sti w st = step feat (STI (fld w 9 3) (sext 9 w)) st.
Proof. unfold h_sti. rewrite f_dr, f_sext9 by exact Hw. reflexivity. Qed.

Lemma str_ok : h_str w st = step feat (STR (fld w 9 3) (fld w 6 3) (sext 6 w)) st.
Proof. unfold h_str. rewrite f_dr, f_sr, f_sext6 by exact Hw. reflexivity. Qed.

Lemma stack_ok : h_stack feat w st =
  step feat (match fld w 10 2 with
             | 0 => POP (fld w 6 3) | 1 => PUSH (fld w 6 3) | 2 => RETS
             | _ => CALL (sext 10 w) end) st.
Proof.
  unfold h_stack. rewrite <- (f_stacksel w Hw). unfold stack_sel_code.
  rewrite f_sr, f_sext10 by exact Hw.
  destruct feat; cbn [negb].
  - destruct (band w 2048 =? 0); destruct (band w 1024 =? 0); cbn [negb step];
      unfold push_val, pop_val; rewrite ?v_wsub1; reflexivity.
  - destruct (band w 2048 =? 0); destruct (band w 1024 =? 0); reflexivity.
Qed.

Lemma trap_ok : h_trap w st = step feat (TRAP (w mod 256)) st.
Proof.
  unfold h_trap. rewrite f_vect by exact Hw. cbn [step]. unfold trap_spec.
  set (v := w mod 256).
  unfold read_char, LOOP_FOREVER, FOREVER.
  rewrite puts_loop_walk, putsp_loop_walk by exact Hwf.
  rewrite v_fmt_i16 by (apply R_lt; exact Hwf).
  rewrite print_registers_dump by exact Hwf.
  rewrite (v_lowbyte (R st 0)) by (apply R_lt; exact Hwf).
  destruct (s_inp st) as [|b rest]; reflexivity.
Qed.

End Handlers.

(* ------------------------------------------------------------------ *)
(** * The theorem: for every word and every well-formed state. *)

Theorem execute_refines_step : forall feat w st,
  wf st -> w < W -> execute feat w st = step feat (decode w) st.
Proof.
  intros feat w st Hwf Hw. unfold execute, decode.
  rewrite f_opcode by exact Hw.
  assert (Hop : w / 4096 < 16).
  { apply N.div_lt_upper_bound; [discriminate|]. unfold W in Hw. lia. }
  remember (w / 4096) as op eqn:Eop.
  destruct op as [|[[[[p|p|]|[p|p|]|]|[[p|p|]|[p|p|]|]|]|[[[p|p|]|[p|p|]|]|[[p|p|]|[p|p|]|]|]|]];
    try (exfalso; lia); cbv beta iota zeta;
    first
    [ rewrite (br_ok feat) by assumption | rewrite (add_ok feat) by assumption | rewrite (ld_ok feat) by assumption
    | rewrite (st_ok feat) by assumption | rewrite (jsr_ok feat) by assumption | rewrite (and_ok feat) by assumption
    | rewrite (ldr_ok feat) by assumption | rewrite (str_ok feat) by assumption | rewrite (not_ok feat) by assumption
    | rewrite (ldi_ok feat) by assumption | rewrite (sti_ok feat) by assumption | rewrite (jmp_ok feat) by assumption
    | rewrite (stack_ok feat) by assumption | rewrite (lea_ok feat) by assumption
    | rewrite (trap_ok feat) by assumption | idtac ];
    try reflexivity;
    match goal with |- context [if ?c then _ else _] => destruct c end; reflexivity.
Qed.
