(* VmProofs.v — MODEL (Vm.v) refines SPEC (Isa.v): one instruction. *)
From Lace Require Import Word Machine Isa Vm VmFields.

(* ------------------------------------------------------------------ *)
(** * State facts *)

Lemma R_lt st r : wf st -> R st r < W.
Proof. intros (H&_). apply rget_wf. exact H. Qed.

Lemma M_lt st a : wf st -> M st a < W.
Proof. intros (_&_&_&H&_). apply H. Qed.

Lemma emit_M st c a : M (emit st c) a = M st a.
Proof. unfold emit. destruct (c =? 27); reflexivity. Qed.

Lemma emit_wf st c : wf st -> wf (emit st c).
Proof. unfold emit. destruct (c =? 27); [auto|]. intros H. exact H. Qed.

(** The string loops of the code are the walks of the SPEC. *)
Lemma puts_loop_walk fuel : forall st a, wf st ->
  puts_loop fuel st a = string_walk fuel puts_word st a.
Proof.
  induction fuel as [|fuel IH]; intros st a Hwf; [reflexivity|].
  cbn [puts_loop string_walk]. unfold puts_word.
  rewrite (v_lowbyte (M st a)) by (apply M_lt; exact Hwf).
  destruct (M st a mod 256 =? 0); [reflexivity|].
  apply IH. apply emit_wf. exact Hwf.
Qed.

Lemma putsp_loop_walk fuel : forall st a, wf st ->
  putsp_loop fuel st a = string_walk fuel putsp_word st a.
Proof.
  induction fuel as [|fuel IH]; intros st a Hwf; [reflexivity|].
  cbn [putsp_loop string_walk]. unfold putsp_word.
  rewrite (v_lowbyte (M st a)) by (apply M_lt; exact Hwf).
  rewrite (v_highbyte (M st a)) by (apply M_lt; exact Hwf).
  destruct (M st a mod 256 =? 0); [reflexivity|].
  destruct ((M st a / 256) mod 256 =? 0); [reflexivity|].
  apply IH. apply emit_wf. apply emit_wf. exact Hwf.
Qed.

Lemma print_registers_dump st : wf st -> print_registers_min st = reg_dump st.
Proof.
  intros Hwf. unfold print_registers_min, reg_dump, reg_line. cbn [flat_map].
  rewrite !v_fmt_04x by (first [apply R_lt; exact Hwf | apply Hwf]).
  rewrite v_fmt_03b by apply Hwf.
  repeat (rewrite <- ?app_assoc; cbn [app]). reflexivity.
Qed.

(* ------------------------------------------------------------------ *)
(** * Handlers *)

Section Handlers.
Variable feat : bool.
Variable w : N.
Variable st : state.
Hypothesis Hw : w < W.
Hypothesis Hwf : wf st.

Lemma add_ok : h_add w st =
  (if fld w 5 1 =? 0 then step feat (ADDr (fld w 9 3) (fld w 6 3) (fld w 0 3)) st
   else step feat (ADDi (fld w 9 3) (fld w 6 3) (sext 5 w)) st).
Proof.
  unfold h_add. rewrite f_dr, f_sr, f_sr2, f_immbit, f_sext5 by exact Hw.
  destruct (fld w 5 1 =? 0); cbn [step]; unfold write_cc, set_flags, wrapping_add, addw, wrap;
    rewrite v_flags; reflexivity.
Qed.

Lemma and_ok : h_and w st =
  (if fld w 5 1 =? 0 then step feat (ANDr (fld w 9 3) (fld w 6 3) (fld w 0 3)) st
   else step feat (ANDi (fld w 9 3) (fld w 6 3) (sext 5 w)) st).
Proof.
  unfold h_and. rewrite f_dr, f_sr, f_sr2, f_immbit, f_sext5 by exact Hw.
  destruct (fld w 5 1 =? 0); cbn [step]; unfold write_cc, set_flags, andw, band;
    rewrite v_flags; reflexivity.
Qed.

Lemma br_ok : h_br w st = step feat (BR (fld w 9 3) (sext 9 w)) st.
Proof.
  unfold h_br. rewrite f_dr, f_sext9 by exact Hw. cbn [step]. unfold band.
  rewrite (N.land_comm (s_cc st)).
  destruct (N.land (fld w 9 3) (s_cc st) =? 0); reflexivity.
Qed.

Lemma jmp_ok : h_jmp w st = step feat (JMP (fld w 6 3)) st.
Proof. unfold h_jmp. rewrite f_sr by exact Hw. reflexivity. Qed.

Lemma jsr_ok : h_jsr w st =
  (if fld w 11 1 =? 0 then step feat (JSRR (fld w 6 3)) st else step feat (JSR (sext 11 w)) st).
Proof.
  unfold h_jsr. rewrite f_sr, f_jsrbit, f_sext11 by exact Hw.
  destruct (fld w 11 1 =? 0); reflexivity.
Qed.

Lemma ld_ok : h_ld w st = step feat (LD (fld w 9 3) (sext 9 w)) st.
Proof.
  unfold h_ld. rewrite f_dr, f_sext9 by exact Hw. cbn [step].
  unfold write_cc, set_flags. rewrite v_flags. reflexivity.
Qed.

Lemma ldi_ok : h_ldi w st = step feat (LDI (fld w 9 3) (sext 9 w)) st.
Proof.
  unfold h_ldi. rewrite f_dr, f_sext9 by exact Hw. cbn [step].
  unfold write_cc, set_flags. rewrite v_flags. reflexivity.
Qed.

Lemma ldr_ok : h_ldr w st = step feat (LDR (fld w 9 3) (fld w 6 3) (sext 6 w)) st.
Proof.
  unfold h_ldr. rewrite f_dr, f_sr, f_sext6 by exact Hw. cbn [step].
  unfold write_cc, set_flags. rewrite v_flags. reflexivity.
Qed.

Lemma lea_ok : h_lea w st = step feat (LEA (fld w 9 3) (sext 9 w)) st.
Proof.
  unfold h_lea. rewrite f_dr, f_sext9 by exact Hw. cbn [step].
  unfold write_cc, set_flags. rewrite v_flags. reflexivity.
Qed.

Lemma not_ok : h_not w st = step feat (NOT (fld w 9 3) (fld w 6 3)) st.
Proof.
  unfold h_not. rewrite f_dr, f_sr by exact Hw. cbn [step].
  rewrite v_not16 by (apply R_lt; exact Hwf).
  unfold write_cc, set_flags. rewrite v_flags. reflexivity.
Qed.

Lemma st_ok : h_st w st = step feat (ST (fld w 9 3) (sext 9 w)) st.
Proof. unfold h_st. rewrite f_dr, f_sext9 by exact Hw. reflexivity. Qed.

Lemma sti_ok : h_sti w st = step feat (STI (fld w 9 3) (sext 9 w)) st.
Proof. unfold h_sti. rewrite f_dr, f_sext9 by exact Hw. reflexivity. Qed.

Lemma str_ok : h_str w st = step feat (STR (fld w 9 3) (fld w 6 3) (sext 6 w)) st.
Proof. unfold h_str. rewrite f_dr, f_sr, f_sext6 by exact Hw. reflexivity. Qed.

Lemma stack_ok : h_stack feat w st =
  step feat (match fld w 10 2 with
             | 0 => POP (fld w 6 3) | 1 => PUSH (fld w 6 3) | 2 => RETS
             | _ => CALL (sext 10 w) end) st.
Proof.
  unfold h_stack. rewrite <- (f_stacksel w Hw). unfold stack_sel_code.
  rewrite f_sr, f_sext10 by exact Hw.
  destruct feat; cbn [negb].
  - destruct (band w 2048 =? 0); destruct (band w 1024 =? 0); cbn [negb step];
      unfold push_val, pop_val; rewrite ?v_wsub1; reflexivity.
  - destruct (band w 2048 =? 0); destruct (band w 1024 =? 0); reflexivity.
Qed.

Lemma trap_ok : h_trap w st = step feat (TRAP (w mod 256)) st.
Proof.
  unfold h_trap. rewrite f_vect by exact Hw. cbn [step]. unfold trap_spec.
  set (v := w mod 256).
  unfold read_char, LOOP_FOREVER, FOREVER.
  rewrite puts_loop_walk, putsp_loop_walk by exact Hwf.
  rewrite v_fmt_i16 by (apply R_lt; exact Hwf).
  rewrite print_registers_dump by exact Hwf.
  rewrite (v_lowbyte (R st 0)) by (apply R_lt; exact Hwf).
  destruct (s_inp st) as [|b rest]; reflexivity.
Qed.

End Handlers.

(* ------------------------------------------------------------------ *)
(** * The theorem: for every word and every well-formed state. *)

Theorem execute_refines_step : forall feat w st,
  wf st -> w < W -> execute feat w st = step feat (decode w) st.
Proof.
  intros feat w st Hwf Hw. unfold execute, decode.
  rewrite f_opcode by exact Hw.
  assert (Hop : w / 4096 < 16).
  { apply N.div_lt_upper_bound; [discriminate|]. unfold W in Hw. lia. }
  remember (w / 4096) as op eqn:Eop.
  destruct op as [|[[[[p|p|]|[p|p|]|]|[[p|p|]|[p|p|]|]|]|[[[p|p|]|[p|p|]|]|[[p|p|]|[p|p|]|]|]|]];
    try (exfalso; lia); cbv beta iota zeta;
    first
    [ rewrite (br_ok feat) by assumption | rewrite (add_ok feat) by assumption | rewrite (ld_ok feat) by assumption
    | rewrite (st_ok feat) by assumption | rewrite (jsr_ok feat) by assumption | rewrite (and_ok feat) by assumption
    | rewrite (ldr_ok feat) by assumption | rewrite (str_ok feat) by assumption | rewrite (not_ok feat) by assumption
    | rewrite (ldi_ok feat) by assumption | rewrite (sti_ok feat) by assumption | rewrite (jmp_ok feat) by assumption
    | rewrite (stack_ok feat) by assumption | rewrite (lea_ok feat) by assumption
    | rewrite (trap_ok feat) by assumption | idtac ];
    try reflexivity;
    match goal with |- context [if ?c then _ else _] => destruct c end; reflexivity.
Qed.

(* ------------------------------------------------------------------ *)
(** * Consequences *)

(** The string walks and console output preserve well-formedness. *)
Lemma emit_list_wf cs : forall st, wf st -> wf (emit_list st cs).
Proof. induction cs as [|c cs IH]; intros st H; cbn; [exact H|]. apply IH, emit_wf, H. Qed.

Lemma string_walk_wf f :
  (forall st a, wf st -> match f st a with WStop s | WNext s => wf s end) ->
  forall fuel st a st', wf st -> string_walk fuel f st a = Some st' -> wf st'.
Proof.
  intros Hf. induction fuel as [|fuel IH]; intros st a st' Hwf H; cbn in H; [discriminate|].
  pose proof (Hf st a Hwf) as K. destruct (f st a) as [s|s].
  - inversion H; subst; exact K.
  - eapply IH; eauto.
Qed.

Lemma puts_word_wf st a : wf st -> match puts_word st a with WStop s | WNext s => wf s end.
Proof.
  intros H. unfold puts_word. destruct (M st a mod 256 =? 0); [exact H|apply emit_wf, H].
Qed.

Lemma putsp_word_wf st a : wf st -> match putsp_word st a with WStop s | WNext s => wf s end.
Proof.
  intros H. unfold putsp_word. destruct (M st a mod 256 =? 0); [exact H|].
  destruct ((M st a / 256) mod 256 =? 0); repeat apply emit_wf; exact H.
Qed.

Lemma set_reg_wf st r v : wf st -> v < W -> wf (set_reg st r v).
Proof.
  intros (H1&H2&H3&H4&H5) Hv.
  split; [cbn; apply rset_wf; assumption|]. split; [exact H2|]. split; [exact H3|].
  split; [exact H4|exact H5].
Qed.

Lemma set_pc_wf st v : wf st -> v < W -> wf (set_pc st v).
Proof.
  intros (H1&H2&H3&H4&H5) Hv. split; [exact H1|]. split; [exact Hv|]. split; [exact H3|].
  split; [exact H4|exact H5].
Qed.

Lemma set_cc_wf st v : wf st -> (v = CC_N \/ v = CC_Z \/ v = CC_P \/ v = CC_U) -> wf (set_cc st v).
Proof.
  intros (H1&H2&H3&H4&H5) Hv. split; [exact H1|]. split; [exact H2|]. split; [exact H3|].
  split; [exact H4|exact Hv].
Qed.

Lemma set_inp_wf st i : wf st -> wf (set_inp st i).
Proof.
  intros (H1&H2&H3&H4&H5). split; [exact H1|]. split; [exact H2|]. split; [exact H3|].
  split; [exact H4|exact H5].
Qed.

Lemma set_mem_wf st a v : wf st -> v < W -> wf (set_mem st a v).
Proof.
  intros (H1&H2&H3&H4&H5) Hv. split; [exact H1|]. split; [exact H2|]. split; [exact H3|].
  split; [|exact H5].
  intros b. unfold M, set_mem; cbn. destruct (N.eq_dec a b) as [->|Hne].
  - rewrite mget_mset_same. exact Hv.
  - rewrite mget_mset_other by exact Hne. apply H4.
Qed.

Lemma cc_of_ok v : cc_of v = CC_N \/ cc_of v = CC_Z \/ cc_of v = CC_P \/ cc_of v = CC_U.
Proof. unfold cc_of. destruct (v =? 0); [auto|]. destruct (v <? 32768); auto. Qed.

Lemma write_cc_wf st dr v : wf st -> v < W -> wf (write_cc st dr v).
Proof. intros H Hv. unfold write_cc. apply set_cc_wf; [apply set_reg_wf; assumption|apply cc_of_ok]. Qed.

Lemma andw_lt a b : a < W -> andw a b < W.
Proof.
  intros Ha. unfold andw. change W with (2 ^ 16) in *.
  destruct (N.eq_dec (N.land a b) 0) as [E|E]; [rewrite E; reflexivity|].
  assert (Hpos : 0 < N.land a b) by lia.
  apply (proj2 (N.log2_lt_pow2 _ _ Hpos)).
  eapply N.le_lt_trans; [apply N.log2_land|].
  eapply N.le_lt_trans; [apply N.le_min_l|].
  assert (Ha0 : 0 < a).
  { destruct (N.eq_dec a 0) as [->|]; [rewrite N.land_0_l in E; congruence|lia]. }
  apply (proj1 (N.log2_lt_pow2 _ _ Ha0)). exact Ha.
Qed.

Lemma notw_lt a : notw a < W.
Proof. unfold notw, W. lia. Qed.

(** SPEC: one step keeps the machine well-formed. *)
Lemma step_wf feat i st st' : wf st ->
  match i with
  | ADDi _ _ imm | ANDi _ _ imm => imm < W
  | _ => True end ->
  step feat i st = Running st' -> wf st'.
Proof.
  intros Hwf Himm H.
  pose proof (fun r => R_lt st r Hwf) as HR.
  pose proof (fun a => M_lt st a Hwf) as HM.
  destruct i; cbn [step] in H;
    try (inversion H; subst; clear H;
         first [ apply write_cc_wf; [exact Hwf|]; first [apply addw_lt | apply andw_lt; apply HR | apply notw_lt | apply HM]
               | apply set_mem_wf; [exact Hwf|apply HR]
               | apply set_pc_wf; [exact Hwf|]; first [apply HR | apply addw_lt]
               | apply set_reg_wf; [apply set_pc_wf; [exact Hwf|]; first [apply HR|apply addw_lt] | apply Hwf] ]; fail).
  - (* BR *) destruct (N.land nzp (s_cc st) =? 0); inversion H; subst; [exact Hwf|].
    apply set_pc_wf; [exact Hwf|apply addw_lt].
  - (* TRAP *) unfold trap_spec in H.
    repeat match type of H with
    | match ?v with _ => _ end = _ => destruct v eqn:?; try discriminate
    end;
    try (inversion H; subst; clear H).
    all: try (eapply string_walk_wf; [| exact Hwf | eassumption ]; first [exact puts_word_wf | exact putsp_word_wf]).
    all: repeat first [ apply emit_wf | apply emit_list_wf ].
    all: try exact Hwf.
    all: try (apply set_pc_wf; [exact Hwf|unfold W; lia]).
    all: try (apply set_reg_wf; [apply set_inp_wf; exact Hwf|];
              match goal with |- (if ?x <? 128 then _ else _) < _ => destruct (N.ltb_spec x 128); unfold W; lia end).
  - destruct feat; inversion H; subst. apply set_mem_wf; [apply set_reg_wf; [exact Hwf|apply addw_lt]|apply HR].
  - destruct feat; inversion H; subst. apply set_reg_wf; [apply set_reg_wf; [exact Hwf|apply addw_lt]|apply HM].
  - destruct feat; inversion H; subst. apply set_pc_wf; [|apply addw_lt].
    apply set_mem_wf; [apply set_reg_wf; [exact Hwf|apply addw_lt]|apply Hwf].
  - destruct feat; inversion H; subst. apply set_pc_wf; [|apply HM].
    apply set_reg_wf; [exact Hwf|apply addw_lt].
Qed.

Lemma decode_imm_ok w :
  match decode w with
  | ADDi _ _ imm | ANDi _ _ imm => imm < W
  | _ => True end.
Proof.
  unfold decode. cbv zeta.
  repeat match goal with
  | |- context [match ?x with _ => _ end] =>
      lazymatch x with
      | context [match _ with _ => _ end] => fail
      | _ => destruct x
      end
  end; try exact I; apply sext_lt; lia.
Qed.

Lemma execute_wf feat w st st' :
  wf st -> w < W -> execute feat w st = Running st' -> wf st'.
Proof.
  intros Hwf Hw H. rewrite execute_refines_step in H by assumption.
  eapply step_wf; [exact Hwf|apply decode_imm_ok|exact H].
Qed.

Lemma step_no_panic feat i st st' : i <> RTI -> step feat i st <> Panicked st'.
Proof.
  intros Hi. destruct i; cbn [step]; try discriminate; try congruence.
  - destruct (N.land nzp (s_cc st) =? 0); discriminate.
  - unfold trap_spec.
    repeat match goal with
    | |- context [match ?v with _ => _ end] => destruct v; try discriminate
    end.
  - destruct feat; discriminate.
  - destruct feat; discriminate.
  - destruct feat; discriminate.
  - destruct feat; discriminate.
Qed.

Lemma decode_rti w : w < W -> decode w = RTI -> w / 4096 = 8.
Proof.
  intros Hw. unfold decode.
  assert (Hop : w / 4096 < 16).
  { apply N.div_lt_upper_bound; [discriminate|]. unfold W in Hw. lia. }
  remember (w / 4096) as op eqn:Eop.
  destruct op as [|[[[[p|p|]|[p|p|]|]|[[p|p|]|[p|p|]|]|]|[[[p|p|]|[p|p|]|]|[[p|p|]|[p|p|]|]|]|]];
    try (exfalso; lia); cbv beta iota zeta; try discriminate; try reflexivity;
    repeat match goal with
    | |- context [match ?x with _ => _ end] => destruct x
    end; discriminate.
Qed.

Lemma execute_no_panic feat w st st' :
  wf st -> w < W -> w / 4096 <> 8 -> execute feat w st <> Panicked st'.
Proof.
  intros Hwf Hw Hop. rewrite execute_refines_step by assumption.
  apply step_no_panic. intros E. apply Hop. apply decode_rti; assumption.
Qed.

Lemma execute_unsupported w st : wf st -> w < W ->
  (w / 4096 = 13 -> execute false w st = Exited 1 st) /\
  (w / 4096 = 15 -> (w mod 256 < 32 \/ 39 < w mod 256) -> forall feat, execute feat w st = Exited 238 st).
Proof.
  intros Hwf Hw. split.
  - intros Hop. rewrite execute_refines_step by assumption. unfold decode. rewrite Hop.
    cbv beta iota zeta. destruct (fld w 10 2) as [|[[|[]|]|[|[]|]|]]; reflexivity.
  - intros Hop Hv feat. rewrite execute_refines_step by assumption. unfold decode. rewrite Hop.
    cbv beta iota zeta. cbn [step]. unfold trap_spec.
    assert (Hlt : w mod 256 < 256) by (apply N.mod_lt; discriminate).
    remember (w mod 256) as v eqn:Ev. clear Ev.
    destruct v as [|[[[[[[p|p|]|[p|p|]|]|[[p|p|]|[p|p|]|]|]|[[[p|p|]|[p|p|]|]|[[p|p|]|[p|p|]|]|]|]|[[[[p|p|]|[p|p|]|]|[[p|p|]|[p|p|]|]|]|[[[p|p|]|[p|p|]|]|[[p|p|]|[p|p|]|]|]|]|]|[[[[[p|p|]|[p|p|]|]|[[p|p|]|[p|p|]|]|]|[[[p|p|]|[p|p|]|]|[[p|p|]|[p|p|]|]|]|]|[[[[p|p|]|[p|p|]|]|[[p|p|]|[p|p|]|]|]|[[[p|p|]|[p|p|]|]|[[p|p|]|[p|p|]|]|]|]|]|]];
      try reflexivity; exfalso; lia.
Qed.

Lemma nonvacuous_jsrr :
  let st := mkState (mkRegs 0 1 32767 32768 65535 7 9 16384) 12289 CC_U mem_zero 12288 [65] [] in
  wf st /\ execute true 16832 st = Running (set_reg (set_pc st 16384) 7 12289).
Proof.
  cbv zeta. split.
  - unfold wf, regs_wf, W; cbn. repeat split; try lia;
      try (intros a; unfold M; cbn; rewrite mget_zero; lia);
      try (right; right; right; reflexivity).
  - vm_compute. reflexivity.
Qed.
