(* DbgSig.v — THEOREM: the debugger's own reading of an instruction word ([Dbg.significant], the model of
   `SignificantInstr::try_from`: masks and shifts on the raw word) agrees with the ISA's decoder
   ([Isa.decode], the SPEC) on ALL 65,536 words: a word is a "call" exactly when it decodes to JSR / JSRR /
   CALL, a "return" exactly when it decodes to JMP R7 (RET) or RETS, a "halt" exactly when it decodes to
   TRAP x25 - whatever its unused bits hold.  Proved by a sweep evaluated in the kernel and lifted to the
   quantified statement. *)
From Coq Require Import List NArith Bool Lia.
From Lace Require Import Word Isa Dbg.
Import ListNotations.
Open Scope N_scope.

(** What the ISA says the debugger should see in a word. *)
Definition sig_of_instr (i : instr) : option sig_instr :=
  match i with
  | JMP 7 => Some SigReturn
  | RETS => Some SigReturn
  | TRAP 37 => Some SigHalt
  | JSR _ | JSRR _ | CALL _ => Some SigCall
  | _ => None
  end.

Definition sig_eqb (a b : option sig_instr) : bool :=
  match a, b with
  | None, None => true
  | Some SigReturn, Some SigReturn | Some SigHalt, Some SigHalt | Some SigCall, Some SigCall => true
  | _, _ => false
  end.

Lemma sig_eqb_eq a b : sig_eqb a b = true -> a = b.
Proof. destruct a as [[| |]|], b as [[| |]|]; cbn; intros H; try discriminate; reflexivity. Qed.

Definition check (w : N) : bool := sig_eqb (significant w) (sig_of_instr (decode w)).

Fixpoint all_from (n : nat) (w : N) : bool :=
  match n with
  | O => true
  | S n' => check w && all_from n' (w + 1)
  end.

Lemma all_from_spec : forall n w, all_from n w = true -> forall k, (k < n)%nat -> check (w + N.of_nat k) = true.
Proof.
  induction n as [|n IH]; intros w H k Hk; [lia|]. cbn [all_from] in H. apply andb_true_iff in H as [H1 H2].
  destruct k as [|k]; [rewrite N.add_0_r; exact H1|].
  replace (w + N.of_nat (S k)) with (w + 1 + N.of_nat k) by lia. apply IH; [exact H2|lia].
Qed.

Lemma sweep : all_from (N.to_nat 65536) 0 = true.
Proof. vm_compute. reflexivity. Qed.

Theorem significant_decode w : w < 65536 -> significant w = sig_of_instr (decode w).
Proof.
  intros H. apply sig_eqb_eq. pose proof (all_from_spec _ _ sweep (N.to_nat w)) as K.
  rewrite Nnat.N2Nat.id, N.add_0_l in K. apply K. lia.
Qed.

(** Read the other way: which words the debugger treats how. *)
Corollary halt_words w : w < 65536 -> (is_sig (significant w) SigHalt = true <-> decode w = TRAP 37).
Proof.
  intros H. rewrite (significant_decode w H). destruct (decode w) eqn:E; cbn; split; intros K; try discriminate; try reflexivity.
  - destruct base as [|p]; [discriminate|]. do 3 (destruct p as [p|p|]; try discriminate).
  - revert K. destruct vect as [|p]; [discriminate|]. do 6 (destruct p as [p|p|]; try discriminate). reflexivity.
  - injection K as ->. reflexivity.
Qed.

(** Non-vacuity: RET, RETS, HALT in three spellings, the three calls, and words that are none of these. *)
Example sig_examples :
  significant 49600 = Some SigReturn /\ significant 55296 = Some SigReturn /\
  significant 61477 = Some SigHalt /\ significant 61733 = Some SigHalt /\ significant 65317 = Some SigHalt /\
  significant 18432 = Some SigCall /\ significant 16576 = Some SigCall /\ significant 56320 = Some SigCall /\
  significant 49536 = None /\ significant 61478 = None /\ significant 4096 = None.
Proof. vm_compute. repeat split. Qed.
