(* Dbg.v — MODEL of the debugger: /repo/src/debugger/mod.rs (Status machine, next_action,
   check_interrupts, run_command and its helpers), debugger/eval.rs, debugger/asm.rs (the part
   `assembly` shows in --minimal mode), debugger/breakpoint.rs, and the debugger branch of
   RunEnvironment::run.  Commands arrive as parsed values (the command language itself is Cmd.v /
   C14); the script's end is end of input, which the debugger reads as `quit`.
   Debugger output is modelled as the list of lines --minimal mode writes to stderr. *)
From Coq Require Import String ZArith.
From Lace Require Import Word Machine Isa Vm Asm.
Open Scope N_scope.

(* ------------------------------------------------------------------ *)
(** * Commands *)

Inductive memloc :=
| MAddr (a : N)                       (* absolute address *)
| MPcOff (off : N)                    (* ^offset, offset as a 16-bit two's-complement pattern *)
| MLabel (name : list N) (off : N).   (* label plus offset (pattern) *)

Inductive loc := LReg (r : N) | LMem (m : memloc).

Inductive cmd :=
| CHelp | CStepOver | CStepInto (count : N) | CStepOut | CContinue | CRegisters
| CPrint (l : loc) | CMove (l : loc) (v : N) | CGoto (m : memloc) | CAssembly (m : memloc)
| CEval (text : list N) | CEcho (text : list N) | CReset | CQuit | CExit
| CBreakList | CBreakAdd (m : memloc) | CBreakRemove (m : memloc)
| CBad.     (* a line the command parser rejects: `CommandError` is reported and the next line is read
               within the same call of Command::read_from (so it is not counted as a command read) *)

(** Calls of Command::read_from a script element accounts for. *)
Definition cmd_cost (c : cmd) : N := match c with CBad => 0 | _ => 1 end.

(* ------------------------------------------------------------------ *)
(** * Debugger state *)

Inductive status :=
| WaitForAction
| StepOverS (return_addr : N)
| StepIntoS (count : N)
| ContinueS
| FinishS.

Record dbg := mkDbg {
  d_status : status;
  d_bps : list (N * bool);        (* sorted by address, no duplicates *)
  d_init : state;                 (* the machine as loaded; never written *)
  d_err : list (list N);          (* stderr lines (--minimal), most recent first *)
  d_icount : N                    (* instructions since the last command (only feeds messages) *)
}.

Definition set_status (d : dbg) (s : status) : dbg :=
  mkDbg s (d_bps d) (d_init d) (d_err d) (d_icount d).
Definition set_bps (d : dbg) (b : list (N * bool)) : dbg :=
  mkDbg (d_status d) b (d_init d) (d_err d) (d_icount d).
Definition say (d : dbg) (line : list N) : dbg :=
  mkDbg (d_status d) (d_bps d) (d_init d) (line :: d_err d) (d_icount d).
Definition say_lines (d : dbg) (ls : list (list N)) : dbg := fold_left say ls d.
Definition set_icount (d : dbg) (n : N) : dbg :=
  mkDbg (d_status d) (d_bps d) (d_init d) (d_err d) n.

(** What the debugger needs from the assembler: the symbol table, the statement spans, the source. *)
Record dbg_env := mkEnv {
  e_feat : bool;
  e_sym : symtab;
  e_spans : list (N * N);
  e_src : list N
}.

(* ------------------------------------------------------------------ *)
(** * Instruction classification ([SignificantInstr]) *)

Inductive sig_instr := SigReturn | SigHalt | SigCall.

Definition significant (instr : N) : option sig_instr :=
  let opcode := shr instr 12 in
  if (opcode =? 12) && (band (shr instr 6) 7 =? 7) then Some SigReturn
  else if (opcode =? 13) && (band (shr instr 10) 3 =? 2) then Some SigReturn
  else if (opcode =? 15) && (band instr 255 =? 37) then Some SigHalt
  else if opcode =? 4 then Some SigCall
  else if (opcode =? 13) && (band (shr instr 10) 3 =? 3) then Some SigCall
  else None.

Definition is_sig (o : option sig_instr) (k : sig_instr) : bool :=
  match o, k with
  | Some SigReturn, SigReturn | Some SigHalt, SigHalt | Some SigCall, SigCall => true
  | _, _ => false
  end.

(* ------------------------------------------------------------------ *)
(** * Breakpoints *)

Fixpoint bp_get (l : list (N * bool)) (a : N) : option (N * bool) :=
  match l with
  | [] => None
  | b :: r => if fst b =? a then Some b else bp_get r a
  end.

(** [Breakpoints::insert]: returns whether it already existed. *)
Definition bp_has (l : list (N * bool)) (a : N) : bool :=
  match bp_get l a with Some _ => true | None => false end.

Definition bp_remove (l : list (N * bool)) (a : N) : list (N * bool) :=
  filter (fun b => negb (fst b =? a)) l.

Definition with_orig (l : list (N * bool)) (orig : N) : list (N * bool) :=
  List.map (fun b => (fst b + orig, snd b)) l.

(* ------------------------------------------------------------------ *)
(** * Locations *)

Definition signed16 (v : N) : Z := if v <? 32768 then Z.of_N v else (Z.of_N v - 65536)%Z.

(** [add_address_offset]: the sum formed without wrap-around, accepted iff in user space. *)
Definition add_address_offset (orig address offset : N) : option N :=
  let s := (Z.of_N address + signed16 offset)%Z in
  if ((Z.of_N orig <=? s) && (s <? 65024))%Z then Some (Z.to_N s) else None.

Definition L_OOB_ADDRESS := str "OutOfBounds::Address".
Definition L_OOB_PC := str "OutOfBounds::ProgramCounter".
Definition L_LABEL_NOT_FOUND := str "Labels::NotFound".
Definition L_REACHED_BP := str "Reached::Breakpoint".
Definition L_REACHED_HALT := str "Reached::Halt".
Definition L_REACHED_SUBEND := str "Reached::SubroutineEnd".
Definition L_MISSING_STACK := str "MissingFeature::Stack".
Definition L_BP_EXISTS := str "Breakpoints::AlreadyExists".
Definition L_BP_NOT_FOUND := str "Breakpoints::NotFound".
Definition L_BP_EMPTY := str "Breakpoints::Empty".
Definition L_DIS_BRANCH := str "DisallowedInstruction::Branch".
Definition L_DIS_INTERRUPT := str "DisallowedInstruction::Interrupt".
Definition L_DIS_HALT := str "DisallowedInstruction::Halt".
Definition L_DIS_TRAP := str "DisallowedInstruction::UnknownTrap".
Definition L_EVAL_ERROR := [1; 69; 118; 97; 108; 69; 114; 114; 111; 114].   (* "\x01EvalError" *)
Definition L_HELP := str "<help>".
Definition L_COMMAND_ERROR := str "CommandError".

(** [resolve_location]; errors are reported on the way. *)
Definition resolve_location (env : dbg_env) (d : dbg) (st : state) (m : memloc) : option N * dbg :=
  match m with
  | MAddr a => (Some a, d)
  | MPcOff off =>
      match add_address_offset (s_orig st) (s_pc st) off with
      | Some a => (Some a, d)
      | None => (None, say d L_OOB_ADDRESS)
      end
  | MLabel name off =>
      match sym_get (e_sym env) name with
      | None => (None, say d L_LABEL_NOT_FOUND)
      | Some line =>
          (* resolve_symbol_address: line - 1; resolve_label: + orig *)
          match add_address_offset (s_orig st) (wrap (line - 1 + s_orig st)) off with
          | Some a => (Some a, d)
          | None => (None, say d L_OOB_ADDRESS)
          end
      end
  end.

Definition in_userspace (st : state) (a : N) : bool := (s_orig st <=? a) && (a <? 65024).

(** [expect_userspace_address] *)
Definition expect_userspace (d : dbg) (st : state) (a : N) : bool * dbg :=
  if in_userspace st a then (true, d) else (false, say d L_OOB_ADDRESS).

(* ------------------------------------------------------------------ *)
(** * Text of a statement ([AsmSource::get_source_statement] + slice of the source) *)

Fixpoint drop_bytes (n : N) (l : list N) (fuel : nat) : list N :=
  match fuel with
  | O => l
  | S f => if n =? 0 then l else
           match l with [] => [] | c :: r => drop_bytes (n - len_utf8 c) r f end
  end.

Fixpoint take_bytes (n : N) (l : list N) (fuel : nat) : list N :=
  match fuel with
  | O => []
  | S f => if n =? 0 then [] else
           match l with [] => [] | c :: r => c :: take_bytes (n - len_utf8 c) r f end
  end.

Definition slice_src (src : list N) (offs len : N) : list N :=
  take_bytes len (drop_bytes offs src (S (length src))) (S (length src)).

Definition source_statement (env : dbg_env) (orig address : N) : option (list N) :=
  if (address <? orig) || (N.of_nat (length (e_spans env)) <=? address - orig) then None
  else match nth_error (e_spans env) (N.to_nat (address - orig)) with
       | Some (o, l) => Some (slice_src (e_src env) o l)
       | None => None
       end.

Fixpoint split_lines (l : list N) (cur : list N) : list (list N) :=
  match l with
  | [] => [lrev cur]
  | c :: r => if c =? 10 then lrev cur :: split_lines r [] else split_lines r (c :: cur)
  end.

(* ------------------------------------------------------------------ *)
(** * eval *)

(** [preprocess_simple] + [parse_simple]: exactly one instruction or trap, nothing after it. *)
Fixpoint lex_simple (feat : bool) (fuel : nat) (l : list N) (pos : N) (acc : list token) : res (list token) :=
  match fuel with
  | O => Bad 6
  | S fuel' =>
      match advance_real feat l pos with
      | StepErr d a n => Err d a n
      | StepTok t rest pos' =>
          match tk t with
          | KComment | KWhitespace => lex_simple feat fuel' rest pos' acc
          | KEof => Ok (lrev acc)
          | _ => lex_simple feat fuel' rest pos' (t :: acc)
          end
      end
  end.

Definition parse_simple (sym : symtab) (toks : list token) (srclen : N) : res stmt :=
  match toks with
  | [] => Err E_eof (srclen - 1) 0
  | t :: r =>
      let after (x : res (stmt * pst)) : res stmt :=
        match x with
        | Ok (s, (rest, _)) => match rest with
                               | [] => Ok s
                               | extra :: _ => Err E_unexpected (toffs extra) (tlen extra)
                               end
        | Err d a n => Err d a n
        | Bad w => Bad w
        end in
      match tk t with
      | KInstr k => after (parse_instr sym 1 k (r, 0) srclen)
      | KTrap k => after (parse_trap k (r, 0) srclen)
      | KDir _ | KLabel | KLit _ | KReg _ => Err E_unexpected (toffs t) (tlen t)
      | _ => Bad 7
      end
  end.

Inductive eval_result :=
| EvalDone (st : state)              (* executed *)
| EvalRefused (line : list N)        (* an off-limits instruction: message, no effect *)
| EvalError                          (* not one well-formed instruction: diagnostic, no effect *)
| EvalStop (r : result).             (* the instruction itself stopped the machine *)

Definition eval (env : dbg_env) (st : state) (text : list N) : eval_result :=
  match lex_simple (e_feat env) (S (length text)) text 0 [] with
  | Err _ _ _ => EvalError
  | Bad w => EvalStop (Panicked st)
  | Ok toks =>
      match parse_simple (e_sym env) toks (bytes text) with
      | Err _ _ _ => EvalError
      | Bad w => EvalStop (Panicked st)
      | Ok s =>
          match s with
          | SBranch _ _ => EvalRefused L_DIS_BRANCH
          | SInterrupt => EvalRefused L_DIS_INTERRUPT
          | STrap v =>
              if v =? 37 then EvalRefused L_DIS_HALT
              else if (v <? 32) || (39 <? v) then EvalRefused L_DIS_TRAP
              else match execute (e_feat env) (orl 61440 v) st with
                   | Running st' => EvalDone st'
                   | r => EvalStop r
                   end
          | _ =>
              match backpatch_stmt (e_sym env) s with
              | Err _ _ _ => EvalError
              | Bad w => EvalStop (Panicked st)
              | Ok s' =>
                  let line := wrap (s_pc st + 65536 - s_orig st) in
                  match emit (mkLine line s' 0 0) with
                  | Err _ _ _ => EvalError
                  | Bad w => EvalStop (Panicked st)
                  | Ok w => match execute (e_feat env) w st with
                            | Running st' => EvalDone st'
                            | r => EvalStop r
                            end
                  end
              end
          end
      end
  end.

(* ------------------------------------------------------------------ *)
(** * run_command *)

Inductive action := Proceed | StopDebugger | ExitProgram.

Inductive cmd_result :=
| CmdAction (a : action) (d : dbg) (st : state)
| CmdNone (d : dbg) (st : state)                 (* keep reading commands *)
| CmdStop (r : result) (d : dbg).                (* eval stopped the machine (exit / panic) *)

Definition fmt_x04 (v : N) : list N := 120 :: fmt_04x v.

Definition registers_lines (st : state) : list (list N) :=
  List.map (fun i => [82; 48 + i; 32] ++ fmt_x04 (R st i)) [0;1;2;3;4;5;6;7]
  ++ [[80; 67; 32] ++ fmt_x04 (s_pc st)]
  ++ [[67; 67; 32] ++ fmt_03b (s_cc st)].

(** [check_halt]: resuming commands are refused while parked on HALT. *)
Definition at_halt (st : state) : bool := is_sig (significant (M st (s_pc st))) SigHalt.

Definition run_command (env : dbg_env) (c : cmd) (d0 : dbg) (st : state) : cmd_result :=
  let d := set_icount d0 0 in
  match c with
  | CQuit => CmdAction StopDebugger d st
  | CExit => CmdAction ExitProgram d st
  | CHelp => CmdNone (say d L_HELP) st
  | CBad => CmdNone (say d L_COMMAND_ERROR) st
  | CReset =>
      (* the machine (registers, PC, CC, memory, origin) is restored; the console is not part of it *)
      CmdNone d (set_out (set_inp (d_init d) (s_inp st)) (s_out st))
  | CContinue =>
      if at_halt st then CmdNone (say d L_REACHED_HALT) st
      else CmdNone (set_status d ContinueS) st
  | CStepOver =>
      if at_halt st then CmdNone (say d L_REACHED_HALT) st
      else if is_sig (significant (M st (s_pc st))) SigCall
           then CmdNone (set_status d (StepOverS (wrapping_add (s_pc st) 1))) st
           else CmdNone (set_status d (StepIntoS 0)) st
  | CStepInto count =>
      if at_halt st then CmdNone (say d L_REACHED_HALT) st
      else CmdNone (set_status d (StepIntoS (count - 1))) st
  | CStepOut =>
      if negb (e_feat env) then CmdNone (say d L_MISSING_STACK) st
      else if at_halt st then CmdNone (say d L_REACHED_HALT) st
      else CmdNone (set_status d FinishS) st
  | CPrint (LReg r) => CmdNone (say d (fmt_x04 (R st r))) st
  | CPrint (LMem m) =>
      match resolve_location env d st m with
      | (Some a, d1) => CmdNone (say d1 (fmt_x04 (M st a))) st
      | (None, d1) => CmdNone d1 st
      end
  | CMove (LReg r) v => CmdNone d (set_reg st r v)
  | CMove (LMem m) v =>
      match resolve_location env d st m with
      | (Some a, d1) =>
          match expect_userspace d1 st a with
          | (true, d2) => CmdNone d2 (set_mem st a v)
          | (false, d2) => CmdNone d2 st
          end
      | (None, d1) => CmdNone d1 st
      end
  | CRegisters => CmdNone (say_lines d (registers_lines st)) st
  | CGoto m =>
      match resolve_location env d st m with
      | (Some a, d1) =>
          match expect_userspace d1 st a with
          | (true, d2) => CmdNone d2 (set_pc st a)
          | (false, d2) => CmdNone d2 st
          end
      | (None, d1) => CmdNone d1 st
      end
  | CEval text =>
      match eval env st text with
      | EvalDone st' => CmdNone d st'
      | EvalRefused line => CmdNone (say d line) st
      | EvalError => CmdNone (say d L_EVAL_ERROR) st
      | EvalStop r => CmdStop r d
      end
  | CEcho text => CmdNone (say d ([91] ++ text ++ [93])) st
  | CAssembly m =>
      match resolve_location env d st m with
      | (Some a, d1) =>
          match source_statement env (s_orig (d_init d)) a with
          | Some text => CmdNone (say_lines d1 (split_lines text [])) st
          | None => CmdNone d1 st
          end
      | (None, d1) => CmdNone d1 st
      end
  | CBreakAdd m =>
      match resolve_location env d st m with
      | (Some a, d1) =>
          match expect_userspace d1 st a with
          | (true, d2) =>
              if bp_has (d_bps d2) a then CmdNone (say d2 L_BP_EXISTS) st
              else CmdNone (set_bps d2 (bp_insert (d_bps d2) (a, false))) st
          | (false, d2) => CmdNone d2 st
          end
      | (None, d1) => CmdNone d1 st
      end
  | CBreakRemove m =>
      match resolve_location env d st m with
      | (Some a, d1) =>
          match expect_userspace d1 st a with
          | (true, d2) =>
              if bp_has (d_bps d2) a then CmdNone (set_bps d2 (bp_remove (d_bps d2) a)) st
              else CmdNone (say d2 L_BP_NOT_FOUND) st
          | (false, d2) => CmdNone d2 st
          end
      | (None, d1) => CmdNone d1 st
      end
  | CBreakList =>
      match d_bps d with
      | [] => CmdNone (say d L_BP_EMPTY) st
      | bps => CmdNone (say_lines d (List.map (fun b => fmt_x04 (fst b)) bps)) st
      end
  end.

(* ------------------------------------------------------------------ *)
(** * next_action *)

(** The arms of the status loop that do not read a command.  [None]: status is (now)
    WaitForAction, a command must be read. *)
Definition dispatch_status (d : dbg) (st : state) : option action * dbg :=
  match d_status d with
  | WaitForAction => (None, d)
  | StepOverS ra =>
      if s_pc st =? ra
      then (None, set_status (if 1 <? d_icount d then say d L_REACHED_SUBEND else d) WaitForAction)
      else (Some Proceed, d)
  | StepIntoS count =>
      if 0 <? count then (Some Proceed, set_status d (StepIntoS (count - 1)))
      else (Some Proceed, set_status d WaitForAction)
  | ContinueS => (Some Proceed, d)
  | FinishS =>
      if is_sig (significant (M st (s_pc st))) SigReturn
      then (Some Proceed, set_status (say d L_REACHED_SUBEND) WaitForAction)
      else (Some Proceed, d)
  end.

Inductive na_result :=
| NaAction (a : action) (d : dbg) (st : state) (rest : list cmd) (ncmds : N)
| NaStop (r : result) (d : dbg) (rest : list cmd) (ncmds : N).

(** Reading commands until one raises an action; end of the script is end of input = `quit`. *)
Fixpoint wait_loop (env : dbg_env) (script : list cmd) (d : dbg) (st : state) (n : N) : na_result :=
  match script with
  | [] => NaAction StopDebugger (set_icount d 0) st [] (n + 1)
  | c :: rest =>
      match run_command env c d st with
      | CmdAction a d1 st1 => NaAction a d1 st1 rest (n + cmd_cost c)
      | CmdStop r d1 => NaStop r d1 rest (n + cmd_cost c)
      | CmdNone d1 st1 =>
          match dispatch_status d1 st1 with
          | (Some a, d2) => NaAction a d2 st1 rest (n + cmd_cost c)
          | (None, d2) => wait_loop env rest d2 st1 (n + cmd_cost c)
          end
      end
  end.

(** [check_interrupts] *)
Definition check_interrupts (d : dbg) (st : state) : dbg :=
  match bp_get (d_bps d) (s_pc st) with
  | Some _ => set_status (say d L_REACHED_BP) WaitForAction
  | None =>
      if at_halt st then set_status (say d L_REACHED_HALT) WaitForAction else d
  end.

Definition next_action (env : dbg_env) (script : list cmd) (d : dbg) (st : state) : na_result :=
  let d1 :=
    if (s_pc st <? s_orig st) || (65024 <=? s_pc st)
    then set_status (say d L_OOB_PC) WaitForAction else d in
  let d2 := check_interrupts d1 st in
  match dispatch_status d2 st with
  | (Some a, d3) => NaAction a d3 st script 0
  | (None, d3) => wait_loop env script d3 st 0
  end.

(* ------------------------------------------------------------------ *)
(** * The run loop with a debugger attached *)

Record session_result := mkSres {
  sr_kind : N;            (* 0 finished, 1 exit, 2 panic, 3 hung, 4 out of ticks, 7 `exit` command *)
  sr_code : N;
  sr_state : state;
  sr_dbg : option dbg;    (* still attached at the end (only after `exit`) *)
  sr_err : list (list N); (* debugger stderr lines, oldest first *)
  sr_ticks : N;           (* iterations of the run loop *)
  sr_execs : N;           (* instructions executed *)
  sr_cmds : N             (* commands read (end of input counts as one) *)
}.

Definition of_vm (r : vm_result * list (N * N)) (st0 : state) (err : list (list N)) (ticks execs cmds : N)
  : session_result :=
  let n := N.of_nat (length (snd r)) in
  match fst r with
  | VFinished st => mkSres 0 0 st None err (ticks + n + 1) (execs + n) cmds
  | VExit c st => mkSres 1 c st None err (ticks + n + 1) (execs + n) cmds
  | VPanic st => mkSres 2 0 st None err (ticks + n + 1) (execs + n) cmds
  | VHung => mkSres 3 0 st0 None err (ticks + n + 1) (execs + n) cmds
  | VOutOfFuel st => mkSres 4 0 st None err (ticks + n) (execs + n) cmds
  end.

(** One iteration of the loop of [RunEnvironment::run] while the debugger is attached. *)
Inductive tick_result :=
| TStop (kind code : N) (st : state) (d : dbg) (execd : N) (n : N)   (* the session ends here *)
| TDetach (d : dbg) (st : state) (n : N)                             (* `quit` / end of input *)
| TNext (rest : list cmd) (d : dbg) (st : state) (execd : N) (n : N).
   (* [execd]: instructions executed by this iteration (0 or 1); [n]: commands read by it *)

Definition tick (env : dbg_env) (script : list cmd) (d : dbg) (st : state) : tick_result :=
  match next_action env script d st with
  | NaStop r d1 rest n =>
      match r with
      | Exited c st' => TStop 1 c st' d1 0 n
      | Panicked st' => TStop 2 0 st' d1 0 n
      | _ => TStop 3 0 st d1 0 n
      end
  | NaAction ExitProgram d1 st1 rest n => TStop 7 0 st1 d1 0 n
  | NaAction StopDebugger d1 st1 rest n => TDetach d1 st1 n
  | NaAction Proceed d1 st1 rest n =>
      (* never execute HALT while attached; out of bounds is caught on the next iteration *)
      if at_halt st1 then TNext rest d1 st1 0 n
      else if (s_pc st1 <? s_orig st1) || (65024 <=? s_pc st1) then TNext rest d1 st1 0 n
      else
        let d2 := set_icount d1 (d_icount d1 + 1) in
        let instr := M st1 (s_pc st1) in
        if W <=? s_pc st1 + 1 then TStop 2 0 st1 d2 0 n
        else
          match execute (e_feat env) instr (set_pc st1 (s_pc st1 + 1)) with
          | Running st2 => TNext rest d2 st2 1 n
          | Exited c st2 => TStop 1 c st2 d2 1 n
          | Panicked st2 => TStop 2 0 st2 d2 1 n
          | Diverged => TStop 3 0 st1 d2 1 n
          end
  end.

(** [fuel] bounds the iterations of the loop while the debugger is attached; once it is detached
    the plain loop [vm_run] continues with what is left. *)
Fixpoint session (env : dbg_env) (fuel : nat) (script : list cmd) (d : dbg) (st : state)
                 (ticks execs cmds : N) : session_result :=
  match fuel with
  | O => mkSres 4 0 st (Some d) (lrev (d_err d)) ticks execs cmds
  | S fuel' =>
      match tick env script d st with
      | TStop kind code st' d1 e n =>
          mkSres kind code st' (Some d1) (lrev (d_err d1)) (ticks + 1) (execs + e) (cmds + n)
      | TDetach d1 st1 n =>
          of_vm (vm_run (e_feat env) fuel' st1 []) st1 (lrev (d_err d1)) (ticks + 1) execs (cmds + n)
      | TNext rest d1 st1 e n => session env fuel' rest d1 st1 (ticks + 1) (execs + e) (cmds + n)
      end
  end.

(** [RunEnvironment::try_from(air, Some(opts))] followed by [run]. *)
Definition debug_session (feat : bool) (src : list N) (inp : list N) (script : list cmd) (fuel : nat)
  : option session_result :=
  match assemble feat [] src with
  | (Ok im, sym) =>
      let raw := (match i_orig im with Some o => o | None => 12288 end) :: i_words im in
      match from_raw raw inp with
      | LoadExit c => None
      | Loaded st =>
          let env := mkEnv feat sym (i_spans im) src in
          let d := mkDbg WaitForAction (with_orig (i_bps im) (s_pc st)) st [] 0 in
          Some (session env fuel script d st 0 0 0)
      end
  | _ => None
  end.
