(* Utf8.v — MODEL of the piped-stdin reader's character decoder (reader/stdin.rs:
   `Utf8Position::from`, `read_char_from_bytes`, and the validation `std::str::from_utf8` performs on
   the bytes it collected) and the THEOREM that it reads back every Unicode scalar value from its
   UTF-8 encoding — all 1,112,064 of them, by a sweep inside the kernel — consuming exactly the
   bytes of that character.  So a script that is valid UTF-8 is read as its characters.  Bytes that are NOT UTF-8 are read too
   (second model below, [read_char_lossy]: U+FFFD in their place, nothing swallowed, always progress). *)
From Coq Require Import List NArith Bool Lia.
Import ListNotations.
Open Scope N_scope.

(* ------------------------------------------------------------------ *)
(** * SPEC: UTF-8 *)

Definition scalar (c : N) : bool := (c <? 55296) || ((57343 <? c) && (c <? 1114112)).

Definition encode (c : N) : list N :=
  if c <? 128 then [c]
  else if c <? 2048 then [192 + c / 64; 128 + c mod 64]
  else if c <? 65536 then [224 + c / 4096; 128 + (c / 64) mod 64; 128 + c mod 64]
  else [240 + c / 262144; 128 + (c / 4096) mod 64; 128 + (c / 64) mod 64; 128 + c mod 64].

(* ------------------------------------------------------------------ *)
(** * MODEL: the reader *)

Inductive upos := Begin4 | Begin3 | Begin2 | Begin1 | Continuation.

(** The masks of [Utf8Position::from], tested in its order. *)
Definition upos_of (b : N) : upos :=
  if N.land b 240 =? 240 then Begin4
  else if N.land b 224 =? 224 then Begin3
  else if N.land b 192 =? 192 then Begin2
  else if N.land b 128 =? 128 then Continuation
  else Begin1.

Definition is_cont (b : N) : bool := match upos_of b with Continuation => true | _ => false end.

Definition between (lo b hi : N) : bool := (lo <=? b) && (b <=? hi).

(** [std::str::from_utf8] on one character's worth of bytes, then [chars().next()]. *)
Definition from_utf8_1 (bs : list N) : option N :=
  match bs with
  | [a] => if a <? 128 then Some a else None
  | [a; b] =>
      if between 194 a 223 && between 128 b 191 then Some ((a - 192) * 64 + (b - 128)) else None
  | [a; b; c] =>
      let ok2 := if a =? 224 then between 160 b 191
                 else if a =? 237 then between 128 b 159
                 else between 225 a 239 && between 128 b 191 in
      if ok2 && between 128 c 191 then Some ((a - 224) * 4096 + (b - 128) * 64 + (c - 128)) else None
  | [a; b; c; d] =>
      let ok2 := if a =? 240 then between 144 b 191
                 else if a =? 244 then between 128 b 143
                 else between 241 a 243 && between 128 b 191 in
      if ok2 && between 128 c 191 && between 128 d 191
      then Some ((a - 240) * 262144 + (b - 128) * 4096 + (c - 128) * 64 + (d - 128)) else None
  | _ => None
  end.

Inductive read_char_result :=
| RcEof                                  (* `Ok(None)`: end of input before the first byte *)
| RcErr                                  (* `Err(())`: the reader panics ("uh oh") *)
| RcChar (c : N) (rest : list N).

(** The continuation bytes, each checked as it is read. *)
Fixpoint take_cont (n : nat) (bs : list N) : option (list N * list N) :=
  match n with
  | O => Some ([], bs)
  | S n' =>
      match bs with
      | [] => None
      | b :: r => if is_cont b then
                    match take_cont n' r with Some (got, rest) => Some (b :: got, rest) | None => None end
                  else None
      end
  end.

Definition read_char (bs : list N) : read_char_result :=
  match bs with
  | [] => RcEof
  | a :: r =>
      let len := match upos_of a with
                 | Begin4 => Some 3%nat | Begin3 => Some 2%nat | Begin2 => Some 1%nat | Begin1 => Some 0%nat
                 | Continuation => None
                 end in
      match len with
      | None => RcErr
      | Some n =>
          match take_cont n r with
          | None => RcErr
          | Some (got, rest) =>
              match from_utf8_1 (a :: got) with
              | Some c => RcChar c rest
              | None => RcErr
              end
          end
      end
  end.

(** A whole text: [None] where the reader would panic. *)
Fixpoint decode_all (fuel : nat) (bs : list N) : option (list N) :=
  match fuel with
  | O => None
  | S f =>
      match read_char bs with
      | RcEof => Some []
      | RcErr => None
      | RcChar c rest => match decode_all f rest with Some cs => Some (c :: cs) | None => None end
      end
  end.

Definition decode (bs : list N) : option (list N) := decode_all (S (length bs)) bs.

(* ------------------------------------------------------------------ *)
(** * MODEL: the reader as the debugger uses it (`Stdin::read_char`)

    Bytes that are not UTF-8 do not stop the debugger: where [read_char] says [RcErr] the reader
    hands on U+FFFD (the replacement character) instead.  The byte that showed the sequence to be
    broken - one that is not a continuation byte where one was due - is NOT swallowed: it is kept
    (`Stdin::pending`) and read again as the start of the next character, so a line end or a `;`
    behind a truncated character still ends the line. *)

Definition replacement : N := 65533.

(** The continuation bytes, or what is left from the first byte that is not one. *)
Fixpoint take_cont_l (n : nat) (bs : list N) : (list N * list N) + list N :=
  match n with
  | O => inl ([], bs)
  | S n' =>
      match bs with
      | [] => inr []
      | b :: r => if is_cont b then
                    match take_cont_l n' r with inl (got, rest) => inl (b :: got, rest) | inr rest => inr rest end
                  else inr (b :: r)
      end
  end.

(** How many continuation bytes the first byte announces ([Utf8Position::len] - 1). *)
Definition cont_due (a : N) : option nat :=
  match upos_of a with
  | Begin4 => Some 3%nat | Begin3 => Some 2%nat | Begin2 => Some 1%nat | Begin1 => Some 0%nat
  | Continuation => None
  end.

Definition read_char_lossy (bs : list N) : option (N * list N) :=
  match bs with
  | [] => None
  | a :: r =>
      match cont_due a with
      | None => Some (replacement, r)
      | Some n =>
          match take_cont_l n r with
          | inr rest => Some (replacement, rest)
          | inl (got, rest) =>
              match from_utf8_1 (a :: got) with
              | Some c => Some (c, rest)
              | None => Some (replacement, rest)
              end
          end
      end
  end.

(** A whole text.  The fuel never runs out when it exceeds the number of bytes ([decode_lossy_fuel]). *)
Fixpoint decode_lossy_all (fuel : nat) (bs : list N) : list N :=
  match fuel with
  | O => []
  | S f =>
      match read_char_lossy bs with
      | None => []
      | Some (c, rest) => c :: decode_lossy_all f rest
      end
  end.

Definition decode_lossy (bs : list N) : list N := decode_lossy_all (S (length bs)) bs.

(* ------------------------------------------------------------------ *)
(** * THEOREM: every scalar value is read back *)

Definition check (c : N) : bool :=
  negb (scalar c) ||
  match read_char (encode c) with RcChar c' [] => c' =? c | _ => false end.

Fixpoint all_from (n : nat) (c : N) : bool :=
  match n with
  | O => true
  | S n' => check c && all_from n' (c + 1)
  end.

Lemma all_from_spec : forall n c, all_from n c = true -> forall k, (k < n)%nat -> check (c + N.of_nat k) = true.
Proof.
  induction n as [|n IH]; intros c H k Hk; [lia|]. cbn [all_from] in H. apply andb_true_iff in H as [H1 H2].
  destruct k as [|k]; [rewrite N.add_0_r; exact H1|].
  replace (c + N.of_nat (S k)) with (c + 1 + N.of_nat k) by lia. apply IH; [exact H2|lia].
Qed.

(** The sweep: all 1,114,112 candidates, evaluated by the kernel's virtual machine. *)
Lemma sweep : all_from (N.to_nat 1114112) 0 = true.
Proof. vm_compute. reflexivity. Qed.

Lemma check_all c : c < 1114112 -> check c = true.
Proof.
  intros H. pose proof (all_from_spec _ _ sweep (N.to_nat c)) as K.
  rewrite Nnat.N2Nat.id, N.add_0_l in K. apply K. lia.
Qed.

(** The reader looks at the bytes of one character only. *)
Lemma take_cont_app : forall n bs got rest more,
  take_cont n bs = Some (got, rest) -> take_cont n (bs ++ more) = Some (got, rest ++ more).
Proof.
  induction n as [|n IH]; intros bs got rest more H; cbn [take_cont] in *.
  - inversion H; subst. reflexivity.
  - destruct bs as [|b r]; [discriminate|]. cbn [app]. destruct (is_cont b); [|discriminate].
    destruct (take_cont n r) as [[g rs]|] eqn:E; [|discriminate]. injection H as <- <-.
    rewrite (IH r g rs more E). reflexivity.
Qed.

Lemma read_char_app bs c more : read_char bs = RcChar c [] -> read_char (bs ++ more) = RcChar c more.
Proof.
  unfold read_char. destruct bs as [|a r]; [discriminate|]. cbn [app].
  destruct (upos_of a); try discriminate;
    (destruct (take_cont _ r) as [[got rest]|] eqn:E; [|discriminate];
     rewrite (take_cont_app _ _ _ _ more E);
     destruct (from_utf8_1 (a :: got)); [|discriminate];
     intros H; inversion H; subst; reflexivity).
Qed.

Theorem read_char_encode c more : scalar c = true -> read_char (encode c ++ more) = RcChar c more.
Proof.
  intros Hs. assert (Hc : c < 1114112).
  { unfold scalar in Hs. apply orb_true_iff in Hs as [H|H]; [apply N.ltb_lt in H; lia|].
    apply andb_true_iff in H as [_ H]. apply N.ltb_lt in H. exact H. }
  pose proof (check_all c Hc) as K. unfold check in K. rewrite Hs in K. cbn [negb orb] in K.
  destruct (read_char (encode c)) as [| |c' rest] eqn:E; try discriminate.
  destruct rest; [|discriminate]. apply N.eqb_eq in K. subst c'. apply read_char_app. exact E.
Qed.

(** Texts: the reader decodes every valid UTF-8 text to its characters, and never panics on one. *)
Fixpoint encode_all (cs : list N) : list N :=
  match cs with [] => [] | c :: r => encode c ++ encode_all r end.

Lemma encode_nonempty c : encode c <> [].
Proof. unfold encode. destruct (c <? 128); [discriminate|]. destruct (c <? 2048); [discriminate|]. destruct (c <? 65536); discriminate. Qed.

Lemma decode_all_encode : forall cs fuel, (length cs < fuel)%nat ->
  forallb scalar cs = true -> decode_all fuel (encode_all cs) = Some cs.
Proof.
  induction cs as [|c r IH]; intros fuel Hf Hs; destruct fuel as [|fuel]; try (cbn [length] in Hf; lia).
  - reflexivity.
  - cbn [forallb] in Hs. apply andb_true_iff in Hs as [H1 H2]. cbn [decode_all encode_all].
    rewrite (read_char_encode c (encode_all r) H1). rewrite IH; [reflexivity|cbn [length] in Hf; lia|exact H2].
Qed.

Lemma encode_all_length : forall cs, (length cs <= length (encode_all cs))%nat.
Proof.
  induction cs as [|c r IH]; [cbn; lia|]. cbn [encode_all length]. rewrite app_length.
  pose proof (encode_nonempty c). destruct (encode c); [contradiction|cbn [length]; lia].
Qed.

Theorem decode_encode cs : forallb scalar cs = true -> decode (encode_all cs) = Some cs.
Proof.
  intros H. unfold decode. apply decode_all_encode; [|exact H].
  pose proof (encode_all_length cs). lia.
Qed.

(* ------------------------------------------------------------------ *)
(** * THEOREMS about the lossy reader *)

Lemma take_cont_l_inl : forall n bs got rest, take_cont_l n bs = inl (got, rest) -> take_cont n bs = Some (got, rest).
Proof.
  induction n as [|n IH]; intros bs got rest H; cbn [take_cont_l take_cont] in *.
  - injection H as <- <-. reflexivity.
  - destruct bs as [|b r]; [discriminate|]. destruct (is_cont b); [|discriminate].
    destruct (take_cont_l n r) as [[g rs]|rs] eqn:E; [|discriminate]. injection H as <- <-.
    rewrite (IH r g rs E). reflexivity.
Qed.

Lemma take_cont_l_of : forall n bs got rest, take_cont n bs = Some (got, rest) -> take_cont_l n bs = inl (got, rest).
Proof.
  induction n as [|n IH]; intros bs got rest H; cbn [take_cont_l take_cont] in *.
  - injection H as <- <-. reflexivity.
  - destruct bs as [|b r]; [discriminate|]. destruct (is_cont b); [|discriminate].
    destruct (take_cont n r) as [[g rs]|] eqn:E; [|discriminate]. injection H as <- <-.
    rewrite (IH r g rs E). reflexivity.
Qed.

(** Where the strict reader reads a character, the lossy one reads the same character and leaves the same rest. *)
Lemma read_char_lossy_char bs c rest : read_char bs = RcChar c rest -> read_char_lossy bs = Some (c, rest).
Proof.
  unfold read_char, read_char_lossy, cont_due. destruct bs as [|a r]; [discriminate|].
  destruct (upos_of a); try discriminate;
    (destruct (take_cont _ r) as [[got rs]|] eqn:E; [|discriminate];
     rewrite (take_cont_l_of _ _ _ _ E);
     destruct (from_utf8_1 (a :: got)); [|discriminate];
     intros H; injection H as <- <-; reflexivity).
Qed.

Lemma read_char_lossy_eof bs : read_char_lossy bs = None <-> bs = [].
Proof.
  split; [|intros ->; reflexivity]. unfold read_char_lossy, cont_due. destruct bs as [|a r]; [reflexivity|].
  destruct (upos_of a); try discriminate;
    (destruct (take_cont_l _ r) as [[got rs]|rs]; [destruct (from_utf8_1 (a :: got))|]; discriminate).
Qed.

Lemma take_cont_l_length : forall n bs,
  match take_cont_l n bs with
  | inl (_, rest) => (length rest <= length bs)%nat
  | inr rest => (length rest <= length bs)%nat
  end.
Proof.
  induction n as [|n IH]; intros bs; cbn [take_cont_l]; [lia|].
  destruct bs as [|b r]; [cbn; lia|]. destruct (is_cont b); [|lia].
  specialize (IH r). destruct (take_cont_l n r) as [[g rs]|rs]; cbn [length]; lia.
Qed.

(** Every call takes at least one byte: the reader always makes progress. *)
Lemma read_char_lossy_progress bs c rest : read_char_lossy bs = Some (c, rest) -> (length rest < length bs)%nat.
Proof.
  unfold read_char_lossy, cont_due. destruct bs as [|a r]; [discriminate|]. cbn [length].
  destruct (upos_of a);
    try (match goal with |- context [take_cont_l ?n r] => pose proof (take_cont_l_length n r) as L;
           destruct (take_cont_l n r) as [[got rs]|rs] end;
         [destruct (from_utf8_1 (a :: got))|]; intros H; injection H as _ <-; lia).
  intros H; injection H as _ <-; lia.
Qed.

(** The fuel is never what ends the decoding: any two amounts above the number of bytes give the same text. *)
Lemma decode_lossy_fuel : forall f1 f2 bs, (length bs < f1)%nat -> (length bs < f2)%nat ->
  decode_lossy_all f1 bs = decode_lossy_all f2 bs.
Proof.
  induction f1 as [|f1 IH]; intros f2 bs H1 H2; [lia|]. destruct f2 as [|f2]; [lia|].
  cbn [decode_lossy_all]. destruct (read_char_lossy bs) as [[c rest]|] eqn:E; [|reflexivity].
  apply read_char_lossy_progress in E. f_equal. apply IH; lia.
Qed.

(** The text is consumed to its end: unfolding equation without fuel. *)
Theorem decode_lossy_step bs :
  decode_lossy bs = match read_char_lossy bs with None => [] | Some (c, rest) => c :: decode_lossy rest end.
Proof.
  unfold decode_lossy at 1. cbn [decode_lossy_all]. destruct (read_char_lossy bs) as [[c rest]|] eqn:E; [|reflexivity].
  f_equal. unfold decode_lossy. apply read_char_lossy_progress in E. apply decode_lossy_fuel; lia.
Qed.

(** On a text that is valid UTF-8 nothing is replaced. *)
Lemma decode_lossy_all_valid : forall fuel bs cs, decode_all fuel bs = Some cs -> decode_lossy_all fuel bs = cs.
Proof.
  induction fuel as [|fuel IH]; intros bs cs H; [discriminate|]. cbn [decode_all decode_lossy_all] in *.
  destruct (read_char bs) as [| |c rest] eqn:E; try discriminate.
  - injection H as <-. destruct bs; [reflexivity|]. unfold read_char in E.
    destruct (upos_of n); try discriminate;
      (destruct (take_cont _ bs) as [[got rs]|]; [destruct (from_utf8_1 (n :: got))|]; discriminate).
  - rewrite (read_char_lossy_char _ _ _ E). destruct (decode_all fuel rest) as [cs'|] eqn:D; [|discriminate].
    injection H as <-. rewrite (IH _ _ D). reflexivity.
Qed.

Theorem decode_lossy_valid bs cs : decode bs = Some cs -> decode_lossy bs = cs.
Proof. unfold decode, decode_lossy. apply decode_lossy_all_valid. Qed.

Theorem decode_lossy_encode cs : forallb scalar cs = true -> decode_lossy (encode_all cs) = cs.
Proof. intros H. apply decode_lossy_valid. apply decode_encode. exact H. Qed.

(** A byte that is not a continuation byte is never swallowed by a broken character in front of it: ASCII bytes
    (line ends, `;`) behind a truncated sequence are read as themselves. *)
Lemma take_cont_l_keeps : forall n pre b rest, forallb is_cont pre = true -> (length pre < n)%nat -> is_cont b = false ->
  take_cont_l n (pre ++ b :: rest) = inr (b :: rest).
Proof.
  induction n as [|n IH]; intros pre b rest Hp Hl Hb; [lia|]. cbn [take_cont_l].
  destruct pre as [|p pre]; cbn [app].
  - rewrite Hb. reflexivity.
  - cbn [forallb] in Hp. apply andb_true_iff in Hp as [Hp1 Hp2]. rewrite Hp1.
    rewrite (IH pre b rest Hp2); [reflexivity|cbn [length] in Hl; lia|exact Hb].
Qed.

Theorem read_char_lossy_keeps a n pre b rest :
  cont_due a = Some n -> forallb is_cont pre = true -> (length pre < n)%nat -> is_cont b = false ->
  read_char_lossy (a :: pre ++ b :: rest) = Some (replacement, b :: rest).
Proof.
  intros Ha Hp Hl Hb. unfold read_char_lossy. rewrite Ha. rewrite (take_cont_l_keeps n pre b rest Hp Hl Hb). reflexivity.
Qed.

(** Non-vacuity: `é`, `→`, a lemon, and a byte sequence the reader panics on. *)
Lemma ex_utf8 :
  decode [233 - 233 + 195; 169] = Some [233] /\ decode [226; 134; 146] = Some [8594] /\
  decode [240; 159; 141; 139; 10] = Some [127819; 10] /\ decode [255] = None /\ decode [195] = None /\
  decode [237; 160; 128] = None.
Proof. vm_compute. repeat split. Qed.

(** The same bytes through the debugger's reader: replaced, and the byte behind a truncated character kept. *)
Lemma ex_utf8_lossy :
  decode_lossy [255] = [65533] /\ decode_lossy [195] = [65533] /\ decode_lossy [237; 160; 128] = [65533] /\
  decode_lossy [99; 97; 102; 233; 10; 113] = [99; 97; 102; 65533; 10; 113] /\
  decode_lossy [226; 134; 59; 195; 169] = [65533; 59; 233] /\ decode_lossy [128; 191; 65] = [65533; 65533; 65] /\
  decode_lossy [240; 159; 141; 139; 10] = [127819; 10].
Proof. vm_compute. repeat split. Qed.
