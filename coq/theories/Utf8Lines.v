(* Utf8Lines.v — THEOREM: the order in which the debugger's stdin reader works (Stdin::read: decode ONE
   character, test it for newline / `;`, push it, repeat) gives the same line and leaves the same rest
   as the order in which DbgStream.v describes it (cut the BYTES at the first newline / `;`, then decode
   the line): [read_line_eq].  It rests on the lossy reader never swallowing a byte that is not a
   continuation byte (Utf8.take_cont_l) and on every multi-byte character and U+FFFD being different
   from the two separators. *)
From Coq Require Import List NArith Bool Lia.
From Lace Require Import Utf8.
From Lace Require Cmd.
Import ListNotations.
Open Scope N_scope.

Definition is_sep (c : N) : bool := (c =? 10) || (c =? 59).

(** MODEL, in the code's order. [buffer] is the line so far, in reverse (as in [Cmd.stdin_loop]). *)
Fixpoint read_line (fuel : nat) (bs : list N) (buffer : list N) : option (list N) * list N :=
  match fuel with
  | O => (None, [])
  | S f =>
      match read_char_lossy bs with
      | None => match buffer with [] => (None, []) | _ => (Some (rev buffer), []) end
      | Some (c, rest) => if is_sep c then (Some (rev buffer), rest) else read_line f rest (c :: buffer)
      end
  end.

(* ------------------------------------------------------------------ *)
(** * A byte that is not a continuation byte, appended: the reading in front of it is unchanged *)

Lemma take_cont_l_app : forall n l s r, is_cont s = false ->
  take_cont_l n (l ++ s :: r) =
    match take_cont_l n l with
    | inl (got, rest) => inl (got, rest ++ s :: r)
    | inr rest => inr (rest ++ s :: r)
    end.
Proof.
  induction n as [|n IH]; intros l s r Hs; cbn [take_cont_l]; [reflexivity|].
  destruct l as [|b l']; cbn [app].
  - rewrite Hs. reflexivity.
  - destruct (is_cont b); [|reflexivity]. rewrite (IH l' s r Hs).
    destruct (take_cont_l n l') as [[g rs]|rs]; reflexivity.
Qed.

Lemma read_char_lossy_app a l c rest s r : is_cont s = false ->
  read_char_lossy (a :: l) = Some (c, rest) -> read_char_lossy ((a :: l) ++ s :: r) = Some (c, rest ++ s :: r).
Proof.
  intros Hs. unfold read_char_lossy. cbn [app]. destruct (cont_due a) as [n|].
  - rewrite (take_cont_l_app n l s r Hs). destruct (take_cont_l n l) as [[got rs]|rs].
    + destruct (from_utf8_1 (a :: got)); intros H; injection H as <- <-; reflexivity.
    + intros H; injection H as <- <-; reflexivity.
  - intros H; injection H as <- <-; reflexivity.
Qed.

(* ------------------------------------------------------------------ *)
(** * What a character read from separator-free bytes can be *)

Lemma is_sep_small c : is_sep c = true -> c < 128.
Proof. unfold is_sep. intros H. apply orb_true_iff in H as [H|H]; apply N.eqb_eq in H; lia. Qed.

Lemma take_cont_l_suffix : forall n l,
  match take_cont_l n l with
  | inl (got, rest) => l = got ++ rest
  | inr rest => exists pre, l = pre ++ rest
  end.
Proof.
  induction n as [|n IH]; intros l; cbn [take_cont_l]; [reflexivity|].
  destruct l as [|b l']; [exists []; reflexivity|]. destruct (is_cont b); [|exists []; reflexivity].
  specialize (IH l'). destruct (take_cont_l n l') as [[g rs]|rs].
  - cbn [app]. f_equal. exact IH.
  - destruct IH as [pre E]. exists (b :: pre). cbn [app]. f_equal. exact E.
Qed.

Lemma from_utf8_1_big a got c : got <> [] -> from_utf8_1 (a :: got) = Some c -> 128 <= c.
Proof.
  intros Hg. destruct got as [|b [|b2 [|b3 [|b4 t]]]]; [contradiction| | | |discriminate]; cbn [from_utf8_1]; unfold between.
  - destruct ((194 <=? a) && (a <=? 223) && ((128 <=? b) && (b <=? 191))) eqn:E; [|discriminate].
    intros H; injection H as <-. apply andb_true_iff in E as [E _]. apply andb_true_iff in E as [E _]. apply N.leb_le in E. lia.
  - match goal with |- (if ?g then _ else _) = _ -> _ => destruct g eqn:E; [|discriminate] end.
    intros H; injection H as <-. apply andb_true_iff in E as [E _].
    destruct (a =? 224) eqn:E1; [apply N.eqb_eq in E1; subst a; apply andb_true_iff in E as [E _]; apply N.leb_le in E; lia|].
    destruct (a =? 237) eqn:E2; [apply N.eqb_eq in E2; subst a; lia|].
    apply andb_true_iff in E as [E _]. apply andb_true_iff in E as [E _]. apply N.leb_le in E. apply N.eqb_neq in E1. lia.
  - match goal with |- (if ?g then _ else _) = _ -> _ => destruct g eqn:E; [|discriminate] end.
    intros H; injection H as <-. apply andb_true_iff in E as [E _]. apply andb_true_iff in E as [E _].
    destruct (a =? 240) eqn:E1; [apply N.eqb_eq in E1; subst a; apply andb_true_iff in E as [E _]; apply N.leb_le in E; lia|].
    destruct (a =? 244) eqn:E2; [apply N.eqb_eq in E2; subst a; lia|].
    apply andb_true_iff in E as [E _]. apply andb_true_iff in E as [E _]. apply N.leb_le in E. apply N.eqb_neq in E1. lia.
Qed.

(** A character read from bytes none of which is a separator is not a separator, and what is left is a
    separator-free suffix. *)
Lemma read_char_lossy_nosep l c rest : forallb (fun b => negb (is_sep b)) l = true ->
  read_char_lossy l = Some (c, rest) ->
  is_sep c = false /\ forallb (fun b => negb (is_sep b)) rest = true.
Proof.
  intros Hl. unfold read_char_lossy. destruct l as [|a l']; [discriminate|].
  cbn [forallb] in Hl. apply andb_true_iff in Hl as [Ha Hl'].
  assert (Hsuf : forall pre rs, l' = pre ++ rs -> forallb (fun b => negb (is_sep b)) rs = true).
  { intros pre rs E. rewrite E, forallb_app in Hl'. apply andb_true_iff in Hl' as [_ H]. exact H. }
  assert (Hrep : is_sep replacement = false) by reflexivity.
  destruct (cont_due a) as [n|] eqn:Hn.
  - pose proof (take_cont_l_suffix n l') as S. destruct (take_cont_l n l') as [[got rs]|rs].
    + destruct (from_utf8_1 (a :: got)) as [c'|] eqn:F; intros H; injection H as <- <-.
      * split; [|exact (Hsuf got rs S)].
        destruct got as [|g got'].
        -- cbn [from_utf8_1] in F. destruct (a <? 128); [|discriminate]. injection F as <-. apply negb_true_iff in Ha. exact Ha.
        -- pose proof (from_utf8_1_big a (g :: got') c' ltac:(discriminate) F) as B.
           destruct (is_sep c') eqn:Sc; [apply is_sep_small in Sc; lia|reflexivity].
      * split; [exact Hrep|exact (Hsuf got rs S)].
    + destruct S as [pre E]. intros H; injection H as <- <-. split; [exact Hrep|exact (Hsuf pre rs E)].
  - intros H; injection H as <- <-. split; [exact Hrep|exact Hl'].
Qed.

Lemma sep_reads_itself s r : is_sep s = true -> read_char_lossy (s :: r) = Some (s, r).
Proof.
  unfold is_sep. intros H. apply orb_true_iff in H as [H|H]; apply N.eqb_eq in H; subst s; reflexivity.
Qed.

Lemma sep_not_cont s : is_sep s = true -> is_cont s = false.
Proof.
  unfold is_sep. intros H. apply orb_true_iff in H as [H|H]; apply N.eqb_eq in H; subst s; reflexivity.
Qed.

(* ------------------------------------------------------------------ *)
(** * The two orders agree *)

Lemma read_line_sep : forall k l s r buf fuel,
  (length l <= k)%nat -> (length l < fuel)%nat ->
  forallb (fun b => negb (is_sep b)) l = true -> is_sep s = true ->
  read_line fuel (l ++ s :: r) buf = (Some (rev buf ++ decode_lossy l), r).
Proof.
  induction k as [|k IH]; intros l s r buf fuel Hk Hf Hl Hs.
  - destruct l; [|cbn [length] in Hk; lia]. destruct fuel as [|f]; [lia|]. cbn [app read_line].
    rewrite (sep_reads_itself s r Hs), Hs. rewrite app_nil_r. reflexivity.
  - destruct l as [|a l'].
    + destruct fuel as [|f]; [lia|]. cbn [app read_line]. rewrite (sep_reads_itself s r Hs), Hs. rewrite app_nil_r. reflexivity.
    + destruct fuel as [|f]; [lia|]. cbn [read_line].
      destruct (read_char_lossy (a :: l')) as [[c rest]|] eqn:E; [|apply read_char_lossy_eof in E; discriminate].
      rewrite (read_char_lossy_app a l' c rest s r (sep_not_cont s Hs) E).
      destruct (read_char_lossy_nosep _ _ _ Hl E) as [Hc Hrest]. rewrite Hc.
      pose proof (read_char_lossy_progress _ _ _ E) as P.
      rewrite (IH rest s r (c :: buf) f); [|cbn [length] in *; lia|cbn [length] in *; lia|exact Hrest|exact Hs].
      rewrite (decode_lossy_step (a :: l')), E. cbn [rev]. rewrite <- app_assoc. reflexivity.
Qed.

Lemma read_line_eof : forall k l buf fuel,
  (length l <= k)%nat -> (length l < fuel)%nat ->
  forallb (fun b => negb (is_sep b)) l = true ->
  read_line fuel l buf =
    match rev buf ++ decode_lossy l with [] => (None, []) | line => (Some line, []) end.
Proof.
  induction k as [|k IH]; intros l buf fuel Hk Hf Hl.
  - destruct l; [|cbn [length] in Hk; lia]. destruct fuel as [|f]; [lia|]. cbn [read_line read_char_lossy].
    change (decode_lossy []) with (@nil N). rewrite app_nil_r.
    destruct buf as [|b buf']; [reflexivity|]. destruct (rev (b :: buf')) eqn:R; [|reflexivity].
    apply (f_equal (@length N)) in R. rewrite rev_length in R. discriminate.
  - destruct l as [|a l'].
    + destruct fuel as [|f]; [lia|]. cbn [read_line read_char_lossy].
      change (decode_lossy []) with (@nil N). rewrite app_nil_r.
      destruct buf as [|b buf']; [reflexivity|]. destruct (rev (b :: buf')) eqn:R; [|reflexivity].
      apply (f_equal (@length N)) in R. rewrite rev_length in R. discriminate.
    + destruct fuel as [|f]; [lia|]. cbn [read_line].
      destruct (read_char_lossy (a :: l')) as [[c rest]|] eqn:E; [|apply read_char_lossy_eof in E; discriminate].
      destruct (read_char_lossy_nosep _ _ _ Hl E) as [Hc Hrest]. rewrite Hc.
      pose proof (read_char_lossy_progress _ _ _ E) as P.
      rewrite (IH rest (c :: buf) f); [|cbn [length] in *; lia|cbn [length] in *; lia|exact Hrest].
      rewrite (decode_lossy_step (a :: l')), E. cbn [rev]. rewrite <- app_assoc. reflexivity.
Qed.

(** [Cmd.stdin_loop] on the bytes: the same split. *)
Lemma stdin_loop_sep : forall l s r buf, forallb (fun b => negb (is_sep b)) l = true -> is_sep s = true ->
  Cmd.stdin_loop (l ++ s :: r) buf = (Some (rev buf ++ l), r).
Proof.
  induction l as [|a l IH]; intros s r buf Hl Hs; cbn [app Cmd.stdin_loop].
  - unfold is_sep in Hs. rewrite Hs. rewrite app_nil_r. reflexivity.
  - cbn [forallb] in Hl. apply andb_true_iff in Hl as [Ha Hl]. apply negb_true_iff in Ha. unfold is_sep in Ha. rewrite Ha.
    rewrite (IH s r (a :: buf) Hl Hs). cbn [rev]. rewrite <- app_assoc. reflexivity.
Qed.

Lemma stdin_loop_eof : forall l buf, forallb (fun b => negb (is_sep b)) l = true ->
  Cmd.stdin_loop l buf = match rev buf ++ l with [] => (None, []) | line => (Some line, []) end.
Proof.
  induction l as [|a l IH]; intros buf Hl; cbn [Cmd.stdin_loop].
  - rewrite app_nil_r. destruct buf as [|b buf']; [reflexivity|]. destruct (rev (b :: buf')) eqn:R; [|reflexivity].
    apply (f_equal (@length N)) in R. rewrite rev_length in R. discriminate.
  - cbn [forallb] in Hl. apply andb_true_iff in Hl as [Ha Hl]. apply negb_true_iff in Ha. unfold is_sep in Ha. rewrite Ha.
    rewrite (IH (a :: buf) Hl). cbn [rev]. rewrite <- app_assoc. reflexivity.
Qed.

Lemma split_at_sep : forall bs,
  (exists l s r, bs = l ++ s :: r /\ forallb (fun b => negb (is_sep b)) l = true /\ is_sep s = true) \/
  forallb (fun b => negb (is_sep b)) bs = true.
Proof.
  induction bs as [|b bs IH]; [right; reflexivity|].
  destruct (is_sep b) eqn:Hb.
  - left. exists [], b, bs. repeat split. exact Hb.
  - destruct IH as [[l [s [r [E [Hl Hs]]]]]|H].
    + left. exists (b :: l), s, r. repeat split; [cbn [app]; f_equal; exact E| |exact Hs].
      cbn [forallb]. rewrite Hb. exact Hl.
    + right. cbn [forallb]. rewrite Hb. exact H.
Qed.

Lemma decode_lossy_nil_iff l : decode_lossy l = [] <-> l = [].
Proof.
  split; [|intros ->; reflexivity]. rewrite decode_lossy_step.
  destruct (read_char_lossy l) as [[c rest]|] eqn:E; [discriminate|]. intros _. apply read_char_lossy_eof. exact E.
Qed.

(** THE THEOREM: character-by-character reading = cutting the bytes, then decoding the line. *)
Theorem read_line_eq bs :
  read_line (S (length bs)) bs [] =
    (match fst (Cmd.stdin_read bs) with Some line => Some (decode_lossy line) | None => None end,
     snd (Cmd.stdin_read bs)).
Proof.
  unfold Cmd.stdin_read. destruct (split_at_sep bs) as [[l [s [r [E [Hl Hs]]]]]|H].
  - subst bs. rewrite (stdin_loop_sep l s r [] Hl Hs). cbn [fst snd rev app].
    rewrite (read_line_sep (length l) l s r [] _ (le_n _)); [reflexivity| |exact Hl|exact Hs].
    rewrite app_length. cbn [length]. lia.
  - rewrite (stdin_loop_eof bs [] H). rewrite (read_line_eof (length bs) bs [] _ (le_n _) (le_n _) H).
    cbn [rev app]. destruct bs as [|b bs'].
    + reflexivity.
    + cbn [fst snd]. destruct (decode_lossy (b :: bs')) eqn:D; [discriminate (proj1 (decode_lossy_nil_iff _) D)|reflexivity].
Qed.

(** Non-vacuity: a truncated character in front of a newline, a `;` inside what looks like a character. *)
Example read_line_examples :
  read_line 9 [101; 195; 10; 113] [] = (Some [101; 65533], [113]) /\
  read_line 9 [226; 134; 59; 195; 169] [] = (Some [65533], [195; 169]) /\
  read_line 9 [195; 169] [] = (Some [233], []) /\ read_line 9 [] [] = (None, []).
Proof. vm_compute. repeat split. Qed.
