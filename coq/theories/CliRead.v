(* CliRead.v — how `run` reads an object file since the repair F31: the length is taken from the
   file's metadata, an odd length is rejected at once, and at most READ_LIMIT = 2 * (x10000 + 1)
   bytes — one word more than any loadable image — are read.  THEOREM: that is the same function of
   the file's bytes as reading it whole ([Cli.load_file]); so the loader theorems (C06) speak about
   the code as it is, and no file, however long, needs more than 128 KiB + 2 bytes of it read. *)
From Coq Require Import List NArith Bool Arith PeanoNat Lia.
From Lace Require Import Word Machine Isa Vm Asm Cli CliProofs.
Import ListNotations.
Open Scope N_scope.

Definition READ_LIMIT : nat := N.to_nat 131074.

Definition load_file_code (bytes inp : list N) : load_result :=
  if Nat.odd (length bytes) then LoadExit 1
  else load_file (firstn READ_LIMIT bytes) inp.

Lemma even_words bs : Nat.odd (length bs) = false -> exists ws, words_of_bytes bs = Some ws /\ length bs = (2 * length ws)%nat.
Proof.
  intros H. destruct (words_of_bytes bs) as [ws|] eqn:E.
  - exists ws. split; [reflexivity|]. exact (words_of_bytes_length (length bs) bs ws (le_n _) E).
  - apply (proj1 (words_of_bytes_none (length bs) bs (le_n _))) in E. congruence.
Qed.

Lemma too_long_exit ws inp : (65537 <= N.of_nat (length ws)) -> from_raw ws inp = LoadExit 238.
Proof.
  intros H. unfold from_raw. destruct ws as [|o body]; [reflexivity|].
  destruct (MEMORY_MAX <? o + N.of_nat (length (o :: body))) eqn:E; [reflexivity|].
  apply N.ltb_ge in E. unfold MEMORY_MAX in E. lia.
Qed.

Theorem load_file_code_eq bytes inp : load_file_code bytes inp = load_file bytes inp.
Proof.
  unfold load_file_code. destruct (Nat.odd (length bytes)) eqn:Eo.
  - unfold load_file. rewrite (proj2 (words_of_bytes_none (length bytes) bytes (le_n _)) Eo). reflexivity.
  - destruct (le_lt_dec (length bytes) READ_LIMIT) as [Hle|Hgt].
    + rewrite firstn_all2 by exact Hle. reflexivity.
    + (* longer than the limit: both are 'too long' *)
      destruct (even_words bytes Eo) as (ws & Ew & Hl).
      assert (Hf : length (firstn READ_LIMIT bytes) = READ_LIMIT) by (apply firstn_length_le; lia).
      assert (Eo' : Nat.odd (length (firstn READ_LIMIT bytes)) = false) by (rewrite Hf; reflexivity).
      destruct (even_words _ Eo') as (ws' & Ew' & Hl').
      unfold load_file. rewrite Ew, Ew'.
      rewrite (too_long_exit ws inp), (too_long_exit ws' inp); [reflexivity| |].
      * rewrite Hf in Hl'. unfold READ_LIMIT in Hl'. lia.
      * unfold READ_LIMIT in Hgt. lia.
Qed.

(** Non-vacuity: a 6-byte image is read whole; what is read of a file is never more than the limit. *)
Example ex_read : load_file_code [48; 0; 240; 37; 240; 37] [] = load_file [48; 0; 240; 37; 240; 37] [] /\
                  forall bytes : list N, (length (firstn READ_LIMIT bytes) <= READ_LIMIT)%nat.
Proof. split; [reflexivity|]. intros. apply firstn_le_length. Qed.
