(* AsmProofs.v — facts about the assembler model (Asm.v) against the ISA (Isa.v):
   range checks accept exactly the values that fit, PC-relative fields denote the label's
   address, and every emitted word decodes to the instruction that was written. *)
From Coq Require Import ZArith Lia.
From Lace Require Import Word Machine Isa.
From Lace Require Import Asm.
Open Scope N_scope.

(* ------------------------------------------------------------------ *)
(** * Range checks (C04) *)

(** A 16-bit pattern read as a signed number. *)
Definition signed16 (v : N) : Z := if v <? 32768 then Z.of_N v else (Z.of_N v - 65536)%Z.

Lemma check_range_signed n v : 1 <= n -> n <= 16 -> v < 65536 ->
  check_range (Signed n) v = true <-> (- 2 ^ (Z.of_N n - 1) <= signed16 v < 2 ^ (Z.of_N n - 1))%Z.
Proof.
  intros Hn Hn' Hv. unfold check_range, signed16.
  assert (Hp : Z.of_N (2 ^ (n - 1)) = (2 ^ (Z.of_N n - 1))%Z).
  { rewrite N2Z.inj_pow. f_equal. lia. }
  assert (Hle : 2 ^ (n - 1) <= 32768).
  { change 32768 with (2 ^ 15). apply N.pow_le_mono_r; lia. }
  destruct (N.ltb_spec v 32768).
  - rewrite N.ltb_lt. rewrite <- Hp. lia.
  - rewrite N.leb_le. rewrite <- Hp. lia.
Qed.

Lemma check_range_unsigned n v :
  check_range (Unsigned n) v = true <-> v < 2 ^ n.
Proof. unfold check_range. apply N.ltb_lt. Qed.

(* ------------------------------------------------------------------ *)
(** * PC-relative offsets (C01, C04) *)

(** [bit_offs] accepts exactly the distances that fit the field, and yields the distance modulo
    2^nbits.  The distance is (referenced line - this line) read as a signed 16-bit number, minus 1. *)
Definition distance (line r : N) : Z := (signed16 ((r + 65536 - line) mod 65536) - 1)%Z.

Lemma bit_offs_spec line r nbits : 1 <= nbits -> nbits <= 15 ->
  let d := distance line r in
  let p := (2 ^ (Z.of_N nbits - 1))%Z in
  (forall o, bit_offs line (LRef r) nbits = Ok o ->
     (- p <= d < p)%Z /\ o = Z.to_N (d mod 2 ^ Z.of_N nbits)) /\
  ((- p <= d < p)%Z -> exists o, bit_offs line (LRef r) nbits = Ok o).
Proof.
  intros Hn Hn' d p. unfold bit_offs. fold (signed16 ((r + 65536 - line) mod 65536)).
  change (signed16 ((r + 65536 - line) mod 65536) - 1)%Z with d.
  assert (Hp : (0 < p)%Z) by (apply Z.pow_pos_nonneg; lia).
  split.
  - intros o H.
    fold p in H.
    destruct (Z.ltb_spec (p - (if (0 <? d)%Z then 1 else 0)) (Z.abs d)) as [Hbad|Hok]; [discriminate|].
    inversion H; subst o. split; [|reflexivity].
    destruct (Z.ltb_spec 0 d); lia.
  - intros Hd. fold p.
    destruct (Z.ltb_spec (p - (if (0 <? d)%Z then 1 else 0)) (Z.abs d)) as [Hbad|Hok].
    + exfalso. destruct (Z.ltb_spec 0 d); lia.
    + eexists; reflexivity.
Qed.

(** The accepted field value, sign-extended, is the distance as a 16-bit word — so that at run time
    PC + SEXT(field) is the address of the referenced statement. *)
Lemma sext_of_field nbits d : 1 <= nbits -> nbits <= 15 ->
  (- 2 ^ (Z.of_N nbits - 1) <= d < 2 ^ (Z.of_N nbits - 1))%Z ->
  sext nbits (Z.to_N (d mod 2 ^ Z.of_N nbits)) = Z.to_N (d mod 65536).
Proof.
  intros Hn Hn' Hd. unfold sext.
  set (k := Z.of_N nbits) in *.
  assert (Hk : (1 <= k <= 15)%Z) by lia.
  assert (HP : (0 < 2 ^ (k - 1))%Z) by (apply Z.pow_pos_nonneg; lia).
  assert (H2 : (2 ^ k = 2 * 2 ^ (k - 1))%Z).
  { replace k with (Z.succ (k - 1)) at 1 by lia. rewrite Z.pow_succ_r by lia. reflexivity. }
  assert (Hle : (2 ^ k <= 32768)%Z).
  { change 32768%Z with (2 ^ 15)%Z. apply Z.pow_le_mono_r; lia. }
  assert (EN : 2 ^ nbits = Z.to_N (2 ^ k)).
  { unfold k. change 2%Z with (Z.of_N 2). rewrite <- N2Z.inj_pow. rewrite N2Z.id. reflexivity. }
  assert (EN1 : 2 ^ (nbits - 1) = Z.to_N (2 ^ (k - 1))).
  { unfold k. replace (Z.of_N nbits - 1)%Z with (Z.of_N (nbits - 1)) by lia.
    change 2%Z with (Z.of_N 2). rewrite <- N2Z.inj_pow. rewrite N2Z.id. reflexivity. }
  assert (Hm : (0 <= d mod 2 ^ k < 2 ^ k)%Z) by (apply Z.mod_pos_bound; lia).
  assert (Hfld : Z.to_N (d mod 2 ^ k) mod 2 ^ nbits = Z.to_N (d mod 2 ^ k)).
  { apply N.mod_small. rewrite EN. lia. }
  rewrite Hfld. rewrite EN1. unfold W. rewrite EN.
  destruct (Z_lt_le_dec d 0) as [Hneg|Hpos].
  - (* negative: d mod 2^k = d + 2^k, >= 2^(k-1) *)
    assert (E1 : (d mod 2 ^ k = d + 2 ^ k)%Z).
    { symmetry. apply Z.mod_unique with (q := (-1)%Z); lia. }
    assert (E2 : (d mod 65536 = d + 65536)%Z).
    { symmetry. apply Z.mod_unique with (q := (-1)%Z); lia. }
    rewrite E1, E2.
    destruct (N.ltb_spec (Z.to_N (d + 2 ^ k)) (Z.to_N (2 ^ (k - 1)))); lia.
  - assert (E1 : (d mod 2 ^ k = d)%Z) by (apply Z.mod_small; lia).
    assert (E2 : (d mod 65536 = d)%Z) by (apply Z.mod_small; lia).
    rewrite E1, E2.
    destruct (N.ltb_spec (Z.to_N d) (Z.to_N (2 ^ (k - 1)))); lia.
Qed.

(** Address arithmetic: the statement of line L sits at origin + L - 1; after its fetch the PC is
    origin + L; adding the sign-extended field gives the address of line R's statement. *)
Lemma pcrel_target0 orig line r nbits o :
  1 <= nbits -> nbits <= 15 -> line < 65536 -> 1 <= r -> r < 65536 -> orig < 65536 ->
  bit_offs line (LRef r) nbits = Ok o ->
  addw (wrap (orig + line)) (sext nbits o) = wrap (orig + r - 1).
Proof.
  intros Hn Hn' Hl' Hr Hr' Ho H.
  destruct (bit_offs_spec line r nbits Hn Hn') as [Hspec _].
  destruct (Hspec o H) as [Hd ->]. clear Hspec H.
  rewrite sext_of_field by assumption.
  unfold addw, wrap, W.
  (* everything modulo 65536, in Z *)
  apply N2Z.inj. rewrite !N2Z.inj_mod, N2Z.inj_add, N2Z.inj_mod. rewrite Z2N.id.
  2:{ apply Z.mod_pos_bound. lia. }
  rewrite <- Zplus_mod.
  unfold distance, signed16 in *.
  set (q := (r + 65536 - line) mod 65536) in *.
  assert (Hq : Z.of_N q = ((Z.of_N r - Z.of_N line) mod 65536)%Z).
  { unfold q. rewrite N2Z.inj_mod. rewrite N2Z.inj_sub by lia. rewrite N2Z.inj_add.
    change (Z.of_N 65536) with 65536%Z.
    replace (Z.of_N r + 65536 - Z.of_N line)%Z with ((Z.of_N r - Z.of_N line) + 1 * 65536)%Z by ring.
    apply Z.mod_add. lia. }
  rewrite N2Z.inj_sub by lia. rewrite !N2Z.inj_add.
  change (Z.of_N 65536) with 65536%Z. change (Z.of_N 1) with 1%Z.
  destruct (N.ltb_spec q 32768).
  - replace (Z.of_N orig + Z.of_N line + (Z.of_N q - 1))%Z
      with ((Z.of_N orig + Z.of_N line - 1) + Z.of_N q)%Z by ring.
    rewrite Hq. rewrite Zplus_mod_idemp_r. f_equal. ring.
  - replace (Z.of_N orig + Z.of_N line + (Z.of_N q - 65536 - 1))%Z
      with ((Z.of_N orig + Z.of_N line - 1 + Z.of_N q) + (-1) * 65536)%Z by ring.
    rewrite Z.mod_add by lia. rewrite Hq. rewrite Zplus_mod_idemp_r. f_equal. ring.
Qed.

Lemma pcrel_target orig line r nbits o :
  1 <= nbits -> nbits <= 15 -> 1 <= line -> line < 65536 -> 1 <= r -> r < 65536 -> orig < 65536 ->
  bit_offs line (LRef r) nbits = Ok o ->
  addw (wrap (orig + line)) (sext nbits o) = wrap (orig + r - 1).
Proof. intros; eapply pcrel_target0; eassumption. Qed.

(* ------------------------------------------------------------------ *)
(** * Every emitted word decodes to the instruction that was written (C01) *)

Definition instr_eqb (a b : instr) : bool :=
  match a, b with
  | ADDr x y z, ADDr x' y' z' | ADDi x y z, ADDi x' y' z' | ANDr x y z, ANDr x' y' z'
  | ANDi x y z, ANDi x' y' z' | LDR x y z, LDR x' y' z' | STR x y z, STR x' y' z' =>
      (x =? x') && (y =? y') && (z =? z')
  | BR x y, BR x' y' | LD x y, LD x' y' | LDI x y, LDI x' y' | LEA x y, LEA x' y'
  | NOT x y, NOT x' y' | ST x y, ST x' y' | STI x y, STI x' y' => (x =? x') && (y =? y')
  | JMP x, JMP x' | JSR x, JSR x' | JSRR x, JSRR x' | TRAP x, TRAP x' | PUSH x, PUSH x'
  | POP x, POP x' | CALL x, CALL x' => x =? x'
  | RTI, RTI | RETS, RETS => true
  | _, _ => false
  end.

Lemma instr_eqb_eq a b : instr_eqb a b = true -> a = b.
Proof.
  destruct a, b; cbn; try discriminate; intros H;
    repeat (apply andb_true_iff in H; destruct H as [H ?]);
    repeat match goal with E : (_ =? _) = true |- _ => apply N.eqb_eq in E; subst end;
    reflexivity.
Qed.

(** The word for a statement whose PC-relative field (if it has one) is [o]. *)
Definition encode_with (s : stmt) (o : N) : N :=
  match s with
  | SAdd d a x => orl (orl (orl 4096 (shl d 9)) (shl a 6)) (imm_bits x)
  | SAnd d a x => orl (orl (orl 20480 (shl d 9)) (shl a 6)) (imm_bits x)
  | SBranch f _ => orl (orl 0 (shl f 9)) o
  | SJump r => orl 49152 (shl r 6)
  | SJumpSub _ => orl 18432 o
  | SJumpSubReg r => orl 16384 (shl r 6)
  | SLoad d _ => orl (orl 8192 (shl d 9)) o
  | SLoadInd d _ => orl (orl 40960 (shl d 9)) o
  | SLoadOffs d a off => orl (orl (orl 24576 (shl d 9)) (shl a 6)) (N.land off 63)
  | SLoadEAddr d _ => orl (orl 57344 (shl d 9)) o
  | SNot d a => orl (orl (orl 36864 (shl d 9)) (shl a 6)) 63
  | SReturn => 49600
  | SInterrupt => 32768
  | SStore r _ => orl (orl 12288 (shl r 9)) o
  | SStoreInd r _ => orl (orl 45056 (shl r 9)) o
  | SStoreOffs r b off => orl (orl (orl 28672 (shl r 9)) (shl b 6)) (N.land off 63)
  | SPush r => orl (orl 53248 1024) (shl r 6)
  | SPop r => orl 53248 (shl r 6)
  | SCall _ => orl (orl 53248 3072) o
  | SRets => orl 53248 2048
  | SRawWord v => v
  | STrap v => orl 61440 v
  end.

Definition pcrel_of (s : stmt) : option (label * N) :=
  match s with
  | SBranch _ l | SLoad _ l | SLoadInd _ l | SLoadEAddr _ l | SStore _ l | SStoreInd _ l => Some (l, 9)
  | SJumpSub l => Some (l, 11)
  | SCall l => Some (l, 10)
  | _ => None
  end.

Lemma emit_split ln :
  emit ln = match pcrel_of (al_stmt ln) with
            | Some (l, k) => bind (bit_offs (al_line ln) l k) (fun o => Ok (encode_with (al_stmt ln) o))
            | None => Ok (encode_with (al_stmt ln) 0)
            end.
Proof. unfold emit. destruct (al_stmt ln); reflexivity. Qed.

(** An 8-bit two's-complement operand ([as u8] of a range-checked literal) as a 16-bit word. *)
Definition sx8 (v : N) : N := if v <? 128 then v else 65280 + v.

Definition instr_of (s : stmt) (o : N) : instr :=
  match s with
  | SAdd d a (IReg r) => ADDr d a r
  | SAdd d a (IImm5 v) => ADDi d a (sx8 v)
  | SAnd d a (IReg r) => ANDr d a r
  | SAnd d a (IImm5 v) => ANDi d a (sx8 v)
  | SBranch f _ => BR f (sext 9 o)
  | SJump r => JMP r
  | SJumpSub _ => JSR (sext 11 o)
  | SJumpSubReg r => JSRR r
  | SLoad d _ => LD d (sext 9 o)
  | SLoadInd d _ => LDI d (sext 9 o)
  | SLoadOffs d a off => LDR d a (sx8 off)
  | SLoadEAddr d _ => LEA d (sext 9 o)
  | SNot d a => NOT d a
  | SReturn => JMP 7
  | SInterrupt => RTI
  | SStore r _ => ST r (sext 9 o)
  | SStoreInd r _ => STI r (sext 9 o)
  | SStoreOffs r b off => STR r b (sx8 off)
  | SPush r => PUSH r
  | SPop r => POP r
  | SCall _ => CALL (sext 10 o)
  | SRets => RETS
  | STrap v => TRAP v
  | SRawWord v => decode v
  end.

(** Operands as the parser produces them: 3-bit registers and flags, range-checked literals. *)
Definition imm5_ok (v : N) : bool := (v <? 16) || ((240 <=? v) && (v <? 256)).
Definition off6_ok (v : N) : bool := (v <? 32) || ((224 <=? v) && (v <? 256)).

Definition stmt_ok (s : stmt) : Prop :=
  match s with
  | SAdd d a (IReg r) | SAnd d a (IReg r) => d < 8 /\ a < 8 /\ r < 8
  | SAdd d a (IImm5 v) | SAnd d a (IImm5 v) => d < 8 /\ a < 8 /\ imm5_ok v = true
  | SBranch f _ => f < 8
  | SJump r | SJumpSubReg r | SPush r | SPop r => r < 8
  | SLoad d _ | SLoadInd d _ | SLoadEAddr d _ | SStore d _ | SStoreInd d _ => d < 8
  | SLoadOffs d a off | SStoreOffs d a off => d < 8 /\ a < 8 /\ off6_ok off = true
  | SNot d a => d < 8 /\ a < 8
  | STrap v => v < 256
  | SRawWord v => v < 65536
  | _ => True
  end.

Definition chk (s : stmt) (o : N) : bool := instr_eqb (decode (encode_with s o)) (instr_of s o).

Lemma all1 n f : allbits n 0 f = true -> forall x, x < 2 ^ N.of_nat n -> f x = true.
Proof.
  intros H x Hx. pose proof (allbits_spec n 0 f H x Hx) as K.
  rewrite N.mul_0_l, N.add_0_l in K. exact K.
Qed.

Ltac sweep_goal :=
  vm_compute; reflexivity.

Definition L := LRef 0.

Lemma sw_add_r : allbits 3 0 (fun d => allbits 3 0 (fun a => allbits 3 0 (fun r =>
  chk (SAdd d a (IReg r)) 0 && chk (SAnd d a (IReg r)) 0))) = true.
Proof. sweep_goal. Qed.
Lemma sw_add_i : allbits 3 0 (fun d => allbits 3 0 (fun a => allbits 8 0 (fun v =>
  if imm5_ok v then chk (SAdd d a (IImm5 v)) 0 && chk (SAnd d a (IImm5 v)) 0 else true))) = true.
Proof. sweep_goal. Qed.
Lemma sw_off6 : allbits 3 0 (fun d => allbits 3 0 (fun a => allbits 8 0 (fun v =>
  if off6_ok v then chk (SLoadOffs d a v) 0 && chk (SStoreOffs d a v) 0 else true))) = true.
Proof. sweep_goal. Qed.
Lemma sw_rr : allbits 3 0 (fun d => allbits 3 0 (fun a => chk (SNot d a) 0)) = true.
Proof. sweep_goal. Qed.
Lemma sw_r : allbits 3 0 (fun r =>
  chk (SJump r) 0 && chk (SJumpSubReg r) 0 && chk (SPush r) 0 && chk (SPop r) 0) = true.
Proof. sweep_goal. Qed.
Lemma sw_pc9 : allbits 3 0 (fun d => allbits 9 0 (fun o =>
  chk (SBranch d L) o && chk (SLoad d L) o && chk (SLoadInd d L) o && chk (SLoadEAddr d L) o
  && chk (SStore d L) o && chk (SStoreInd d L) o)) = true.
Proof. sweep_goal. Qed.
Lemma sw_pc11 : allbits 11 0 (fun o => chk (SJumpSub L) o) = true.
Proof. sweep_goal. Qed.
Lemma sw_pc10 : allbits 10 0 (fun o => chk (SCall L) o) = true.
Proof. sweep_goal. Qed.
Lemma sw_trap : allbits 8 0 (fun v => chk (STrap v) 0) = true.
Proof. sweep_goal. Qed.

Lemma chk_label_irrelevant s o l :
  match s with
  | SBranch f _ => chk (SBranch f l) o = chk (SBranch f L) o
  | SLoad d _ => chk (SLoad d l) o = chk (SLoad d L) o
  | SLoadInd d _ => chk (SLoadInd d l) o = chk (SLoadInd d L) o
  | SLoadEAddr d _ => chk (SLoadEAddr d l) o = chk (SLoadEAddr d L) o
  | SStore d _ => chk (SStore d l) o = chk (SStore d L) o
  | SStoreInd d _ => chk (SStoreInd d l) o = chk (SStoreInd d L) o
  | SJumpSub _ => chk (SJumpSub l) o = chk (SJumpSub L) o
  | SCall _ => chk (SCall l) o = chk (SCall L) o
  | _ => True
  end.
Proof. destruct s; try exact I; reflexivity. Qed.

Definition field_bound (s : stmt) (o : N) : Prop :=
  match pcrel_of s with
  | Some (_, k) => o < 2 ^ k
  | None => o = 0
  end.

Theorem decode_encode s o : stmt_ok s -> field_bound s o -> decode (encode_with s o) = instr_of s o.
Proof.
  intros Hok Hb.
  destruct s as [d a x|d a x|f l|r|l|r|d l|d l|d a off|d l|d a| | |r l|r l|r b off|r|r|l| |v|v];
    unfold field_bound in Hb; cbn [pcrel_of] in Hb; cbn [stmt_ok] in Hok;
    try (subst o); try reflexivity.
  - destruct x as [r|v]; destruct Hok as (Hd & Ha & Hx); apply instr_eqb_eq.
    + pose proof (all1 _ _ (all1 _ _ (all1 _ _ sw_add_r d Hd) a Ha) r Hx) as K.
      apply andb_true_iff in K. apply K.
    + assert (Hv : v < 256) by (unfold imm5_ok in Hx; destruct (N.ltb_spec v 16); cbn in Hx; [lia|];
        apply andb_true_iff in Hx; destruct Hx as [_ Hx]; apply N.ltb_lt in Hx; exact Hx).
      pose proof (all1 _ _ (all1 _ _ (all1 _ _ sw_add_i d Hd) a Ha) v Hv) as K.
      cbv beta in K. rewrite Hx in K. apply andb_true_iff in K. apply K.
  - destruct x as [r|v]; destruct Hok as (Hd & Ha & Hx); apply instr_eqb_eq.
    + pose proof (all1 _ _ (all1 _ _ (all1 _ _ sw_add_r d Hd) a Ha) r Hx) as K.
      apply andb_true_iff in K. apply K.
    + assert (Hv : v < 256) by (unfold imm5_ok in Hx; destruct (N.ltb_spec v 16); cbn in Hx; [lia|];
        apply andb_true_iff in Hx; destruct Hx as [_ Hx]; apply N.ltb_lt in Hx; exact Hx).
      pose proof (all1 _ _ (all1 _ _ (all1 _ _ sw_add_i d Hd) a Ha) v Hv) as K.
      cbv beta in K. rewrite Hx in K. apply andb_true_iff in K. apply K.
  - apply instr_eqb_eq. pose proof (all1 _ _ (all1 _ _ sw_pc9 f Hok) o Hb) as K.
    cbv beta in K. repeat (apply andb_true_iff in K; destruct K as [K ?]).
    change (chk (SBranch f l) o = true). rewrite (chk_label_irrelevant (SBranch f l) o l). exact K.
  - apply instr_eqb_eq. pose proof (all1 _ _ sw_r r Hok) as K.
    cbv beta in K. repeat (apply andb_true_iff in K; destruct K as [K ?]). exact K.
  - apply instr_eqb_eq. pose proof (all1 _ _ sw_pc11 o Hb) as K.
    change (chk (SJumpSub l) o = true). rewrite (chk_label_irrelevant (SJumpSub l) o l). exact K.
  - apply instr_eqb_eq. pose proof (all1 _ _ sw_r r Hok) as K.
    cbv beta in K. repeat (apply andb_true_iff in K; destruct K as [K ?]). assumption.
  - apply instr_eqb_eq. pose proof (all1 _ _ (all1 _ _ sw_pc9 d Hok) o Hb) as K.
    cbv beta in K. repeat (apply andb_true_iff in K; destruct K as [K ?]).
    change (chk (SLoad d l) o = true). rewrite (chk_label_irrelevant (SLoad d l) o l). assumption.
  - apply instr_eqb_eq. pose proof (all1 _ _ (all1 _ _ sw_pc9 d Hok) o Hb) as K.
    cbv beta in K. repeat (apply andb_true_iff in K; destruct K as [K ?]).
    change (chk (SLoadInd d l) o = true). rewrite (chk_label_irrelevant (SLoadInd d l) o l). assumption.
  - destruct Hok as (Hd & Ha & Hx). apply instr_eqb_eq.
    assert (Hv : off < 256) by (unfold off6_ok in Hx; destruct (N.ltb_spec off 32); cbn in Hx; [lia|];
        apply andb_true_iff in Hx; destruct Hx as [_ Hx]; apply N.ltb_lt in Hx; exact Hx).
    pose proof (all1 _ _ (all1 _ _ (all1 _ _ sw_off6 d Hd) a Ha) off Hv) as K.
    cbv beta in K. rewrite Hx in K. apply andb_true_iff in K. apply K.
  - apply instr_eqb_eq. pose proof (all1 _ _ (all1 _ _ sw_pc9 d Hok) o Hb) as K.
    cbv beta in K. repeat (apply andb_true_iff in K; destruct K as [K ?]).
    change (chk (SLoadEAddr d l) o = true). rewrite (chk_label_irrelevant (SLoadEAddr d l) o l). assumption.
  - destruct Hok as (Hd & Ha). apply instr_eqb_eq. exact (all1 _ _ (all1 _ _ sw_rr d Hd) a Ha).
  - apply instr_eqb_eq. pose proof (all1 _ _ (all1 _ _ sw_pc9 r Hok) o Hb) as K.
    cbv beta in K. repeat (apply andb_true_iff in K; destruct K as [K ?]).
    change (chk (SStore r l) o = true). rewrite (chk_label_irrelevant (SStore r l) o l). assumption.
  - apply instr_eqb_eq. pose proof (all1 _ _ (all1 _ _ sw_pc9 r Hok) o Hb) as K.
    cbv beta in K. repeat (apply andb_true_iff in K; destruct K as [K ?]).
    change (chk (SStoreInd r l) o = true). rewrite (chk_label_irrelevant (SStoreInd r l) o l). assumption.
  - destruct Hok as (Hd & Ha & Hx). apply instr_eqb_eq.
    assert (Hv : off < 256) by (unfold off6_ok in Hx; destruct (N.ltb_spec off 32); cbn in Hx; [lia|];
        apply andb_true_iff in Hx; destruct Hx as [_ Hx]; apply N.ltb_lt in Hx; exact Hx).
    pose proof (all1 _ _ (all1 _ _ (all1 _ _ sw_off6 r Hd) b Ha) off Hv) as K.
    cbv beta in K. rewrite Hx in K. apply andb_true_iff in K. apply K.
  - apply instr_eqb_eq. pose proof (all1 _ _ sw_r r Hok) as K.
    cbv beta in K. repeat (apply andb_true_iff in K; destruct K as [K ?]). assumption.
  - apply instr_eqb_eq. pose proof (all1 _ _ sw_r r Hok) as K.
    cbv beta in K. repeat (apply andb_true_iff in K; destruct K as [K ?]). assumption.
  - apply instr_eqb_eq. pose proof (all1 _ _ sw_pc10 o Hb) as K.
    change (chk (SCall l) o = true). rewrite (chk_label_irrelevant (SCall l) o l). exact K.
  - apply instr_eqb_eq. exact (all1 _ _ sw_trap v Hok).
Qed.

Lemma bit_offs_bound line l k o : 1 <= k -> bit_offs line l k = Ok o -> o < 2 ^ k.
Proof.
  intros Hk H. destruct l as [r|name]; [|discriminate].
  unfold bit_offs in H.
  match type of H with (if ?c then _ else _) = _ => destruct c; [discriminate|] end.
  inversion H; subst o. clear H.
  assert (Hp : (0 < 2 ^ Z.of_N k)%Z) by (apply Z.pow_pos_nonneg; lia).
  pose proof (Z.mod_pos_bound (signed16 ((r + 65536 - line) mod 65536) - 1) _ Hp) as B.
  unfold signed16 in B.
  apply N2Z.inj_lt. rewrite Z2N.id by apply B. rewrite N2Z.inj_pow. apply B.
Qed.

Theorem emit_decode (ln : asm_line) (w : N) :
  stmt_ok (al_stmt ln) -> emit ln = Ok w ->
  exists o, field_bound (al_stmt ln) o /\ w = encode_with (al_stmt ln) o /\
            decode w = instr_of (al_stmt ln) o /\
            match pcrel_of (al_stmt ln) with
            | Some (l, k) => bit_offs (al_line ln) l k = Ok o
            | None => True
            end.
Proof.
  intros Hok H. rewrite emit_split in H.
  destruct (pcrel_of (al_stmt ln)) as [[l k]|] eqn:E.
  - destruct (bit_offs (al_line ln) l k) as [o| |] eqn:B; cbn [bind] in H; try discriminate.
    inversion H; subst w. exists o.
    assert (Hb : field_bound (al_stmt ln) o).
    { unfold field_bound. rewrite E. eapply bit_offs_bound; [|exact B].
      destruct (al_stmt ln); cbn in E; inversion E; subst; lia. }
    repeat split; try assumption. apply decode_encode; assumption.
  - inversion H; subst w. exists 0.
    assert (Hb : field_bound (al_stmt ln) 0) by (unfold field_bound; rewrite E; reflexivity).
    repeat split; try assumption. apply decode_encode; assumption.
Qed.

(* ------------------------------------------------------------------ *)
(** * Rejections (C04) *)

Lemma parse_dup_label fuel srclen ps t r v :
  p_toks ps = t :: r -> tk t = KLabel -> sym_get (p_sym ps) (ttext t) = Some v ->
  fst (parse (S fuel) srclen ps) = Err E_dup_label (toffs t) (tlen t).
Proof.
  intros Ht Hk Hs. cbn [parse]. rewrite Ht, Hk, Hs. reflexivity.
Qed.

Lemma fill_undefined sym name : sym_get sym name = None -> fill sym (LUnfilled name) = Err E_label_not_found 0 0.
Proof. intros H. unfold fill. rewrite H. reflexivity. Qed.

Lemma fill_defined sym name v : sym_get sym name = Some v -> fill sym (LUnfilled name) = Ok (LRef v).
Proof. intros H. unfold fill. rewrite H. reflexivity. Qed.

(** A literal operand is accepted by [expect_lit] iff it passes the range check; an accepted value
    is returned unchanged. *)
Lemma expect_lit_iff b t r te srclen v :
  (tk t = KLit (LHex v) \/ tk t = KLit (LDec v)) ->
  (check_range b v = true -> expect_lit b (t :: r, te) srclen = Ok (v, (r, tend t))) /\
  (check_range b v = false -> expect_lit b (t :: r, te) srclen = Err E_lit_range (toffs t) (tlen t)).
Proof.
  intros [H|H]; unfold expect_lit; cbn [fst]; rewrite H; split; intros ->; reflexivity.
Qed.
