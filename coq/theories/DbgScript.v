(* DbgScript.v — THEOREM: a whole SCRIPT of stepping commands composes.

   DbgRef.v relates one resuming command to the reference ([ref_cmd]); here the commands of a script
   are folded: [ref_script] runs each command with [ref_cmd] from the state at which the previous
   one paused, and the debugger session ([Dbg.session]) given that script followed by `exit` ends
   with exactly the reference's machine state and exactly its number of executed instructions —
   or stops where (and after as many instructions as) the reference machine stops.  Commands that
   are refused on the way (any of them on HALT, `stepout` without the stack extension) and commands
   issued outside user space execute nothing, on both sides. *)
From Coq Require Import List Arith NArith Bool Lia.
From Lace Require Import Word Machine Isa Vm Asm Dbg DbgProofs DbgRef.
Import ListNotations.
Open Scope N_scope.

Definition resuming (c : cmd) : Prop :=
  match c with CStepInto _ | CContinue | CStepOver | CStepOut => True | _ => False end.

Definition shift (a : nat) (p : phase_end) : phase_end :=
  match p with
  | PEPaused st k => PEPaused st (a + k)
  | PEStopped kind code s k => PEStopped kind code s (a + k)
  | PEFuel => PEFuel
  end.

(** The reference for a script: each command from where the previous one paused; the count is the
    total number of executed instructions. *)
Fixpoint ref_script (feat : bool) (bps : list (N * bool)) (fuel : nat) (script : list cmd) (st : state) : phase_end :=
  match script with
  | [] => PEPaused st 0
  | c :: rest =>
      match ref_cmd feat bps fuel c st with
      | PEPaused st' k => shift k (ref_script feat bps fuel rest st')
      | PEStopped kind code s k => PEStopped kind code s k
      | PEFuel => PEFuel
      end
  end.

(* ------------------------------------------------------------------ *)
(** * The iteration, cut after [next_action] *)

Definition finish_tick (env : dbg_env) (st : state) (na : na_result) : tick_result :=
  match na with
  | NaStop r d1 rest n =>
      match r with
      | Exited c st' => TStop 1 c st' d1 0 n
      | Panicked st' => TStop 2 0 st' d1 0 n
      | _ => TStop 3 0 st d1 0 n
      end
  | NaAction ExitProgram d1 st1 rest n => TStop 7 0 st1 d1 0 n
  | NaAction StopDebugger d1 st1 rest n => TDetach d1 st1 n
  | NaAction Proceed d1 st1 rest n =>
      if at_halt st1 then TNext rest d1 st1 0 n
      else if (s_pc st1 <? s_orig st1) || (65024 <=? s_pc st1) then TNext rest d1 st1 0 n
      else
        let d2 := set_icount d1 (d_icount d1 + 1) in
        let instr := M st1 (s_pc st1) in
        if W <=? s_pc st1 + 1 then TStop 2 0 st1 d2 0 n
        else
          match execute (e_feat env) instr (set_pc st1 (s_pc st1 + 1)) with
          | Running st2 => TNext rest d2 st2 1 n
          | Exited c st2 => TStop 1 c st2 d2 1 n
          | Panicked st2 => TStop 2 0 st2 d2 1 n
          | Diverged => TStop 3 0 st1 d2 1 n
          end
  end.

Lemma tick_cut env script d st : tick env script d st = finish_tick env st (next_action env script d st).
Proof. reflexivity. Qed.

Definition session_w (env : dbg_env) (fuel : nat) (tr : tick_result) (ticks execs cmds : N) : session_result :=
  match tr with
  | TStop kind code st' d1 e n =>
      mkSres kind code st' (Some d1) (lrev (d_err d1)) (ticks + 1) (execs + e) (cmds + n)
  | TDetach d1 st1 n =>
      of_vm (vm_run (e_feat env) fuel st1 []) st1 (lrev (d_err d1)) (ticks + 1) execs (cmds + n)
  | TNext rest d1 st1 e n => session env fuel rest d1 st1 (ticks + 1) (execs + e) (cmds + n)
  end.

Lemma session_S env fuel script d st t e c :
  session env (S fuel) script d st t e c = session_w env fuel (tick env script d st) t e c.
Proof. reflexivity. Qed.

(** The iteration of a debugger that is reading commands: [d0] waits, [n] commands were read by
    this iteration already. *)
Definition wtick (env : dbg_env) (st : state) (script : list cmd) (d0 : dbg) (n : N) : tick_result :=
  finish_tick env st (wait_loop env script d0 st n).

Definition ends_like (r : session_result) (kind code : N) (s : state) (execs : N) : Prop :=
  sr_kind r = kind /\ sr_code r = code /\ sr_state r = s /\ sr_execs r = execs.

(* ------------------------------------------------------------------ *)
(** * Parked: the next iteration reads a command, whatever the script *)

Definition parked (env : dbg_env) (d : dbg) (st : state) : Prop :=
  exists d', d_status d' = WaitForAction /\ d_bps d' = d_bps d /\
             forall script, next_action env script d st = wait_loop env script d' st 0.

Lemma pause_parks env d st :
  bp_get (d_bps d) (s_pc st) <> None \/ at_halt st = true \/ (s_pc st <? s_orig st) || (65024 <=? s_pc st) = true ->
  parked env d st.
Proof.
  intros H.
  set (d1 := if (s_pc st <? s_orig st) || (65024 <=? s_pc st) then set_status (say d L_OOB_PC) WaitForAction else d).
  assert (Hbps : d_bps d1 = d_bps d) by (unfold d1; destruct (_ || _); reflexivity).
  assert (Hs : d_status (check_interrupts d1 st) = WaitForAction).
  { unfold check_interrupts. destruct (bp_get (d_bps d1) (s_pc st)) eqn:Eb; [reflexivity|].
    destruct (at_halt st) eqn:Eh; [reflexivity|].
    destruct H as [H|[H|H]]; [rewrite Hbps in Eb; congruence|congruence|].
    unfold d1. rewrite H. reflexivity. }
  exists (check_interrupts d1 st). split; [exact Hs|]. split; [rewrite check_interrupts_bps; exact Hbps|].
  intros script. unfold next_action. fold d1. unfold dispatch_status. rewrite Hs. reflexivity.
Qed.

Lemma wait_parked env d st : d_status d = WaitForAction -> parked env d st.
Proof.
  intros Hw.
  set (d1 := if (s_pc st <? s_orig st) || (65024 <=? s_pc st) then set_status (say d L_OOB_PC) WaitForAction else d).
  assert (Hbps : d_bps d1 = d_bps d) by (unfold d1; destruct (_ || _); reflexivity).
  assert (Hs1 : d_status d1 = WaitForAction) by (unfold d1; destruct (_ || _); [reflexivity|exact Hw]).
  assert (Hs : d_status (check_interrupts d1 st) = WaitForAction) by (apply check_interrupts_wait; exact Hs1).
  exists (check_interrupts d1 st). split; [exact Hs|]. split; [rewrite check_interrupts_bps; exact Hbps|].
  intros script. unfold next_action. fold d1. unfold dispatch_status. rewrite Hs. reflexivity.
Qed.

Lemma parked_tick env d st : parked env d st ->
  exists d0, d_status d0 = WaitForAction /\ d_bps d0 = d_bps d /\
             forall script, tick env script d st = wtick env st script d0 0.
Proof.
  intros (d0 & H1 & H2 & H3). exists d0. split; [exact H1|]. split; [exact H2|].
  intros script. rewrite tick_cut, H3. reflexivity.
Qed.

(* ------------------------------------------------------------------ *)
(** * The free-running phase, in terms of the session *)

Lemma ref_at_session env script : forall fuelR m st k d,
  d_status d = status_of m ->
  match ref_at (e_feat env) (d_bps d) fuelR m st k with
  | PEPaused st' k' =>
      (k <= k')%nat /\ exists d', d_bps d' = d_bps d /\ parked env d' st' /\
        forall fuel t e c,
          session env ((k' - k) + fuel) script d st t e c =
          session env fuel script d' st' (t + N.of_nat (k' - k)) (e + N.of_nat (k' - k)) c
  | PEStopped kind code s k' =>
      (S k <= k')%nat /\
      forall fuel t e c,
        ends_like (session env ((k' - k) + fuel) script d st t e c) kind code s (e + N.of_nat (k' - k))
  | PEFuel => True
  end.
Proof.
  induction fuelR as [|fuelR IH]; intros m st k d Hs; cbn [ref_at]; [exact I|].
  destruct (pause_cond (d_bps d) st) eqn:Ep.
  - split; [lia|]. exists d. split; [reflexivity|]. split; [apply pause_parks; apply pause_cond_true; exact Ep|].
    intros fuel t e c. rewrite Nat.sub_diag. cbn [plus N.of_nat]. rewrite !N.add_0_r. reflexivity.
  - destruct (pause_cond_false _ _ Ep) as (Hb & Hh & Hr).
    assert (Hfree : free d st) by (repeat split; assumption).
    pose proof (dispatch_mode d st m Hs) as K.
    destruct (mode_next m st) as [m'|].
    + destruct K as (d1 & Hd & Hb1 & Hs1).
      pose proof (tick_proceed env script d d1 st Hfree Hd) as T. unfold after_exec in T.
      destruct (vm_step (e_feat env) st) as [st1|cd s|s|] eqn:Ev.
      * set (d2 := set_icount d1 (d_icount d1 + 1)) in *.
        assert (Hs2 : d_status d2 = status_of m') by exact Hs1.
        assert (Hb2 : d_bps d2 = d_bps d) by exact Hb1.
        specialize (IH m' st1 (S k) d2 Hs2). rewrite Hb2 in IH.
        destruct (ref_at (e_feat env) (d_bps d) fuelR m' st1 (S k)) as [st' k'|kind code s k'|].
        -- destruct IH as (Hk & d' & Hbd & Hp & He). split; [lia|]. exists d'. split; [exact Hbd|]. split; [exact Hp|].
           intros fuel t e c. replace (k' - k)%nat with (S (k' - S k)) by lia. cbn [plus].
           rewrite session_S, T. cbn [session_w]. rewrite He. f_equal; lia.
        -- destruct IH as (Hk & He). split; [lia|].
           intros fuel t e c. replace (k' - k)%nat with (S (k' - S k)) by lia. cbn [plus].
           rewrite session_S, T. cbn [session_w].
           replace (e + N.of_nat (S (k' - S k))) with (e + 1 + N.of_nat (k' - S k)) by lia. apply He.
        -- exact I.
      * split; [lia|]. intros fuel t e c. replace (S k - k)%nat with 1%nat by lia. cbn [plus].
        rewrite session_S, T. cbn [session_w]. repeat split.
      * split; [lia|]. intros fuel t e c. replace (S k - k)%nat with 1%nat by lia. cbn [plus].
        rewrite session_S, T. cbn [session_w]. repeat split.
      * split; [lia|]. intros fuel t e c. replace (S k - k)%nat with 1%nat by lia. cbn [plus].
        rewrite session_S, T. cbn [session_w]. repeat split.
    + destruct K as (d1 & Hd & Hb1 & Hs1).
      split; [lia|]. exists d. split; [reflexivity|]. split.
      * exists d1. split; [exact Hs1|]. split; [exact Hb1|]. intros s. rewrite next_action_free by exact Hfree.
        rewrite Hd. reflexivity.
      * intros fuel t e c. rewrite Nat.sub_diag. cbn [plus N.of_nat]. rewrite !N.add_0_r. reflexivity.
Qed.

(* ------------------------------------------------------------------ *)
(** * One command, read by a waiting debugger *)

(** A resuming command is either refused in place (nothing but a message), or arms a mode. *)
Lemma resuming_cases env bps fuelR c d0 st : resuming c -> d_status d0 = WaitForAction ->
  (ref_cmd (e_feat env) bps fuelR c st = PEPaused st 0 /\
   exists dr, run_command env c d0 st = CmdNone dr st /\ d_status dr = WaitForAction /\ d_bps dr = d_bps d0 /\
              cmd_cost c = 1) \/
  (exists m, mode_of_cmd (e_feat env) c st = Some m /\ at_halt st = false /\ cmd_cost c = 1).
Proof.
  intros Hc Hw. destruct c; try contradiction.
  - (* step over *)
    destruct (at_halt st) eqn:Hh.
    + left. unfold ref_cmd. cbn [mode_of_cmd]. rewrite Hh. split; [reflexivity|].
      unfold run_command. rewrite Hh. eexists. split; [reflexivity|]. repeat split. exact Hw.
    + right. eexists. split; [reflexivity|]. split; [reflexivity|reflexivity].
  - (* step into *)
    destruct (at_halt st) eqn:Hh.
    + left. unfold ref_cmd. cbn [mode_of_cmd]. rewrite Hh. split; [reflexivity|].
      unfold run_command. rewrite Hh. eexists. split; [reflexivity|]. repeat split. exact Hw.
    + right. eexists. split; [reflexivity|]. split; [reflexivity|reflexivity].
  - (* step out *)
    destruct (e_feat env) eqn:Ef.
    + destruct (at_halt st) eqn:Hh.
      * left. unfold ref_cmd. cbn [mode_of_cmd]. rewrite Hh. split; [reflexivity|].
        unfold run_command. rewrite Ef, Hh. eexists. split; [reflexivity|]. repeat split. exact Hw.
      * right. eexists. split; [reflexivity|]. split; [reflexivity|reflexivity].
    + left. unfold ref_cmd. cbn [mode_of_cmd]. split; [reflexivity|].
      unfold run_command. rewrite Ef. eexists. split; [reflexivity|]. repeat split. exact Hw.
  - (* continue *)
    destruct (at_halt st) eqn:Hh.
    + left. unfold ref_cmd. cbn [mode_of_cmd]. rewrite Hh. split; [reflexivity|].
      unfold run_command. rewrite Hh. eexists. split; [reflexivity|]. repeat split. exact Hw.
    + right. eexists. split; [reflexivity|]. split; [reflexivity|reflexivity].
Qed.

(** The iteration in which an armed command is read at a runnable state. *)
Lemma wtick_resume env c rest d0 st d1 d2 n :
  run_command env c d0 st = CmdNone d1 st -> dispatch_status d1 st = (Some Proceed, d2) ->
  at_halt st = false -> runnable st ->
  match vm_step (e_feat env) st with
  | Running st' => wtick env st (c :: rest) d0 n = TNext rest (set_icount d2 (d_icount d2 + 1)) st' 1 (n + cmd_cost c)
  | Exited cd s => wtick env st (c :: rest) d0 n = TStop 1 cd s (set_icount d2 (d_icount d2 + 1)) 1 (n + cmd_cost c)
  | Panicked s => wtick env st (c :: rest) d0 n = TStop 2 0 s (set_icount d2 (d_icount d2 + 1)) 1 (n + cmd_cost c)
  | Diverged => wtick env st (c :: rest) d0 n = TStop 3 0 st (set_icount d2 (d_icount d2 + 1)) 1 (n + cmd_cost c)
  end.
Proof.
  intros Hc Hd Hh Hr. unfold wtick. cbn [wait_loop]. rewrite Hc, Hd. unfold finish_tick.
  rewrite Hh. unfold runnable in Hr. rewrite Hr. destruct (runnable_facts st Hr) as (_ & _ & Hw). rewrite Hw.
  unfold vm_step. destruct (execute _ _ _); reflexivity.
Qed.

(** ... and outside user space: nothing executes, the iteration ends. *)
Lemma wtick_outside env c rest d0 st d1 d2 n :
  run_command env c d0 st = CmdNone d1 st -> dispatch_status d1 st = (Some Proceed, d2) ->
  at_halt st = false -> oob st = true ->
  wtick env st (c :: rest) d0 n = TNext rest d2 st 0 (n + cmd_cost c).
Proof.
  intros Hc Hd Hh Ho. unfold wtick. cbn [wait_loop]. rewrite Hc, Hd. unfold finish_tick.
  rewrite Hh. unfold oob in Ho. rewrite Ho. reflexivity.
Qed.

(* ------------------------------------------------------------------ *)
(** * The script *)

Lemma shift_0 p : shift 0 p = p.
Proof. destruct p; reflexivity. Qed.

Theorem script_session env fuelR : forall cs tail d0 st n,
  Forall resuming cs -> d_status d0 = WaitForAction ->
  match ref_script (e_feat env) (d_bps d0) fuelR cs st with
  | PEPaused st' k =>
      exists j d0' n', d_status d0' = WaitForAction /\ d_bps d0' = d_bps d0 /\
        forall fuel t e c, exists t' c',
          session_w env (j + fuel) (wtick env st (cs ++ tail) d0 n) t e c =
          session_w env fuel (wtick env st' tail d0' n') t' (e + N.of_nat k) c'
  | PEStopped kind code s k =>
      exists j, forall fuel t e c,
        ends_like (session_w env (j + fuel) (wtick env st (cs ++ tail) d0 n) t e c) kind code s (e + N.of_nat k)
  | PEFuel => True
  end.
Proof.
  induction cs as [|c cs IH]; intros tail d0 st n Hall Hw.
  - cbn [ref_script app]. exists 0%nat, d0, n. split; [exact Hw|]. split; [reflexivity|].
    intros fuel t e c. exists t, c. cbn [plus N.of_nat]. rewrite N.add_0_r. reflexivity.
  - inversion Hall as [|c' cs' Hc Hcs]; subst c' cs'. cbn [ref_script app].
    destruct (resuming_cases env (d_bps d0) fuelR c d0 st Hc Hw) as [(Hr & dr & Hrc & Hsr & Hbr & Hcost)|(m & Hm & Hh & Hcost)].
    + (* refused in place *)
      rewrite Hr. rewrite shift_0.
      assert (Hwl : forall s, wtick env st (c :: s) d0 n = wtick env st s dr (n + 1)).
      { intros s. unfold wtick. cbn [wait_loop]. rewrite Hrc. unfold dispatch_status. rewrite Hsr, Hcost. reflexivity. }
      specialize (IH tail dr st (n + 1) Hcs Hsr). rewrite Hbr in IH. rewrite Hwl.
      destruct (ref_script (e_feat env) (d_bps d0) fuelR cs st) as [st' k|kind code s k|]; [| |exact I].
      * destruct IH as (j & d0' & n' & H1 & H2 & H3). exists j, d0', n'. split; [exact H1|]. split; [congruence|exact H3].
      * exact IH.
    + (* armed *)
      pose proof (run_command_arms env c d0 st m Hm Hh) as Hrc.
      set (d1 := set_status (set_icount d0 0) (status_of m)) in *.
      assert (Hs1 : d_status d1 = status_of m) by reflexivity.
      destruct (armed_mode_next _ _ _ _ Hm) as (m' & Hn).
      pose proof (dispatch_mode d1 st m Hs1) as K. rewrite Hn in K. destruct K as (d2 & Hd & Hb2 & Hs2).
      assert (Hbd2 : d_bps d2 = d_bps d0) by (rewrite Hb2; reflexivity).
      unfold ref_cmd. rewrite Hm, Hh. cbn [orb].
      destruct (oob st) eqn:Ho.
      * (* outside user space: nothing executes; parked again *)
        rewrite shift_0.
        rewrite (wtick_outside env c (cs ++ tail) d0 st d1 d2 n Hrc Hd Hh Ho).
        destruct (parked_tick env d2 st (pause_parks env d2 st (or_intror (or_intror Ho)))) as (d3 & Hs3 & Hb3 & Ht3).
        specialize (IH tail d3 st 0 Hcs Hs3). rewrite Hb3, Hbd2 in IH.
        destruct (ref_script (e_feat env) (d_bps d0) fuelR cs st) as [st' k|kind code s k|]; [| |exact I].
        -- destruct IH as (j & d0' & n' & H1 & H2 & H3). exists (S j), d0', n'. split; [exact H1|]. split; [congruence|].
           intros fuel t e c0. cbn [session_w plus]. rewrite session_S, Ht3.
           destruct (H3 fuel (t + 1) (e + 0) (c0 + (n + cmd_cost c))) as (t' & c' & E). exists t', c'.
           rewrite E. f_equal. lia.
        -- destruct IH as (j & H3). exists (S j). intros fuel t e c0. cbn [session_w plus]. rewrite session_S, Ht3.
           replace (e + N.of_nat k) with (e + 0 + N.of_nat k) by lia. apply H3.
      * (* in user space: the instruction at PC executes *)
        rewrite Hn.
        assert (Hr : runnable st) by exact Ho.
        pose proof (wtick_resume env c (cs ++ tail) d0 st d1 d2 n Hrc Hd Hh Hr) as T.
        destruct (vm_step (e_feat env) st) as [st1|cd s|s|] eqn:Ev.
        -- set (d3 := set_icount d2 (d_icount d2 + 1)) in *.
           assert (Hs3 : d_status d3 = status_of m') by exact Hs2.
           assert (Hb3 : d_bps d3 = d_bps d0) by exact Hbd2.
           pose proof (ref_at_session env (cs ++ tail) fuelR m' st1 1 d3 Hs3) as R. rewrite Hb3 in R.
           destruct (ref_at (e_feat env) (d_bps d0) fuelR m' st1 1) as [st' k'|kind code s k'|]; [| |exact I].
           ++ destruct R as (Hk & d' & Hbd' & Hp & He).
              destruct (parked_tick env d' st' Hp) as (d4 & Hs4 & Hb4 & Ht4).
              specialize (IH tail d4 st' 0 Hcs Hs4). rewrite Hb4, Hbd' in IH.
              destruct (ref_script (e_feat env) (d_bps d0) fuelR cs st') as [st'' k''|kind code s k''|]; cbn [shift]; [| |exact I].
              ** destruct IH as (j & d0' & n' & H1 & H2 & H3).
                 exists ((k' - 1) + S j)%nat, d0', n'. split; [exact H1|]. split; [congruence|].
                 intros fuel t e c0. rewrite T. cbn [session_w]. rewrite <- Nat.add_assoc, He. cbn [plus].
                 rewrite session_S, Ht4.
                 destruct (H3 fuel (t + 1 + N.of_nat (k' - 1)) (e + 1 + N.of_nat (k' - 1)) (c0 + (n + cmd_cost c))) as (t' & c' & E).
                 exists t', c'. rewrite E. f_equal. lia.
              ** destruct IH as (j & H3). exists ((k' - 1) + S j)%nat.
                 intros fuel t e c0. rewrite T. cbn [session_w]. rewrite <- Nat.add_assoc, He. cbn [plus].
                 rewrite session_S, Ht4.
                 replace (e + N.of_nat (k' + k'')) with (e + 1 + N.of_nat (k' - 1) + N.of_nat k'') by lia. apply H3.
           ++ destruct R as (Hk & He). exists (k' - 1)%nat.
              intros fuel t e c0. rewrite T. cbn [session_w].
              replace (e + N.of_nat k') with (e + 1 + N.of_nat (k' - 1)) by lia. apply He.
        -- exists 0%nat. intros fuel t e c0. rewrite T. cbn [session_w]. repeat split.
        -- exists 0%nat. intros fuel t e c0. rewrite T. cbn [session_w]. repeat split.
        -- exists 0%nat. intros fuel t e c0. rewrite T. cbn [session_w]. repeat split.
Qed.

(** The script followed by `exit`, given to a waiting debugger (the start of every session): the
    session ends with `exit` at the reference's state after the reference's number of
    instructions, or with the stop the reference machine runs into. *)
Theorem script_exit env fuelR cs d st :
  Forall resuming cs -> d_status d = WaitForAction ->
  match ref_script (e_feat env) (d_bps d) fuelR cs st with
  | PEPaused st' k =>
      exists j, forall fuel, ends_like (session env (j + fuel) (cs ++ [CExit]) d st 0 0 0) 7 0 st' (N.of_nat k)
  | PEStopped kind code s k =>
      exists j, forall fuel, ends_like (session env (j + fuel) (cs ++ [CExit]) d st 0 0 0) kind code s (N.of_nat k)
  | PEFuel => True
  end.
Proof.
  intros Hall Hw.
  destruct (parked_tick env d st (wait_parked env d st Hw)) as (d0 & Hs0 & Hb0 & Ht0).
  pose proof (script_session env fuelR cs [CExit] d0 st 0 Hall Hs0) as K. rewrite Hb0 in K.
  destruct (ref_script (e_feat env) (d_bps d) fuelR cs st) as [st' k|kind code s k|]; [| |exact I].
  - destruct K as (j & d0' & n' & H1 & H2 & H3). exists (S j). intros fuel. cbn [plus].
    rewrite session_S, Ht0. destruct (H3 fuel 0 0 0) as (t' & c' & E). rewrite E.
    unfold wtick. cbn [wait_loop run_command finish_tick session_w]. repeat split. cbn [sr_execs]. lia.
  - destruct K as (j & H3). exists (S j). intros fuel. cbn [plus]. rewrite session_S, Ht0.
    replace (N.of_nat k) with (0 + N.of_nat k) by lia. apply H3.
Qed.

(* ------------------------------------------------------------------ *)
(** * Scripts that also set and clear breakpoints *)

(** `break add a` / `break remove a` with an absolute address, as the property's scripts have them:
    the reference's breakpoint set follows them (outside user space they are refused). *)
Definition bpcmd (c : cmd) : Prop :=
  match c with CBreakAdd (MAddr _) | CBreakRemove (MAddr _) => True | _ => False end.

Definition ref_bps (st : state) (bps : list (N * bool)) (c : cmd) : option (list (N * bool)) :=
  match c with
  | CBreakAdd (MAddr a) =>
      Some (if in_userspace st a then (if bp_has bps a then bps else bp_insert bps (a, false)) else bps)
  | CBreakRemove (MAddr a) =>
      Some (if in_userspace st a then (if bp_has bps a then bp_remove bps a else bps) else bps)
  | _ => None
  end.

Definition stepping (c : cmd) : Prop := resuming c \/ bpcmd c.

Fixpoint ref_script2 (feat : bool) (fuel : nat) (script : list cmd) (bps : list (N * bool)) (st : state)
  : phase_end * list (N * bool) :=
  match script with
  | [] => (PEPaused st 0, bps)
  | c :: rest =>
      match ref_bps st bps c with
      | Some bps' => ref_script2 feat fuel rest bps' st
      | None =>
          match ref_cmd feat bps fuel c st with
          | PEPaused st' k => let (p, b) := ref_script2 feat fuel rest bps st' in (shift k p, b)
          | PEStopped kind code s k => (PEStopped kind code s k, bps)
          | PEFuel => (PEFuel, bps)
          end
      end
  end.

Lemma resuming_no_bps st bps c : resuming c -> ref_bps st bps c = None.
Proof. destruct c; try contradiction; reflexivity. Qed.

(** A breakpoint command is carried out in place: the debugger keeps waiting, with the new set. *)
Lemma bpcmd_in_place env c d0 st : bpcmd c -> d_status d0 = WaitForAction ->
  exists dr bps', ref_bps st (d_bps d0) c = Some bps' /\ run_command env c d0 st = CmdNone dr st /\
                  d_status dr = WaitForAction /\ d_bps dr = bps' /\ cmd_cost c = 1.
Proof.
  intros Hc Hw. destruct c as [ | |count| | | |l|l v|m|m|text|text| | | | |m|m| ]; try contradiction;
    destruct m as [a|off|name off]; try contradiction;
    cbn [ref_bps run_command resolve_location]; unfold expect_userspace;
    destruct (in_userspace st a);
    change (d_bps (set_icount d0 0)) with (d_bps d0); change (d_bps (say (set_icount d0 0) L_OOB_ADDRESS)) with (d_bps d0);
    try destruct (bp_has (d_bps d0) a);
    eexists; eexists; (split; [reflexivity|]); (split; [reflexivity|]); repeat split; exact Hw.
Qed.

Theorem script2_session env fuelR : forall cs tail d0 st n,
  Forall stepping cs -> d_status d0 = WaitForAction ->
  match ref_script2 (e_feat env) fuelR cs (d_bps d0) st with
  | (PEPaused st' k, bps') =>
      exists j d0' n', d_status d0' = WaitForAction /\ d_bps d0' = bps' /\
        forall fuel t e c, exists t' c',
          session_w env (j + fuel) (wtick env st (cs ++ tail) d0 n) t e c =
          session_w env fuel (wtick env st' tail d0' n') t' (e + N.of_nat k) c'
  | (PEStopped kind code s k, _) =>
      exists j, forall fuel t e c,
        ends_like (session_w env (j + fuel) (wtick env st (cs ++ tail) d0 n) t e c) kind code s (e + N.of_nat k)
  | (PEFuel, _) => True
  end.
Proof.
  induction cs as [|c cs IH]; intros tail d0 st n Hall Hw.
  - cbn [ref_script2 app]. exists 0%nat, d0, n. split; [exact Hw|]. split; [reflexivity|].
    intros fuel t e c. exists t, c. cbn [plus N.of_nat]. rewrite N.add_0_r. reflexivity.
  - inversion Hall as [|c' cs' Hc Hcs]; subst c' cs'. cbn [ref_script2 app].
    destruct Hc as [Hc|Hc].
    2:{ (* a breakpoint command: in place *)
      destruct (bpcmd_in_place env c d0 st Hc Hw) as (dr & bps' & Hrb & Hrc & Hsr & Hbr & Hcost).
      rewrite Hrb.
      assert (Hwl : forall s, wtick env st (c :: s) d0 n = wtick env st s dr (n + 1)).
      { intros s. unfold wtick. cbn [wait_loop]. rewrite Hrc. unfold dispatch_status. rewrite Hsr, Hcost. reflexivity. }
      specialize (IH tail dr st (n + 1) Hcs Hsr). rewrite Hbr in IH. rewrite Hwl. exact IH. }
    rewrite (resuming_no_bps st (d_bps d0) c Hc).
    destruct (resuming_cases env (d_bps d0) fuelR c d0 st Hc Hw) as [(Hr & dr & Hrc & Hsr & Hbr & Hcost)|(m & Hm & Hh & Hcost)].
    + (* refused in place *)
      rewrite Hr.
      assert (Hwl : forall s, wtick env st (c :: s) d0 n = wtick env st s dr (n + 1)).
      { intros s. unfold wtick. cbn [wait_loop]. rewrite Hrc. unfold dispatch_status. rewrite Hsr, Hcost. reflexivity. }
      specialize (IH tail dr st (n + 1) Hcs Hsr). rewrite Hbr in IH. rewrite Hwl.
      destruct (ref_script2 (e_feat env) fuelR cs (d_bps d0) st) as [[st' k|kind code s k|] b]; rewrite ?shift_0; cbn [shift]; exact IH.
    + (* armed *)
      pose proof (run_command_arms env c d0 st m Hm Hh) as Hrc.
      set (d1 := set_status (set_icount d0 0) (status_of m)) in *.
      assert (Hs1 : d_status d1 = status_of m) by reflexivity.
      destruct (armed_mode_next _ _ _ _ Hm) as (m' & Hn).
      pose proof (dispatch_mode d1 st m Hs1) as K. rewrite Hn in K. destruct K as (d2 & Hd & Hb2 & Hs2).
      assert (Hbd2 : d_bps d2 = d_bps d0) by (rewrite Hb2; reflexivity).
      unfold ref_cmd. rewrite Hm, Hh. cbn [orb].
      destruct (oob st) eqn:Ho.
      * rewrite (wtick_outside env c (cs ++ tail) d0 st d1 d2 n Hrc Hd Hh Ho).
        destruct (parked_tick env d2 st (pause_parks env d2 st (or_intror (or_intror Ho)))) as (d3 & Hs3 & Hb3 & Ht3).
        specialize (IH tail d3 st 0 Hcs Hs3). rewrite Hb3, Hbd2 in IH.
        destruct (ref_script2 (e_feat env) fuelR cs (d_bps d0) st) as [[st' k|kind code s k|] b]; cbn [shift plus]; [| |exact I].
        -- destruct IH as (j & d0' & n' & H1 & H2 & H3). exists (S j), d0', n'. split; [exact H1|]. split; [exact H2|].
           intros fuel t e c0. cbn [session_w plus]. rewrite session_S, Ht3.
           destruct (H3 fuel (t + 1) (e + 0) (c0 + (n + cmd_cost c))) as (t' & c' & E). exists t', c'.
           rewrite E. f_equal. lia.
        -- destruct IH as (j & H3). exists (S j). intros fuel t e c0. cbn [session_w plus]. rewrite session_S, Ht3.
           replace (e + N.of_nat k) with (e + 0 + N.of_nat k) by lia. apply H3.
      * rewrite Hn.
        assert (Hr : runnable st) by exact Ho.
        pose proof (wtick_resume env c (cs ++ tail) d0 st d1 d2 n Hrc Hd Hh Hr) as T.
        destruct (vm_step (e_feat env) st) as [st1|cd s|s|] eqn:Ev.
        -- set (d3 := set_icount d2 (d_icount d2 + 1)) in *.
           assert (Hs3 : d_status d3 = status_of m') by exact Hs2.
           assert (Hb3 : d_bps d3 = d_bps d0) by exact Hbd2.
           pose proof (ref_at_session env (cs ++ tail) fuelR m' st1 1 d3 Hs3) as R. rewrite Hb3 in R.
           destruct (ref_at (e_feat env) (d_bps d0) fuelR m' st1 1) as [st' k'|kind code s k'|]; [| |exact I].
           ++ destruct R as (Hk & d' & Hbd' & Hp & He).
              destruct (parked_tick env d' st' Hp) as (d4 & Hs4 & Hb4 & Ht4).
              specialize (IH tail d4 st' 0 Hcs Hs4). rewrite Hb4, Hbd' in IH.
              destruct (ref_script2 (e_feat env) fuelR cs (d_bps d0) st') as [[st'' k''|kind code s k''|] b]; cbn [shift]; [| |exact I].
              ** destruct IH as (j & d0' & n' & H1 & H2 & H3).
                 exists ((k' - 1) + S j)%nat, d0', n'. split; [exact H1|]. split; [exact H2|].
                 intros fuel t e c0. rewrite T. cbn [session_w]. rewrite <- Nat.add_assoc, He. cbn [plus].
                 rewrite session_S, Ht4.
                 destruct (H3 fuel (t + 1 + N.of_nat (k' - 1)) (e + 1 + N.of_nat (k' - 1)) (c0 + (n + cmd_cost c))) as (t' & c' & E).
                 exists t', c'. rewrite E. f_equal. lia.
              ** destruct IH as (j & H3). exists ((k' - 1) + S j)%nat.
                 intros fuel t e c0. rewrite T. cbn [session_w]. rewrite <- Nat.add_assoc, He. cbn [plus].
                 rewrite session_S, Ht4.
                 replace (e + N.of_nat (k' + k'')) with (e + 1 + N.of_nat (k' - 1) + N.of_nat k'') by lia. apply H3.
           ++ destruct R as (Hk & He). exists (k' - 1)%nat.
              intros fuel t e c0. rewrite T. cbn [session_w].
              replace (e + N.of_nat k') with (e + 1 + N.of_nat (k' - 1)) by lia. apply He.
        -- exists 0%nat. intros fuel t e c0. rewrite T. cbn [session_w]. repeat split.
        -- exists 0%nat. intros fuel t e c0. rewrite T. cbn [session_w]. repeat split.
        -- exists 0%nat. intros fuel t e c0. rewrite T. cbn [session_w]. repeat split.
Qed.

(** The property's scripts — stepping commands and `break add/remove a` in any order — followed by
    `exit`: the session ends at the reference's state after the reference's number of instructions,
    with the reference's breakpoint set. *)
Theorem script2_exit env fuelR cs d st :
  Forall stepping cs -> d_status d = WaitForAction ->
  match ref_script2 (e_feat env) fuelR cs (d_bps d) st with
  | (PEPaused st' k, bps') =>
      exists j, forall fuel,
        let r := session env (j + fuel) (cs ++ [CExit]) d st 0 0 0 in
        ends_like r 7 0 st' (N.of_nat k) /\ match sr_dbg r with Some d' => d_bps d' = bps' | None => False end
  | (PEStopped kind code s k, _) =>
      exists j, forall fuel, ends_like (session env (j + fuel) (cs ++ [CExit]) d st 0 0 0) kind code s (N.of_nat k)
  | (PEFuel, _) => True
  end.
Proof.
  intros Hall Hw.
  destruct (parked_tick env d st (wait_parked env d st Hw)) as (d0 & Hs0 & Hb0 & Ht0).
  pose proof (script2_session env fuelR cs [CExit] d0 st 0 Hall Hs0) as K. rewrite Hb0 in K.
  destruct (ref_script2 (e_feat env) fuelR cs (d_bps d) st) as [[st' k|kind code s k|] b]; [| |exact I].
  - destruct K as (j & d0' & n' & H1 & H2 & H3). exists (S j). intros fuel. cbn [plus]. cbv zeta.
    rewrite session_S, Ht0. destruct (H3 fuel 0 0 0) as (t' & c' & E). rewrite E.
    unfold wtick. cbn [wait_loop run_command finish_tick session_w sr_dbg]. split; [|exact H2].
    repeat split. cbn [sr_execs]. lia.
  - destruct K as (j & H3). exists (S j). intros fuel. cbn [plus]. rewrite session_S, Ht0.
    replace (N.of_nat k) with (0 + N.of_nat k) by lia. apply H3.
Qed.

(* ------------------------------------------------------------------ *)
(** * Non-vacuity *)
From Lace Require Examples.

(** `step`, `step into 2`, then `continue` on the HALT that was reached (refused): three
    instructions in all, on both sides. *)
Definition ex_steps : list cmd := [CStepOver; CStepInto 2; CContinue].

Lemma ex_steps_resuming : Forall resuming ex_steps.
Proof. repeat constructor. Qed.

Lemma ex_steps_ref :
  match ref_script false [] 20 ex_steps Examples.ex_state with
  | PEPaused st' k => k = 3%nat /\ R st' 0 = 3 /\ at_halt st' = true
  | _ => False
  end.
Proof. vm_compute. repeat split. Qed.

Lemma ex_steps_session :
  let r := session Examples.ex_env 20 (ex_steps ++ [CExit]) (Examples.ex_dbg []) Examples.ex_state 0 0 0 in
  sr_kind r = 7 /\ sr_execs r = 3 /\ R (sr_state r) 0 = 3.
Proof. vm_compute. repeat split. Qed.

(** With breakpoint commands: `break add x3002; continue; break remove x3002; step into 5`. *)
Definition ex_steps2 : list cmd := [CBreakAdd (MAddr 12290); CContinue; CBreakRemove (MAddr 12290); CStepInto 5].

Lemma ex_steps2_stepping : Forall stepping ex_steps2.
Proof. repeat constructor; (right; exact I) || (left; exact I). Qed.

Lemma ex_steps2_ref :
  match ref_script2 false 20 [CBreakAdd (MAddr 12290); CContinue] [] Examples.ex_state,
        ref_script2 false 20 ex_steps2 [] Examples.ex_state with
  | (PEPaused s1 k1, b1), (PEPaused s2 k2, b2) =>
      k1 = 2%nat /\ s_pc s1 = 12290 /\ b1 = [(12290, false)] /\ k2 = 3%nat /\ at_halt s2 = true /\ b2 = []
  | _, _ => False
  end.
Proof. vm_compute. repeat split. Qed.
