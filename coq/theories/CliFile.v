(* CliFile.v — MODEL of how the sub-commands of main.rs get their source: `fs::read_to_string`, i.e.
   the file's BYTES decoded as strict UTF-8 (`std::str::from_utf8`: width by the first byte, second
   byte in the range that excludes over-long forms, surrogates and values above U+10FFFF), an i/o
   error (exit status 1) otherwise — the same reading in `check`, `compile`, `run`, `debug`, `watch`
   and the bare `lace FILE` form.  THEOREMS: the three verdicts agree for every byte string, valid
   UTF-8 or not; a file that IS the UTF-8 encoding of a text is read back as that text, so the
   file-level verdicts are the text-level ones of Cli.v. *)
From Coq Require Import List NArith Bool Lia ZifyBool String.
From Lace Require Import Word Asm Cli Utf8.
Import ListNotations.
Open Scope N_scope.

(** `core::str::validations::UTF8_CHAR_WIDTH`; 0: not a first byte. *)
Definition utf8_width (a : N) : nat :=
  if a <? 128 then 1
  else if Utf8.between 194 a 223 then 2
  else if Utf8.between 224 a 239 then 3
  else if Utf8.between 240 a 244 then 4
  else 0.

(** `std::str::from_utf8` on a whole file; [None]: "stream did not contain valid UTF-8". *)
Fixpoint read_to_string_f (fuel : nat) (bs : list N) : option (list N) :=
  match fuel with
  | O => None
  | S f =>
      match bs with
      | [] => Some []
      | a :: _ =>
          match utf8_width a with
          | O => None
          | w => match from_utf8_1 (firstn w bs) with
                 | Some c => match read_to_string_f f (skipn w bs) with
                             | Some cs => Some (c :: cs)
                             | None => None
                             end
                 | None => None
                 end
          end
      end
  end.

Definition read_to_string (bs : list N) : option (list N) := read_to_string_f (S (length bs)) bs.

(** The sub-commands on a FILE (its bytes). *)
Definition check_file (feat : bool) (bytes : list N) : N :=
  match read_to_string bytes with Some src => check_exit feat src | None => 1 end.

Definition compile_file (feat : bool) (bytes : list N) : N :=
  match read_to_string bytes with Some src => compile_exit feat src | None => 1 end.

Definition run_file_assembles (feat : bool) (bytes : list N) : bool :=
  match read_to_string bytes with Some src => run_assembles feat src | None => false end.

(** What `lace compile` leaves at the destination for a file: its exit status and the object bytes. *)
Definition object_of_file (feat : bool) (bytes : list N) : N * list N :=
  match read_to_string bytes with
  | None => (1, [])
  | Some src => match assembles feat src with
                | Ok im => (0, compile_bytes im)
                | Err _ _ _ => (1, [])
                | Bad _ => (101, [])
                end
  end.

(* ------------------------------------------------------------------ *)
(** * The verdicts agree on every file *)

Lemma files_agree feat bytes :
  (check_file feat bytes = 0 <-> compile_file feat bytes = 0) /\
  (compile_file feat bytes = 0 <-> run_file_assembles feat bytes = true).
Proof.
  unfold check_file, compile_file, run_file_assembles.
  destruct (read_to_string bytes) as [src|].
  - unfold check_exit, compile_exit, run_assembles, run_cmd, exit_of.
    split; [tauto|].
    destruct (assembles feat src) as [im| |].
    + destruct (Vm.from_raw (raw_of_image im) []); split; reflexivity.
    + split; discriminate.
    + split; discriminate.
  - split; split; discriminate.
Qed.

(* ------------------------------------------------------------------ *)
(** * A UTF-8 file is read back as its text *)

Lemma take_cont_all : forall n bs got rest,
  take_cont n bs = Some (got, rest) -> bs = got ++ rest /\ length got = n.
Proof.
  induction n as [|n IH]; intros bs got rest H; cbn [take_cont] in H.
  - inversion H; subst. split; reflexivity.
  - destruct bs as [|b r]; [discriminate|]. destruct (is_cont b); [|discriminate].
    destruct (take_cont n r) as [[g rs]|] eqn:E; [|discriminate]. inversion H; subst.
    destruct (IH _ _ _ E) as [-> <-]. split; reflexivity.
Qed.

Lemma from_utf8_1_width a r c : from_utf8_1 (a :: r) = Some c -> utf8_width a = length (a :: r).
Proof.
  unfold from_utf8_1, utf8_width, Utf8.between.
  destruct r as [|b [|c3 [|d [|e r]]]]; intros H; try discriminate.
  - destruct (a <? 128) eqn:E; [reflexivity|discriminate].
  - destruct ((194 <=? a) && (a <=? 223) && ((128 <=? b) && (b <=? 191))) eqn:E; [|discriminate].
    assert (E1 : (a <? 128) = false) by lia. rewrite E1.
    assert (E2 : (194 <=? a) && (a <=? 223) = true) by lia. rewrite E2. reflexivity.
  - assert (Ha : 224 <= a <= 239).
    { destruct (a =? 224) eqn:E1; [lia|]. destruct (a =? 237) eqn:E2; [lia|].
      destruct ((225 <=? a) && (a <=? 239) && ((128 <=? b) && (b <=? 191)) && ((128 <=? c3) && (c3 <=? 191))) eqn:E3;
        [lia|discriminate]. }
    assert (E1 : (a <? 128) = false) by lia. rewrite E1.
    assert (E2 : (194 <=? a) && (a <=? 223) = false) by lia. rewrite E2.
    assert (E3 : (224 <=? a) && (a <=? 239) = true) by lia. rewrite E3. reflexivity.
  - assert (Ha : 240 <= a <= 244).
    { destruct (a =? 240) eqn:E1; [lia|]. destruct (a =? 244) eqn:E2; [lia|].
      destruct ((241 <=? a) && (a <=? 243) && ((128 <=? b) && (b <=? 191)) && ((128 <=? c3) && (c3 <=? 191))
                && ((128 <=? d) && (d <=? 191))) eqn:E3; [lia|discriminate]. }
    assert (E1 : (a <? 128) = false) by lia. rewrite E1.
    assert (E2 : (194 <=? a) && (a <=? 223) = false) by lia. rewrite E2.
    assert (E3 : (224 <=? a) && (a <=? 239) = false) by lia. rewrite E3.
    assert (E4 : (240 <=? a) && (a <=? 244) = true) by lia. rewrite E4. reflexivity.
Qed.

Lemma from_utf8_1_encode c : scalar c = true ->
  exists a r, encode c = a :: r /\ from_utf8_1 (a :: r) = Some c.
Proof.
  intros Hs. pose proof (read_char_encode c [] Hs) as H. rewrite app_nil_r in H.
  unfold read_char in H. destruct (encode c) as [|a r] eqn:E; [discriminate|].
  exists a, r. split; [reflexivity|].
  destruct (upos_of a); try discriminate;
    (destruct (take_cont _ r) as [[got rest]|] eqn:T; [|discriminate];
     destruct (from_utf8_1 (a :: got)) as [c'|] eqn:F; [|discriminate];
     inversion H; subst; destruct (take_cont_all _ _ _ _ T) as [-> _]; rewrite app_nil_r; exact F).
Qed.

Lemma firstn_skipn_app {A} (l r : list A) : firstn (length l) (l ++ r) = l /\ skipn (length l) (l ++ r) = r.
Proof. induction l as [|x l [IH1 IH2]]; cbn; [split; reflexivity|]. rewrite IH1, IH2. split; reflexivity. Qed.

Lemma read_to_string_f_encode : forall cs fuel, (length cs < fuel)%nat ->
  forallb scalar cs = true -> read_to_string_f fuel (encode_all cs) = Some cs.
Proof.
  induction cs as [|c r IH]; intros fuel Hf Hs; destruct fuel as [|fuel]; try (cbn [length] in Hf; lia).
  - reflexivity.
  - cbn [forallb] in Hs. apply andb_true_iff in Hs as [H1 H2].
    destruct (from_utf8_1_encode c H1) as (a & t & E & F).
    cbn [encode_all read_to_string_f]. rewrite E. cbn [app].
    pose proof (from_utf8_1_width a t c F) as Hw. rewrite Hw.
    change (a :: t ++ encode_all r) with ((a :: t) ++ encode_all r).
    destruct (firstn_skipn_app (a :: t) (encode_all r)) as [K1 K2]. cbn [length] in K1, K2 |- *. rewrite K1, K2, F.
    rewrite IH; [reflexivity|cbn [length] in Hf; lia|exact H2].
Qed.

Theorem read_to_string_encode cs : forallb scalar cs = true -> read_to_string (encode_all cs) = Some cs.
Proof.
  intros H. unfold read_to_string. apply read_to_string_f_encode; [|exact H].
  pose proof (encode_all_length cs). lia.
Qed.

(** File-level verdicts of a UTF-8 file = text-level verdicts of its text. *)
Theorem check_file_text feat src : forallb scalar src = true ->
  check_file feat (encode_all src) = check_exit feat src /\
  compile_file feat (encode_all src) = compile_exit feat src /\
  run_file_assembles feat (encode_all src) = run_assembles feat src.
Proof.
  intros H. unfold check_file, compile_file, run_file_assembles. rewrite (read_to_string_encode src H).
  repeat split.
Qed.

(** A file that is not valid UTF-8 is rejected by all three, with exit status 1. *)
Theorem invalid_file_rejected feat bytes : read_to_string bytes = None ->
  check_file feat bytes = 1 /\ compile_file feat bytes = 1 /\ run_file_assembles feat bytes = false.
Proof. intros H. unfold check_file, compile_file, run_file_assembles. rewrite H. repeat split. Qed.

(** Non-vacuity: a Latin-1 `é` inside a comment makes the whole file unreadable; its UTF-8 form is fine. *)
Definition ex_file_latin1 : list N := str "halt ; caf"%string ++ [233; 10].
Definition ex_file_utf8 : list N := str "halt ; caf"%string ++ [195; 169; 10].
Example ex_latin1 :
  read_to_string ex_file_latin1 = None /\
  read_to_string ex_file_utf8 = Some (str "halt ; caf"%string ++ [233; 10]) /\
  check_file false ex_file_latin1 = 1 /\
  check_file false ex_file_utf8 = 0.
Proof. vm_compute. repeat split. Qed.
