(* Edit.v — MODEL of lace's interactive line editor, src/debugger/command/reader/terminal.rs
   (with the two `fix:` commits to find_word_next applied), transcribed function by function.

   A `String` is the list of its characters (code points, N); where the code works with byte
   offsets the model computes them with [len_utf8], and `String::insert` / `String::remove` /
   `&s[a..]` / `&s[..b]` panic off a character boundary exactly as Rust's do.  `assert!`,
   `expect`, `unwrap` are the explicit [Panic] outcome; `debug_assert!` panics only when [dbg]
   (Rust's debug profile) is set.  `usize` is nat: no count here can approach 2^64.

   char::is_whitespace and char::is_alphanumeric are Section variables: everything proved about
   the model holds for every pair of classifications. *)
From Coq Require Import NArith List Bool Arith.
From Lace Require Import EditSpec.      (* the [key] type and [line_eqb] only *)
Import ListNotations.
Open Scope nat_scope.

Inductive res (A : Type) := Ok (a : A) | Panic | OutOfFuel.
Arguments Ok {A} a.
Arguments Panic {A}.
Arguments OutOfFuel {A}.

Definition bind {A B : Type} (r : res A) (f : A -> res B) : res B :=
  match r with Ok a => f a | Panic => Panic | OutOfFuel => OutOfFuel end.
Notation "x <- r ;; f" := (bind r (fun x => f)) (at level 61, r at next level, right associativity).
Notation "' p <- r ;; f" := (bind r (fun p => f))
  (at level 61, p pattern, r at next level, right associativity).

(** char::len_utf8 *)
Definition len_utf8 (c : N) : nat :=
  if (c <? 128)%N then 1 else if (c <? 2048)%N then 2 else if (c <? 65536)%N then 3 else 4.

(** str::len *)
Fixpoint byte_len (s : list N) : nat :=
  match s with [] => 0 | c :: r => len_utf8 c + byte_len r end.

(** String::insert(idx, ch): `assert!(self.is_char_boundary(idx))` *)
Fixpoint str_insert (s : list N) (idx : nat) (ch : N) : res (list N) :=
  match s with
  | [] => if idx =? 0 then Ok [ch] else Panic
  | c :: r =>
      if idx =? 0 then Ok (ch :: s)
      else if idx <? len_utf8 c then Panic
      else s' <- str_insert r (idx - len_utf8 c) ch ;; Ok (c :: s')
  end.

(** String::remove(idx): panics at the end of the string and off a boundary *)
Fixpoint str_remove (s : list N) (idx : nat) : res (list N) :=
  match s with
  | [] => Panic
  | c :: r =>
      if idx =? 0 then Ok r
      else if idx <? len_utf8 c then Panic
      else s' <- str_remove r (idx - len_utf8 c) ;; Ok (c :: s')
  end.

(** &s[b..] *)
Fixpoint str_from (s : list N) (b : nat) : res (list N) :=
  match s with
  | [] => if b =? 0 then Ok [] else Panic
  | c :: r =>
      if b =? 0 then Ok s
      else if b <? len_utf8 c then Panic
      else str_from r (b - len_utf8 c)
  end.

(** &s[..b] *)
Fixpoint str_to (s : list N) (b : nat) : res (list N) :=
  match s with
  | [] => if b =? 0 then Ok [] else Panic
  | c :: r =>
      if b =? 0 then Ok []
      else if b <? len_utf8 c then Panic
      else s' <- str_to r (b - len_utf8 c) ;; Ok (c :: s')
  end.

(** s.find(';'): byte index of the first ';' ([off] = byte offset of the head of [s]) *)
Fixpoint find_semi (s : list N) (off : nat) : option nat :=
  match s with
  | [] => None
  | c :: r => if (c =? 59)%N then Some off else find_semi r (off + len_utf8 c)
  end.

(** fn count_chars_bytes(string, char_index) -> (byte_index, char_count):
    the loop over `string.char_indices().enumerate()`; [i] counts characters, [j] bytes. *)
Fixpoint ccb_loop (s : list N) (i j char_index byte_index char_count : nat) : nat * nat :=
  match s with
  | [] => (byte_index, char_count)
  | c :: r =>
      ccb_loop r (S i) (j + len_utf8 c) char_index
               (if i =? char_index then j else byte_index) (S char_count)
  end.
Definition count_chars_bytes (s : list N) (char_index : nat) : nat * nat :=
  ccb_loop s 0 0 char_index (byte_len s) 0.

(** fn insert_char_index *)
Definition insert_char_index (s : list N) (char_index : nat) (ch : N) : res (list N) :=
  let '(byte_index, char_count) := count_chars_bytes s char_index in
  if char_index <=? char_count then str_insert s byte_index ch else Panic.

(** fn remove_char_index (the removed character is not used by any caller) *)
Definition remove_char_index (s : list N) (char_index : nat) : res (list N) :=
  let '(byte_index, char_count) := count_chars_bytes s char_index in
  if char_index <? char_count then str_remove s byte_index else Panic.

Record term := mkTerm {
  t_buf : list N;             (* buffer *)
  t_head : nat;               (* cursor: BYTE index of the next command in a submitted line *)
  t_vc : nat;                 (* visible_cursor: CHAR index *)
  t_hist : list (list N);     (* history.list *)
  t_idx : nat;                (* history.index *)
}.

Definition set_buf (t : term) (b : list N) := mkTerm b (t_head t) (t_vc t) (t_hist t) (t_idx t).
Definition set_vc (t : term) (v : nat) := mkTerm (t_buf t) (t_head t) v (t_hist t) (t_idx t).
Definition set_idx (t : term) (i : nat) := mkTerm (t_buf t) (t_head t) (t_vc t) (t_hist t) i.
Definition set_head (t : term) (h : nat) := mkTerm (t_buf t) h (t_vc t) (t_hist t) (t_idx t).
Definition set_hist (t : term) (h : list (list N)) := mkTerm (t_buf t) (t_head t) (t_vc t) h (t_idx t).

Section Model.
Variable is_ws : N -> bool.       (* char::is_whitespace *)
Variable is_alnum : N -> bool.    (* char::is_alphanumeric *)
Variable dbg : bool.              (* debug_assert! active *)

(** `for (i, ch) in chars.by_ref() { if !ch.is_whitespace() { return i; } }`:
    [Some i] = returned, [None] = iterator exhausted. *)
Fixpoint fwn_skip_ws (chars : list N) (i : nat) : option nat :=
  match chars with
  | [] => None
  | ch :: r => if negb (is_ws ch) then Some i else fwn_skip_ws r (S i)
  end.

(** the `while let Some((i, ch)) = chars.next()` loop of find_word_next *)
Fixpoint fwn_loop (full_word alnum : bool) (chars : list N) (i count : nat) : nat :=
  match chars with
  | [] => count
  | ch :: r =>
      if is_ws ch then
        match fwn_skip_ws r (S i) with
        | Some k => k
        | None => count                                   (* break: only trailing spaces left *)
        end
      else if negb full_word && negb (eqb (is_alnum ch) alnum) then i
      else fwn_loop full_word alnum r (S i) count
  end.

(** fn find_word_next: `string.chars().enumerate().skip(cursor)` *)
Definition find_word_next (s : list N) (cursor : nat) (full_word : bool) : nat :=
  match skipn cursor s with
  | [] => length s
  | first :: chars =>
      if is_ws first then
        match fwn_skip_ws chars (S cursor) with
        | Some k => k
        | None => length s
        end
      else fwn_loop full_word (is_alnum first) chars (S cursor) (length s)
  end.

(** `while cursor > 0 && string.chars().nth(cursor).unwrap().is_whitespace() { cursor -= 1 }` *)
Fixpoint fwb_skip_ws (s : list N) (cursor : nat) : res nat :=
  match cursor with
  | O => Ok O
  | S c' =>
      match nth_error s cursor with
      | None => Panic
      | Some ch => if is_ws ch then fwb_skip_ws s c' else Ok cursor
      end
  end.

(** `while cursor > 0 { cursor -= 1; if ... { return cursor + 1; } }  0` *)
Fixpoint fwb_loop (full_word alnum : bool) (s : list N) (cursor : nat) : res nat :=
  match cursor with
  | O => Ok O
  | S c' =>
      match nth_error s c' with
      | None => Panic
      | Some ch =>
          if is_ws ch || (negb full_word && negb (eqb (is_alnum ch) alnum)) then Ok (S c')
          else fwb_loop full_word alnum s c'
      end
  end.

(** fn find_word_back *)
Definition find_word_back (s : list N) (cursor : nat) (full_word : bool) : res nat :=
  if cursor <=? 1 then Ok 0
  else
    c <- fwb_skip_ws s (cursor - 1) ;;
    match nth_error s c with
    | None => Panic
    | Some ch => fwb_loop full_word (is_alnum ch) s c
    end.

(** fn is_next *)
Definition is_next (t : term) : res bool :=
  if dbg && (length (t_hist t) <? t_idx t) then Panic        (* debug_assert!(index <= len) *)
  else Ok (length (t_hist t) <=? t_idx t).

(** fn update_next *)
Definition update_next (t : term) : res term :=
  b <- is_next t ;;
  if b then Ok t
  else match nth_error (t_hist t) (t_idx t) with
       | None => Panic                                       (* .expect("checked above") *)
       | Some h => Ok (set_idx (set_buf t h) (length (t_hist t)))
       end.

(** fn get_current *)
Definition get_current (t : term) : res (list N) :=
  b <- is_next t ;;
  if b then Ok (t_buf t)
  else match nth_error (t_hist t) (t_idx t) with
       | None => Panic
       | Some h => Ok h
       end.

(** `s.trim().is_empty()` *)
Definition blank_str (s : list N) : bool := forallb is_ws s.

(** fn handle_key -> bool (`true`: end of line) *)
Definition handle_key (t : term) (k : key) : res (term * bool) :=
  match k with
  | KEnter =>
      b <- is_next t ;;
      if b && blank_str (t_buf t) then Ok (set_vc (set_buf t []) 0, false)
      else t1 <- update_next t ;; Ok (t1, true)
  | KChar ch =>
      if ((ch <=? 31) || (ch =? 127))%N then Ok (t, false)
      else
        t1 <- update_next t ;;
        b <- insert_char_index (t_buf t1) (t_vc t1) ch ;;
        Ok (set_vc (set_buf t1 b) (t_vc t1 + 1), false)
  | KBackspace =>
      t1 <- update_next t ;;
      if 0 <? t_vc t1 then
        cur <- get_current t1 ;;
        if t_vc t1 <=? length cur then
          let t2 := set_vc t1 (t_vc t1 - 1) in
          b <- remove_char_index (t_buf t2) (t_vc t2) ;;
          Ok (set_buf t2 b, false)
        else Ok (t1, false)
      else Ok (t1, false)
  | KDelete =>
      t1 <- update_next t ;;
      cur <- get_current t1 ;;
      if t_vc t1 <? length cur then
        b <- remove_char_index (t_buf t1) (t_vc t1) ;;
        Ok (set_buf t1 b, false)
      else Ok (t1, false)
  | KLeft => Ok (if 0 <? t_vc t then set_vc t (t_vc t - 1) else t, false)
  | KRight =>
      cur <- get_current t ;;
      Ok (if t_vc t <? length cur then set_vc t (t_vc t + 1) else t, false)
  | KCtrlLeft =>
      cur <- get_current t ;;
      c <- find_word_back cur (t_vc t) false ;;
      Ok (set_vc t c, false)
  | KCtrlRight =>
      cur <- get_current t ;;
      Ok (set_vc t (find_word_next cur (t_vc t) false), false)
  | KUp =>
      if 0 <? t_idx t then
        let t1 := set_idx t (t_idx t - 1) in
        cur <- get_current t1 ;;
        Ok (set_vc t1 (length cur), false)
      else Ok (t, false)
  | KDown =>
      if t_idx t <? length (t_hist t) then
        let t1 := set_idx t (t_idx t + 1) in
        cur <- get_current t1 ;;
        Ok (set_vc t1 (length cur), false)
      else Ok (t, false)
  end.

(** fn read_line, first two statements *)
Definition begin_line (t : term) : term := set_vc (set_buf t []) 0.

(** fn read_line, after read_line_raw returned *)
Definition finish_line (t : term) : res term :=
  if dbg && blank_str (t_buf t) then Panic                   (* debug_assert!(!trim().is_empty()) *)
  else
    let differs := match t_hist t with
                   | [] => true                                (* last() is None *)
                   | _ => negb (line_eqb (last (t_hist t) []) (t_buf t))
                   end in
    let h := if differs then t_hist t ++ [t_buf t] else t_hist t in
    Ok (set_idx (set_hist t h) (length h)).

(** fn get_next_command *)
Definition get_next_command (t : term) : res (term * list N) :=
  rest <- str_from (t_buf t) (t_head t) ;;
  match find_semi rest 0 with
  | Some index =>
      cmd <- str_to rest index ;;
      Ok (set_head t (t_head t + (index + 1)), cmd)
  | None => Ok (set_head t 0, rest)
  end.

(** The `read` calls that hand out the commands of a line just read: `read` reads a new line
    only when `cursor == 0`. *)
Fixpoint read_commands (fuel : nat) (t : term) : res (term * list (list N)) :=
  match fuel with
  | O => OutOfFuel
  | S f =>
      '(t1, cmd) <- get_next_command t ;;
      if t_head t1 =? 0 then Ok (t1, [cmd])
      else '(t2, cmds) <- read_commands f t1 ;; Ok (t2, cmd :: cmds)
  end.

(** One key inside read_line_raw's loop.  When the key ends the line: the rest of read_line, the
    `read`s that hand out its commands, and the first two statements of the next read_line. *)
Definition session_key (t : term) (k : key) : res (term * option (list (list N))) :=
  '(t1, eol) <- handle_key t k ;;
  if eol then
    t2 <- finish_line t1 ;;
    '(t3, cmds) <- read_commands (S (length (t_buf t2))) t2 ;;
    Ok (begin_line t3, Some cmds)
  else Ok (t1, None).

Fixpoint run_keys (t : term) (ks : list key) : res (term * list (list (list N))) :=
  match ks with
  | [] => Ok (t, [])
  | k :: ks' =>
      '(t1, sub) <- session_key t k ;;
      '(t2, subs) <- run_keys t1 ks' ;;
      Ok (t2, match sub with Some s => s :: subs | None => subs end)
  end.

End Model.

(** Terminal::new with a given history, then the first two statements of read_line *)
Definition term_start (h : list (list N)) : term := mkTerm [] 0 0 h (length h).

(** The line the prompt shows (get_current without its panics). *)
Definition current (t : term) : list N :=
  if t_idx t <? length (t_hist t) then nth (t_idx t) (t_hist t) [] else t_buf t.

(** An editor state of the SPEC as the terminal holds it between two lines (`cursor`, the byte
    index of the next command, is 0 there). *)
Definition term_of_ed (e : ed) : term := mkTerm (draft e) 0 (cur e) (hist e) (focus e).

(* ------------------------------------------------------------------ *)
(** * find_word_next as it was in the pinned tree (before the two `fix:` commits)

    It iterated `string.char_indices().skip(cursor)`, so the indices it returned were BYTE
    offsets (and `string.len()` at the end), although its result is stored in visible_cursor;
    and after a word followed only by spaces it fell through to the word/punctuation test with
    the first space still in hand.  Kept for the refutation lemmas in EditProofs.v. *)
Section Pinned.
Variable is_ws : N -> bool.
Variable is_alnum : N -> bool.

Fixpoint fwn_skip_ws_pinned (chars : list N) (j : nat) : option nat :=
  match chars with
  | [] => None
  | ch :: r => if negb (is_ws ch) then Some j else fwn_skip_ws_pinned r (j + len_utf8 ch)
  end.

Fixpoint fwn_loop_pinned (full_word alnum : bool) (chars : list N) (j len : nat) : nat :=
  match chars with
  | [] => len
  | ch :: r =>
      if is_ws ch then
        match fwn_skip_ws_pinned r (j + len_utf8 ch) with
        | Some k => k
        | None => if negb full_word && negb (eqb (is_alnum ch) alnum) then j else len
        end
      else if negb full_word && negb (eqb (is_alnum ch) alnum) then j
      else fwn_loop_pinned full_word alnum r (j + len_utf8 ch) len
  end.

Definition find_word_next_pinned (s : list N) (cursor : nat) (full_word : bool) : nat :=
  match skipn cursor s with
  | [] => byte_len s
  | first :: chars =>
      let j := byte_len (firstn cursor s) + len_utf8 first in
      if is_ws first then
        match fwn_skip_ws_pinned chars j with
        | Some k => k
        | None => byte_len s
        end
      else fwn_loop_pinned full_word (is_alnum first) chars j (byte_len s)
  end.
End Pinned.
