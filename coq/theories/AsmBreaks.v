(* AsmBreaks.v — THEOREM: a `.break` marks the NEXT statement and occupies no memory.

   [marks] reads the statement boundaries of a preprocessed token list off the operand table of
   AsmAccept.v (a mnemonic is followed by as many operand tokens as its [shape] has entries, a
   generic trap and `.orig` by one, a data word by none; labels and `.break` stand alone) and lists,
   for every `.break`, the number of statements that precede it.  For every source that the parser
   accepts the recorded breakpoint table is exactly that list (inserted in order, without
   duplicates), whatever the origin is and wherever the `.orig` line stands. *)
From Coq Require Import List NArith Bool Lia String.
From Lace Require Import Word Machine Isa Vm Asm AsmLayout AsmAccept.
Import ListNotations.
Open Scope N_scope.

(** [skip]: operand tokens of the current statement still to pass. *)
Fixpoint marks (skip : nat) (toks : list token) (count : N) : list N :=
  match toks with
  | [] => []
  | t :: r =>
      match skip with
      | S k => marks k r count
      | O =>
          match tk t with
          | KLabel => marks 0 r count
          | KBreakpoint => count :: marks 0 r count
          | KInstr k => marks (length (shape k)) r (count + 1)
          | KTrap k => marks (length (trap_shape k)) r (count + 1)
          | KByte _ => marks 0 r (count + 1)
          | KDir DOrig => marks 1 r count
          | _ => []
          end
      end
  end.

Definition record (bps : list (N * bool)) (ms : list N) : list (N * bool) :=
  fold_left (fun l c => bp_insert l (wrap c, true)) ms bps.

Lemma marks_skipn : forall w r c, marks w r c = marks 0 (skipn w r) c.
Proof.
  induction w as [|w IH]; intros r c; [reflexivity|].
  destruct r as [|t r]; [reflexivity|]. cbn [marks skipn]. apply IH.
Qed.

Definition marks_ok (ps : parser) (r : res (air * symtab) * symtab) : Prop :=
  match fst r with
  | Ok (a, _) => a_bps a = record (a_bps (p_air ps)) (marks 0 (p_toks ps) (p_count ps))
  | _ => True
  end.

Lemma expect_lit_one b r te n v toks2 te2 :
  expect_lit b (r, te) n = Ok (v, (toks2, te2)) -> toks2 = skipn 1 r.
Proof.
  intros H. pose proof (expect_lit_spec b r te n) as K. rewrite H in K. cbn [spec1] in K.
  destruct K as (t & -> & _). reflexivity.
Qed.

(** One round after the optional label: [toks1] is what the statement starts with. *)
Lemma stmt_part_marks rec n ps labeled toks1 sym1 :
  (forall q, marks_ok q (rec q)) ->
  match fst (stmt_part rec n ps labeled toks1 sym1) with
  | Ok (a, _) => a_bps a = record (a_bps (p_air ps)) (marks 0 toks1 (p_count ps))
  | _ => True
  end.
Proof.
  intros Hrec. unfold stmt_part.
  destruct toks1 as [|t r]; [destruct labeled; cbn; [exact I|reflexivity]|].
  assert (Hfin : forall (x : res (stmt * pst)) w,
     (forall s toks2 te2, x = Ok (s, (toks2, te2)) -> toks2 = skipn w r) ->
     match fst (match x with
                | Err d a n0 => (Err d a n0, sym1) | Bad w0 => (Bad w0, sym1)
                | Ok (s, (toks2, tok_end2)) =>
                    if p_line ps + 1 <? W
                    then rec (mkParser toks2 (mkAir (a_orig (p_air ps))
                                (mkLine (wrap (p_count ps + 1)) s (toffs t)
                                   (if tok_end2 <=? toffs t then tlen t else tok_end2 - toffs t) :: a_ast (p_air ps))
                                (a_bps (p_air ps))) (p_line ps + 1) tok_end2 sym1 (p_count ps + 1))
                    else (Err E_too_long (n - 1) 0, sym1)
                end) with
     | Ok (a, _) => a_bps a = record (a_bps (p_air ps)) (marks w r (p_count ps + 1))
     | _ => True
     end).
  { intros x w Hx. destruct x as [[s [toks2 te2]]| |]; cbn [fst]; try exact I.
    destruct (p_line ps + 1 <? W); [|exact I].
    pose proof (Hx s toks2 te2 eq_refl) as E. subst toks2.
    match goal with |- context [rec ?q] => pose proof (Hrec q) as K; unfold marks_ok in K; cbn [p_air a_bps p_toks p_count] in K end.
    rewrite marks_skipn. exact K. }
  cbn [marks].
  destruct (tk t) as [|k|k|l|d|rg|v| | | | ] eqn:Ek; cbn [unexpected fst]; try exact I.
  - (* instruction *)
    apply Hfin. intros s toks2 te2 E. apply (parse_instr_consumes _ _ _ _ _ _ _ _ _ E).
  - (* trap *)
    apply Hfin. intros s toks2 te2 E. apply (parse_trap_consumes _ _ _ _ _ _ _ E).
  - (* directive *)
    destruct d; cbn [fst]; try exact I.
    destruct (expect_lit (Unsigned 16) (r, p_tok_end ps) n) as [[v [toks2 te2]]| |] eqn:El; cbn [fst]; try exact I.
    destruct (a_orig (p_air ps)); [exact I|].
    pose proof (expect_lit_one _ _ _ _ _ _ _ El) as E. subst toks2.
    match goal with |- context [rec ?q] => pose proof (Hrec q) as K; unfold marks_ok in K; cbn [p_air a_bps p_toks p_count] in K end.
    rewrite marks_skipn. exact K.
  - (* data word *)
    apply (Hfin (Ok (SRawWord v, (r, p_tok_end ps))) 0%nat).
    intros s toks2 te2 E. inversion E. reflexivity.
  - (* .break *)
    match goal with |- context [rec ?q] => pose proof (Hrec q) as K; unfold marks_ok in K; cbn [p_air a_bps p_toks p_count] in K end.
    exact K.
Qed.

Theorem parse_marks : forall fuel n ps, marks_ok ps (parse fuel n ps).
Proof.
  induction fuel as [|fuel IH]; intros n ps; [exact I|].
  unfold marks_ok. rewrite parse_round.
  pose proof (fun lab toks1 sym1 => stmt_part_marks (parse fuel n) n ps lab toks1 sym1 (IH n)) as S.
  destruct (p_toks ps) as [|t r] eqn:Et; [apply S|].
  destruct (tk t) eqn:Ek; try (specialize (S false (t :: r) (p_sym ps)); exact S).
  destruct (sym_get (p_sym ps) (ttext t)); [exact I|].
  specialize (S true r (sym_put (p_sym ps) (ttext t) (p_line ps))). cbn [marks]. rewrite Ek. exact S.
Qed.

(** At the level of a whole source: the image's breakpoint table. *)
Theorem assemble_toks_marks sym0 toks n im sym :
  assemble_toks sym0 toks n = (Ok im, sym) ->
  i_bps im = record [] (marks 0 toks 0).
Proof.
  unfold assemble_toks. intros H.
  pose proof (parse_marks (S (length toks)) n (mkParser toks (mkAir None [] []) 1 0 sym0 0)) as K.
  unfold marks_ok in K. cbn [p_air a_bps p_toks p_count] in K.
  destruct (parse _ _ _) as [[[a s2]| |] sym1]; cbn [fst] in K; try discriminate.
  destruct (backpatch sym1 (a_ast a)); try discriminate.
  destruct (emit_all _); try discriminate.
  inversion H; subst. cbn [i_bps]. exact K.
Qed.

Theorem assemble_marks feat sym0 src toks im sym :
  preprocess feat (S (length src)) src 0 [] = Ok toks ->
  assemble feat sym0 src = (Ok im, sym) ->
  i_bps im = record [] (marks 0 toks 0).
Proof.
  intros Hp H. rewrite assemble_split, Hp in H. exact (assemble_toks_marks _ _ _ _ _ H).
Qed.

(* ------------------------------------------------------------------ *)
(** * What the table holds *)

Lemma bp_insert_addrs l b a :
  In a (map fst (bp_insert l b)) <-> fst b = a \/ In a (map fst l).
Proof.
  induction l as [|o l IH]; cbn [bp_insert map In]; [tauto|].
  destruct (fst o =? fst b) eqn:E1.
  - apply N.eqb_eq in E1. cbn [map In]. split; [tauto|]. intros [H|H]; [left; congruence|exact H].
  - destruct (fst b <=? fst o); cbn [map In]; [tauto|]. rewrite IH. tauto.
Qed.

Lemma record_addrs ms : forall bps a,
  In a (map fst (record bps ms)) <-> In a (map fst bps) \/ In a (map wrap ms).
Proof.
  induction ms as [|c ms IH]; intros bps a; cbn [record fold_left map In]; [tauto|].
  fold (record (bp_insert bps (wrap c, true)) ms). rewrite IH, bp_insert_addrs. cbn [fst]. tauto.
Qed.

(** An address offset carries a declared breakpoint iff a `.break` stands in front of the statement
    with that index (index = number of statements before it). *)
Corollary break_iff feat sym0 src toks im sym a :
  preprocess feat (S (length src)) src 0 [] = Ok toks ->
  assemble feat sym0 src = (Ok im, sym) ->
  (In a (map fst (i_bps im)) <-> In a (map wrap (marks 0 toks 0))).
Proof.
  intros Hp H. rewrite (assemble_marks _ _ _ _ _ _ Hp H), record_addrs. cbn [map In]. tauto.
Qed.

(** A `.break` occupies no memory: deleting every `.break` token leaves the statement count, and
    with it every later mark, where it was. *)
Fixpoint count_after (skip : nat) (toks : list token) (count : N) : N :=
  match toks with
  | [] => count
  | t :: r =>
      match skip with
      | S k => count_after k r count
      | O =>
          match tk t with
          | KLabel | KBreakpoint => count_after 0 r count
          | KInstr k => count_after (length (shape k)) r (count + 1)
          | KTrap k => count_after (length (trap_shape k)) r (count + 1)
          | KByte _ => count_after 0 r (count + 1)
          | KDir DOrig => count_after 1 r count
          | _ => count
          end
      end
  end.

Lemma marks_bounds : forall toks skip count c,
  In c (marks skip toks count) -> count <= c <= count_after skip toks count.
Proof.
  assert (mono : forall toks skip count, count <= count_after skip toks count).
  { induction toks as [|t r IH]; intros skip count; cbn [count_after]; [lia|].
    destruct skip; [|apply IH].
    destruct (tk t) as [|k|k|l|d|rg|v| | | | ]; try lia; try apply IH;
      try (etransitivity; [|apply IH]; lia).
    destruct d; try lia. apply IH. }
  induction toks as [|t r IH]; intros skip count c H; cbn [marks count_after] in *; [contradiction|].
  destruct skip; [|apply IH; exact H].
  destruct (tk t) as [|k|k|l|d|rg|v| | | | ]; try contradiction;
    try (apply IH in H; lia).
  - destruct d; try contradiction. apply IH in H. lia.
  - destruct H as [<-|H]; [split; [lia|apply mono]|apply IH in H; lia].
Qed.

(* ------------------------------------------------------------------ *)
(** * Non-vacuity *)

(** `.break` before the `.orig` line, and one with a label between two statements. *)
Definition ex_break_src : list N := str ".break
.orig x4000
add r0 r0 #1
lbl .break
halt
".

Lemma ex_break_marks :
  match preprocess false (S (length ex_break_src)) ex_break_src 0 [] with
  | Ok toks => marks 0 toks 0 = [0; 1] /\ count_after 0 toks 0 = 2
  | _ => False
  end.
Proof. vm_compute. split; reflexivity. Qed.

Lemma ex_break_image :
  match assemble false [] ex_break_src with
  | (Ok im, _) => i_bps im = [(0, true); (1, true)] /\ i_orig im = Some 16384
  | _ => False
  end.
Proof. vm_compute. split; reflexivity. Qed.
