(* DebugText.v — MODEL of `lace debug` as a whole: the script arrives as TEXT (the `--command`
   argument and/or piped standard input), is cut into lines and parsed by the command-language
   model (Cmd.v: readers + Command::read_from/try_from) and the resulting commands drive the
   debugger model (Dbg.v), which drives the VM model (Vm.v) on the image produced by the assembler
   model (Asm.v).

   Joining the two models takes one conversion ([conv_cmd]: the parser's values are integers, the
   debugger's are 16-bit patterns) and one decision: a rejected line becomes the pseudo-command
   [CBad] of Dbg.v (`CommandError` on stderr, nothing else, not counted as a command read).

   Domain.  Console input of the PROGRAM and the debugger's stdin are one stream in the real
   process.  This model gives the debugger the script ([arg], [stdin]) and the program its own
   input [inp]; it is faithful when the two do not interleave: [stdin] is empty, or the program
   consumes no console input while the debugger is attached (DbgStream.v drops this restriction:
   one stream, read by both in the order in which they ask).  A line whose first word is `sudo`
   leaves the process (KNOWN_FINDINGS F15); [script_of_events] stops there and [text_in_domain]
   says so. *)
From Coq Require Import List NArith ZArith Bool.
From Lace Require Import Word Machine Isa Vm Asm Dbg.
From Lace Require CmdSpec Cmd.
Import ListNotations.
Open Scope N_scope.

(** An integer that fits 16 bits, signed or unsigned, as its 16-bit pattern. *)
Definition pat16 (z : Z) : N := Z.to_N (z mod 65536).

Definition conv_mem (m : CmdSpec.memloc) : memloc :=
  match m with
  | CmdSpec.MPcOffset off => MPcOff (pat16 off)
  | CmdSpec.MAddress a => MAddr (pat16 a)
  | CmdSpec.MLabel name off => MLabel name (pat16 off)
  end.

Definition conv_loc (l : CmdSpec.location) : loc :=
  match l with
  | CmdSpec.LRegister r => LReg (pat16 r)
  | CmdSpec.LMemory m => LMem (conv_mem m)
  end.

Definition conv_cmd (c : CmdSpec.command) : cmd :=
  match c with
  | CmdSpec.CHelp => CHelp
  | CmdSpec.CStepOver => CStepOver
  | CmdSpec.CStepInto count => CStepInto (pat16 count)
  | CmdSpec.CStepOut => CStepOut
  | CmdSpec.CContinue => CContinue
  | CmdSpec.CRegisters => CRegisters
  | CmdSpec.CPrint l => CPrint (conv_loc l)
  | CmdSpec.CMove l v => CMove (conv_loc l) (pat16 v)
  | CmdSpec.CGoto m => CGoto (conv_mem m)
  | CmdSpec.CAssembly m => CAssembly (conv_mem m)
  | CmdSpec.CEval text => CEval text
  | CmdSpec.CEcho text => CEcho text
  | CmdSpec.CReset => CReset
  | CmdSpec.CQuit => CQuit
  | CmdSpec.CExit => CExit
  | CmdSpec.CBreakList => CBreakList
  | CmdSpec.CBreakAdd m => CBreakAdd (conv_mem m)
  | CmdSpec.CBreakRemove m => CBreakRemove (conv_mem m)
  end.

(** What the command reader hands to the debugger, in order. *)
Fixpoint script_of_events (evs : list Cmd.event) : list cmd :=
  match evs with
  | [] => []
  | Cmd.EvCommand c :: r => conv_cmd c :: script_of_events r
  | Cmd.EvError _ :: r => CBad :: script_of_events r
  | _ :: _ => []                       (* outside the domain, see [text_in_domain] *)
  end.

Definition event_in_domain (e : Cmd.event) : bool :=
  match e with Cmd.EvCommand _ | Cmd.EvError _ => true | _ => false end.

Definition text_in_domain (arg : option (list N)) (stdin : list N) : bool :=
  forallb event_in_domain (Cmd.session arg stdin).

Definition script_of_text (arg : option (list N)) (stdin : list N) : list cmd :=
  script_of_events (Cmd.session arg stdin).

(** `lace debug FILE --command ARG < STDIN` (minimal output), program input [inp]. *)
Definition debug_text (feat : bool) (src inp : list N) (arg : option (list N)) (stdin : list N) (fuel : nat)
  : option session_result :=
  debug_session feat src inp (script_of_text arg stdin) fuel.
