(* Cmd.v — MODEL of lace's debugger command language, transcribed function by function from
   src/debugger/command/parse/{integer,label,naive,name,mod}.rs, command/mod.rs
   (Command::read_from, try_from, parse_arguments) and command/reader/{argument,stdin,mod}.rs,
   as of the fixed tree (checked accumulation in parse_integer, `print` defaulting to the PC).

   Text is a list of Unicode scalar values; a byte index into a string is a sum of [len_utf8]; a
   slice whose ends are not character boundaries is a Rust panic, modelled as [Panic].  The model
   is the debug profile: every [debug_assert!], every overflow check of `+=`/`*=`/`+` on a
   primitive integer, every [assert!], [expect] and slice is an explicit [Panic] site (with a
   site number), so that "no line makes the parser panic" is a theorem about this file.  A site
   that the proofs show unreachable behaves the same in the release profile. *)
From Coq Require Import List NArith ZArith Bool String Ascii.
From Lace Require Import CmdSpec.
Import ListNotations.
Open Scope N_scope.

(* ------------------------------------------------------------------ *)
(** * Outcomes *)

Inductive naive := NInteger | NRegister | NLabel | NPCOffset.

(** error::Value *)
Inductive verr :=
| MismatchedType (actual : naive) | MalformedValue | MalformedInteger | MalformedLabel
| MalformedRegister | IntegerTooLarge (max : Z).

(** error::Argument *)
Inductive aerr :=
| MissingArgumentList | MissingArgument (expected actual : N)
| TooManyArguments (expected actual : N) | InvalidValue (e : verr).

(** error::Command; [parent]: 0 = step, 1 = break *)
Inductive cerr :=
| InvalidCommand (suggested : option cname) | MissingSubcommand
| InvalidSubcommand (parent : N) (suggested : option cname)
| InvalidArgument (c : cname) (e : aerr).

(** [ExitP]: `std::process::exit`.  [Panic why]: a Rust panic at site [why]. *)
Inductive res (E A : Type) := Ok (a : A) | Err (e : E) | Panic (why : N) | ExitP (code : N).
Arguments Ok {E A} a.
Arguments Err {E A} e.
Arguments Panic {E A} why.
Arguments ExitP {E A} code.

Definition bind {E A B} (r : res E A) (f : A -> res E B) : res E B :=
  match r with
  | Ok a => f a
  | Err e => Err e
  | Panic w => Panic w
  | ExitP c => ExitP c
  end.
Notation "'do' x <- r ; f" := (bind r (fun x => f)) (at level 200, x pattern, r at level 100, f at level 200).

Definition map_err {E F A} (g : E -> F) (r : res E A) : res F A :=
  match r with
  | Ok a => Ok a
  | Err e => Err (g e)
  | Panic w => Panic w
  | ExitP c => ExitP c
  end.

(* ------------------------------------------------------------------ *)
(** * Strings as Rust sees them: byte lengths and slices *)

Definition len_utf8 (c : N) : N :=
  if c <? 128 then 1 else if c <? 2048 then 2 else if c <? 65536 then 3 else 4.

Fixpoint bytes (l : list N) : N :=
  match l with [] => 0 | c :: r => len_utf8 c + bytes r end.

(** [s[n..]]; [None]: [n] is past the end or inside a character. *)
Fixpoint drop_bytes (s : list N) (n : N) : option (list N) :=
  match s with
  | [] => if n =? 0 then Some [] else None
  | c :: r => if n =? 0 then Some s
              else if len_utf8 c <=? n then drop_bytes r (n - len_utf8 c) else None
  end.

(** [s[..n]] *)
Fixpoint take_bytes (s : list N) (n : N) : option (list N) :=
  match s with
  | [] => if n =? 0 then Some [] else None
  | c :: r => if n =? 0 then Some []
              else if len_utf8 c <=? n
                   then match take_bytes r (n - len_utf8 c) with
                        | Some t => Some (c :: t)
                        | None => None
                        end
                   else None
  end.

(** [s[a..b]] *)
Definition slice (s : list N) (a b : N) : option (list N) :=
  if a <=? b then
    match drop_bytes s a with
    | Some t => take_bytes t (b - a)
    | None => None
    end
  else None.

(* ------------------------------------------------------------------ *)
(** * integer.rs *)

Inductive radix := Binary | Octal | Decimal | Hex.

Definition radix_val (r : radix) : Z :=
  match r with Binary => 2 | Octal => 8 | Decimal => 10 | Hex => 16 end%Z.

Definition radix_eqb (a b : radix) : bool :=
  match a, b with
  | Binary, Binary | Octal, Octal | Decimal, Decimal | Hex, Hex => true
  | _, _ => false
  end.

(** Radix::parse_digit *)
Definition parse_digit (r : radix) (c : N) : option Z :=
  match r with
  | Binary => if c =? 48 then Some 0%Z else if c =? 49 then Some 1%Z else None
  | Octal => if between 48 c 55 then Some (Z.of_N c - 48)%Z else None
  | Decimal => if between 48 c 57 then Some (Z.of_N c - 48)%Z else None
  | Hex => if between 48 c 57 then Some (Z.of_N c - 48)%Z
           else if between 97 c 102 then Some (Z.of_N c - 97 + 10)%Z
           else if between 65 c 70 then Some (Z.of_N c - 65 + 10)%Z
           else None
  end.

Definition i32_min : Z := (-2147483648)%Z.
Definition in_i32 (z : Z) : bool := ((i32_min <=? z) && (z <=? i32_max))%Z.

(** i32::checked_mul / checked_add *)
Definition checked_mul (a b : Z) : option Z := if in_i32 (a * b) then Some (a * b)%Z else None.
Definition checked_add (a b : Z) : option Z := if in_i32 (a + b) then Some (a + b)%Z else None.

Inductive sign := Positive | Negative.
Definition sign_val (s : sign) : Z := match s with Positive => 1 | Negative => (-1) end%Z.

(** take_sign: the sign and the remaining characters *)
Definition take_sign (chars : list N) : option sign * list N :=
  match chars with
  | c :: r => if c =? 43 then (Some Positive, r)
              else if c =? 45 then (Some Negative, r)
              else (None, chars)
  | [] => (None, chars)
  end.

Inductive prefix_result :=
| PInteger (r : radix) (leading_zeros : bool)
| PSingleZero
| PNonInteger.

(** take_prefix *)
Definition take_prefix (chars : list N) : res verr (prefix_result * list N) :=
  let '(leading_zeros, chars) :=
    match chars with
    | c :: r => if c =? 48 then (true, r) else (false, chars)      (* next_if_eq(&'0') *)
    | [] => (false, chars)
    end in
  match chars with
  | c :: rest =>
      if (c =? 98) || (c =? 66) then Ok (PInteger Binary leading_zeros, rest)
      else if (c =? 111) || (c =? 79) then Ok (PInteger Octal leading_zeros, rest)
      else if (c =? 120) || (c =? 88) then Ok (PInteger Hex leading_zeros, rest)
      else if c =? 35 then
        if leading_zeros then Err MalformedInteger else Ok (PInteger Decimal leading_zeros, rest)
      else if between 48 c 57 then Ok (PInteger Decimal leading_zeros, chars)
      else if (c =? 45) || (c =? 43) then Err MalformedInteger
      else if leading_zeros then Err MalformedInteger else Ok (PNonInteger, chars)
  | [] => if leading_zeros then Ok (PSingleZero, chars) else Ok (PNonInteger, chars)
  end.

(** The digit loop of parse_integer: [LDone acc rest] when the iterator is exhausted, [LEarly r]
    for an early return. *)
Inductive loop_result :=
| LDone (acc : Z) (rest : list N)
| LEarly (r : res verr (option Z)).

Fixpoint digit_loop (r : radix) (end_of_integer_result : res verr (option Z))
         (chars : list N) (integer : Z) : loop_result :=
  match chars with
  | [] => LDone integer []
  | ch :: rest =>
      match parse_digit r ch with
      | None => LEarly end_of_integer_result
      | Some digit =>
          match checked_mul integer (radix_val r) with
          | None => LEarly (Err (IntegerTooLarge 32767))
          | Some m =>
              match checked_add m digit with
              | None => LEarly (Err (IntegerTooLarge 32767))
              | Some a => digit_loop r end_of_integer_result rest a
              end
          end
      end
  end.

(** parse_integer *)
Definition parse_integer (string : list N) (require_sign : bool) : res verr (option Z) :=
  match string with
  | [] => Ok None
  | _ =>
      let '(first_sign, chars) := take_sign string in
      if require_sign && (match first_sign with None => true | Some _ => false end)
      then Err MalformedInteger
      else
        do pc <- take_prefix chars;
        let '(p, chars) := pc in
        match p with
        | PSingleZero => Ok (Some 0%Z)
        | PNonInteger =>
            match first_sign with Some _ => Err MalformedInteger | None => Ok None end
        | PInteger rdx leading_zeros =>
            let '(second_sign, chars) := take_sign chars in
            match first_sign, second_sign with
            | Some _, Some _ => Err MalformedInteger
            | _, _ =>
                let sgn := match first_sign with Some s => Some s | None => second_sign end in
                let end_of_integer_result : res verr (option Z) :=
                  if (match sgn with Some _ => true | None => false end)
                     || leading_zeros || radix_eqb rdx Decimal
                  then Err MalformedInteger else Ok None in
                match chars with
                | [] => end_of_integer_result
                | _ =>
                    match digit_loop rdx end_of_integer_result chars 0 with
                    | LEarly r => r
                    | LDone integer rest =>
                        match rest with
                        | _ :: _ => Panic 1        (* assert!(chars.next().is_none()) *)
                        | [] =>
                            match sgn with
                            | None => Ok (Some integer)
                            | Some s =>
                                let v := (integer * sign_val s)%Z in   (* integer *= sign *)
                                if in_i32 v then Ok (Some v) else Panic 2
                            end
                        end
                    end
                end
            end
        end
  end.

(** Integer::as_i16, as_u16, as_u16_cast (the last as the 16-bit pattern, 0..65535) *)
Definition as_i16 (v : Z) : res verr Z :=
  if ((-32768 <=? v) && (v <=? 32767))%Z then Ok v else Err (IntegerTooLarge 32767).
Definition as_u16 (v : Z) : res verr Z :=
  if ((0 <=? v) && (v <=? 65535))%Z then Ok v else Err (IntegerTooLarge 65535).
Definition as_u16_cast (v : Z) : res verr Z :=
  if (v <? 0)%Z then do x <- as_i16 v; Ok (x mod 65536)%Z else as_u16 v.

(* ------------------------------------------------------------------ *)
(** * label.rs *)

Definition can_start_with (c : N) : bool := between 97 c 122 || between 65 c 90 || (c =? 95).
Definition can_contain (c : N) : bool :=
  between 97 c 122 || between 65 c 90 || between 48 c 57 || (c =? 95).

(** The `while chars.peek()...is_some_and(can_contain)` loop of Label::try_parse over a
    ByteCounted iterator: the byte count after the loop. *)
Fixpoint label_scan (chars : list N) (len : N) : N :=
  match chars with
  | c :: r => if can_contain c then label_scan r (len + len_utf8 c) else len
  | [] => len
  end.

(** str::split_at *)
Definition split_at (s : list N) (n : N) : option (list N * list N) :=
  match take_bytes s n, drop_bytes s n with
  | Some a, Some b => Some (a, b)
  | _, _ => None
  end.

(** <Label as TryParse>::try_parse: name and offset *)
Definition label_try_parse (string : list N) : res verr (option (list N * Z)) :=
  match string with
  | [] => Ok None
  | c :: rest =>
      if negb (can_start_with c) then Ok None
      else
        let length := label_scan rest (len_utf8 c) in
        match split_at string length with
        | None => Panic 3
        | Some (name, offset_str) =>
            match offset_str with
            | [] => Ok (Some (name, 0%Z))
            | _ =>
                do o <- parse_integer offset_str true;
                match o with
                | Some offset => do off <- as_i16 offset; Ok (Some (name, off))
                | None => Err MalformedLabel
                end
            end
        end
  end.

(* ------------------------------------------------------------------ *)
(** * parse/mod.rs: TryParse for Register, PCOffset, MemoryLocation, Location *)

Definition register_try_parse (string : list N) : res verr (option Z) :=
  match string with
  | c :: rest =>
      if (c =? 114) || (c =? 82) then
        match rest with
        | [] => Ok None
        | digit :: rest2 =>
            if between 48 digit 55 then
              match rest2 with
              | ch :: _ => if can_contain ch then Ok None else Err MalformedRegister
              | [] => Ok (Some (Z.of_N digit - 48)%Z)
              end
            else Ok None
        end
      else Ok None
  | [] => Ok None
  end.

Definition pcoffset_try_parse (string : list N) : res verr (option Z) :=
  match string with
  | c :: _ =>
      if negb (c =? 94) then Ok None
      else
        match drop_bytes string 1 with            (* &string['^'.len_utf8()..] *)
        | None => Panic 4
        | Some [] => Ok (Some 0%Z)
        | Some offset_str =>
            do o <- parse_integer offset_str false;
            match o with
            | Some offset => do off <- as_i16 offset; Ok (Some off)
            | None => Err MalformedInteger
            end
        end
  | [] => Ok None
  end.

Definition memory_location_try_parse (argument : list N) : res verr (option memloc) :=
  do po <- pcoffset_try_parse argument;
  match po with
  | Some offset => Ok (Some (MPcOffset offset))
  | None =>
      do io <- parse_integer argument false;
      match io with
      | Some address => do a <- as_u16 address; Ok (Some (MAddress a))
      | None =>
          do lo <- label_try_parse argument;
          match lo with
          | Some (name, off) => Ok (Some (MLabel name off))
          | None => Ok None
          end
      end
  end.

Definition location_try_parse (string : list N) : res verr (option location) :=
  do ro <- register_try_parse string;
  match ro with
  | Some r => Ok (Some (LRegister r))
  | None =>
      do mo <- memory_location_try_parse string;
      Ok (match mo with Some m => Some (LMemory m) | None => None end)
  end.

(* ------------------------------------------------------------------ *)
(** * naive.rs *)

Fixpoint all_digits (r : radix) (chars : list N) : bool :=
  match chars with
  | [] => true
  | ch :: rest => match parse_digit r ch with None => false | Some _ => all_digits r rest end
  end.

Definition is_str_integer (string : list N) : bool :=
  match string with
  | [] => false
  | c :: rest =>
      if (c =? 45) || (c =? 43) || (c =? 35) || between 48 c 57 then true
      else
        let radix := if (c =? 98) || (c =? 66) then Some Binary
                     else if (c =? 111) || (c =? 79) then Some Octal
                     else if (c =? 120) || (c =? 88) then Some Hex
                     else None in
        match radix with
        | None => false
        | Some r =>
            let chars := match rest with
                         | s :: rest2 => if (s =? 45) || (s =? 43) then rest2 else rest
                         | [] => rest
                         end in
            match chars with
            | [] => false
            | _ => all_digits r chars
            end
        end
  end.

Definition is_str_register (string : list N) : bool :=
  match string with
  | c :: d :: rest =>
      ((c =? 114) || (c =? 82)) && between 48 d 55
      && negb (match rest with ch :: _ => can_contain ch | [] => false end)
  | _ => false
  end.

Definition is_str_label (string : list N) : bool :=
  match string with c :: _ => can_start_with c | [] => false end.

Definition is_str_pc_offset (string : list N) : bool :=
  match string with c :: _ => c =? 94 | [] => false end.

Definition naive_try_from (string : list N) : option naive :=
  if is_str_pc_offset string then Some NPCOffset
  else if is_str_register string then Some NRegister
  else if is_str_integer string then Some NInteger
  else if is_str_label string then Some NLabel
  else None.

Definition naive_eqb (a b : naive) : bool :=
  match a, b with
  | NInteger, NInteger | NRegister, NRegister | NLabel, NLabel | NPCOffset, NPCOffset => true
  | _, _ => false
  end.

(* ------------------------------------------------------------------ *)
(** * parse/mod.rs: Arguments *)

Record arguments := mkArgs { buffer : list N; cursor : N; arg_count : N }.

Definition arguments_from (b : list N) : arguments := mkArgs b 0 0.

(** The `for ch in self.buffer[self.cursor..].chars()` loop of next_token_str: the final
    (start, length), or [None] when the debug_assert on `;`/newline fails. *)
Fixpoint token_loop (chars : list N) (start length : N) (is_start : bool) : option (N * N) :=
  match chars with
  | [] => Some (start, length)
  | ch :: rest =>
      if (ch =? 59) || (ch =? 10) then None
      else if is_start && (ch =? 32) then token_loop rest (start + len_utf8 ch) length true
      else if (ch =? 32) || (ch =? 59) || (ch =? 10) then Some (start, length)
      else token_loop rest start (length + len_utf8 ch) false
  end.

Definition next_token_str {E} (a : arguments) : res E (option (list N) * arguments) :=
  match drop_bytes (buffer a) (cursor a) with
  | None => Panic 5
  | Some chars =>
      match token_loop chars (cursor a) 0 true with
      | None => Panic 6
      | Some (start, length) =>
          let end_ := start + length in
          if start =? end_ then Ok (None, a)
          else
            match slice (buffer a) start end_ with
            | None => Panic 7
            | Some argument => Ok (Some argument, mkArgs (buffer a) end_ (arg_count a))
            end
      end
  end.

Definition next_argument_str {E} (a : arguments) : res E (option (list N) * arguments) :=
  do ta <- next_token_str a;
  let '(t, a') := ta in
  match t with
  | None => Ok (None, a')
  | Some argument =>
      if arg_count a' + 1 <=? 255                      (* self.arg_count += 1 on a u8 *)
      then Ok (Some argument, mkArgs (buffer a') (cursor a') (arg_count a' + 1))
      else Panic 8
  end.

(** get_rest: `self.buffer[start..].trim()` *)
Definition get_rest {E} (a : arguments) : res E (list N * arguments) :=
  match drop_bytes (buffer a) (cursor a) with
  | None => Panic 9
  | Some rest => Ok (trim rest, mkArgs (buffer a) (bytes (buffer a)) (arg_count a))
  end.

Definition expect_end (a : arguments) (expected_count actual_count : N)
  : res aerr (unit * arguments) :=
  do ta <- next_argument_str a;
  let '(t, a') := ta in
  match t with
  | None => Ok (tt, a')
  | Some _ => Err (TooManyArguments expected_count actual_count)
  end.

Definition check_naive_type (accepted : list naive) (argument : list N) : res aerr unit :=
  match naive_try_from argument with
  | None => Ok tt
  | Some actual =>
      if existsb (naive_eqb actual) accepted then Ok tt
      else Err (InvalidValue (MismatchedType actual))
  end.

(** next_integer_or; the default is [None] for "no default" (MissingArgument is built by the
    callers from the count before the call, as in the code). *)
Definition next_integer_or (a : arguments) (default : res aerr Z) : res aerr (Z * arguments) :=
  do ta <- next_argument_str a;
  let '(t, a') := ta in
  match t with
  | None => do d <- default; Ok (d, a')
  | Some argument =>
      do _ <- check_naive_type [NInteger] argument;
      do io <- map_err InvalidValue (parse_integer argument false);
      match io with
      | Some integer => do v <- map_err InvalidValue (as_u16_cast integer); Ok (v, a')
      | None => Err (InvalidValue MalformedValue)
      end
  end.

Definition next_integer (a : arguments) (expected_count : N) : res aerr (Z * arguments) :=
  next_integer_or a (Err (MissingArgument expected_count (arg_count a))).

Definition next_positive_integer_or_default (a : arguments) : res aerr (Z * arguments) :=
  do va <- next_integer_or a (Ok 1%Z);
  let '(v, a') := va in Ok (Z.max v 1, a').

Definition next_memory_location_or (a : arguments) (default : res aerr memloc)
  : res aerr (memloc * arguments) :=
  do ta <- next_argument_str a;
  let '(t, a') := ta in
  match t with
  | None => do d <- default; Ok (d, a')
  | Some argument =>
      do _ <- check_naive_type [NInteger; NLabel; NPCOffset] argument;
      do mo <- map_err InvalidValue (memory_location_try_parse argument);
      match mo with
      | Some m => Ok (m, a')
      | None => Err (InvalidValue MalformedValue)
      end
  end.

Definition next_memory_location (a : arguments) (expected_count : N) :=
  next_memory_location_or a (Err (MissingArgument expected_count (arg_count a))).

Definition next_memory_location_or_default (a : arguments) :=
  next_memory_location_or a (Ok (MPcOffset 0)).

Definition next_location_or (a : arguments) (default : res aerr location)
  : res aerr (location * arguments) :=
  do ta <- next_argument_str a;
  let '(t, a') := ta in
  match t with
  | None => do d <- default; Ok (d, a')
  | Some argument =>
      do lo <- map_err InvalidValue (location_try_parse argument);
      match lo with
      | Some l => Ok (l, a')
      | None => Err (InvalidValue MalformedValue)
      end
  end.

Definition next_location (a : arguments) (expected_count : N) :=
  next_location_or a (Err (MissingArgument expected_count (arg_count a))).

Definition next_location_or_default (a : arguments) :=
  next_location_or a (Ok (LMemory (MPcOffset 0))).

(* ------------------------------------------------------------------ *)
(** * name.rs *)

Record entry := mkEntry { e_name : cname; candidates : list string; misspellings : list string }.

Definition COMMANDS : list entry :=
  [ mkEntry Help ["h"; "help"; "--help"; "-h"; ":h"; "man"; "info"; "wtf"] [];
    mkEntry Continue ["c"; "continue"; "cont"] ["con"; "proceed"];
    mkEntry Print ["p"; "print"] ["get"; "show"; "display"; "put"; "puts"; "out"];
    mkEntry Move ["m"; "move"] ["set"; "mov"; "mv"; "assign"];
    mkEntry Registers ["r"; "registers"; "reg"] ["dump"; "register"; "regs"];
    mkEntry Goto ["g"; "goto"]
      ["jump"; "call"; "go"; "go-to"; "jsr"; "jsrr"; "br"; "brn"; "brz"; "brp"; "brnz"; "brnp";
       "brzp"; "brnzp"];
    mkEntry Assembly ["a"; "assembly"; "asm"] ["source"; "src"; "ass"; "inspect"];
    mkEntry Eval ["e"; "eval"; "evil"; "evaluate"]
      ["run"; "exec"; "execute"; "sim"; "simulate"; "instruction"; "instr"];
    mkEntry Reset ["z"; "reset"] ["restart"; "refresh"; "reboot"];
    mkEntry Echo ["echo"] [];
    mkEntry Quit ["q"; "quit"] [];
    mkEntry Exit ["x"; "exit"; ":q"; ":wq"; "^C"] ["halt"; "end"; "stop"];
    mkEntry StepOver [] ["next"; "step-over"; "stepover"];
    mkEntry StepInto ["si"; "stepinto"]
      ["into"; "in"; "stepin"; "step-into"; "step-in"; "stepi"; "step-i"; "sin"];
    mkEntry StepOut ["so"; "stepout"]
      ["finish"; "fin"; "out"; "step-out"; "stepo"; "step-o"; "sout"];
    mkEntry BreakList ["bl"; "breaklist"]
      ["break-list"; "break-ls"; "blist"; "bls"; "bp"; "breakpoint"; "breakpointlist";
       "breakpoint-list"];
    mkEntry BreakAdd ["ba"; "breakadd"] ["break-add"; "badd"; "breakpointadd"; "breakpoint-add"];
    mkEntry BreakRemove ["br"; "breakremove"]
      ["break-remove"; "break-rm"; "bremove"; "brm"; "breakpointremove"; "breakpoint-remove"]
  ]%string.

Definition COMMAND_STEP : list string := ["step"; "s"]%string.
Definition SUBCOMMANDS_STEP : list entry :=
  [ mkEntry StepOver [] ["next"];
    mkEntry StepInto ["i"; "into"] ["in"];
    mkEntry StepOut ["o"; "out"] ["finish"; "fin"] ]%string.
Definition COMMAND_BREAK : list string := ["b"; "break"]%string.
Definition SUBCOMMANDS_BREAK : list entry :=
  [ mkEntry BreakList ["l"; "list"] ["print"; "show"; "display"; "dump"; "ls"];
    mkEntry BreakAdd ["a"; "add"] ["set"; "move"];
    mkEntry BreakRemove ["r"; "remove"] ["delete"; "rm"] ]%string.

(** str::eq_ignore_ascii_case *)
Definition eq_ignore_ascii_case (a b : list N) : bool := ieq a b.

Fixpoint name_matches (provided : list N) (cands : list string) : bool :=
  match cands with
  | [] => false
  | c :: r => if eq_ignore_ascii_case provided (str c) then true else name_matches provided r
  end.

Fixpoint find_candidate (provided : list N) (entries : list entry) : option cname :=
  match entries with
  | [] => None
  | e :: r => if name_matches provided (candidates e) then Some (e_name e)
              else find_candidate provided r
  end.

Fixpoint find_misspelling (provided : list N) (entries : list entry) : option cname :=
  match entries with
  | [] => None
  | e :: r => if name_matches provided (misspellings e) then Some (e_name e)
              else find_misspelling provided r
  end.

(** find_name_match: [inl name] = Ok, [inr suggested] = Err *)
Definition find_name_match (provided : list N) (entries : list entry) : cname + option cname :=
  match find_candidate provided entries with
  | Some c => inl c
  | None => inr (find_misspelling provided entries)
  end.

Definition name_matches_with_subcommand (a : arguments) (command_name : list N)
           (commands : list string) (parent : N) (subcommands : list entry)
           (default : option cname) : res cerr (option cname * arguments) :=
  if negb (name_matches command_name commands) then Ok (None, a)
  else
    do ta <- next_token_str a;
    let '(t, a') := ta in
    match t with
    | None => match default with
              | Some c => Ok (Some c, a')
              | None => Err MissingSubcommand
              end
    | Some subcommand_name =>
        match find_name_match subcommand_name subcommands with
        | inl c => Ok (Some c, a')
        | inr suggested => Err (InvalidSubcommand parent suggested)
        end
    end.

Definition get_command_name (a : arguments) : res cerr (cname * arguments) :=
  if negb (cursor a =? 0) then Panic 10
  else
    do ta <- next_token_str a;
    let '(t, a1) := ta in
    match t with
    | None => Panic 11                               (* .expect("missing command name") *)
    | Some command_name =>
        do sa <- name_matches_with_subcommand a1 command_name COMMAND_STEP 0 SUBCOMMANDS_STEP
                                              (Some StepOver);
        let '(s, a2) := sa in
        match s with
        | Some c => Ok (c, a2)
        | None =>
            do ba <- name_matches_with_subcommand a2 command_name COMMAND_BREAK 1
                                                  SUBCOMMANDS_BREAK None;
            let '(b, a3) := ba in
            match b with
            | Some c => Ok (c, a3)
            | None =>
                match find_name_match command_name COMMANDS with
                | inl c => Ok (c, a3)
                | inr suggested =>
                    if leqb command_name (str "sudo") then ExitP 0
                    else Err (InvalidCommand suggested)
                end
            end
        end
    end.

(* ------------------------------------------------------------------ *)
(** * command/mod.rs *)

(** The tail shared by most arms: `iter.expect_end(expected_args, iter.arg_count() + 1)?` *)
Definition finish (a : arguments) (expected_args : N) (c : command) : res aerr command :=
  if arg_count a + 1 <=? 255 then                      (* iter.arg_count() + 1 on a u8 *)
    do _ <- expect_end a expected_args (arg_count a + 1); Ok c
  else Panic 12.

Definition parse_arguments (name : cname) (a : arguments) : res aerr command :=
  match name with
  | Help => Ok CHelp
  | StepOver => finish a 0 CStepOver
  | Continue => finish a 0 CContinue
  | StepOut => finish a 0 CStepOut
  | Registers => finish a 0 CRegisters
  | Reset => finish a 0 CReset
  | Quit => finish a 0 CQuit
  | Exit => finish a 0 CExit
  | StepInto =>
      do ca <- next_positive_integer_or_default a;
      let '(count, a') := ca in finish a' 1 (CStepInto count)
  | Print =>
      do la <- next_location_or_default a;
      let '(l, a') := la in finish a' 1 (CPrint l)
  | Move =>
      do la <- next_location a 2;
      let '(l, a1) := la in
      do va <- next_integer a1 2;
      let '(v, a2) := va in finish a2 2 (CMove l v)
  | Goto =>
      do la <- next_memory_location a 1;
      let '(l, a') := la in finish a' 1 (CGoto l)
  | Assembly =>
      do la <- next_memory_location_or_default a;
      let '(l, a') := la in finish a' 1 (CAssembly l)
  | BreakList => finish a 0 CBreakList
  | BreakAdd =>
      do la <- next_memory_location a 1;
      let '(l, a') := la in finish a' 1 (CBreakAdd l)
  | BreakRemove =>
      do la <- next_memory_location a 1;
      let '(l, a') := la in finish a' 1 (CBreakRemove l)
  | Eval =>
      do ra <- get_rest a;
      let '(instruction, a') := ra in
      match instruction with
      | [] => Err MissingArgumentList
      | _ => match expect_end a' 0 0 with            (* debug_assert!(..is_ok()) *)
             | Ok _ => Ok (CEval instruction)
             | Panic w => Panic w
             | _ => Panic 13
             end
      end
  | Echo =>
      do ra <- get_rest a;
      let '(string, a') := ra in
      match string with
      | [] => Err MissingArgumentList
      | _ => match expect_end a' 0 0 with
             | Ok _ => Ok (CEcho string)
             | Panic w => Panic w
             | _ => Panic 13
             end
      end
  end.

(** Command::try_from (assumes a trimmed, non-empty line) *)
Definition try_from (line : list N) : res cerr command :=
  do na <- get_command_name (arguments_from line);
  let '(name, a) := na in
  map_err (InvalidArgument name) (parse_arguments name a).

(** What Command::read_from does with one line handed over by the reader: [None] = skipped. *)
Definition parse_line (raw : list N) : option (res cerr command) :=
  match trim raw with
  | [] => None
  | line => Some (try_from line)
  end.

(* ------------------------------------------------------------------ *)
(** * reader/argument.rs, reader/stdin.rs, reader/mod.rs *)

Record argument := mkArgument { a_buffer : list N; a_cursor : N }.

(** The `while let Some(ch) = chars.next().filter(..)` loop: the cursor after it. *)
Fixpoint argument_scan (chars : list N) (cur : N) : N :=
  match chars with
  | [] => cur
  | ch :: rest => if (ch =? 10) || (ch =? 59) then cur else argument_scan rest (cur + len_utf8 ch)
  end.

(** Argument::read *)
Definition argument_read (a : argument) : res unit (option (list N) * argument) :=
  if bytes (a_buffer a) <=? a_cursor a then Ok (None, a)
  else
    match drop_bytes (a_buffer a) (a_cursor a) with
    | None => Panic 14
    | Some chars =>
        let start := a_cursor a in
        let end_ := argument_scan chars start in
        match slice (a_buffer a) start end_ with
        | None => Panic 15                           (* .expect("calculated incorrect ...") *)
        | Some command => Ok (Some command, mkArgument (a_buffer a) (end_ + 1))
        end
    end.

(** Stdin::read on the characters still to come: the line (if any) and the remaining input.
    [buffer] is the line so far, in reverse. *)
Fixpoint stdin_loop (input : list N) (buffer : list N) : option (list N) * list N :=
  match input with
  | [] => match buffer with [] => (None, []) | _ => (Some (rev buffer), []) end
  | ch :: rest => if (ch =? 10) || (ch =? 59) then (Some (rev buffer), rest)
                  else stdin_loop rest (ch :: buffer)
  end.
Definition stdin_read (input : list N) : option (list N) * list N := stdin_loop input [].

(** CommandReader: the `--command` argument (if given) and the piped standard input. *)
Record reader := mkReader { r_argument : option argument; r_stdin : list N }.

Definition reader_from (arg : option (list N)) (stdin : list N) : reader :=
  mkReader (match arg with Some s => Some (mkArgument s 0) | None => None end) stdin.

(** <CommandReader as Read>::read: the argument first, then the stream *)
Definition reader_read (r : reader) : res unit (option (list N) * reader) :=
  let from_stream (r : reader) :=
    let '(l, rest) := stdin_read (r_stdin r) in Ok (l, mkReader (r_argument r) rest) in
  match r_argument r with
  | Some a =>
      do la <- argument_read a;
      let '(l, a') := la in
      match l with
      | Some command => Ok (Some command, mkReader (Some a') (r_stdin r))
      | None => from_stream (mkReader (Some a') (r_stdin r))
      end
  | None => from_stream r
  end.

(** What a debugger session gets out of its command source, in order: every command, every
    rejected line (Command::read_from reports the error and reads on), until the end of the input,
    an exit or a panic. *)
Inductive event :=
| EvCommand (c : command) | EvError (e : cerr) | EvExit (code : N) | EvPanic (why : N)
| EvOutOfFuel.

Definition reader_size (r : reader) : nat :=
  (match r_argument r with Some a => List.length (a_buffer a) | None => O end) + List.length (r_stdin r).

Fixpoint session_loop (fuel : nat) (r : reader) : list event :=
  match fuel with
  | O => [EvOutOfFuel]
  | S fuel' =>
      match reader_read r with
      | Panic w => [EvPanic w]
      | ExitP c => [EvExit c]
      | Err _ => [EvPanic 16]
      | Ok (None, _) => []
      | Ok (Some raw, r') =>
          match parse_line raw with
          | None => session_loop fuel' r'
          | Some (Ok c) => EvCommand c :: session_loop fuel' r'
          | Some (Err e) => EvError e :: session_loop fuel' r'
          | Some (ExitP c) => [EvExit c]
          | Some (Panic w) => [EvPanic w]
          end
      end
  end.

(** Every read consumes at least one character or ends the input, so [size + 2] reads suffice
    (theorem [session_fuel_enough] in CmdProofs.v: the result never contains [EvOutOfFuel]). *)
Definition session (arg : option (list N)) (stdin : list N) : list event :=
  let r := reader_from arg stdin in session_loop (reader_size r + 2) r.
