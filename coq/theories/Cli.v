(* Cli.v — MODEL of the arms of /repo/src/main.rs that the properties C06-C08 talk about:
   object-file bytes, the loader for .lc3/.obj files, the verdicts of check / compile / run,
   and `compile` over an abstract file system with a write oracle. *)
From Lace Require Import Word Machine Isa Vm Asm.
Open Scope N_scope.

(* ------------------------------------------------------------------ *)
(** * Object files *)

Definition be16 (w : N) : list N := [w / 256; w mod 256].

Definition DEFAULT_ORIG : N := 12288.   (* x3000 *)

Definition image_orig (im : image) : N :=
  match i_orig im with Some o => o | None => DEFAULT_ORIG end.

(** What `lace compile` writes: origin, then the statement words, each big-endian. *)
Definition compile_bytes (im : image) : list N :=
  be16 (image_orig im) ++ flat_map be16 (i_words im).

(** The loader's `chunks_exact(2)` + `from_be_bytes`; [None]: odd length. *)
Fixpoint words_of_bytes (bs : list N) : option (list N) :=
  match bs with
  | [] => Some []
  | [_] => None
  | hi :: lo :: r => match words_of_bytes r with
                     | Some ws => Some (hi * 256 + lo :: ws)
                     | None => None
                     end
  end.

(** `run` on a .lc3/.obj file: "File is not aligned to 16 bits" (exit 1), else [from_raw]. *)
Definition load_file (bytes inp : list N) : load_result :=
  match words_of_bytes bytes with
  | None => LoadExit 1
  | Some raw => from_raw raw inp
  end.

(** `RunEnvironment::try_from(air)`: origin (default x3000) followed by the emitted words. *)
Definition raw_of_image (im : image) : list N := image_orig im :: i_words im.

(* ------------------------------------------------------------------ *)
(** * Verdicts of the three subcommands (exit statuses) *)

(** [assemble()] of main.rs — parse, backpatch and emission check — is shared by all of them. *)
Definition assembles (feat : bool) (src : list N) : res image := fst (assemble feat [] src).

Definition exit_of {A} (r : res A) : N :=
  match r with Ok _ => 0 | Err _ _ _ => 1 | Bad _ => 101 end.

Definition check_exit (feat : bool) (src : list N) : N := exit_of (assembles feat src).

(** Exit status of `compile` when the destination is writable. *)
Definition compile_exit (feat : bool) (src : list N) : N := exit_of (assembles feat src).

(** `run` on an .asm file: the assembly verdict, then the machine's own stop. *)
Inductive run_outcome :=
| RunAsmError (code : N)
| RunLoaded (r : vm_result * list (N * N))
| RunLoadExit (code : N).

Definition run_cmd (feat : bool) (src inp : list N) (fuel : nat) : run_outcome :=
  match assembles feat src with
  | Ok im => match from_raw (raw_of_image im) inp with
             | Loaded st => RunLoaded (vm_run feat fuel st [])
             | LoadExit c => RunLoadExit c
             end
  | Err _ _ _ => RunAsmError 1
  | Bad _ => RunAsmError 101
  end.

Definition run_assembles (feat : bool) (src : list N) : bool :=
  match run_cmd feat src [] 0 with RunAsmError _ => false | _ => true end.

(* ------------------------------------------------------------------ *)
(** * `compile` over an abstract file system *)

Definition path := N.
Definition fs := path -> option (list N).

(** What the operating system does with [write_object_file] (since the repairs F39 / F41: an absent or regular destination -
    or the regular file a symbolic link names - is written to a temporary file next to it, under a short name of its own,
    which is then renamed over it; a device, pipe, dangling link or directory - and a destination whose directory takes no
    new file - is created/truncated and written directly); chosen by an oracle. *)
Inductive write_outcome :=
| WOk                          (* everything written (temporary file renamed into place, or direct write complete) *)
| WCreateFail                  (* neither a temporary file nor the destination can be created: nothing changes *)
| WWriteFailSpecial            (* opened, but the device takes no data (e.g. /dev/full): nothing changes *)
| WTempFail                    (* the temporary file could not be completed or renamed: it is removed, nothing changes *)
| WWriteFailTruncated (k : nat). (* DIRECT write of a destination that keeps its data, truncated by create, only k bytes
                                    written: needs two faults at once - the directory refuses a new file AND the write
                                    to the existing file fails half-way *)

Definition upd (f : fs) (p : path) (v : option (list N)) : fs :=
  fun q => if q =? p then v else f q.

Definition write_file (f : fs) (dest : path) (bytes : list N) (o : write_outcome) : bool * fs :=
  match o with
  | WOk => (true, upd f dest (Some bytes))
  | WCreateFail => (false, f)
  | WWriteFailSpecial => (false, f)
  | WTempFail => (false, f)
  | WWriteFailTruncated k => (false, upd f dest (Some (firstn k bytes)))
  end.

(** The `Compile` arm: assemble and emit everything first, then create and write. *)
Definition compile_cmd (feat : bool) (src : list N) (dest : path) (f : fs) (o : write_outcome) : N * fs :=
  match assembles feat src with
  | Ok im => let '(ok, f') := write_file f dest (compile_bytes im) o in
             (if ok then 0 else 1, f')
  | Err _ _ _ => (1, f)
  | Bad _ => (101, f)
  end.
