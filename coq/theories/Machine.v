(* Machine.v — the machine state shared by SPEC (Isa.v) and MODEL (Vm.v):
   eight registers, PC, condition code, 65,536 memory words, origin, and the
   console (input byte queue, output character list).  Stdlib only. *)
From Coq Require Import FMapPositive.
From Lace Require Export Word.

(* ------------------------------------------------------------------ *)
(** * Memory: a total base function overlaid by a finite map of written cells. *)

Record mem := mkMem { mbase : N -> N; mov : PositiveMap.t N }.

Definition mget (m : mem) (a : N) : N :=
  match PositiveMap.find (N.succ_pos a) (mov m) with
  | Some v => v
  | None => mbase m a
  end.

Definition mset (m : mem) (a v : N) : mem :=
  mkMem (mbase m) (PositiveMap.add (N.succ_pos a) v (mov m)).

Definition mem_zero : mem := mkMem (fun _ => 0) (PositiveMap.empty N).
Definition mem_of_fun (f : N -> N) : mem := mkMem f (PositiveMap.empty N).

Lemma mget_mset_same m a v : mget (mset m a v) a = v.
Proof. unfold mget, mset; cbn. rewrite PositiveMap.gss. reflexivity. Qed.

Lemma succ_pos_inj a b : N.succ_pos a = N.succ_pos b -> a = b.
Proof.
  intros H. apply (f_equal Npos) in H. rewrite !N.succ_pos_spec in H. lia.
Qed.

Lemma mget_mset_other m a b v : a <> b -> mget (mset m a v) b = mget m b.
Proof.
  intros H. unfold mget, mset; cbn. rewrite PositiveMap.gso; [reflexivity|].
  intros E. apply H. symmetry. apply succ_pos_inj. exact E.
Qed.

Lemma mget_zero a : mget mem_zero a = 0.
Proof. unfold mget, mem_zero; cbn. rewrite PositiveMap.gempty. reflexivity. Qed.

(** Store a list of words at consecutive addresses (no wrap: callers bound it). *)
Fixpoint mstore_list (m : mem) (a : N) (ws : list N) : mem :=
  match ws with
  | [] => m
  | w :: ws' => mstore_list (mset m a w) (a + 1) ws'
  end.

(* ------------------------------------------------------------------ *)
(** * Registers *)

Record regs := mkRegs { r0 : N; r1 : N; r2 : N; r3 : N; r4 : N; r5 : N; r6 : N; r7 : N }.

(** Register numbers are always 3-bit fields; anything above 6 reads R7. *)
Definition rget (rs : regs) (r : N) : N :=
  match r with
  | 0 => r0 rs | 1 => r1 rs | 2 => r2 rs | 3 => r3 rs
  | 4 => r4 rs | 5 => r5 rs | 6 => r6 rs | _ => r7 rs
  end.

Definition rset (rs : regs) (r : N) (v : N) : regs :=
  match r with
  | 0 => mkRegs v (r1 rs) (r2 rs) (r3 rs) (r4 rs) (r5 rs) (r6 rs) (r7 rs)
  | 1 => mkRegs (r0 rs) v (r2 rs) (r3 rs) (r4 rs) (r5 rs) (r6 rs) (r7 rs)
  | 2 => mkRegs (r0 rs) (r1 rs) v (r3 rs) (r4 rs) (r5 rs) (r6 rs) (r7 rs)
  | 3 => mkRegs (r0 rs) (r1 rs) (r2 rs) v (r4 rs) (r5 rs) (r6 rs) (r7 rs)
  | 4 => mkRegs (r0 rs) (r1 rs) (r2 rs) (r3 rs) v (r5 rs) (r6 rs) (r7 rs)
  | 5 => mkRegs (r0 rs) (r1 rs) (r2 rs) (r3 rs) (r4 rs) v (r6 rs) (r7 rs)
  | 6 => mkRegs (r0 rs) (r1 rs) (r2 rs) (r3 rs) (r4 rs) (r5 rs) v (r7 rs)
  | _ => mkRegs (r0 rs) (r1 rs) (r2 rs) (r3 rs) (r4 rs) (r5 rs) (r6 rs) v
  end.

Definition regs_list (rs : regs) : list N :=
  [r0 rs; r1 rs; r2 rs; r3 rs; r4 rs; r5 rs; r6 rs; r7 rs].

Ltac destruct_reg r :=
  destruct r as [|[[[?|?|]|[?|?|]|]|[[?|?|]|[?|?|]|]|]]; try lia.

Lemma rget_rset_same rs r v : rget (rset rs r v) r = v.
Proof.
  destruct r as [|[[[?|?|]|[?|?|]|]|[[?|?|]|[?|?|]|]|]]; reflexivity.
Qed.

Lemma rget_rset_other rs r r' v : r < 8 -> r' < 8 -> r <> r' -> rget (rset rs r v) r' = rget rs r'.
Proof.
  intros H H' D.
  destruct r as [|[[[?|?|]|[?|?|]|]|[[?|?|]|[?|?|]|]|]]; try lia;
  destruct r' as [|[[[?|?|]|[?|?|]|]|[[?|?|]|[?|?|]|]|]]; try lia; try reflexivity;
  exfalso; apply D; reflexivity.
Qed.

(* ------------------------------------------------------------------ *)
(** * Machine state *)

(** Condition codes, as the bits lace uses: N = 4, Z = 2, P = 1, none = 0. *)
Definition CC_N : N := 4.
Definition CC_Z : N := 2.
Definition CC_P : N := 1.
Definition CC_U : N := 0.

Record state := mkState {
  s_regs : regs;
  s_pc   : N;
  s_cc   : N;
  s_mem  : mem;
  s_orig : N;
  s_inp  : list N;   (* console input: bytes still to be read *)
  s_out  : list N    (* console output: code points, most recent first *)
}.

Definition R (st : state) (r : N) : N := rget (s_regs st) r.
Definition M (st : state) (a : N) : N := mget (s_mem st) a.

Definition set_reg (st : state) (r v : N) : state :=
  mkState (rset (s_regs st) r v) (s_pc st) (s_cc st) (s_mem st) (s_orig st) (s_inp st) (s_out st).
Definition set_pc (st : state) (v : N) : state :=
  mkState (s_regs st) v (s_cc st) (s_mem st) (s_orig st) (s_inp st) (s_out st).
Definition set_cc (st : state) (v : N) : state :=
  mkState (s_regs st) (s_pc st) v (s_mem st) (s_orig st) (s_inp st) (s_out st).
Definition set_mem (st : state) (a v : N) : state :=
  mkState (s_regs st) (s_pc st) (s_cc st) (mset (s_mem st) a v) (s_orig st) (s_inp st) (s_out st).
Definition set_inp (st : state) (i : list N) : state :=
  mkState (s_regs st) (s_pc st) (s_cc st) (s_mem st) (s_orig st) i (s_out st).
Definition set_out (st : state) (o : list N) : state :=
  mkState (s_regs st) (s_pc st) (s_cc st) (s_mem st) (s_orig st) (s_inp st) o.

(** Well-formedness: every register, the PC and the origin are 16-bit values, every memory cell
    holds a 16-bit value and the condition code is one of the four. *)
Definition regs_wf (rs : regs) : Prop :=
  r0 rs < W /\ r1 rs < W /\ r2 rs < W /\ r3 rs < W /\
  r4 rs < W /\ r5 rs < W /\ r6 rs < W /\ r7 rs < W.

Definition wf (st : state) : Prop :=
  regs_wf (s_regs st) /\ s_pc st < W /\ s_orig st < W /\
  (forall a, M st a < W) /\
  (s_cc st = CC_N \/ s_cc st = CC_Z \/ s_cc st = CC_P \/ s_cc st = CC_U).

Lemma rget_wf rs r : regs_wf rs -> rget rs r < W.
Proof.
  intros (H0&H1&H2&H3&H4&H5&H6&H7).
  destruct r as [|[[[?|?|]|[?|?|]|]|[[?|?|]|[?|?|]|]|]]; cbn; assumption.
Qed.

Lemma rset_wf rs r v : regs_wf rs -> v < W -> regs_wf (rset rs r v).
Proof.
  intros (H0&H1&H2&H3&H4&H5&H6&H7) Hv.
  destruct r as [|[[[?|?|]|[?|?|]|]|[[?|?|]|[?|?|]|]|]]; cbn; repeat split; assumption.
Qed.

(* ------------------------------------------------------------------ *)
(** * Outcomes of executing code *)

Inductive result :=
| Running (st : state)                (* execution goes on *)
| Exited (code : N) (st : state)      (* the process exits with this status *)
| Panicked (st : state)               (* a Rust panic: never acceptable *)
| Diverged.                           (* a string trap whose string has no end anywhere in memory *)

(** Console output of one character, as seen through [--minimal]: ESC is filtered. *)
Definition emit (st : state) (c : N) : state :=
  if c =? 27 then st else set_out st (c :: s_out st).

Fixpoint emit_list (st : state) (cs : list N) : state :=
  match cs with
  | [] => st
  | c :: cs' => emit_list (emit st c) cs'
  end.

(** The banner HALT prints: "\n      Halted\n" (colour codes are not part of the observation). *)
Definition BANNER : list N := [10; 32; 32; 32; 32; 32; 32; 72; 97; 108; 116; 101; 100; 10].
