(* Extract.v — extraction of the executable models for the correspondence driver.
   ExtrOcamlBasic only: bool, option, unit, list, prod, sumbool map to OCaml's; N, positive, Z and
   nat stay the extracted Coq datatypes. *)
Require Extraction.
Require Import ExtrOcamlBasic.
From Lace Require Import Driver DriverDbg DriverEdit DriverCmd.
Extraction Language OCaml.
Set Extraction Optimize.
Extraction "../ocaml/gen/lace_model.ml" run_c02 run_c03 run_asm run_obj run_objb run_write run_lc3 run_src run_dbg run_dbgt run_dbgs run_c20 run_c14 run_watch run_feat run_feat2.
