(* EditSpec.v — SPEC for C20: a plain reference line editor with history.

   Written independently of lace's code.  A line is a list of characters (code points), the
   cursor is a character index into the line being shown, the history is a list of lines with a
   focus index (focus = length of the history: the new line, the "draft", is shown).

   The two character classes the editor needs (blank, letter-or-digit) are parameters: the
   theorems hold for every classification, the correspondence check instantiates them with
   Unicode's White_Space and Alphabetic/Numeric as Rust's `char` methods implement them. *)
From Coq Require Export NArith List Bool Arith.
Export ListNotations.
Open Scope N_scope.

Inductive key :=
| KEnter | KBackspace | KDelete | KLeft | KRight | KUp | KDown | KCtrlLeft | KCtrlRight
| KChar (c : N).

(** ASCII control characters are not text. *)
Definition is_control (c : N) : bool := (c <=? 31) || (c =? 127).

Fixpoint line_eqb (a b : list N) : bool :=
  match a, b with
  | [], [] => true
  | x :: a', y :: b' => (x =? y) && line_eqb a' b'
  | _, _ => false
  end.

Section Spec.
Variable blank : N -> bool.
Variable letter : N -> bool.

Record ed := mkEd {
  draft : list N;            (* the new line, kept while the history is browsed *)
  cur : nat;                 (* cursor, in characters *)
  hist : list (list N);
  focus : nat;               (* which history entry is shown; length hist = the draft *)
}.

(** The line on display when the focus is [f]. *)
Definition line_at (d : list N) (h : list (list N)) (f : nat) : list N :=
  if (f <? length h)%nat then nth f h [] else d.
Definition shown (e : ed) : list N := line_at (draft e) (hist e) (focus e).

Definition all_blank (l : list N) : bool := forallb blank l.

(** Words: maximal runs of letters/digits, or of other non-blank characters. *)
Definition class (c : N) : N := if blank c then 0 else if letter c then 1 else 2.
Definition same (x y : N) : bool := class x =? class y.

(** Number of leading elements satisfying [p]. *)
Fixpoint run_len (p : N -> bool) (l : list N) : nat :=
  match l with
  | x :: r => if p x then S (run_len p r) else O
  | [] => O
  end.

(** Ctrl+Right: past the rest of the run under the cursor, then past blanks. *)
Definition word_next (l : list N) (c : nat) : nat :=
  match skipn c l with
  | [] => length l
  | x :: r => let n := run_len (same x) r in
              (c + 1 + n + run_len blank (skipn n r))%nat
  end.

(** Ctrl+Left: back over blanks, then back over the run that ends there. *)
Definition word_back (l : list N) (c : nat) : nat :=
  let before := rev (firstn c l) in
  let n := run_len blank before in
  match skipn n before with
  | [] => O
  | x :: r => (c - n - 1 - run_len (same x) r)%nat
  end.

(** The submitted line is cut at every ';'. *)
Fixpoint split_semi (l : list N) : list (list N) :=
  match l with
  | [] => [[]]
  | c :: r =>
      if c =? 59 then [] :: split_semi r
      else match split_semi r with
           | h :: t => (c :: h) :: t
           | [] => [[c]]
           end
  end.

(** An editing key adopts the shown line as the draft and then changes it. *)
Definition edit (e : ed) (l : list N) (c : nat) : ed :=
  mkEd l c (hist e) (length (hist e)).

(** One key: the editor afterwards, and the commands submitted by it (if any). *)
Definition spec_key (e : ed) (k : key) : ed * option (list (list N)) :=
  let l := shown e in
  let c := cur e in
  match k with
  | KChar ch =>
      if is_control ch then (e, None)
      else (edit e (firstn c l ++ ch :: skipn c l) (S c), None)
  | KBackspace =>
      (match c with
       | O => edit e l c
       | S c' => edit e (firstn c' l ++ skipn c l) c'
       end, None)
  | KDelete => (edit e (firstn c l ++ skipn (S c) l) c, None)
  | KLeft => (mkEd (draft e) (pred c) (hist e) (focus e), None)
  | KRight => (mkEd (draft e) (if (c <? length l)%nat then S c else c) (hist e) (focus e), None)
  | KCtrlLeft => (mkEd (draft e) (word_back l c) (hist e) (focus e), None)
  | KCtrlRight => (mkEd (draft e) (word_next l c) (hist e) (focus e), None)
  | KUp =>
      (match focus e with
       | O => e
       | S f => mkEd (draft e) (length (line_at (draft e) (hist e) f)) (hist e) f
       end, None)
  | KDown =>
      (if (focus e <? length (hist e))%nat
       then mkEd (draft e) (length (line_at (draft e) (hist e) (S (focus e)))) (hist e) (S (focus e))
       else e, None)
  | KEnter =>
      if negb (focus e <? length (hist e))%nat && all_blank (draft e)
      then (mkEd [] 0 (hist e) (focus e), None)       (* a blank new line is dropped *)
      else
        let repeated := match hist e with [] => false | _ => line_eqb (last (hist e) []) l end in
        let h := if repeated then hist e else hist e ++ [l] in
        (mkEd [] 0 h (length h), Some (split_semi l))
  end.

Fixpoint spec_run (e : ed) (ks : list key) : ed * list (list (list N)) :=
  match ks with
  | [] => (e, [])
  | k :: ks' =>
      let '(e1, sub) := spec_key e k in
      let '(e2, subs) := spec_run e1 ks' in
      (e2, match sub with Some s => s :: subs | None => subs end)
  end.

Definition spec_start (h : list (list N)) : ed := mkEd [] 0 h (length h).

End Spec.
