(* Examples.v — NON-VACUITY: concrete, non-trivial instances on which the hypotheses of the property
   theorems hold (all by computation).  Referenced from the property files as [Example]s. *)
From Coq Require Import List NArith ZArith Bool String.
From Lace Require Import Word Machine Isa Vm Asm Cli Dbg DbgProofs EvalProofs RunProofs.
Import ListNotations.
Open Scope N_scope.

(** `add r0 r0 #1` three times, then HALT, at x3000. *)
Definition ex_raw : list N := [12288; 4129; 4129; 4129; 61477].

Definition ex_state : state :=
  match from_raw ex_raw [] with
  | Loaded st => st
  | LoadExit _ => mkState (mkRegs 0 0 0 0 0 0 0 0) 0 0 mem_zero 0 [] []
  end.

Definition ex_env : dbg_env := mkEnv false [] [] [].
Definition ex_dbg (bps : list (N * bool)) : dbg := mkDbg WaitForAction bps ex_state [] 0.

Lemma ex_loaded : from_raw ex_raw [] = Loaded ex_state.
Proof. reflexivity. Qed.

(** C03: the loaded state is well-formed and runs to the end. *)
Lemma ex_wf : wf ex_state.
Proof.
  apply (load_wf ex_raw [] ex_state).
  - repeat constructor.
  - pose proof (from_raw_load ex_raw []) as H. rewrite ex_loaded in H.
    destruct (load ex_raw []) as [s|]; [inversion H; reflexivity|discriminate].
Qed.

Lemma ex_runs : match fst (vm_run false 10 ex_state []) with VFinished s => R s 0 = 3 /\ s_pc s = 65535 | _ => False end.
Proof. vm_compute. split; reflexivity. Qed.

(** C09 / C16: a read-only script; the session ends, like the plain run, with R0 = 3. *)
Definition ex_script : list cmd := [CStepOver; CRegisters; CPrint (LReg 0); CBreakAdd (MAddr 12290); CContinue; CContinue].

Lemma ex_script_readonly : Forall readonly_cmd ex_script.
Proof. repeat constructor. Qed.

Lemma ex_session :
  let r := session ex_env 50 ex_script (ex_dbg []) ex_state 0 0 0 in
  sr_kind r = 0 /\ sr_kind r <> 4 /\ R (sr_state r) 0 = 3 /\ sr_execs r = 4 /\ sr_cmds r = 7.
Proof. vm_compute. repeat split; discriminate. Qed.

(** C11: a state whose PC carries a breakpoint. *)
Definition ex_state1 : state :=
  match vm_step false ex_state with Running s => s | _ => ex_state end.

Lemma ex_breakpoint_at_pc : bp_get (d_bps (ex_dbg [(12289, false)])) (s_pc ex_state1) <> None.
Proof. vm_compute. discriminate. Qed.

Lemma ex_sorted : bp_sorted (d_bps (ex_dbg [(12289, false); (12290, true)])).
Proof. unfold bp_sorted. cbn. repeat constructor. Qed.

(** C12: a session still attached at its end (`exit`) holds the initial state it started with. *)
Lemma ex_attached_end :
  exists dd, sr_dbg (session ex_env 50 [CStepOver; CMove (LReg 3) 7; CReset; CExit] (ex_dbg []) ex_state 0 0 0) = Some dd /\
             d_init dd = ex_state.
Proof. vm_compute. eexists. split; reflexivity. Qed.

(** C13: a write command whose target lies outside user space, and one inside. *)
Lemma ex_outside_target :
  writes_cmd (CGoto (MAddr 0)) = Some (MAddr 0) /\
  forall a d', resolve_location ex_env (set_icount (ex_dbg []) 0) ex_state (MAddr 0) = (Some a, d') ->
               in_userspace ex_state a = false.
Proof. split; [reflexivity|]. intros a d' H. inversion H; subst. reflexivity. Qed.

Lemma ex_move_mem :
  exists d', run_command ex_env (CMove (LMem (MAddr 12289)) 7) (ex_dbg []) ex_state =
             CmdNone d' (set_mem ex_state 12289 7).
Proof. eexists. vm_compute. reflexivity. Qed.

(** C15: an allowed instruction goes through every stage of eval; an off-limits one is refused. *)
Definition ex_eval_text : list N := str "add r1 r1 #3".

Lemma ex_eval_allowed :
  match lex_simple false (S (length ex_eval_text)) ex_eval_text 0 [] with
  | Ok toks =>
      match parse_simple [] toks (bytes ex_eval_text) with
      | Ok s =>
          allowed s /\
          match backpatch_stmt [] s with
          | Ok s' => emit (mkLine (wrap (s_pc ex_state + 65536 - s_orig ex_state)) s' 0 0) = Ok 4707
          | _ => False
          end
      | _ => False
      end
  | _ => False
  end.
Proof. vm_compute. split; [exact I|reflexivity]. Qed.

Lemma ex_eval_refused : exists line, eval ex_env ex_state (str "halt") = EvalRefused line.
Proof. eexists. vm_compute. reflexivity. Qed.

(** C18: a 0xD word on a well-formed state; a run that fetches no 0xD word. *)
Lemma ex_stack_word : (54336 < W) /\ 54336 / 4096 = 13.
Proof. split; reflexivity. Qed.

Lemma ex_no_stack_fetch : Forall (fun aw : N * N => snd aw / 4096 <> 13) (snd (run true 10 ex_state [])).
Proof. vm_compute. repeat constructor; discriminate. Qed.

(** C06 / C07 / C08: a source that assembles, one that does not. *)
Definition ex_src_ok : list N := str "lea r0 msg
puts
halt
msg .stringz ""hi""
".
Definition ex_src_bad : list N := str "add r0
".

Lemma ex_assembles :
  match assemble false [] ex_src_ok with
  | (Ok im, _) => image_orig im < W /\ length (i_words im) = 6%nat /\ check_exit false ex_src_ok = 0
  | _ => False
  end.
Proof. vm_compute. repeat split. Qed.

Lemma ex_rejected : exists d a n, assembles false ex_src_bad = Err d a n.
Proof. vm_compute. do 3 eexists. reflexivity. Qed.
