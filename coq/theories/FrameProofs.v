(* FrameProofs.v — "nothing but the specified locations changes": the frame of one instruction. *)
From Coq Require Import Lia.
From Lace Require Import Word Machine Isa Vm VmFields VmProofs RunProofs.
Open Scope N_scope.

(** Registers an instruction may write. *)
Definition reg_targets (i : instr) : list N :=
  match i with
  | ADDr d _ _ | ADDi d _ _ | ANDr d _ _ | ANDi d _ _ | NOT d _
  | LD d _ | LDI d _ | LDR d _ _ | LEA d _ => [d]
  | JSR _ | JSRR _ | PUSH _ | CALL _ | RETS => [7]
  | POP d => [7; d]
  | TRAP 32 | TRAP 35 => [0]
  | _ => []
  end.

(** The one memory word an instruction may write (computed on the state before it). *)
Definition mem_target (i : instr) (st : state) : option N :=
  match i with
  | ST _ off => Some (addw (s_pc st) off)
  | STI _ off => Some (M st (addw (s_pc st) off))
  | STR _ b off => Some (addw (R st b) off)
  | PUSH _ | CALL _ => Some (addw (R st 7) 65535)
  | _ => None
  end.

Definition same_regs_except (l : list N) (st st' : state) : Prop :=
  forall r, r < 8 -> ~ In r l -> R st' r = R st r.
Definition same_mem_except (o : option N) (st st' : state) : Prop :=
  forall a, o <> Some a -> M st' a = M st a.

Lemma emit_regs st c : s_regs (emit st c) = s_regs st.
Proof. unfold emit. destruct (c =? 27); reflexivity. Qed.
Lemma emit_mem st c : s_mem (emit st c) = s_mem st.
Proof. unfold emit. destruct (c =? 27); reflexivity. Qed.
Lemma emit_list_regs cs : forall st, s_regs (emit_list st cs) = s_regs st.
Proof. induction cs as [|c r IH]; intros st; cbn; [reflexivity|]. rewrite IH. apply emit_regs. Qed.
Lemma emit_list_mem cs : forall st, s_mem (emit_list st cs) = s_mem st.
Proof. induction cs as [|c r IH]; intros st; cbn; [reflexivity|]. rewrite IH. apply emit_mem. Qed.

Lemma string_walk_frame f :
  (forall st a, match f st a with WStop s | WNext s => s_regs s = s_regs st /\ s_mem s = s_mem st end) ->
  forall fuel st a st', string_walk fuel f st a = Some st' -> s_regs st' = s_regs st /\ s_mem st' = s_mem st.
Proof.
  intros Hf. induction fuel as [|fuel IH]; intros st a st' H; cbn in H; [discriminate|].
  pose proof (Hf st a) as K. destruct (f st a) as [s|s].
  - inversion H; subst; exact K.
  - destruct (IH _ _ _ H) as [E1 E2]. destruct K as [K1 K2]. split; congruence.
Qed.

Lemma puts_word_frame st a : match puts_word st a with WStop s | WNext s => s_regs s = s_regs st /\ s_mem s = s_mem st end.
Proof. unfold puts_word. destruct (M st a mod 256 =? 0); [auto|]. split; [apply emit_regs|apply emit_mem]. Qed.

Lemma putsp_word_frame st a : match putsp_word st a with WStop s | WNext s => s_regs s = s_regs st /\ s_mem s = s_mem st end.
Proof.
  unfold putsp_word. destruct (M st a mod 256 =? 0); [auto|].
  destruct ((M st a / 256) mod 256 =? 0); rewrite ?emit_regs, ?emit_mem; auto.
Qed.

Lemma R_set_reg_other st r v r' : r < 8 -> r' < 8 -> r <> r' -> R (set_reg st r v) r' = R st r'.
Proof. intros. unfold R; cbn. apply rget_rset_other; assumption. Qed.

Lemma M_set_mem_other st a v b : a <> b -> M (set_mem st a v) b = M st b.
Proof. intros. unfold M; cbn. apply mget_mset_other. assumption. Qed.

(** One instruction of the SPEC changes at most the registers in [reg_targets], at most the memory
    word [mem_target], and never the origin. *)
Theorem step_frame feat i st st' :
  (forall r, In r (reg_targets i) -> r < 8) ->
  step feat i st = Running st' ->
  same_regs_except (reg_targets i) st st' /\ same_mem_except (mem_target i st) st st' /\ s_orig st' = s_orig st.
Proof.
  intros Hr H. split; [|split]; [| |eapply step_orig; exact H].
  - (* registers *)
    intros r Hlt Hnot.
    assert (OTHER : forall rs d v, d < 8 -> d <> r -> rget (rset rs d v) r = rget rs r).
    { intros rs d v Hd Hne. apply rget_rset_other; assumption. }
    destruct i; cbn [step] in H; cbn [reg_targets] in *;
      try (destruct feat; [|discriminate]);
      try (destruct (N.land nzp (s_cc st) =? 0));
      try (inversion H; subst; clear H;
           unfold R, write_cc, set_cc, set_pc, set_mem, set_reg; cbn [s_regs];
           first [ reflexivity
                 | (rewrite !OTHER; [reflexivity|..]; first [apply Hr; cbn; tauto | intros E; apply Hnot; cbn; tauto | lia]) ]; fail).
    (* TRAP *)
    unfold trap_spec in H.
    repeat match type of H with
    | match ?v with _ => _ end = _ => destruct v eqn:?; try discriminate
    end; try (inversion H; subst; clear H).
    all: try reflexivity.
    all: try (match goal with Hw : string_walk _ _ _ _ = Some _ |- _ =>
                first [ destruct (string_walk_frame _ puts_word_frame _ _ _ _ Hw) as [E _]
                      | destruct (string_walk_frame _ putsp_word_frame _ _ _ _ Hw) as [E _] ];
                unfold R; rewrite E; reflexivity end).
    all: unfold R; rewrite ?emit_list_regs, ?emit_regs; unfold set_reg, set_inp, set_pc; cbn [s_regs]; try reflexivity.
    all: apply OTHER; [lia|intros E; apply Hnot; cbn; auto].
  - (* memory *)
    intros a Hne.
    assert (OTHER : forall m t v, Some t <> Some a -> mget (mset m t v) a = mget m a).
    { intros m t v Ht. apply mget_mset_other. intros E. apply Ht. rewrite E. reflexivity. }
    destruct i; cbn [step] in H; cbn [mem_target] in *;
      try (destruct feat; [|discriminate]);
      try (destruct (N.land nzp (s_cc st) =? 0));
      try (inversion H; subst; clear H;
           unfold M, write_cc, set_cc, set_pc, set_mem, set_reg; cbn [s_mem];
           first [ reflexivity | (apply OTHER; exact Hne) ]; fail).
    unfold trap_spec in H.
    repeat match type of H with
    | match ?v with _ => _ end = _ => destruct v eqn:?; try discriminate
    end; try (inversion H; subst; clear H).
    all: try reflexivity.
    all: try (match goal with Hw : string_walk _ _ _ _ = Some _ |- _ =>
                first [ destruct (string_walk_frame _ puts_word_frame _ _ _ _ Hw) as [_ E]
                      | destruct (string_walk_frame _ putsp_word_frame _ _ _ _ Hw) as [_ E] ];
                unfold M; rewrite E; reflexivity end).
    all: unfold M; rewrite ?emit_list_mem, ?emit_mem; unfold set_reg, set_inp, set_pc; cbn [s_mem]; reflexivity.
Qed.

(** The registers [decode] can name are 3-bit fields. *)
Lemma decode_targets_lt w : forall r, In r (reg_targets (decode w)) -> r < 8.
Proof.
  assert (F : forall lo, fld w lo 3 < 8) by (intros lo; unfold fld; apply N.mod_lt; discriminate).
  unfold decode. cbv zeta.
  repeat match goal with
  | |- context [match ?x with _ => _ end] =>
      lazymatch x with
      | context [match _ with _ => _ end] => fail
      | _ => destruct x
      end
  end; cbn [reg_targets In]; intros r Hin;
    repeat match goal with H : _ \/ _ |- _ => destruct H end; subst; try contradiction; try apply F; try lia.
  all: revert Hin; generalize (w mod 256); intros v;
       repeat match goal with |- context [match ?x with _ => _ end] => destruct x end;
       cbn [In]; intros Hin; repeat (destruct Hin as [Hin|Hin]); subst; try contradiction; lia.
Qed.

(** Transferred to the implementation's model: executing any word changes nothing but the
    destination register(s), the one addressed memory word, PC, CC and the console. *)
Theorem execute_frame feat w st st' :
  wf st -> w < W -> execute feat w st = Running st' ->
  same_regs_except (reg_targets (decode w)) st st' /\
  same_mem_except (mem_target (decode w) st) st st' /\ s_orig st' = s_orig st.
Proof.
  intros Hwf Hw H. rewrite execute_refines_step in H by assumption.
  eapply step_frame; [apply decode_targets_lt|exact H].
Qed.
