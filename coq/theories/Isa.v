(* Isa.v — SPEC.  The LC-3 instruction set (2nd-edition ISA appendix A) and lace's documented
   stack extension, written from the manual with arithmetic only: fields by division and
   remainder, sign extension by case on the sign, semantics as formulas on numbers.
   Nothing here is transcribed from lace's Rust code. *)
From Lace Require Export Machine.

(* ------------------------------------------------------------------ *)
(** * Instructions *)

Inductive instr :=
| ADDr (dr sr1 sr2 : N)
| ADDi (dr sr1 imm : N)          (* imm already sign-extended to 16 bits *)
| ANDr (dr sr1 sr2 : N)
| ANDi (dr sr1 imm : N)
| BR (nzp : N) (off : N)         (* nzp: 3-bit mask, n=4 z=2 p=1; off sign-extended *)
| JMP (base : N)
| JSR (off : N)
| JSRR (base : N)
| LD (dr off : N)
| LDI (dr off : N)
| LDR (dr base off : N)
| LEA (dr off : N)
| NOT (dr sr : N)
| ST (sr off : N)
| STI (sr off : N)
| STR (sr base off : N)
| TRAP (vect : N)
| RTI
(* stack extension, opcode 0xD; bits 11:10 select the operation *)
| PUSH (sr : N)
| POP (dr : N)
| CALL (off : N)
| RETS.

Definition fld (w lo width : N) : N := (w / 2 ^ lo) mod 2 ^ width.

Definition decode (w : N) : instr :=
  let dr := fld w 9 3 in
  let sr := fld w 6 3 in
  match w / 4096 with
  | 0 => BR dr (sext 9 w)
  | 1 => if fld w 5 1 =? 0 then ADDr dr sr (fld w 0 3) else ADDi dr sr (sext 5 w)
  | 2 => LD dr (sext 9 w)
  | 3 => ST dr (sext 9 w)
  | 4 => if fld w 11 1 =? 0 then JSRR sr else JSR (sext 11 w)
  | 5 => if fld w 5 1 =? 0 then ANDr dr sr (fld w 0 3) else ANDi dr sr (sext 5 w)
  | 6 => LDR dr sr (sext 6 w)
  | 7 => STR dr sr (sext 6 w)
  | 8 => RTI
  | 9 => NOT dr sr
  | 10 => LDI dr (sext 9 w)
  | 11 => STI dr (sext 9 w)
  | 12 => JMP sr
  | 13 => match fld w 10 2 with
          | 0 => POP sr
          | 1 => PUSH sr
          | 2 => RETS
          | _ => CALL (sext 10 w)
          end
  | 14 => LEA dr (sext 9 w)
  | _ => TRAP (w mod 256)
  end.

(* ------------------------------------------------------------------ *)
(** * Semantics *)

(** Condition code of a 16-bit result, read as two's complement. *)
Definition cc_of (v : N) : N :=
  if v =? 0 then CC_Z else if v <? 32768 then CC_P else CC_N.

Definition write_cc (st : state) (dr v : N) : state := set_cc (set_reg st dr v) (cc_of v).

(** Bitwise AND / NOT of 16-bit words. *)
Definition andw (a b : N) : N := N.land a b.
Definition notw (a : N) : N := 65535 - a.

(** ** Text produced by the trap routines *)

Definition digit_char (d : N) : N := 48 + d.

Fixpoint dec_digits_aux (fuel : nat) (n : N) (acc : list N) : list N :=
  match fuel with
  | O => acc
  | S f => let acc' := digit_char (n mod 10) :: acc in
           if n / 10 =? 0 then acc' else dec_digits_aux f (n / 10) acc'
  end.
(** Decimal digits of a number below 10^6. *)
Definition dec_digits (n : N) : list N := dec_digits_aux 6 n [].

(** A 16-bit word as a signed decimal. *)
Definition signed_dec (v : N) : list N :=
  if v <? 32768 then dec_digits v else 45 :: dec_digits (W - v).

Definition hex_char (d : N) : N := if d <? 10 then 48 + d else 87 + d.   (* lower case *)
Definition hex4 (v : N) : list N :=
  [hex_char (fld v 12 4); hex_char (fld v 8 4); hex_char (fld v 4 4); hex_char (fld v 0 4)].
Definition bin3 (v : N) : list N :=
  [48 + fld v 2 1; 48 + fld v 1 1; 48 + fld v 0 1].

(** The register dump of the REG trap, in the [--minimal] format. *)
Definition reg_line (i v : N) : list N := [82; 48 + i; 32; 120] ++ hex4 v ++ [10].
Definition reg_dump (st : state) : list N :=
  reg_line 0 (R st 0) ++ reg_line 1 (R st 1) ++ reg_line 2 (R st 2) ++ reg_line 3 (R st 3) ++
  reg_line 4 (R st 4) ++ reg_line 5 (R st 5) ++ reg_line 6 (R st 6) ++ reg_line 7 (R st 7) ++
  [80; 67; 32; 120] ++ hex4 (s_pc st) ++ [10] ++
  [67; 67; 32] ++ bin3 (s_cc st) ++ [10].

(** ** String output.  One step of PUTS / PUTSP looks at one memory word. *)

Inductive walk := WStop (st : state) | WNext (st : state).

(** PUTS: one character per word (its low byte); a zero low byte ends the string. *)
Definition puts_word (st : state) (a : N) : walk :=
  let c := M st a mod 256 in
  if c =? 0 then WStop st else WNext (emit st c).

(** PUTSP: two characters per word, bits [7:0] first, then bits [15:8]; a zero byte ends it. *)
Definition putsp_word (st : state) (a : N) : walk :=
  let lo := M st a mod 256 in
  let hi := (M st a / 256) mod 256 in
  if lo =? 0 then WStop st
  else if hi =? 0 then WStop (emit st lo)
  else WNext (emit (emit st lo) hi).

(** Walk memory upwards from [a] (addresses wrap at 2^16).  [None]: the string never ends
    within [fuel] words. *)
Fixpoint string_walk (fuel : nat) (f : state -> N -> walk) (st : state) (a : N) : option state :=
  match fuel with
  | O => None
  | S fuel' =>
      match f st a with
      | WStop st' => Some st'
      | WNext st' => string_walk fuel' f st' (addw a 1)
      end
  end.

(** Strings longer than the whole memory do not exist: 2^16 words is "forever". *)
Definition FOREVER : nat := N.to_nat W.

Definition trap_spec (vect : N) (st : state) : result :=
  match vect with
  | 32 (* x20 GETC *) =>
      match s_inp st with
      | [] => Exited 1 st
      | b :: rest => Running (set_reg (set_inp st rest) 0 (if b <? 128 then b else 65533))
      end
  | 33 (* x21 OUT *) => Running (emit st (R st 0 mod 256))
  | 34 (* x22 PUTS *) =>
      match string_walk FOREVER puts_word st (R st 0) with
      | Some st' => Running st' | None => Diverged end
  | 35 (* x23 IN *) =>
      match s_inp st with
      | [] => Exited 1 st
      | b :: rest =>
          let c := if b <? 128 then b else 65533 in
          Running (emit (set_reg (set_inp st rest) 0 c) c)
      end
  | 36 (* x24 PUTSP *) =>
      match string_walk FOREVER putsp_word st (R st 0) with
      | Some st' => Running st' | None => Diverged end
  | 37 (* x25 HALT *) => Running (emit_list (set_pc st 65535) BANNER)
  | 38 (* x26 PUTN *) => Running (emit_list st (signed_dec (R st 0)))
  | 39 (* x27 REG *) => Running (emit_list st (reg_dump st))
  | _ => Exited 238 st     (* unknown vector: error exit 0xEE *)
  end.

(** One instruction.  [st] is the state after the fetch: PC already incremented.
    [feat]: the stack extension is enabled. *)
Definition step (feat : bool) (i : instr) (st : state) : result :=
  match i with
  | ADDr dr a b => Running (write_cc st dr (addw (R st a) (R st b)))
  | ADDi dr a imm => Running (write_cc st dr (addw (R st a) imm))
  | ANDr dr a b => Running (write_cc st dr (andw (R st a) (R st b)))
  | ANDi dr a imm => Running (write_cc st dr (andw (R st a) imm))
  | NOT dr a => Running (write_cc st dr (notw (R st a)))
  | BR nzp off =>
      if N.land nzp (s_cc st) =? 0 then Running st
      else Running (set_pc st (addw (s_pc st) off))
  | JMP b => Running (set_pc st (R st b))
  | JSR off =>
      let temp := s_pc st in
      Running (set_reg (set_pc st (addw (s_pc st) off)) 7 temp)
  | JSRR b =>
      let temp := s_pc st in
      Running (set_reg (set_pc st (R st b)) 7 temp)
  | LD dr off => Running (write_cc st dr (M st (addw (s_pc st) off)))
  | LDI dr off => Running (write_cc st dr (M st (M st (addw (s_pc st) off))))
  | LDR dr b off => Running (write_cc st dr (M st (addw (R st b) off)))
  | LEA dr off => Running (write_cc st dr (addw (s_pc st) off))
  | ST sr off => Running (set_mem st (addw (s_pc st) off) (R st sr))
  | STI sr off => Running (set_mem st (M st (addw (s_pc st) off)) (R st sr))
  | STR sr b off => Running (set_mem st (addw (R st b) off) (R st sr))
  | TRAP v => trap_spec v st
  | RTI => Panicked st       (* documented as unimplemented; outside every claim *)
  | PUSH sr =>
      if feat then
        let sp := addw (R st 7) 65535 in
        Running (set_mem (set_reg st 7 sp) sp (R st sr))
      else Exited 1 st
  | POP dr =>
      if feat then
        let v := M st (R st 7) in
        Running (set_reg (set_reg st 7 (addw (R st 7) 1)) dr v)
      else Exited 1 st
  | CALL off =>
      if feat then
        let sp := addw (R st 7) 65535 in
        Running (set_pc (set_mem (set_reg st 7 sp) sp (s_pc st)) (addw (s_pc st) off))
      else Exited 1 st
  | RETS =>
      if feat then
        Running (set_pc (set_reg st 7 (addw (R st 7) 1)) (M st (R st 7)))
      else Exited 1 st
  end.

(* ------------------------------------------------------------------ *)
(** * Loading an image and running it (C03) *)

Definition USER_END : N := 65024.   (* xFE00 *)
Definition HALT_WORD : N := 61477.  (* xF025 *)
Definition SP_INIT : N := 65023.    (* xFDFF *)

(** An image is its origin followed by its words.  It is loadable iff it is not empty and the
    words plus the implicit HALT behind them fit below 2^16. *)
Definition loadable (raw : list N) : bool :=
  match raw with
  | [] => false
  | origin :: words => origin + N.of_nat (length words) + 1 <=? W
  end.

Definition load (raw : list N) (inp : list N) : option state :=
  match raw with
  | [] => None
  | origin :: words =>
      if loadable raw then
        let m := mset (mstore_list mem_zero origin words) (origin + N.of_nat (length words)) HALT_WORD in
        Some (mkState (mkRegs 0 0 0 0 0 0 0 SP_INIT) origin CC_U m origin inp [])
      else None
  end.

Inductive run_result :=
| Finished (st : state)              (* normal end, exit status 0 *)
| Stopped (code : N) (st : state)    (* error exit *)
| Crashed (st : state)               (* panic *)
| Hung                               (* endless string output *)
| OutOfFuel (st : state).            (* step budget used up; [st] is the state before the next fetch *)

(** The machine stops normally when PC = xFFFF, with exit xEE when PC is outside
    [origin, xFE00); otherwise it fetches, increments PC and executes.  The trace records every
    fetched (address, word), most recent first. *)
Fixpoint run (feat : bool) (fuel : nat) (st : state) (tr : list (N * N)) : run_result * list (N * N) :=
  if s_pc st =? 65535 then (Finished st, tr)
  else if (s_pc st <? s_orig st) || (USER_END <=? s_pc st) then (Stopped 238 st, tr)
  else match fuel with
       | O => (OutOfFuel st, tr)
       | S fuel' =>
           let w := M st (s_pc st) in
           let tr' := (s_pc st, w) :: tr in
           match step feat (decode w) (set_pc st (addw (s_pc st) 1)) with
           | Running st' => run feat fuel' st' tr'
           | Exited c st' => (Stopped c st', tr')
           | Panicked st' => (Crashed st', tr')
           | Diverged => (Hung, tr')
           end
       end.
