(* RunProofs.v — loading and running: MODEL (Vm.from_raw / Vm.vm_run) refines SPEC (Isa.load /
   Isa.run); no fetch outside [origin, xFE00). *)
From Lace Require Import Word Machine Isa Vm VmFields VmProofs.

(* ------------------------------------------------------------------ *)
(** * Loading *)

Lemma from_raw_load raw inp :
  from_raw raw inp = match load raw inp with Some st => Loaded st | None => LoadExit 238 end.
Proof.
  destruct raw as [|origin words]; [reflexivity|].
  unfold from_raw, load, loadable, MEMORY_MAX, USER_MEMORY_END, SP_INIT, HALT_WORD.
  cbn [length]. rewrite Nat2N.inj_succ.
  destruct (N.ltb_spec 65536 (origin + N.succ (N.of_nat (length words))));
  destruct (N.leb_spec (origin + N.of_nat (length words) + 1) W); unfold W in *; try lia; reflexivity.
Qed.

Lemma mstore_list_get_out ws : forall m a b,
  (b < a \/ a + N.of_nat (length ws) <= b) -> mget (mstore_list m a ws) b = mget m b.
Proof.
  induction ws as [|w ws IH]; intros m a b H; [reflexivity|].
  cbn [mstore_list length] in *. rewrite Nat2N.inj_succ in H.
  rewrite IH by lia. apply mget_mset_other. lia.
Qed.

Lemma mstore_list_get_in ws : forall m a i,
  (i < length ws)%nat -> mget (mstore_list m a ws) (a + N.of_nat i) = nth i ws 0.
Proof.
  induction ws as [|w ws IH]; intros m a i H; [cbn in H; lia|].
  cbn [mstore_list length] in *. destruct i as [|i].
  - rewrite N.add_0_r. rewrite mstore_list_get_out by lia. apply mget_mset_same.
  - rewrite Nat2N.inj_succ. replace (a + N.succ (N.of_nat i)) with (a + 1 + N.of_nat i) by lia.
    rewrite IH by lia. reflexivity.
Qed.

(** What a loaded machine looks like. *)
Lemma load_shape origin words inp st :
  load (origin :: words) inp = Some st ->
  s_pc st = origin /\ s_orig st = origin /\ s_cc st = CC_U /\
  s_regs st = mkRegs 0 0 0 0 0 0 0 65023 /\ s_inp st = inp /\ s_out st = [] /\
  (forall i, (i < length words)%nat -> M st (origin + N.of_nat i) = nth i words 0) /\
  M st (origin + N.of_nat (length words)) = 61477 /\
  (forall a, a < origin \/ origin + N.of_nat (length words) < a -> M st a = 0).
Proof.
  unfold load. destruct (loadable (origin :: words)); [|discriminate].
  intros H. inversion H; subst; clear H. cbn.
  repeat split; try reflexivity.
  - intros i Hi. unfold M; cbn. rewrite mget_mset_other by lia. apply mstore_list_get_in. exact Hi.
  - unfold M; cbn. apply mget_mset_same.
  - intros a Ha. unfold M; cbn. rewrite mget_mset_other by lia.
    rewrite mstore_list_get_out by lia. apply mget_zero.
Qed.

Lemma load_accepts raw inp :
  (exists st, load raw inp = Some st) <->
  (exists origin words, raw = origin :: words /\ origin + N.of_nat (length words) + 1 <= W).
Proof.
  split.
  - intros [st H]. destruct raw as [|origin words]; [discriminate|].
    exists origin, words. split; [reflexivity|]. unfold load, loadable in H.
    destruct (N.leb_spec (origin + N.of_nat (length words) + 1) W); [assumption|discriminate].
  - intros (origin & words & -> & H). unfold load, loadable.
    destruct (N.leb_spec (origin + N.of_nat (length words) + 1) W); [eexists; reflexivity|lia].
Qed.

Lemma mstore_list_lt ws : forall m a,
  (forall b, mget m b < W) -> Forall (fun w => w < W) ws -> forall b, mget (mstore_list m a ws) b < W.
Proof.
  induction ws as [|w ws IH]; intros m a Hm Hws b; [apply Hm|].
  cbn [mstore_list]. inversion Hws; subst. apply IH; [|assumption].
  intros c. destruct (N.eq_dec a c) as [->|Hne].
  - rewrite mget_mset_same. assumption.
  - rewrite mget_mset_other by assumption. apply Hm.
Qed.

Lemma load_wf raw inp st :
  Forall (fun w => w < W) raw -> load raw inp = Some st -> wf st.
Proof.
  intros Hraw H. destruct raw as [|origin words]; [discriminate|].
  unfold load in H. destruct (loadable (origin :: words)) eqn:E; [|discriminate].
  inversion H; subst; clear H. inversion Hraw; subst.
  split; [|split; [|split; [|split]]]; cbn.
  - unfold regs_wf, SP_INIT, W; cbn. repeat split; lia.
  - assumption.
  - assumption.
  - intros a. unfold M; cbn.
    destruct (N.eq_dec (origin + N.of_nat (length words)) a) as [<-|Hne].
    + rewrite mget_mset_same. unfold HALT_WORD, W. lia.
    + rewrite mget_mset_other by assumption. apply mstore_list_lt; [|assumption].
      intros b. rewrite mget_zero. unfold W. lia.
  - right; right; right; reflexivity.
Qed.

(* ------------------------------------------------------------------ *)
(** * Running *)

Definition to_vm (r : run_result) : vm_result :=
  match r with
  | Finished st => VFinished st
  | Stopped c st => VExit c st
  | Crashed st => VPanic st
  | Hung => VHung
  | OutOfFuel st => VOutOfFuel st
  end.

Lemma vm_run_refines feat fuel : forall st tr, wf st ->
  vm_run feat fuel st tr = (to_vm (fst (run feat fuel st tr)), snd (run feat fuel st tr)).
Proof.
  induction fuel as [|fuel IH]; intros st tr Hwf.
  - cbn [vm_run run]. unfold HALT_ADDRESS, check_pc_bounds, USER_MEMORY_END, USER_END.
    destruct (s_pc st =? 65535); [reflexivity|].
    destruct (s_pc st <? s_orig st); [reflexivity|].
    destruct (65024 <=? s_pc st); reflexivity.
  - cbn [vm_run run]. unfold HALT_ADDRESS, check_pc_bounds, USER_MEMORY_END, USER_END.
    destruct (s_pc st =? 65535); [reflexivity|].
    destruct (s_pc st <? s_orig st); [reflexivity|]. cbn [orb].
    destruct (N.leb_spec 65024 (s_pc st)) as [Hge|Hlt]; [reflexivity|].
    destruct (N.leb_spec W (s_pc st + 1)) as [Hov|Hok]; [unfold W in Hov; lia|].
    assert (Hpc1 : addw (s_pc st) 1 = s_pc st + 1).
    { unfold addw. apply N.mod_small. exact Hok. }
    rewrite Hpc1.
    assert (Hwf1 : wf (set_pc st (s_pc st + 1))) by (apply set_pc_wf; assumption).
    assert (Hw : M st (s_pc st) < W) by (apply M_lt; exact Hwf).
    rewrite execute_refines_step by assumption.
    destruct (step feat (decode (M st (s_pc st))) (set_pc st (s_pc st + 1))) as [st'|c st'|st'|] eqn:E;
      try reflexivity.
    apply IH. eapply step_wf; [exact Hwf1|apply decode_imm_ok|exact E].
Qed.

(** The origin never changes. *)
Lemma emit_orig st c : s_orig (emit st c) = s_orig st.
Proof. unfold emit. destruct (c =? 27); reflexivity. Qed.

Lemma emit_list_orig cs : forall st, s_orig (emit_list st cs) = s_orig st.
Proof. induction cs as [|c cs IH]; intros st; cbn; [reflexivity|]. rewrite IH. apply emit_orig. Qed.

Lemma string_walk_orig f :
  (forall st a, match f st a with WStop s | WNext s => s_orig s = s_orig st end) ->
  forall fuel st a st', string_walk fuel f st a = Some st' -> s_orig st' = s_orig st.
Proof.
  intros Hf. induction fuel as [|fuel IH]; intros st a st' H; cbn in H; [discriminate|].
  pose proof (Hf st a) as K. destruct (f st a) as [s|s].
  - inversion H; subst; exact K.
  - rewrite (IH _ _ _ H). exact K.
Qed.

Lemma puts_word_orig st a : match puts_word st a with WStop s | WNext s => s_orig s = s_orig st end.
Proof. unfold puts_word. destruct (M st a mod 256 =? 0); [reflexivity|apply emit_orig]. Qed.

Lemma putsp_word_orig st a : match putsp_word st a with WStop s | WNext s => s_orig s = s_orig st end.
Proof.
  unfold putsp_word. destruct (M st a mod 256 =? 0); [reflexivity|].
  destruct ((M st a / 256) mod 256 =? 0); rewrite ?emit_orig; reflexivity.
Qed.

Lemma step_orig feat i st st' : step feat i st = Running st' -> s_orig st' = s_orig st.
Proof.
  intros H. destruct i; cbn [step] in H; try (inversion H; subst; reflexivity).
  - destruct (N.land nzp (s_cc st) =? 0); inversion H; subst; reflexivity.
  - unfold trap_spec in H.
    repeat match type of H with
    | match ?v with _ => _ end = _ => destruct v eqn:?; try discriminate
    end;
    try (inversion H; subst; clear H).
    all: try (erewrite string_walk_orig; [reflexivity| |eassumption]; first [exact puts_word_orig|exact putsp_word_orig]).
    all: rewrite ?emit_list_orig, ?emit_orig; reflexivity.
  - destruct feat; inversion H; subst; reflexivity.
  - destruct feat; inversion H; subst; reflexivity.
  - destruct feat; inversion H; subst; reflexivity.
  - destruct feat; inversion H; subst; reflexivity.
Qed.

(** Every fetched address lies in [origin, xFE00). *)
Definition in_user (orig a : N) : Prop := orig <= a /\ a < USER_END.

Lemma run_fetch_bounds feat fuel : forall st tr orig,
  s_orig st = orig ->
  Forall (fun aw => in_user orig (fst aw)) tr ->
  Forall (fun aw => in_user orig (fst aw)) (snd (run feat fuel st tr)).
Proof.
  induction fuel as [|fuel IH]; intros st tr orig Ho Htr.
  - cbn [run]. destruct (s_pc st =? 65535); [exact Htr|].
    destruct ((s_pc st <? s_orig st) || (USER_END <=? s_pc st)); exact Htr.
  - cbn [run]. destruct (s_pc st =? 65535); [exact Htr|].
    destruct (N.ltb_spec (s_pc st) (s_orig st)) as [|Hlo]; [exact Htr|]. cbn [orb].
    destruct (N.leb_spec USER_END (s_pc st)) as [|Hhi]; [exact Htr|].
    assert (Htr' : Forall (fun aw => in_user orig (fst aw)) ((s_pc st, M st (s_pc st)) :: tr)).
    { constructor; [|exact Htr]. cbn. unfold in_user. subst orig. split; assumption. }
    destruct (step feat (decode (M st (s_pc st))) (set_pc st (addw (s_pc st) 1))) as [st'|c st'|st'|] eqn:E;
      try exact Htr'.
    apply IH; [|exact Htr']. rewrite (step_orig _ _ _ _ E). exact Ho.
Qed.

(** A run that ends normally ends with PC = xFFFF; an exception exit means PC left user space or
    the program asked for it (unknown trap / reserved opcode / end of input). *)
Lemma run_finished_pc feat fuel : forall st tr st',
  fst (run feat fuel st tr) = Finished st' -> s_pc st' = 65535.
Proof.
  induction fuel as [|fuel IH]; intros st tr st' H; cbn [run] in H.
  - destruct (N.eqb_spec (s_pc st) 65535) as [E|]; [inversion H; subst; exact E|].
    destruct ((s_pc st <? s_orig st) || (USER_END <=? s_pc st)); discriminate.
  - destruct (N.eqb_spec (s_pc st) 65535) as [E|]; [inversion H; subst; exact E|].
    destruct ((s_pc st <? s_orig st) || (USER_END <=? s_pc st)); [discriminate|].
    destruct (step feat (decode (M st (s_pc st))) (set_pc st (addw (s_pc st) 1))) eqn:E;
      try discriminate. eapply IH; eassumption.
Qed.
